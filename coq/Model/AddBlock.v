(** Model of the block-adding path of the ledger store (property C39).

    Mirrors, statement by statement where it matters, in /repo/core/store/ledgerstore/ledger_store.go:
      LedgerStoreImp.AddBlock, SubmitBlock, verifyHeader (solo/dbft branch), saveBlock, submitBlock,
      saveBlockToBlockStore, saveBlockToStateStore, saveBlockToEventStore, GetBlockRootWithNewTxRoots,
      GetHeaderByHash, setHeaderIndex (header_Index_cache.go), GetCurrentHeaderHeight/Hash;
    in core/store/ledgerstore/state_store.go: AddStateMerkleTreeRoot, AddBlockMerkleTreeRoot;
    in core/types/block.go: the two content checks of Block.Deserialization (duplicate tx, tx root);
    in core/validation/block_validator.go: VerifyBlock / VerifyHeader;
    in core/signature/signature.go: VerifyMultiSignature (the mask algorithm);
    in core/types/address.go: AddressFromBookkeepers (parameter check only; the address is abstract).

    Abstractions (DESIGN §2):
    - hashes, keys and addresses are interned ids ([N]); [0] is UINT256_EMPTY. The header hash is the
      field [hd_hash] (what Header.Hash() returns for the unsigned fields); fields that only enter
      the hash (Version, ConsensusData, ConsensusPayload) are not represented otherwise.
    - signatures are abstract: [SigOk k m] verifies under key [k] for message [m] only;
      [SigMalformed] is a byte string that signature.Deserialize refuses.
    - merkle roots, the tx root and the bookkeeper address are uninterpreted functions
      ([mroot], [txroot], [bk_addr]); block execution is supplied as its result ([exec_res]).
    - a LevelDB store is a finite map with an open batch; BatchCommit is atomic; I/O failures are
      the oracle [io] (a late failure is an [EIo] error, see [submit_block]).
    - a compact merkle tree is its leaf list; merkle_tree.db is the list of leaves appended so far.
    - not modelled: the vbft branch of verifyHeader, cross-chain messages (ccMsg = nil), block
      pruning (preserveBlockHistoryLength = 0), the [closing] flag, the saving-block semaphore,
      bloom-index sections, event publication, ARC eviction of the block cache; stateHashCheckHeight = 0
      (state roots recorded from genesis on, as the harness configures it).

    Definitions only; proofs are in Proofs/AddBlock.v. *)
From Coq Require Import String List Bool NArith ZArith.
Import ListNotations.
From Ont Require Import Lib.Bytes Gen.AddBlockGen.
Local Open Scope N_scope.
Open Scope bool_scope.

Definition hash := N.
Definition key := N.
Definition addr := N.

Inductive sigv := SigOk (k : key) (m : hash) | SigMalformed.

Record header := mkHeader {
  hd_hash : hash;        (* Header.Hash() *)
  hd_height : N;         (* uint32 *)
  hd_prev : hash;
  hd_time : N;           (* uint32 *)
  hd_txroot : hash;
  hd_blockroot : hash;
  hd_nextbk : addr;
  hd_keys : list key;    (* Bookkeepers *)
  hd_sigs : list sigv    (* SigData *)
}.

Record block := mkBlock { b_hdr : header; b_txs : list hash (* transaction hashes, in order *) }.

(** store.ExecuteResult, as far as submitBlock uses it. *)
Record exec_res := mkExec {
  r_hash : hash;                       (* result.Hash (write-set hash; leaf of the state tree) *)
  r_merkle : hash;                     (* result.MerkleRoot *)
  r_notify : list hash;                (* tx hashes of result.Notify (one per transaction) *)
  r_writes : list (N * option N)       (* result.WriteSet: raw key -> Some value | None (delete) *)
}.

Inductive io_stage := IoNotify | IoCommitBlock | IoCommitEvent | IoCommitState.

Inductive err :=
| EHeight          (* "block height %d not equal next block height %d" *)
| EPrevNotFound    (* "cannot find pre header by blockHash" / "can not find prevHeader" *)
| EPrevHeight      (* "block height is incorrect" *)
| ETimestamp       (* "block timestamp is incorrect" *)
| EBookkeeperParam (* AddressFromBookkeepers: "wrong multi-sig param" *)
| EBookkeeperAddr  (* "bookkeeper address error" *)
| ESigNotEnough    (* "not enough signatures in multi-signature" *)
| ESigData         (* "invalid signature data" *)
| ESigVerify       (* "multi-signature verification failed" *)
| EExec            (* executeBlock returned an error *)
| EStateRoot       (* "state merkle root mismatch" *)
| EBlockRoot       (* "wrong block root at height" *)
| EDupTx           (* Block.Deserialization: "duplicated transaction in block" *)
| ETxRoot          (* Block.Deserialization: "mismatched transaction root" *)
| EIo (s : io_stage) (* an I/O or marshalling failure inside submitBlock *)
| EOther.          (* any other error text of the implementation; never produced by the model *)

(** AddBlock returns nil without adding when the height is not above the current one. *)
Inductive outcome := Added | Ignored | Rejected (e : err).

(** * Stores *)
Inductive dkey :=
| KCurrent | KVersion
| KBlockHash (h : N) | KHeader (h : hash) | KTx (t : hash) | KBloom (h : N)
| KBlockTree | KStateTree | KStateRoot (h : N) | KRaw (k : N)
| KEvByBlock (h : N) | KEvByTx (t : hash).

Inductive dval :=
| VCurrent (h : hash) (ht : N) | VHash (h : hash) | VHeader (hd : header) (txs : list hash) | VTx (ht : N)
| VBloom | VTree (size : N) (leaves : list hash) | VStateRoot (ws root : hash) | VRaw (v : N)
| VTxs (l : list hash) | VNotify.

Definition dkey_eqb (a b : dkey) : bool :=
  match a, b with
  | KCurrent, KCurrent | KVersion, KVersion | KBlockTree, KBlockTree | KStateTree, KStateTree => true
  | KBlockHash x, KBlockHash y | KHeader x, KHeader y | KTx x, KTx y | KBloom x, KBloom y
  | KStateRoot x, KStateRoot y | KRaw x, KRaw y | KEvByBlock x, KEvByBlock y | KEvByTx x, KEvByTx y => x =? y
  | _, _ => false
  end.

Definition db := list (dkey * dval).
Inductive wop := Put (k : dkey) (v : dval) | Del (k : dkey).

Fixpoint db_get (d : db) (k : dkey) : option dval :=
  match d with
  | [] => None
  | (k', v) :: r => if dkey_eqb k' k then Some v else db_get r k
  end.
Definition db_del (d : db) (k : dkey) : db := filter (fun e => negb (dkey_eqb (fst e) k)) d.
Definition db_put (d : db) (k : dkey) (v : dval) : db := (k, v) :: db_del d k.
Definition db_apply1 (d : db) (o : wop) : db :=
  match o with Put k v => db_put d k v | Del k => db_del d k end.
(** BatchCommit: the batch is applied in the order it was filled. *)
Definition db_commit (d : db) (batch : list wop) : db := fold_left db_apply1 batch d.
Definition db_count (d : db) : N := N.of_nat (length d).

(** * Ledger state *)
Record ledger := mkLedger {
  (* LedgerStoreImp, in memory *)
  cur_height : N;                              (* currBlockHeight *)
  cur_hash : hash;                             (* currBlockHash *)
  hdr_cache : list (hash * header);            (* headerCache *)
  hidx : list (N * hash);                      (* headerIndexCache.headerIndex *)
  hidx_first : N;                              (* headerIndexCache.firstIndex *)
  hidx_last : N;                               (* headerIndexCache.lastIndex *)
  (* BlockStore, in memory *)
  blk_cache : list (hash * header);            (* BlockCache.blockCache (membership) *)
  tx_cache : list hash;                        (* BlockCache.transactionCache (membership) *)
  bloom_cache : list N;                        (* bloomCache keys *)
  (* StateStore, in memory *)
  blk_tree : list hash;                        (* merkleTree: leaves = tx roots of blocks 0..h *)
  st_tree : list hash;                         (* deltaMerkleTree: leaves = write-set hashes *)
  (* open LevelDB batches (in memory until BatchCommit) *)
  pend_b : list wop; pend_s : list wop; pend_e : list wop;
  (* persisted *)
  merkle_file : list hash;                     (* merkle_tree.db: leaves appended (eagerly) *)
  bstore : db;                                 (* block *)
  sstore : db;                                 (* states *)
  estore : db                                  (* ledgerevent *)
}.

Definition empty_ledger : ledger :=
  mkLedger 0 0 [] [] 0 0 [] [] [] [] [] [] [] [] [] [] [] [].

Definition u32 : N := 4294967296.
(** nextBlockHeight := currBlockHeight + 1   (uint32) *)
Definition next_height (h : N) : N := (h + 1) mod u32.

Fixpoint assoc {B : Type} (l : list (N * B)) (k : N) : option B :=
  match l with [] => None | (k', v) :: r => if k' =? k then Some v else assoc r k end.

Section Model.
  (** merkle root of a compact tree given as its leaves; ComputeMerkleRoot of tx hashes;
      AddressFromBookkeepers on a well-sized key list; I/O oracle (true = the call succeeds). *)
  Variable mroot : list hash -> hash.
  Variable txroot : list hash -> hash.
  Variable bk_addr : list key -> addr.
  Variable io : io_stage -> bool.

  (** ** Read-only part *)

  (** BlockStore.GetHeader: block cache first, then the database. *)
  Definition block_store_header (st : ledger) (h : hash) : option header :=
    match assoc (blk_cache st) h with
    | Some hd => Some hd
    | None => match db_get (bstore st) (KHeader h) with
              | Some (VHeader hd _) => Some hd
              | _ => None
              end
    end.

  (** GetHeaderByHash: header cache first. *)
  Definition get_header_by_hash (st : ledger) (h : hash) : option header :=
    match assoc (hdr_cache st) h with
    | Some hd => Some hd
    | None => block_store_header st h
    end.

  (** core/signature.verify (the wrapper around the crypto library's Verify) on abstract
      signatures.  The wrapper recovers from a panic inside the library and returns false; in the
      model that case is simply a signature that verifies under no key ([sig_verifies] is total
      and false for everything but the exact (key, message) pair). *)
  Definition sig_verifies (k : key) (msg : hash) (s : sigv) : bool :=
    match s with SigOk k' m' => (k =? k') && (msg =? m') | SigMalformed => false end.

  (** inner loop of VerifyMultiSignature: first unmasked key that verifies *)
  Fixpoint find_unmasked (msg : hash) (s : sigv) (keys : list key) (mask : list bool) : option nat :=
    match keys, mask with
    | k :: ks, b :: bs =>
        if negb b && sig_verifies k msg s then Some O else option_map S (find_unmasked msg s ks bs)
    | _, _ => None
    end.
  Fixpoint set_true (j : nat) (mask : list bool) : list bool :=
    match mask, j with
    | [], _ => []
    | _ :: bs, O => true :: bs
    | b :: bs, S j' => b :: set_true j' bs
    end.
  Fixpoint vm_loop (msg : hash) (keys : list key) (sigs : list sigv) (mask : list bool) : option err :=
    match sigs with
    | [] => None
    | s :: r =>
        match s with
        | SigMalformed => Some ESigData
        | SigOk _ _ =>
            match find_unmasked msg s keys mask with
            | None => Some ESigVerify
            | Some j => vm_loop msg keys r (set_true j mask)
            end
        end
    end.
  (** VerifyMultiSignature(data, keys, m, sigs); [m] is a Go int *)
  Definition verify_multi (msg : hash) (keys : list key) (m : Z) (sigs : list sigv) : option err :=
    if (Z.of_nat (length sigs) <? m)%Z then Some ESigNotEnough
    else vm_loop msg keys (firstn (Z.to_nat m) sigs) (repeat false (length keys)).

  (** AddressFromBookkeepers: one key -> AddressFromPubKey; else AddressFromMultiPubKeys(keys, m)
      which requires 1 <= m <= n, 1 < n <= MULTI_SIG_MAX_PUBKEY_SIZE. *)
  Definition address_from_bookkeepers (keys : list key) : option addr :=
    let n := Z.of_nat (length keys) in
    if (n =? 1)%Z then Some (bk_addr keys)
    else
      let m := c39_addr_m n in
      if ((1 <=? m) && (m <=? n) && (1 <? n) && (n <=? Z.of_N c39_multisig_max))%Z
      then Some (bk_addr keys) else None.

  (** verifyHeader, consensus type other than vbft *)
  Definition verify_header (st : ledger) (hd : header) : option err :=
    if hd_height hd =? 0 then None else
    match get_header_by_hash st (hd_prev hd) with
    | None => Some EPrevNotFound
    | Some prev =>
        if negb (next_height (hd_height prev) =? hd_height hd) then Some EPrevHeight else
        if hd_time hd <=? hd_time prev then Some ETimestamp else
        match address_from_bookkeepers (hd_keys hd) with
        | None => Some EBookkeeperParam
        | Some a =>
            if negb (hd_nextbk prev =? a) then Some EBookkeeperAddr else
            verify_multi (hd_hash hd) (hd_keys hd) (c39_solo_m (Z.of_nat (length (hd_keys hd)))) (hd_sigs hd)
        end
    end.

  (** validation.VerifyHeader(header, prevHeader) *)
  Definition validator_verify_header (hd : header) (prev : option header) : option err :=
    if hd_height hd =? 0 then None else
    match prev with
    | None => Some EPrevNotFound
    | Some prev =>
        if negb (next_height (hd_height prev) =? hd_height hd) then Some EPrevHeight else
        if hd_time hd <=? hd_time prev then Some ETimestamp else
        match address_from_bookkeepers (hd_keys hd) with
        | None => Some EBookkeeperParam
        | Some a => if negb (hd_nextbk prev =? a) then Some EBookkeeperAddr else None
        end
    end.

  (** validation.VerifyBlock(block, ledger, false): signatures first, then the header checks *)
  Definition verify_block (st : ledger) (hd : header) : option err :=
    if hd_height hd =? 0 then None else
    match verify_multi (hd_hash hd) (hd_keys hd) (c39_validator_m (Z.of_nat (length (hd_keys hd)))) (hd_sigs hd) with
    | Some e => Some e
    | None =>
        match get_header_by_hash st (hd_prev hd) with
        | None => Some EPrevNotFound
        | Some prev => validator_verify_header hd (Some prev)
        end
    end.

  (** LedgerStoreImp.GetBlockRootWithNewTxRoots(startHeight, txRoots); uint32 arithmetic *)
  Definition block_root_with_new (st : ledger) (start : N) (roots : list hash) : hash :=
    if (start + N.of_nat (length roots) + u32 - 1) mod u32 <? cur_height st then 0
    else if next_height (cur_height st) <? start then 0 (* log.Fatalf *)
    else mroot (blk_tree st ++ skipn (N.to_nat ((cur_height st + 1 + u32 - start) mod u32)) roots).

  (** GetCurrentHeaderHeight / GetCurrentHeaderHash / GetBlockHash *)
  Definition current_header_height (st : ledger) : N :=
    if hidx_last st =? 0 then cur_height st else hidx_last st.
  Definition current_header_hash (st : ledger) : hash :=
    match assoc (hidx st) (hidx_last st) with
    | Some h => if h =? 0 then cur_hash st else h
    | None => cur_hash st
    end.
  Definition get_block_hash (st : ledger) (h : N) : hash :=
    match assoc (hidx st) h with
    | Some x => if x =? 0 then match db_get (bstore st) (KBlockHash h) with Some (VHash y) => y | _ => 0 end else x
    | None => match db_get (bstore st) (KBlockHash h) with Some (VHash y) => y | _ => 0 end
    end.

  (** The two content checks of Block.Deserialization *)
  Fixpoint has_dup (l : list hash) : bool :=
    match l with [] => false | x :: r => existsb (N.eqb x) r || has_dup r end.
  Definition decode_checks (b : block) : option err :=
    if has_dup (b_txs b) then Some EDupTx
    else if negb (txroot (b_txs b) =? hd_txroot (b_hdr b)) then Some ETxRoot
    else None.

  (** ** Mutating part *)

  (** HeaderIndexCache.setHeaderIndex(curBlockHeight, height, hash): the eviction loop removes
      heights first .. first+d-1 where d = (cur - first + 1) - MAX when that is positive. *)
  Definition set_header_index (st : ledger) (height : N) (h : hash) : ledger :=
    let idx := (height, h) :: filter (fun e => negb (fst e =? height)) (hidx st) in
    let last := if hidx_last st <? height then height else hidx_last st in
    let first := hidx_first st in
    let size := cur_height st - first + 1 in
    let d := if (first <? cur_height st) && (c39_header_index_max <? size) then size - c39_header_index_max else 0 in
    let idx' := filter (fun e => negb ((first <=? fst e) && (fst e <? first + d))) idx in
    mkLedger (cur_height st) (cur_hash st) (hdr_cache st) idx' (first + d) last
             (blk_cache st) (tx_cache st) (bloom_cache st) (blk_tree st) (st_tree st)
             (pend_b st) (pend_s st) (pend_e st) (merkle_file st) (bstore st) (sstore st) (estore st).

  Definition with_pend (st : ledger) (pb ps pe : list wop) : ledger :=
    mkLedger (cur_height st) (cur_hash st) (hdr_cache st) (hidx st) (hidx_first st) (hidx_last st)
             (blk_cache st) (tx_cache st) (bloom_cache st) (blk_tree st) (st_tree st)
             pb ps pe (merkle_file st) (bstore st) (sstore st) (estore st).

  (** saveBlockToBlockStore *)
  Definition save_block_to_block_store (st : ledger) (b : block) : ledger :=
    let hd := b_hdr b in
    let h := hd_hash hd in
    let ht := hd_height hd in
    let st1 := set_header_index st ht h in
    let ops := [Put KCurrent (VCurrent h ht); Put (KBlockHash ht) (VHash h); Put (KHeader h) (VHeader hd (b_txs b))]
               ++ map (fun t => Put (KTx t) (VTx ht)) (b_txs b)
               ++ [Put (KBloom ht) VBloom] in
    mkLedger (cur_height st1) (cur_hash st1) (hdr_cache st1) (hidx st1) (hidx_first st1) (hidx_last st1)
             ((h, hd) :: blk_cache st1) (b_txs b ++ tx_cache st1) (ht :: bloom_cache st1)
             (blk_tree st1) (st_tree st1)
             (pend_b st1 ++ ops) (pend_s st1) (pend_e st1) (merkle_file st1) (bstore st1) (sstore st1) (estore st1).

  (** saveBlockToStateStore: SaveNotify per transaction (may fail: json.Marshal), then
      AddStateMerkleTreeRoot (state tree append, in memory), AddBlockMerkleTreeRoot (block tree
      append in memory AND eager append to merkle_tree.db), SaveCurrentBlock, the write set. *)
  Definition save_block_to_state_store (st : ledger) (b : block) (r : exec_res) : ledger * option err :=
    let hd := b_hdr b in
    let ev := map (fun t => Put (KEvByTx t) VNotify) (r_notify r) in
    if negb (io IoNotify) then
      (* the failing SaveNotify is reached after the earlier ones filled the event batch; modelled
         as: none of this block's notifications is in the batch *)
      (st, Some (EIo IoNotify))
    else
      let stt := st_tree st ++ [r_hash r] in
      let btt := blk_tree st ++ [hd_txroot hd] in
      let ops := [Put KStateTree (VTree (N.of_nat (length stt)) stt);
                  Put (KStateRoot (hd_height hd)) (VStateRoot (r_hash r) (r_merkle r));
                  Put KBlockTree (VTree (N.of_nat (length btt)) btt);
                  Put KCurrent (VCurrent (hd_hash hd) (hd_height hd))]
                 ++ map (fun w => match snd w with Some v => Put (KRaw (fst w)) (VRaw v) | None => Del (KRaw (fst w)) end)
                        (r_writes r) in
      (mkLedger (cur_height st) (cur_hash st) (hdr_cache st) (hidx st) (hidx_first st) (hidx_last st)
                (blk_cache st) (tx_cache st) (bloom_cache st) btt stt
                (pend_b st) (pend_s st ++ ops) (pend_e st ++ ev)
                (merkle_file st ++ [hd_txroot hd]) (bstore st) (sstore st) (estore st), None).

  (** saveBlockToEventStore *)
  Definition save_block_to_event_store (st : ledger) (b : block) : ledger :=
    let hd := b_hdr b in
    let ops := (match b_txs b with [] => [] | _ => [Put (KEvByBlock (hd_height hd)) (VTxs (b_txs b))] end)
               ++ [Put KCurrent (VCurrent (hd_hash hd) (hd_height hd))] in
    with_pend st (pend_b st) (pend_s st) (pend_e st ++ ops).

  Definition commit_b (st : ledger) : ledger :=
    mkLedger (cur_height st) (cur_hash st) (hdr_cache st) (hidx st) (hidx_first st) (hidx_last st)
             (blk_cache st) (tx_cache st) (bloom_cache st) (blk_tree st) (st_tree st)
             [] (pend_s st) (pend_e st) (merkle_file st) (db_commit (bstore st) (pend_b st)) (sstore st) (estore st).
  Definition commit_e (st : ledger) : ledger :=
    mkLedger (cur_height st) (cur_hash st) (hdr_cache st) (hidx st) (hidx_first st) (hidx_last st)
             (blk_cache st) (tx_cache st) (bloom_cache st) (blk_tree st) (st_tree st)
             (pend_b st) (pend_s st) [] (merkle_file st) (bstore st) (sstore st) (db_commit (estore st) (pend_e st)).
  Definition commit_s (st : ledger) : ledger :=
    mkLedger (cur_height st) (cur_hash st) (hdr_cache st) (hidx st) (hidx_first st) (hidx_last st)
             (blk_cache st) (tx_cache st) (bloom_cache st) (blk_tree st) (st_tree st)
             (pend_b st) [] (pend_e st) (merkle_file st) (bstore st) (db_commit (sstore st) (pend_s st)) (estore st).
  Definition set_current_block (st : ledger) (ht : N) (h : hash) : ledger :=
    mkLedger ht h (hdr_cache st) (hidx st) (hidx_first st) (hidx_last st)
             (blk_cache st) (tx_cache st) (bloom_cache st) (blk_tree st) (st_tree st)
             (pend_b st) (pend_s st) (pend_e st) (merkle_file st) (bstore st) (sstore st) (estore st).
  Definition del_header_cache (st : ledger) (h : hash) : ledger :=
    mkLedger (cur_height st) (cur_hash st) (filter (fun e => negb (fst e =? h)) (hdr_cache st))
             (hidx st) (hidx_first st) (hidx_last st)
             (blk_cache st) (tx_cache st) (bloom_cache st) (blk_tree st) (st_tree st)
             (pend_b st) (pend_s st) (pend_e st) (merkle_file st) (bstore st) (sstore st) (estore st).

  (** submitBlock.  The block-root comparison is the LAST validity check; everything after it
      that can fail is I/O ([EIo]).  Order of effects after the check, as in the source:
      three NewBatch; saveBlockToBlockStore (header index + block cache now, block batch);
      saveBlockToStateStore (SaveNotify..., both trees + merkle file now, state batch);
      saveBlockToEventStore; blockStore.CommitTo; eventStore.CommitTo; stateStore.CommitTo;
      setCurrentBlock. *)
  Definition submit_block (st : ledger) (b : block) (r : exec_res) : ledger * outcome :=
    let hd := b_hdr b in
    let root := block_root_with_new st (hd_height hd) [hd_txroot hd] in
    if negb (hd_height hd =? 0) && negb (root =? hd_blockroot hd) then (st, Rejected EBlockRoot) else
    let st1 := with_pend st [] [] [] in
    let st2 := save_block_to_block_store st1 b in
    match save_block_to_state_store st2 b r with
    | (st3, Some e) => (st3, Rejected e)
    | (st3, None) =>
        let st4 := save_block_to_event_store st3 b in
        if negb (io IoCommitBlock) then (st4, Rejected (EIo IoCommitBlock)) else
        let st5 := commit_b st4 in
        if negb (io IoCommitEvent) then (st5, Rejected (EIo IoCommitEvent)) else
        let st6 := commit_e st5 in
        if negb (io IoCommitState) then (st6, Rejected (EIo IoCommitState)) else
        let st7 := commit_s st6 in
        (set_current_block st7 (hd_height hd) (hd_hash hd), Added)
    end.

  (** saveBlock(block, nil, stateMerkleRoot); [ex] is what executeBlock returns on the current
      state for this block ([None]: it returned an error). *)
  Definition save_block (st : ledger) (b : block) (sroot : hash) (ex : option exec_res) : ledger * outcome :=
    let ht := hd_height (b_hdr b) in
    if (0 <? ht) && (ht <=? cur_height st) then (st, Ignored) else
    if (0 <? ht) && negb (ht =? next_height (cur_height st)) then (st, Ignored) else
    match ex with
    | None => (st, Rejected EExec)
    | Some r =>
        (* "empty block does not check stateMerkleRoot" *)
        if negb (match b_txs b with [] => true | _ => false end) && negb (r_merkle r =? sroot)
        then (st, Rejected EStateRoot)
        else submit_block st b r
    end.

  (** LedgerStoreImp.AddBlock(block, nil, stateMerkleRoot) *)
  Definition add_block (st : ledger) (b : block) (sroot : hash) (ex : option exec_res) : ledger * outcome :=
    let hd := b_hdr b in
    if hd_height hd <=? cur_height st then (st, Ignored) else
    if negb (hd_height hd =? next_height (cur_height st)) then (st, Rejected EHeight) else
    match verify_header st hd with
    | Some e => (st, Rejected e)
    | None =>
        match save_block st b sroot ex with
        | (st', Added) => (del_header_cache st' (hd_hash hd), Added)
        | (st', o) => (st', o)
        end
    end.

  (** LedgerStoreImp.SubmitBlock(block, nil, result): the consensus path (own execution result) *)
  Definition submit_block_entry (st : ledger) (b : block) (r : exec_res) : ledger * outcome :=
    let hd := b_hdr b in
    if hd_height hd <=? cur_height st then (st, Ignored) else
    if negb (hd_height hd =? next_height (cur_height st)) then (st, Rejected EHeight) else
    match verify_header st hd with
    | Some e => (st, Rejected e)
    | None =>
        match submit_block st b r with
        | (st', Added) => (del_header_cache st' (hd_hash hd), Added)
        | (st', o) => (st', o)
        end
    end.

  (** A block as it arrives from the network: Block.Deserialization, then AddBlock. *)
  Definition receive_block (st : ledger) (b : block) (sroot : hash) (ex : option exec_res) : ledger * outcome :=
    match decode_checks b with
    | Some e => (st, Rejected e)
    | None => add_block st b sroot ex
    end.

  (** ** Header-first sync: AddHeader / AddHeaders *)
  Definition set_hdr_cache (st : ledger) (c : list (hash * header)) : ledger :=
    mkLedger (cur_height st) (cur_hash st) c (hidx st) (hidx_first st) (hidx_last st)
             (blk_cache st) (tx_cache st) (bloom_cache st) (blk_tree st) (st_tree st)
             (pend_b st) (pend_s st) (pend_e st) (merkle_file st) (bstore st) (sstore st) (estore st).
  (** addHeaderCache: this.headerCache[header.Hash()] = header *)
  Definition add_header_cache (st : ledger) (hd : header) : ledger :=
    set_hdr_cache st ((hd_hash hd, hd) :: filter (fun e => negb (fst e =? hd_hash hd)) (hdr_cache st)).

  (** LedgerStoreImp.AddHeader: height = current header height + 1, verifyHeader (the same
      function AddBlock runs again later), then header cache and header index. *)
  Definition add_header (st : ledger) (hd : header) : ledger * option err :=
    if negb (hd_height hd =? next_height (current_header_height st)) then (st, Some EHeight) else
    match verify_header st hd with
    | Some e => (st, Some e)
    | None => (set_header_index (add_header_cache st hd) (hd_height hd) (hd_hash hd), None)
    end.

  (** AddHeaders on a list already sorted by height (the code sorts first): stops at the first
      error; the headers before it stay added. *)
  Fixpoint add_headers (st : ledger) (l : list header) : ledger * option err :=
    match l with
    | [] => (st, None)
    | hd :: r => match add_header st hd with
                 | (st', None) => add_headers st' r
                 | (st', Some e) => (st', Some e)
                 end
    end.

  (** InitLedgerStoreWithGenesisBlock on an empty store: executeBlock + submitBlock, then
      SaveVersion (a direct Put on the block store). *)
  Definition init_genesis (g : block) (r : exec_res) : ledger * outcome :=
    match submit_block empty_ledger g r with
    | (st, Added) =>
        (mkLedger (cur_height st) (cur_hash st) (hdr_cache st) (hidx st) (hidx_first st) (hidx_last st)
                  (blk_cache st) (tx_cache st) (bloom_cache st) (blk_tree st) (st_tree st)
                  (pend_b st) (pend_s st) (pend_e st) (merkle_file st)
                  (db_put (bstore st) KVersion VBloom) (sstore st) (estore st), Added)
    | x => x
    end.
End Model.

(** Shape of the mirrored functions, as extracted from the source by the translator
    (Gen/AddBlockGen.v): calls on the receiver, if-conditions and returns in source order.
    [Props/C39.v] checks that the current source still has exactly this shape, so a re-ordering
    of a check and a mutation, or an edited condition, breaks the build of the property file. *)
Local Open Scope string_scope.
(* core/store/ledgerstore/ledger_store.go, func AddBlock *)
Definition model_trace_AddBlock : list string :=
 ["call:GetCurrentBlockHeight";
  "if:blockHeight <= currBlockHeight";
  "return:nil";
  "if:blockHeight != nextBlockHeight";
  "return:error";
  "call:verifyHeader";
  "if:err != nil";
  "return:error";
  "if:ccMsg != nil";
  "if:ccMsg.Height != currBlockHeight";
  "return:error";
  "if:ccMsg.Version != types.CURR_CROSS_STATES_VERSION";
  "return:error";
  "call:stateStore.GetCrossStatesRoot";
  "if:err != nil";
  "return:error";
  "if:root != ccMsg.StatesRoot";
  "return:error";
  "if:err := this.verifyCrossChainMsg(ccMsg, block.Header.Bookkeepers); err != nil";
  "call:verifyCrossChainMsg";
  "return:error";
  "call:saveBlock";
  "if:err != nil";
  "return:error";
  "call:delHeaderCache";
  "return:nil"].

(* core/store/ledgerstore/ledger_store.go, func SubmitBlock *)
Definition model_trace_SubmitBlock : list string :=
 ["call:getSavingBlockLock";
  "defer";
  "call:releaseSavingBlockLock";
  "if:this.closing";
  "return:error";
  "call:GetCurrentBlockHeight";
  "if:blockHeight <= currBlockHeight";
  "return:nil";
  "if:blockHeight != nextBlockHeight";
  "return:error";
  "call:verifyHeader";
  "if:err != nil";
  "return:error";
  "if:ccMsg != nil";
  "if:ccMsg.Height != currBlockHeight";
  "return:error";
  "if:ccMsg.Version != types.CURR_CROSS_STATES_VERSION";
  "return:error";
  "call:stateStore.GetCrossStatesRoot";
  "if:err != nil";
  "return:error";
  "if:root != ccMsg.StatesRoot";
  "return:error";
  "if:err := this.verifyCrossChainMsg(ccMsg, block.Header.Bookkeepers); err != nil";
  "call:verifyCrossChainMsg";
  "return:error";
  "call:submitBlock";
  "if:err != nil";
  "return:error";
  "call:delHeaderCache";
  "return:nil"].

(* core/store/ledgerstore/ledger_store.go, func AddHeader *)
Definition model_trace_AddHeader : list string :=
 ["call:GetCurrentHeaderHeight";
  "if:header.Height != nextHeaderHeight";
  "return:error";
  "call:verifyHeader";
  "if:err != nil";
  "return:error";
  "call:addHeaderCache";
  "call:setHeaderIndex";
  "return:nil"].

(* core/store/ledgerstore/ledger_store.go, func AddHeaders *)
Definition model_trace_AddHeaders : list string :=
 ["range:headers";
  "call:AddHeader";
  "if:err != nil";
  "return:err";
  "return:nil"].

(* core/store/ledgerstore/ledger_store.go, func saveBlock *)
Definition model_trace_saveBlock : list string :=
 ["if:blockHeight > 0 && blockHeight <= this.GetCurrentBlockHeight()";
  "call:GetCurrentBlockHeight";
  "return:nil";
  "call:getSavingBlockLock";
  "defer";
  "call:releaseSavingBlockLock";
  "if:this.closing";
  "return:error";
  "if:blockHeight > 0 && blockHeight != (this.GetCurrentBlockHeight()+1)";
  "call:GetCurrentBlockHeight";
  "return:nil";
  "call:executeBlock";
  "if:err != nil";
  "return:err";
  "if:len(block.Transactions) != 0 && result.MerkleRoot != stateMerkleRoot";
  "return:error";
  "return:this.submitBlock(block, ccMsg, result)";
  "call:submitBlock"].

(* core/store/ledgerstore/ledger_store.go, func submitBlock *)
Definition model_trace_submitBlock : list string :=
 ["call:GetBlockRootWithNewTxRoots";
  "if:block.Header.Height != 0 && blockRoot != block.Header.BlockRoot";
  "return:error";
  "call:blockStore.NewBatch";
  "call:stateStore.NewBatch";
  "call:eventStore.NewBatch";
  "call:saveBlockToBlockStore";
  "if:err != nil";
  "return:error";
  "call:tryPruneBlock";
  "call:crossChainStore.SaveMsgToCrossChainStore";
  "if:err != nil";
  "return:error";
  "call:saveBlockToStateStore";
  "if:err != nil";
  "return:error";
  "call:saveBlockToEventStore";
  "call:blockStore.CommitTo";
  "if:err != nil";
  "return:error";
  "call:eventStore.CommitTo";
  "if:err != nil";
  "return:error";
  "call:stateStore.CommitTo";
  "if:err != nil";
  "return:error";
  "call:setCurrentBlock";
  "if:events.DefActorPublisher != nil";
  "return:nil"].

(* core/store/ledgerstore/ledger_store.go, func saveBlockToBlockStore *)
Definition model_trace_saveBlockToBlockStore : list string :=
 ["call:setHeaderIndex";
  "call:blockStore.SaveCurrentBlock";
  "if:err != nil";
  "return:error";
  "call:blockStore.SaveBlockHash";
  "call:blockStore.SaveBlock";
  "if:err != nil";
  "return:error";
  "call:blockStore.SaveBloomData";
  "return:nil"].

(* core/store/ledgerstore/ledger_store.go, func saveBlockToStateStore *)
Definition model_trace_saveBlockToStateStore : list string :=
 ["range:result.Notify";
  "if:err := SaveNotify(this.eventStore, notify.TxHash, notify, block); err != nil";
  "call:SaveNotify";
  "return:err";
  "call:stateStore.AddStateMerkleTreeRoot";
  "if:err != nil";
  "return:error";
  "call:stateStore.AddBlockMerkleTreeRoot";
  "if:err != nil";
  "return:error";
  "call:stateStore.SaveCurrentBlock";
  "if:err != nil";
  "return:error";
  "call:stateStore.SaveCrossStates";
  "if:err != nil";
  "return:error";
  "return:nil"].

(* core/store/ledgerstore/ledger_store.go, func saveBlockToEventStore *)
Definition model_trace_saveBlockToEventStore : list string :=
 ["range:block.Transactions";
  "if:len(txs) > 0";
  "call:eventStore.SaveEventNotifyByBlock";
  "call:eventStore.SaveCurrentBlock"].

(* core/store/ledgerstore/ledger_store.go, func verifyHeader *)
Definition model_trace_verifyHeader : list string :=
 ["if:header.Height == 0";
  "return:nil";
  "call:GetHeaderByHash";
  "if:err != nil && err != scom.ErrNotFound";
  "return:error";
  "if:prevHeader == nil";
  "return:error";
  "if:prevHeader.Height+1 != header.Height";
  "return:error";
  "if:prevHeader.Timestamp >= header.Timestamp";
  "return:error";
  "if:consensusType == ""vbft""";
  "skipped-branch";
  "call:types.AddressFromBookkeepers";
  "if:err != nil";
  "return:err";
  "if:prevHeader.NextBookkeeper != address";
  "return:error";
  "call:signature.VerifyMultiSignature";
  "if:err != nil";
  "return:err";
  "return:nil"].

(* core/validation/block_validator.go, func VerifyBlock *)
Definition model_trace_VerifyBlock : list string :=
 ["if:header.Height == 0";
  "return:nil";
  "call:signature.VerifyMultiSignature";
  "if:err != nil";
  "return:err";
  "call:ld.GetHeaderByHash";
  "if:err != nil";
  "return:error";
  "call:VerifyHeader";
  "if:err != nil";
  "return:err";
  "if:completely";
  "skipped-branch";
  "return:nil"].

(* core/validation/block_validator.go, func VerifyHeader *)
Definition model_trace_VerifyHeader : list string :=
 ["if:header.Height == 0";
  "return:nil";
  "if:prevHeader == nil";
  "return:error";
  "if:prevHeader.Height+1 != header.Height";
  "return:error";
  "if:prevHeader.Timestamp >= header.Timestamp";
  "return:error";
  "call:types.AddressFromBookkeepers";
  "if:err != nil";
  "return:err";
  "if:prevHeader.NextBookkeeper != address";
  "return:error";
  "return:nil"].

(* core/signature/signature.go, func VerifyMultiSignature *)
Definition model_trace_VerifyMultiSignature : list string :=
 ["if:len(sigs) < m";
  "return:error";
  "for:i < m";
  "call:s.Deserialize";
  "if:err != nil";
  "return:error";
  "for:j < n";
  "if:mask[j]";
  "branch:continue";
  "if:verify(keys[j], data, sig)";
  "call:verify";
  "branch:break";
  "if:!valid";
  "return:error";
  "return:nil"].

(* core/signature/signature.go, func verify *)
Definition model_trace_sigVerifyWrapper : list string :=
 ["defer:func";
  "defer:assign:r := recover()";
  "defer:recover";
  "defer:assign:ok = false";
  "return:s.Verify(pubKey, data, sig)";
  "call:s.Verify"].

(* core/types/block.go, func Deserialization *)
Definition model_trace_BlockDeserialization : list string :=
 ["if:self.Header == nil";
  "call:Header.Deserialization";
  "if:err != nil";
  "return:err";
  "if:eof";
  "return:io.ErrUnexpectedEOF";
  "for:i < length";
  "call:transaction.Deserialization";
  "if:err != nil";
  "return:err";
  "if:mask[txhash]";
  "return:error";
  "call:common.ComputeMerkleRoot";
  "if:self.Header.TransactionsRoot != root";
  "return:error";
  "call:Hash";
  "return:nil"].

(* core/store/ledgerstore/state_store.go, func AddStateMerkleTreeRoot *)
Definition model_trace_AddStateMerkleTreeRoot : list string :=
 ["if:blockHeight < self.stateHashCheckHeight";
  "return:nil";
  "if:blockHeight == self.stateHashCheckHeight";
  "call:genStateMerkleTreeKey";
  "call:deltaMerkleTree.AppendHash";
  "call:deltaMerkleTree.TreeSize";
  "call:deltaMerkleTree.Hashes";
  "range:hashes";
  "call:store.BatchPut";
  "call:genStateMerkleRootKey";
  "call:deltaMerkleTree.Root";
  "call:store.BatchPut";
  "return:nil"].

(* core/store/ledgerstore/state_store.go, func AddBlockMerkleTreeRoot *)
Definition model_trace_AddBlockMerkleTreeRoot : list string :=
 ["call:genBlockMerkleTreeKey";
  "call:merkleTree.AppendHash";
  "call:merkleTree.TreeSize";
  "call:merkleTree.Hashes";
  "range:hashes";
  "call:store.BatchPut";
  "return:nil"].

