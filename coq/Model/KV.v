(** Model of the layered contract storage of ontio/ontology (definitions only; proofs are in
    Proofs/KV.v). Self-contained: Coq standard library + Lib.Bytes.

    Mirrors
      core/store/overlaydb/memdb.go        MemDB (skip list) and its live iterator dbIter
      core/store/overlaydb/iterator.go     JoinIter (field by field)
      core/store/overlaydb/overlaydb.go    OverlayDB
      core/store/leveldbstore              LevelDBStore (a sorted map; snapshot iterator of goleveldb)
      smartcontract/storage/cachedb.go     CacheDB (Get/Put/Delete/Commit/Reset/NewIterator, Iter.Key)
      goleveldb util.BytesPrefix           prefix -> [start, limit)

    Conventions. Keys and values are byte strings ([bytes = list N]); Go's nil and empty slice are
    both [[]]. The order on keys is bytes.Compare = [bytes_cmp] (comparer.DefaultComparer). A MemDB
    is its level-0 list: an association list with strictly ascending keys in which an empty value is
    a tombstone (MemDB.Delete = Put(key, nil)); skip-list heights, the append-only kvData buffer and
    the size counters are abstracted away (nodes are never unlinked, so the level-0 list is exactly
    the sorted list of all keys ever written since the last Reset). I/O errors of LevelDB
    (iter.Error(), dbErr) are not modelled: the in-memory store used by the harness has none. *)
From Coq Require Import List Bool NArith.
Import ListNotations.
From Ont Require Import Lib.Bytes.
Local Open Scope N_scope.
Open Scope bool_scope.

(** * Keys, order *)

(** bytes.Compare *)
Fixpoint bytes_cmp (a b : bytes) : comparison :=
  match a, b with
  | [], [] => Eq
  | [], _ :: _ => Lt
  | _ :: _, [] => Gt
  | x :: a', y :: b' => match N.compare x y with Eq => bytes_cmp a' b' | c => c end
  end.

Definition bytes_ltb (a b : bytes) : bool := match bytes_cmp a b with Lt => true | _ => false end.
Definition bytes_leb (a b : bytes) : bool := match bytes_cmp a b with Gt => false | _ => true end.
Definition key_eqb (a b : bytes) : bool := match bytes_cmp a b with Eq => true | _ => false end.

(** len(v) == 0 *)
Definition is_empty (v : bytes) : bool := match v with [] => true | _ => false end.

Fixpoint has_prefix (p k : bytes) : bool :=
  match p, k with
  | [], _ => true
  | _ :: _, [] => false
  | x :: p', y :: k' => (x =? y) && has_prefix p' k'
  end.

Definition kv := (bytes * bytes)%type.

(** * util.BytesPrefix: the key range [start, limit) of a prefix; [None] = no upper limit *)
Fixpoint prefix_limit (p : bytes) : option bytes :=
  match p with
  | [] => None
  | c :: r => match prefix_limit r with
              | Some l => Some (c :: l)
              | None => if c <? 255 then Some [c + 1] else None
              end
  end.

Record range := mkRange { r_start : bytes; r_limit : option bytes }.
Definition bytes_prefix (p : bytes) : range := mkRange p (prefix_limit p).

Definition below_limit (lim : option bytes) (k : bytes) : bool :=
  match lim with Some l => bytes_ltb k l | None => true end.
Definition in_range (r : range) (k : bytes) : bool := bytes_leb (r_start r) k && below_limit (r_limit r) k.

(** * MemDB *)
Definition memdb := list kv.

(** Put: findGE; exact -> overwrite the node's value (length 0 = tombstone); else link a new node. *)
Fixpoint mem_put (k v : bytes) (m : memdb) : memdb :=
  match m with
  | [] => [(k, v)]
  | (k', v') :: r =>
      match bytes_cmp k k' with
      | Lt => (k, v) :: m
      | Eq => (k', v) :: r
      | Gt => (k', v') :: mem_put k v r
      end
  end.

Definition mem_delete (k : bytes) (m : memdb) : memdb := mem_put k [] m.

(** Get: (value, unknown). A deleted key gives (nil, false); an absent key (nil, true). *)
Fixpoint mem_get (k : bytes) (m : memdb) : bytes * bool :=
  match m with
  | [] => ([], true)
  | (k', v') :: r =>
      match bytes_cmp k k' with
      | Lt => ([], true)
      | Eq => (v', false)
      | Gt => mem_get k r
      end
  end.

Definition mem_reset (m : memdb) : memdb := [].

(** findGE(key): first node whose key is >= key. *)
Fixpoint mem_find_ge (k : bytes) (m : memdb) : option kv :=
  match m with
  | [] => None
  | (k', v') :: r => if bytes_leb k k' then Some (k', v') else mem_find_ge k r
  end.

(** nodeData[node+nNext] of the node holding key [k], read now: the first node with key > k. *)
Fixpoint mem_succ (k : bytes) (m : memdb) : option kv :=
  match m with
  | [] => None
  | (k', v') :: r => if bytes_ltb k k' then Some (k', v') else mem_succ k r
  end.

(** * LevelDB store: sorted association list; batch of puts and deletes applied in order *)
Definition store := list kv.

Fixpoint store_delete (k : bytes) (s : store) : store :=
  match s with
  | [] => []
  | (k', v') :: r =>
      match bytes_cmp k k' with
      | Lt => s
      | Eq => r
      | Gt => (k', v') :: store_delete k r
      end
  end.

Definition store_put (k v : bytes) (s : store) : store := mem_put k v s.

(** LevelDBStore.Get: (value, found) *)
Definition store_get (k : bytes) (s : store) : bytes * bool :=
  let '(v, unknown) := mem_get k s in (v, negb unknown).

(** * The three layers *)
Inductive layer := LCache | LOverlay.

Record state := mkState { st_cache : memdb; st_overlay : memdb; st_store : store }.

Definition env_of (s : state) (l : layer) : memdb :=
  match l with LCache => st_cache s | LOverlay => st_overlay s end.

(** OverlayDB.Get: memdb first; only an unknown key falls through to the store (ErrNotFound -> nil). *)
Definition overlay_get (s : state) (k : bytes) : bytes :=
  let '(v, unknown) := mem_get k (st_overlay s) in
  if unknown then
    let '(v', found) := store_get k (st_store s) in if found then v' else []
  else v.

Definition overlay_put (k v : bytes) (s : state) : state :=
  mkState (st_cache s) (mem_put k v (st_overlay s)) (st_store s).
Definition overlay_delete (k : bytes) (s : state) : state :=
  mkState (st_cache s) (mem_delete k (st_overlay s)) (st_store s).
Definition overlay_reset (s : state) : state := mkState (st_cache s) (mem_reset (st_overlay s)) (st_store s).

(** OverlayDB.CommitTo (memdb.ForEach: empty value -> BatchDelete, else BatchPut) followed by
    LevelDBStore.BatchCommit, taken as one atomic step. The overlay's memdb is left as it is. *)
Definition commit_to (m : memdb) (st : store) : store :=
  fold_left (fun acc (e : kv) => if is_empty (snd e) then store_delete (fst e) acc else store_put (fst e) (snd e) acc) m st.
Definition overlay_commit (s : state) : state :=
  mkState (st_cache s) (st_overlay s) (commit_to (st_overlay s) (st_store s)).

(** makePrefixedKey *)
Definition pkey (pfx : N) (k : bytes) : bytes := pfx :: k.

(** CacheDB.get / put / delete with a DataEntryPrefix byte (ST_STORAGE for Get/Put/Delete). *)
Definition cache_get (pfx : N) (s : state) (k : bytes) : bytes :=
  let '(v, unknown) := mem_get (pkey pfx k) (st_cache s) in
  if unknown then overlay_get s (pkey pfx k) else v.
Definition cache_put (pfx : N) (k v : bytes) (s : state) : state :=
  mkState (mem_put (pkey pfx k) v (st_cache s)) (st_overlay s) (st_store s).
Definition cache_delete (pfx : N) (k : bytes) (s : state) : state :=
  mkState (mem_delete (pkey pfx k) (st_cache s)) (st_overlay s) (st_store s).
Definition cache_reset (s : state) : state := mkState (mem_reset (st_cache s)) (st_overlay s) (st_store s).

(** CacheDB.Commit: ForEach over the cache memdb (empty value -> backend.Delete, else backend.Put),
    then memdb.Reset. *)
Definition replay_into (m : memdb) (ov : memdb) : memdb :=
  fold_left (fun acc (e : kv) => if is_empty (snd e) then mem_delete (fst e) acc else mem_put (fst e) (snd e) acc) m ov.
Definition cache_commit (s : state) : state :=
  mkState (mem_reset (st_cache s)) (replay_into (st_cache s) (st_overlay s)) (st_store s).

(** * Iterators (common.StoreIterator: First / Next / Key / Value) *)

Inductive origin := FromMem | FromBack | FromBoth.
Inductive sdir := SOI | EOI | SFwd.            (* goleveldb dbIter.dir, forward part *)
Inductive ires := RTrue | RFalse | RFuel.      (* RFuel: the model ran out of fuel (never the code) *)

(** [IMem]: memdb.dbIter over the *current* contents of a layer's memdb (read through [env] at every
    call: the iterator is live). [node = Some k]: sits on the node with key [k]; [None]: node 0.
    [k], [v] are the key/value slices captured by the last fill.
    [IStore]: goleveldb's iterator over the snapshot taken at creation, already cut to the range:
    [cur] is the remaining entries with the current one at the head.
    [IJoin]: overlaydb.JoinIter. *)
Inductive iter :=
| IMem (l : layer) (rg : range) (node : option bytes) (forward : bool) (k v : bytes)
| IStore (all cur : list kv) (dir : sdir)
| IJoin (backend memdb : iter) (key value : bytes) (keyOrigin : origin) (nextMemEnd nextBackEnd : bool).

Definition it_key (it : iter) : bytes :=
  match it with
  | IMem _ _ _ _ k _ => k
  | IStore _ cur dir => match dir, cur with SFwd, (k, _) :: _ => k | _, _ => [] end
  | IJoin _ _ k _ _ _ _ => k
  end.

Definition it_value (it : iter) : bytes :=
  match it with
  | IMem _ _ _ _ _ v => v
  | IStore _ cur dir => match dir, cur with SFwd, (_, v) :: _ => v | _, _ => [] end
  | IJoin _ _ _ v _ _ _ => v
  end.

(** dbIter.fill(checkStart=false, checkLimit=true) on the candidate node. *)
Definition mem_fill (l : layer) (rg : range) (cand : option kv) : iter * ires :=
  match cand with
  | Some (k, v) =>
      if below_limit (r_limit rg) k then (IMem l rg (Some k) true k v, RTrue)
      else (IMem l rg None true [] [], RFalse)
  | None => (IMem l rg None true [] [], RFalse)
  end.

(** dbIter.First: findGE(slice.Start) (or the first node when Start is nil, which is the same node). *)
Definition mem_first (m : memdb) (l : layer) (rg : range) : iter * ires :=
  mem_fill l rg (mem_find_ge (r_start rg) m).

Definition mem_next (m : memdb) (l : layer) (rg : range) (node : option bytes) (forward : bool) (k v : bytes) : iter * ires :=
  match node with
  | None => if forward then (IMem l rg None forward k v, RFalse) else mem_first m l rg
  | Some nk => mem_fill l rg (mem_succ nk m)
  end.

Definition store_first (all : list kv) : iter * ires :=
  match all with
  | [] => (IStore all [] EOI, RFalse)
  | _ => (IStore all all SFwd, RTrue)
  end.

Definition store_next (all cur : list kv) (dir : sdir) : iter * ires :=
  match dir with
  | EOI => (IStore all cur EOI, RFalse)
  | SOI => store_first all
  | SFwd => match tl cur with
            | [] => (IStore all [] EOI, RFalse)
            | c' => (IStore all c' SFwd, RTrue)
            end
  end.

Definition origin_mem (o : origin) : bool := match o with FromMem | FromBoth => true | FromBack => false end.
Definition origin_back (o : origin) : bool := match o with FromBack | FromBoth => true | FromMem => false end.

(** Second half of JoinIter.next(): choose the current entry from the two sides. An exhausted side
    whose end flag is not yet set shows an empty key and value (Key()/Value() of an invalid
    iterator return nil). *)
Definition join_select (back1 mem1 : iter) (o : origin) (me1 be1 : bool) : iter * ires :=
  if be1 then
    if me1 then (IJoin back1 mem1 [] [] o me1 be1, RFalse)
    else (IJoin back1 mem1 (it_key mem1) (it_value mem1) FromMem me1 be1, RTrue)
  else
    if me1 then (IJoin back1 mem1 (it_key back1) (it_value back1) FromBack me1 be1, RTrue)
    else
      let bkey := it_key back1 in
      let mkey := it_key mem1 in
      match bytes_cmp mkey bkey with
      | Lt => (IJoin back1 mem1 mkey (it_value mem1) FromMem me1 be1, RTrue)
      | Eq => (IJoin back1 mem1 mkey (it_value mem1) FromBoth me1 be1, RTrue)
      | Gt => (IJoin back1 mem1 bkey (it_value back1) FromBack me1 be1, RTrue)
      end.

Definition ended (r : ires) : bool := match r with RTrue => false | _ => true end.

(** JoinIter.next(), with [nx] = Next of the sub-iterators: advance the side(s) the current key came
    from (unless already ended: nextMemEnd = !memdb.Next()), then select. *)
Definition join_next_raw (nx : iter -> iter * ires) (back mem : iter) (k v : bytes) (o : origin) (me be : bool)
  : iter * ires :=
  let '(mem1, rm) := if origin_mem o && negb me then nx mem else (mem, RTrue) in
  let me1 := if origin_mem o && negb me then ended rm else me in
  let '(back1, rb) := if origin_back o && negb be then nx back else (back, RTrue) in
  let be1 := if origin_back o && negb be then ended rb else be in
  match rm, rb with
  | RFuel, _ | _, RFuel => (IJoin back1 mem1 k v o me1 be1, RFuel)
  | _, _ => join_select back1 mem1 o me1 be1
  end.

Definition it_next_raw (nx : iter -> iter * ires) (it : iter) : iter * ires :=
  match it with
  | IJoin back mem k v o me be => join_next_raw nx back mem k v o me be
  | _ => (it, RFuel)
  end.

(** The loop of JoinIter.First / JoinIter.Next: for len(iter.value) == 0 { if !iter.next() return false }. *)
Fixpoint join_skip (nx : iter -> iter * ires) (n : nat) (it : iter) : iter * ires :=
  if negb (is_empty (it_value it)) then (it, RTrue) else
  match n with
  | O => (it, RFuel)
  | S n' => let '(it1, r) := it_next_raw nx it in
            match r with RTrue => join_skip nx n' it1 | _ => (it1, r) end
  end.

(** Next of any iterator. One unit of fuel per nesting level plus one per skipped entry. *)
Fixpoint it_next (env : layer -> memdb) (fuel : nat) (it : iter) {struct fuel} : iter * ires :=
  match fuel with
  | O => (it, RFuel)
  | S f =>
    match it with
    | IMem l rg node fw k v => mem_next (env l) l rg node fw k v
    | IStore all cur dir => store_next all cur dir
    | IJoin back mem k v o me be =>
        let '(it1, r) := join_next_raw (it_next env f) back mem k v o me be in
        match r with RTrue => join_skip (it_next env f) f it1 | _ => (it1, r) end
    end
  end.

(** JoinIter.first(), given the results of backend.First() and memdb.First(). *)
Definition join_first_raw (back1 mem1 : iter) (bk mm : bool) (k v : bytes) (o : origin) (me be : bool) : iter * ires :=
  if bk then
    let bkey := it_key back1 in
    let bval := it_value back1 in
    if negb mm then (IJoin back1 mem1 bkey bval FromBack me be, RTrue)
    else
      let mkey := it_key mem1 in
      let mval := it_value mem1 in
      match bytes_cmp mkey bkey with
      | Lt => (IJoin back1 mem1 mkey mval FromMem me be, RTrue)
      | Eq => (IJoin back1 mem1 mkey mval FromBoth me be, RTrue)
      | Gt => (IJoin back1 mem1 bkey bval FromBack me be, RTrue)
      end
  else if mm then (IJoin back1 mem1 (it_key mem1) (it_value mem1) FromMem me be, RTrue)
  else (IJoin back1 mem1 k v o me be, RFalse).

Fixpoint it_first (env : layer -> memdb) (fuel : nat) (it : iter) {struct fuel} : iter * ires :=
  match fuel with
  | O => (it, RFuel)
  | S f =>
    match it with
    | IMem l rg _ _ _ _ => mem_first (env l) l rg
    | IStore all _ _ => store_first all
    | IJoin back mem k v o me be =>
        let '(back1, rb) := it_first env f back in
        let '(mem1, rm) := it_first env f mem in
        match rb, rm with
        | RFuel, _ | _, RFuel => (IJoin back1 mem1 k v o me be, RFuel)
        | _, _ =>
          let '(it1, r) := join_first_raw back1 mem1 (match rb with RTrue => true | _ => false end)
                                          (match rm with RTrue => true | _ => false end) k v o me be in
          match r with RTrue => join_skip (it_next env f) f it1 | _ => (it1, r) end
        end
    end
  end.

(** Constructors. *)
Definition new_mem_iter (l : layer) (rg : range) : iter := IMem l rg None false [] [].
Definition new_store_iter (st : store) (prefix : bytes) : iter :=
  IStore (filter (fun e => in_range (bytes_prefix prefix) (fst e)) st) [] SOI.
Definition new_join_iter (mem back : iter) : iter := IJoin back mem [] [] FromMem false false.

(** OverlayDB.NewIterator(key) *)
Definition overlay_new_iterator (s : state) (key : bytes) : iter :=
  new_join_iter (new_mem_iter LOverlay (bytes_prefix key)) (new_store_iter (st_store s) key).

(** CacheDB.NewIterator(key): prefix ST_STORAGE|key on both levels. *)
Definition cache_new_iterator (pfx : N) (s : state) (key : bytes) : iter :=
  new_join_iter (new_mem_iter LCache (bytes_prefix (pkey pfx key))) (overlay_new_iterator s (pkey pfx key)).

(** storage.Iter.Key(): strip the prefix byte of a non-empty key. *)
Definition cache_iter_key (it : iter) : bytes := tl (it_key it).

(** [drain]: has := First/Next result so far; collects (Key, Value) and calls Next until false.
    Second component: false when fuel (or the step bound [n]) ran out. *)
Fixpoint drain (env : layer -> memdb) (fuel n : nat) (it : iter) (r : ires) : list kv * bool :=
  match r with
  | RFalse => ([], true)
  | RFuel => ([], false)
  | RTrue =>
      match n with
      | O => ([], false)
      | S n' => let '(it1, r1) := it_next env fuel it in
                let '(out, ok) := drain env fuel n' it1 r1 in
                ((it_key it, it_value it) :: out, ok)
      end
  end.

Definition iterate (env : layer -> memdb) (fuel : nat) (it : iter) : list kv * bool :=
  let '(it1, r) := it_first env fuel it in drain env fuel fuel it1 r.

Definition state_size (s : state) : nat := (length (st_cache s) + length (st_overlay s) + length (st_store s))%nat.
(** Fuel that always suffices for one call on a CacheDB / OverlayDB iterator of state [s]
    (proved in Proofs/KV.v). *)
Definition enough_fuel (s : state) : nat := (2 * state_size s + 10)%nat.

Definition strip_keys (l : list kv) : list kv := map (fun e => (tl (fst e), snd e)) l.

Definition overlay_iterate (s : state) (prefix : bytes) : list kv * bool :=
  iterate (env_of s) (enough_fuel s) (overlay_new_iterator s prefix).
Definition cache_iterate (pfx : N) (s : state) (prefix : bytes) : list kv * bool :=
  let '(l, ok) := iterate (env_of s) (enough_fuel s) (cache_new_iterator pfx s prefix) in (strip_keys l, ok).

(** * Iteration interleaved with writes (CleanContractStorageData / MigrateContractStorage pattern):
    First, then before every further Next a batch of CacheDB puts/deletes. *)
Inductive wr := WPut (k v : bytes) | WDel (k : bytes).
Definition apply_wr (pfx : N) (s : state) (w : wr) : state :=
  match w with WPut k v => cache_put pfx k v s | WDel k => cache_delete pfx k s end.
Definition apply_wrs (pfx : N) (s : state) (ws : list wr) : state := fold_left (apply_wr pfx) ws s.

Fixpoint live_drain (pfx : N) (s : state) (fuel : nat) (it : iter) (r : ires) (steps : list (list wr))
  : list kv * bool * state :=
  match r with
  | RFalse => ([], true, s)
  | RFuel => ([], false, s)
  | RTrue =>
      match steps with
      | [] => ([(cache_iter_key it, it_value it)], true, s)      (* caller stops here (Release) *)
      | ws :: steps' =>
          let s1 := apply_wrs pfx s ws in
          let fuel1 := (fuel + 2 * length ws)%nat in
          let '(it1, r1) := it_next (env_of s1) fuel1 it in
          let '(out, ok, s2) := live_drain pfx s1 fuel1 it1 r1 steps' in
          ((cache_iter_key it, it_value it) :: out, ok, s2)
      end
  end.

Definition cache_live_iterate (pfx : N) (s : state) (prefix : bytes) (steps : list (list wr)) : list kv * bool * state :=
  let '(it1, r) := it_first (env_of s) (enough_fuel s) (cache_new_iterator pfx s prefix) in
  live_drain pfx s (enough_fuel s) it1 r steps.

(** * Specification side: one ordered map *)

(** entries with a non-empty value *)
Definition live (l : list kv) : list kv := filter (fun e => negb (is_empty (snd e))) l.

(** ordered union of two key-sorted lists; on equal keys the first list wins *)
Fixpoint merge (m b : list kv) : list kv :=
  match m with
  | [] => b
  | (km, vm) :: m' =>
      (fix aux (b : list kv) : list kv :=
         match b with
         | [] => m
         | (kb, vb) :: b' =>
             match bytes_cmp km kb with
             | Lt => (km, vm) :: merge m' b
             | Eq => (km, vm) :: merge m' b'
             | Gt => (kb, vb) :: aux b'
             end
         end) b
  end.

(** a tombstone map applied over a base map *)
Definition apply_layer (m : memdb) (base : list kv) : list kv := live (merge m base).

(** the block-level view and the transaction-level view, as sorted lists of live entries *)
Definition abs_block (s : state) : list kv := apply_layer (st_overlay s) (live (st_store s)).
Definition abs (s : state) : list kv := apply_layer (st_cache s) (abs_block s).

(** lookup in a key-sorted list, [[]] when absent *)
Fixpoint kv_lookup (k : bytes) (l : list kv) : bytes :=
  match l with
  | [] => []
  | (k', v') :: r => if key_eqb k k' then v' else kv_lookup k r
  end.

Definition kv_remove (k : bytes) (l : list kv) : list kv := filter (fun e => negb (key_eqb k (fst e))) l.

(** map update: an empty value removes the key *)
Definition spec_put (k v : bytes) (l : list kv) : list kv :=
  if is_empty v then kv_remove k l else mem_put k v l.

Definition with_prefix (p : bytes) (l : list kv) : list kv := filter (fun e => has_prefix p (fst e)) l.

(** well-formed layers: strictly ascending keys *)
Fixpoint sortedb (l : list kv) : bool :=
  match l with
  | [] => true
  | (k, _) :: r => match r with [] => true | (k', _) :: _ => bytes_ltb k k' end && sortedb r
  end.
Definition keys_nonempty (l : list kv) : bool := forallb (fun e => negb (is_empty (fst e))) l.
Definition wf_state (s : state) : bool :=
  sortedb (st_cache s) && sortedb (st_overlay s) && sortedb (st_store s).

(** * Histories: the implementation model against a single ordered map *)

Inductive hop :=
| HPut (k v : bytes)        (* CacheDB.Put *)
| HDel (k : bytes)          (* CacheDB.Delete *)
| HGet (k : bytes)          (* CacheDB.Get *)
| HIter (p : bytes)         (* CacheDB.NewIterator(p); First; Next ... until false *)
| HCommit                   (* CacheDB.Commit *)
| HReset                    (* CacheDB.Reset *)
| HOvGet (k : bytes)        (* OverlayDB.Get *)
| HOvIter (p : bytes)       (* OverlayDB.NewIterator(p); First; Next ... *)
| HOvCommit.                (* OverlayDB.CommitTo + BatchCommit *)

Inductive obs := ObsVal (v : bytes) | ObsList (l : list kv) (complete : bool).

Definition impl_step (pfx : N) (s : state) (o : hop) : state * list obs :=
  match o with
  | HPut k v => (cache_put pfx k v s, [])
  | HDel k => (cache_delete pfx k s, [])
  | HGet k => (s, [ObsVal (cache_get pfx s k)])
  | HIter p => let '(l, ok) := cache_iterate pfx s p in (s, [ObsList l ok])
  | HCommit => (cache_commit s, [])
  | HReset => (cache_reset s, [])
  | HOvGet k => (s, [ObsVal (overlay_get s k)])
  | HOvIter p => let '(l, ok) := overlay_iterate s p in (s, [ObsList l ok])
  | HOvCommit => (overlay_commit s, [])
  end.

Fixpoint impl_run (pfx : N) (s : state) (ops : list hop) : state * list obs :=
  match ops with
  | [] => (s, [])
  | o :: r => let '(s1, o1) := impl_step pfx s o in
              let '(s2, o2) := impl_run pfx s1 r in (s2, o1 ++ o2)
  end.

(** The specification: three plain ordered maps (sorted lists without tombstones): what is
    persisted, what the block sees, what the transaction sees. *)
Record spec := mkSpec { sp_store : list kv; sp_block : list kv; sp_cur : list kv }.

Definition spec_step (pfx : N) (sp : spec) (o : hop) : spec * list obs :=
  match o with
  | HPut k v => (mkSpec (sp_store sp) (sp_block sp) (spec_put (pkey pfx k) v (sp_cur sp)), [])
  | HDel k => (mkSpec (sp_store sp) (sp_block sp) (kv_remove (pkey pfx k) (sp_cur sp)), [])
  | HGet k => (sp, [ObsVal (kv_lookup (pkey pfx k) (sp_cur sp))])
  | HIter p => (sp, [ObsList (strip_keys (with_prefix (pkey pfx p) (sp_cur sp))) true])
  | HCommit => (mkSpec (sp_store sp) (sp_cur sp) (sp_cur sp), [])
  | HReset => (mkSpec (sp_store sp) (sp_block sp) (sp_block sp), [])
  | HOvGet k => (sp, [ObsVal (kv_lookup k (sp_block sp))])
  | HOvIter p => (sp, [ObsList (with_prefix p (sp_block sp)) true])
  | HOvCommit => (mkSpec (sp_block sp) (sp_block sp) (sp_cur sp), [])
  end.

Fixpoint spec_run (pfx : N) (sp : spec) (ops : list hop) : spec * list obs :=
  match ops with
  | [] => (sp, [])
  | o :: r => let '(s1, o1) := spec_step pfx sp o in
              let '(s2, o2) := spec_run pfx s1 r in (s2, o1 ++ o2)
  end.

Definition abs_spec (s : state) : spec := mkSpec (live (st_store s)) (abs_block s) (abs s).

(** keys written through the API are byte strings *)
Definition hop_ok (pfx : N) (o : hop) : bool :=
  match o with
  | HPut k _ | HDel k => byte_ok pfx && wf_bytes k
  | _ => true
  end.

Definition key_ok (k : bytes) : bool := wf_bytes k && negb (is_empty k).
Definition keys_okb (l : list kv) : bool := forallb (fun e => key_ok (fst e)) l.
(** a well-formed stack: sorted layers whose keys are non-empty byte strings *)
Definition good_state (s : state) : bool :=
  wf_state s && keys_okb (st_cache s) && keys_okb (st_overlay s) && keys_okb (st_store s).
