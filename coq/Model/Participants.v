(** Executable mirror of VBFT participant selection:
    consensus/vbft/node_utils.go  calcParticipant, calcParticipantPeers
    consensus/vbft/utils.go       getParticipantSelectionSeed (hash and encoder abstract)

    Peer indices (Go uint32) are [N]; the Go [int] quantities (c, lengths, thresholds) are [Z] and go
    through the formulas translated from the source on every run (Gen/ParticipantFormulas.v):
    [sel_cap], [sel_exit_n], [fill_enter], [fill_break], [n_committer], [n1_formula] and, for
    calcParticipant, [cp_bidx cp_bits1 cp_bits2 cp_klimit cp_vcomb cp_vmod]. uint32 arithmetic is
    reduced [mod 2^32] explicitly. Definitions only; proofs are in Proofs/C29.v. *)
From Coq Require Import List Bool NArith ZArith.
Import ListNotations.
From Ont Require Import Gen.ParticipantFormulas.

Definition MaxUint32 : N := 4294967295%N.
Definition two32 : Z := 4294967296%Z.

(** What calcParticipantPeers reads of a vconfig.ChainConfig: N, C, the peers' Index fields in the
    order of [chain.Peers], and PosTable. *)
Record chain_cfg := mkCfg {
  cfgN : N;
  cfgC : N;
  cfgPeers : list N;
  cfgPos : list N
}.

(** A Go runtime panic. [PanicDivZero]: [v % uint32(len(dposTable))] with a table whose length is
    0 modulo 2^32. [PanicSlice]: fewer than c+1 peers were collected; then one of
    [peers[0:c+1]], [peers[c+1:c+1+n1]], [peers[c+1+n1:]] is out of range whatever the capacity of
    [peers] is (if the first two pass because of spare capacity, n1 = (L-(c+1))/2 truncates to
    -((c+1-L)/2) and c+1+n1 > L = len(peers), so the third fails). *)
Inductive panic := PanicDivZero | PanicSlice.

(* ---------- calcParticipant ---------- *)

Inductive cp_res := CpPeer (id : N) | CpPanic.

Definition byte_at (vrf : list N) (i : Z) : Z := Z.of_N (nth (Z.to_nat i) vrf 0%N).

Local Open Scope Z_scope.

(** [vrf] is the 64-byte VRFValue; [k] the uint32 position number. *)
Definition calc_participant (vrf : list N) (table : list N) (k : N) : cp_res :=
  let kz := Z.of_N k in
  let bIdx := cp_bidx kz in
  let bits1 := cp_bits1 kz in
  let bits2 := cp_bits2 bits1 in
  if kz >=? cp_klimit then CpPeer MaxUint32 else
  let v1 := Z.shiftr (byte_at vrf bIdx) bits1 in
  let v2 := if ((bIdx + 1) mod two32) <? (Z.of_nat (length vrf) mod two32)
            then byte_at vrf (bIdx + 1) else byte_at vrf 0 in
  let v2 := Z.land v2 ((Z.shiftl 1 bits2 - 1) mod two32) in
  let v := (cp_vcomb v2 bits1 v1) mod two32 in
  let tlen := Z.of_nat (length table) in
  if (tlen mod two32) =? 0 then CpPanic else
  let v := cp_vmod v tlen in
  CpPeer (nth (Z.to_nat v) table 0%N).

(* ---------- calcParticipantPeers ---------- *)

Definition mem (x : N) (l : list N) : bool := existsb (N.eqb x) l.

(** Go keeps [peers] (a slice) and [peerMap] (the set of its elements) side by side; both grow
    together, so [len(peerMap)] is [length peers] here. *)

(** Step 1: [for i := 0; i < len(chain.PosTable); i++]; [remaining] = len(PosTable) - i. *)
Fixpoint select_loop (vrf table : list N) (c : Z) (n : N) (remaining : nat) (i : nat) (peers : list N)
  : option (list N) :=
  match remaining with
  | O => Some peers
  | S remaining' =>
      match calc_participant vrf table (N.of_nat i mod 4294967296)%N with
      | CpPanic => None
      | CpPeer id =>
          if (id =? MaxUint32)%N then Some peers
          else if mem id peers then select_loop vrf table c n remaining' (S i) peers
          else
            let peers' := peers ++ [id] in
            let l := Z.of_nat (length peers') in
            if (l >? sel_cap c) || (l =? sel_exit_n (Z.of_N n)) then Some peers'
            else select_loop vrf table c n remaining' (S i) peers'
      end
  end.

(** Step 2 body: [for _, peer := range chain.Peers]. *)
Fixpoint fill_loop (c : Z) (ps : list N) (peers : list N) : list N :=
  match ps with
  | [] => peers
  | p :: rest =>
      let peers' := if mem p peers then peers else peers ++ [p] in
      if Z.of_nat (length peers') >? fill_break c then peers' else fill_loop c rest peers'
  end.

Definition fill (c : Z) (ps : list N) (peers : list N) : list N :=
  if Z.of_nat (length peers) <=? fill_enter c then fill_loop c ps peers else peers.

(** [for … && len(acc) < nC] appending the elements of [src] in order. *)
Fixpoint top_up (nC : Z) (acc src : list N) : list N :=
  match src with
  | [] => acc
  | x :: r => if Z.of_nat (length acc) <? nC then top_up nC (acc ++ [x]) r else acc
  end.

Inductive sel_res :=
| SelOk (proposers endorsers committers : list N)
| SelPanic (p : panic).

(** Step 3: cut [peers] into proposers | endorsers0 | committers and top the last two up. *)
Definition assemble (c : Z) (peers : list N) : sel_res :=
  let L := Z.of_nat (length peers) in
  if L <? c + 1 then SelPanic PanicSlice else
  let cn := Z.to_nat c in
  let nCommitter := n_committer c in
  let proposers := firstn (S cn) peers in                         (* peers[0 : c+1] *)
  let n1 := n1_formula L (Z.of_nat (length proposers)) in
  let n1n := Z.to_nat n1 in
  let endorsers0 := firstn n1n (skipn (S cn) peers) in            (* peers[c+1 : c+1+n1] *)
  let committers0 := skipn (S cn + n1n) peers in                  (* peers[c+1+n1:] *)
  let endorsers :=
    if Z.of_nat (length endorsers0) <? nCommitter then
      let e1 := endorsers0 ++ [nth cn proposers 0%N] in           (* propsers[c] *)
      let e2 := top_up nCommitter e1 (rev committers0) in         (* i = len(committers)-1 .. 0 *)
      top_up nCommitter e2 (rev (firstn (cn - 1) (skipn 1 proposers)))  (* i = c-1 .. 1 *)
    else endorsers0 in
  let committers :=
    if Z.of_nat (length committers0) <? nCommitter then
      let c1 := top_up nCommitter committers0 (skipn 1 proposers) in    (* i = 1 .. len(propsers)-1 *)
      top_up nCommitter c1 (rev endorsers0)                             (* i = len(endorsers0)-1 .. 0 *)
    else committers0 in
  SelOk proposers endorsers committers.

Definition collect_peers (vrf : list N) (cfg : chain_cfg) : option (list N) :=
  let c := Z.of_N (cfgC cfg) in
  match select_loop vrf (cfgPos cfg) c (cfgN cfg) (length (cfgPos cfg)) 0 [] with
  | None => None
  | Some peers => Some (fill c (cfgPeers cfg) peers)
  end.

Definition calc_participant_peers (vrf : list N) (cfg : chain_cfg) : sel_res :=
  match collect_peers vrf cfg with
  | None => SelPanic PanicDivZero
  | Some peers => assemble (Z.of_N (cfgC cfg)) peers
  end.

(* ---------- getParticipantSelectionSeed ---------- *)

(** seed = H (H (enc (blockNum+1, proposer, vrfValue))) with H = SHA-512 and enc = encoding/json of
    seedData; both are parameters here (their values are never computed in Coq). *)
Definition selection_seed {B : Type} (H : list N -> list N) (enc : B -> list N) (prev_block : B) : list N :=
  H (H (enc prev_block)).

Definition round_participants {B : Type} (H : list N -> list N) (enc : B -> list N)
  (prev_block : B) (cfg : chain_cfg) : sel_res :=
  calc_participant_peers (selection_seed H enc prev_block) cfg.
