(** Model of the per-block write set and state-change hash of ontio/ontology (definitions only;
    proofs are in Proofs/WriteSet.v). Self-contained: Coq standard library, Lib.Bytes and the
    generated Gen/WriteSetGen.v.

    Mirrors
      core/store/overlaydb/memdb.go      MemDB.Put / Delete / ForEach (and findGE's search order)
      core/store/overlaydb/overlaydb.go  OverlayDB.Put / Delete / GetWriteSet / ChangeHash

    Abstraction. A MemDB is its level-0 linked list: the list of (key, value) pairs in the order
    ForEach walks them. The skip-list towers (randHeight, prevNode, maxHeight), the append-only
    kvData buffer with its offsets and the counters n / kvSize are abstracted away: Put never
    unlinks a node, so level 0 holds every key written since NewMemDB/Reset exactly once.
    Keys are compared with comparer.DefaultComparer = bytes.Compare = [ws_cmp].
    Go's nil and empty slice are both [[]]: ForEach hands the callback kvData[m : m+0] for a
    deleted key, i.e. a zero-length value; there is no separate deletion flag in this package
    (OverlayDB.CommitTo turns len(val)==0 into a BatchDelete).
    The backing store of the OverlayDB is not part of the model: Put/Delete/ChangeHash/GetWriteSet
    never read it. *)
From Coq Require Import List Bool NArith.
Import ListNotations.
From Ont Require Import Lib.Bytes.
From Ont Require Export Gen.WriteSetGen.
Local Open Scope N_scope.
Open Scope bool_scope.

(** * Keys *)

(** bytes.Compare *)
Fixpoint ws_cmp (a b : bytes) : comparison :=
  match a, b with
  | [], [] => Eq
  | [], _ :: _ => Lt
  | _ :: _, [] => Gt
  | x :: a', y :: b' => match N.compare x y with Eq => ws_cmp a' b' | c => c end
  end.

Definition kv := (bytes * bytes)%type.

(** The level-0 list of a MemDB. *)
Definition wset := list kv.

(** * MemDB *)

(** MemDB.Put.  findGE(key, true) walks past every node whose key compares < key; on an exact match
    the node keeps its place and only its value (offset/length) is replaced -- with a non-empty value
    the key bytes are re-appended to kvData (same bytes), with an empty value the old offset is kept
    and the value length set to 0; otherwise a new node is linked in front of the first greater node. *)
Fixpoint memdb_put (k v : bytes) (m : wset) : wset :=
  match m with
  | [] => [(k, v)]
  | (k', v') :: r =>
      match ws_cmp k' k with
      | Lt => (k', v') :: memdb_put k v r
      | Eq => (k', v) :: r
      | Gt => (k, v) :: (k', v') :: r
      end
  end.

(** MemDB.Delete: p.Put(key, nil) *)
Definition memdb_delete (k : bytes) (m : wset) : wset := memdb_put k delete_value m.

(** MemDB.ForEach: the callback sees (key, val) of every level-0 node in list order. *)
Definition memdb_foreach (m : wset) : list kv := m.

(** NewMemDB / Reset *)
Definition memdb_empty : wset := [].

(** * OverlayDB (the part that writes) *)

Record overlay := mkOverlay { ov_memdb : wset }.

Definition ov_new : overlay := mkOverlay memdb_empty.
Definition ov_put (k v : bytes) (o : overlay) : overlay := mkOverlay (memdb_put k v (ov_memdb o)).
Definition ov_delete (k : bytes) (o : overlay) : overlay := mkOverlay (memdb_delete k (ov_memdb o)).

(** GetWriteSet().ForEach *)
Definition ov_write_set (o : overlay) : list kv := memdb_foreach (ov_memdb o).

(** ChangeHash.  hash.Hash is modelled as the buffer of everything written so far; Sum applies the
    hash function to it.  The closure writes the fields named by [change_hash_writes] (generated
    from the source: key then value, raw bytes, no lengths, no count). *)
Definition hfield_bytes (e : kv) (f : hfield) : bytes :=
  match f with HKey => fst e | HVal => snd e end.

Definition hash_write (buf b : bytes) : bytes := buf ++ b.

Definition change_hash_entry (buf : bytes) (e : kv) : bytes :=
  fold_left (fun buf f => hash_write buf (hfield_bytes e f)) change_hash_writes buf.

Definition change_preimage (m : wset) : bytes :=
  fold_left change_hash_entry (memdb_foreach m) [].

Definition ov_change_hash (H : bytes -> bytes) (o : overlay) : bytes :=
  H (change_preimage (ov_memdb o)).

(** * Histories *)

Inductive op := OPut (k v : bytes) | ODelete (k : bytes).

Definition ov_apply (o : overlay) (x : op) : overlay :=
  match x with
  | OPut k v => ov_put k v o
  | ODelete k => ov_delete k o
  end.

Definition ov_run_from (o : overlay) (ops : list op) : overlay := fold_left ov_apply ops o.
Definition ov_run (ops : list op) : overlay := ov_run_from ov_new ops.

(** * Specification side: the last-write map of a history *)

Definition op_key (x : op) : bytes := match x with OPut k _ => k | ODelete k => k end.
(** what a history records for the key: the value put, or empty for a deletion *)
Definition op_val (x : op) : bytes := match x with OPut _ v => v | ODelete _ => [] end.

(** [last_write ops k]: the value recorded by the last operation of [ops] on key [k];
    [None] when the history never touches [k]. *)
Fixpoint last_write (ops : list op) (k : bytes) : option bytes :=
  match ops with
  | [] => None
  | x :: r =>
      match last_write r k with
      | Some v => Some v
      | None => if bytes_eqb (op_key x) k then Some (op_val x) else None
      end
  end.

Fixpoint key_mem (k : bytes) (l : list bytes) : bool :=
  match l with [] => false | x :: r => bytes_eqb x k || key_mem k r end.

(** the touched keys, each once (order irrelevant for what follows) *)
Fixpoint touched (ops : list op) : list bytes :=
  match ops with
  | [] => []
  | x :: r => let t := touched r in if key_mem (op_key x) t then t else op_key x :: t
  end.

Definition final_value (ops : list op) (k : bytes) : bytes :=
  match last_write ops k with Some v => v | None => [] end.

(** the last-write map as an (unordered) association list *)
Definition last_write_assoc (ops : list op) : list kv :=
  map (fun k => (k, final_value ops k)) (touched ops).

(** insertion sort by key (keys are distinct in its uses) *)
Fixpoint insert_by_key (e : kv) (l : list kv) : list kv :=
  match l with
  | [] => [e]
  | e' :: r => match ws_cmp (fst e') (fst e) with
               | Lt => e' :: insert_by_key e r
               | _ => e :: e' :: r
               end
  end.
Definition sort_by_key (l : list kv) : list kv := fold_right insert_by_key [] l.

(** decidable form of "same last-write map" *)
Definition opt_bytes_eqb (a b : option bytes) : bool :=
  match a, b with
  | Some x, Some y => bytes_eqb x y
  | None, None => true
  | _, _ => false
  end.

Definition same_last_write (a b : list op) : bool :=
  forallb (fun k => opt_bytes_eqb (last_write a k) (last_write b k)) (map op_key a ++ map op_key b).
