(** Model of the P2P wire format: p2pserver/message/types (ReadMessage / WriteMessage, every
    payload Deserialization / Serialization), p2pserver/common (PeerId, PeerKeyId, Checksum).
    Executable definitions only; proofs are in Proofs/P2PMsg*.v. Constants and the dispatch table
    of makeEmptyMessage come from Gen/P2PConsts.v (printed from the linked package on every run).

    Conventions
    - every decoder mirrors the Go function statement by statement on the ZeroCopySource model of
      Model/Codec.v; [dres] makes the error branches explicit;
    - Go integer conversions are written out ([int_of_uint32], [int_of_uint64]); loops take the
      converted bound as a [Z]; the loop fuel ([loop_fuel], from the unread bytes) is a proof
      device whose exhaustion is the distinct error [ErrFuel];
    - re-slicing [x = x[:n]] is [slice_to], which answers [ErrOutOfRange] where Go would panic
      (capacity is modelled by the length, the conservative choice);
    - [lenient] values are ghost output: they record that the decoder took a branch on which it
      accepts bytes it will not reproduce (clamped counts, ignored irregular/eof flags,
      non-canonical public keys). They do not influence any result;
    - things outside this development (SHA-256, public-key parsing, signature verification, the
      clock, and the header / transaction / block / cross-chain-message codecs of core/types) are
      fields of [ext]; theorems quantify over them, the correspondence instantiates them. *)
From Coq Require Import String.
From Coq Require Import List Bool Arith NArith ZArith.
Import ListNotations.
From Ont Require Import Lib.Bytes Gen.CodecConsts Gen.P2PConsts Model.Codec.
Local Open Scope N_scope.
Open Scope bool_scope.

(** * Results *)
Inductive derr :=
| ErrEOF            (* io.ErrUnexpectedEOF *)
| ErrIrregular      (* common.ErrIrregularData *)
| ErrKey            (* keypair.DeserializePublicKey / vconfig.Pubkey failed *)
| ErrKadKey         (* "invalid kad public key" *)
| ErrSig            (* signature.Verify failed *)
| ErrExpired        (* "subnet members request message expired" *)
| ErrTooMany        (* "too many node keys" *)
| ErrVoteIdx        (* "vote index out of range" *)
| ErrEmb            (* embedded header / transaction / block / cross-chain message rejected *)
| ErrOutOfRange     (* a slice expression would panic *)
| ErrFuel.          (* loop fuel exhausted: proof device, shown impossible *)

Inductive dres (A : Type) := DOk (a : A) | DErr (e : derr).
Arguments DOk {A} a.
Arguments DErr {A} e.

Inductive lenient :=
| LAddrClamp      (* Addr: count > MAX_ADDR_NODE_CNT, entries beyond it dropped *)
| LInvClamp       (* Inv: count > MAX_INV_BLK_CNT, hashes beyond it dropped *)
| LVersionStr     (* Version: SoftVersion missing/irregular, replaced by "" *)
| LFindBool       (* FindNodeResp: irregular bool accepted *)
| LFindStr        (* FindNodeResp: irregular string length accepted *)
| LBlockRoot      (* Block: missing merkle root replaced by zeros *)
| LBlockCC        (* Block: missing / irregular cross-chain flag accepted *)
| LPubKey.        (* a public key whose serialization differs from the bytes received *)

(** * Go integer conversions (64-bit platform) *)
Definition int_of_uint64 (v : N) : Z := to_signed 8 (v mod two64).   (* int(x), x uint64: wraps *)
Definition int_of_uint32 (v : N) : Z := to_signed 8 (v mod two32).   (* int(x), x uint32: exact *)
Definition int_of_uint8 (v : N) : Z := to_signed 8 (v mod 256).
Definition uint32_of_len (n : nat) : N := N.of_nat n mod two32.      (* uint32(len(x)) *)
Definition uint64_of_len (n : nat) : N := N.of_nat n mod two64.      (* uint64(len(x)) *)

(** x[:n] for a slice of length = capacity [length l]. *)
Definition slice_to {A : Type} (l : list A) (n : N) : dres (list A) :=
  if n <=? N.of_nat (length l) then DOk (firstn (N.to_nat n) l) else DErr ErrOutOfRange.

(** copy(dst[:], src) into a zeroed array of [n] bytes. *)
Definition copy_into (n : nat) (src : bytes) : bytes := firstn n (src ++ repeat 0 n).

(** * Loops: [for i := 0; i < n; i++ { x, err := rd(source); if err != nil { return err }; acc = append(acc, x) }] *)
Fixpoint read_loop {A : Type} (fuel : nat) (rd : source -> dres (A * source)) (n : Z) (s : source)
         (acc : list A) : dres (list A * source) :=
  if (n <=? 0)%Z then DOk (rev acc, s) else
  match fuel with
  | O => DErr ErrFuel
  | S f => match rd s with
           | DErr e => DErr e
           | DOk (a, s') => read_loop f rd (n - 1)%Z s' (a :: acc)
           end
  end.
Definition loop_fuel (s : source) : nat := S (length (buf s) - off s).

(** * Strings: Go string <-> []byte conversions are the identity on bytes *)
Definition write_string := write_varbytes.
Definition read_string := read_varbytes.
Definition rerr_to_derr (e : rerr) : derr := match e with Codec.EIrregular => ErrIrregular | Codec.EEof => ErrEOF end.

(** * PeerId (p2pserver/common/id.go) *)
Definition pseudo_peer_id (v : N) : bytes := le_encode 8 v ++ repeat 0 (ADDR_LEN - 8).
Definition is_pseudo_peer_id (id : bytes) : bool := forallb (N.eqb 0) (skipn 8 id).
Definition be_decode (b : bytes) : N := le_decode (rev b).
(** ToUint64: the nonce for pseudo ids, else the big-endian value modulo MaxUint64 (= 2^64-1). *)
Definition peer_id_to_uint64 (id : bytes) : N :=
  if is_pseudo_peer_id id then le_decode (firstn 8 id) else be_decode id mod (two64 - 1).

Definition dec_peer_id (s : source) : dres (bytes * source) :=
  let '(v, eof, s1) := next_address s in
  if eof then DErr ErrEOF else DOk (v, s1).

(** * Addr *)
Record peer_addr := mkPA {
  pa_time : Z; pa_services : N; pa_ip : bytes; pa_port : N; pa_cport : N; pa_id : bytes }.

Definition dec_peer_addr (s : source) : dres (peer_addr * source) :=
  let '(t, eof, s1) := next_uint64 s in if eof then DErr ErrEOF else
  let '(sv, eof, s2) := next_uint64 s1 in if eof then DErr ErrEOF else
  let '(ip, _, s3) := next_bytes s2 (uint64_of_len IPADDR_LEN) in        (* buf, _ := ... eof ignored *)
  let '(p, eof, s4) := next_uint16 s3 in if eof then DErr ErrEOF else
  let '(cp, eof, s5) := next_uint16 s4 in if eof then DErr ErrEOF else
  let '(id, eof, s6) := next_uint64 s5 in if eof then DErr ErrEOF else
  DOk (mkPA (to_signed UINT64_SIZE t) sv (copy_into IPADDR_LEN ip) p cp (pseudo_peer_id id), s6).

Definition enc_peer_addr (a : peer_addr) : bytes :=
  write_uint64 (of_signed UINT64_SIZE (pa_time a)) ++ write_uint64 (pa_services a) ++ pa_ip a ++
  write_uint16 (pa_port a) ++ write_uint16 (pa_cport a) ++ write_uint64 (peer_id_to_uint64 (pa_id a)).

(** * Version *)
Record version_payload := mkVer {
  v_version : N; v_services : N; v_timestamp : Z; v_syncport : N; v_httpport : N; v_consport : N;
  v_cap : bytes; v_nonce : N; v_height : N; v_relay : N; v_iscons : bool; v_soft : bytes }.

(** * ConsensusPayload *)
Record cons_payload := mkCons {
  c_version : N; c_prevhash : bytes; c_height : N; c_bkindex : N; c_timestamp : N; c_data : bytes;
  c_owner : bytes (* SerializePublicKey(Owner) *); c_sig : bytes }.

(** * OfflineWitnessMsg *)
Record voter := mkVoter { vt_index : bytes; vt_pubkey : bytes; vt_sig : bytes }.
Record offline := mkOff {
  ow_timestamp : N; ow_view : N; ow_keys : list bytes; ow_proposer : bytes; ow_propsig : bytes;
  ow_voters : list voter }.

(** * Messages. [E] is the type of embedded core/types objects. *)
Inductive msg (E : Type) :=
| MAddr (l : list peer_addr)
| MAddrReq
| MVersion (v : version_payload)
| MVerAck (isConsensus : bool)
| MPing (h : N)
| MPong (h : N)
| MHeadersReq (len : N) (hstart hend : bytes)
| MBlocksReq (cnt : N) (hstart hstop : bytes)
| MDataReq (ty : N) (h : bytes)
| MInv (ty : N) (blk : list bytes)
| MNotFound (h : bytes)
| MFindNodeReq (id : bytes)
| MFindNodeResp (id : bytes) (succ : bool) (addr : bytes) (closer : list (bytes * bytes))
| MUpdateKadId (pk : bytes)
| MSubnetReq (from to : bytes) (ts : N) (pk sig : bytes)
| MSubnetMembers (l : list (bytes * bytes))
| MOffline (o : offline)
| MConsensus (c : cons_payload)
| MBlkHeader (hs : list E)
| MBlock (b : E) (root : bytes) (cc : option E)
| MTrn (tx : E)
| MUnknown (cmd : bytes) (payload : bytes).
Arguments MAddr {E}. Arguments MAddrReq {E}. Arguments MVersion {E}. Arguments MVerAck {E}.
Arguments MPing {E}. Arguments MPong {E}. Arguments MHeadersReq {E}. Arguments MBlocksReq {E}.
Arguments MDataReq {E}. Arguments MInv {E}. Arguments MNotFound {E}. Arguments MFindNodeReq {E}.
Arguments MFindNodeResp {E}. Arguments MUpdateKadId {E}. Arguments MSubnetReq {E}.
Arguments MSubnetMembers {E}. Arguments MOffline {E}. Arguments MConsensus {E}.
Arguments MBlkHeader {E}. Arguments MBlock {E}. Arguments MTrn {E}. Arguments MUnknown {E}.

(** * Externals *)
Record ext (E : Type) := mkExt {
  x_hash : bytes -> bytes;                      (* sha256.Sum256 *)
  x_pk_decode : bytes -> option bytes;          (* SerializePublicKey(k) for k = DeserializePublicKey(b) *)
  x_vpubkey : bytes -> option bytes;            (* SerializePublicKey(k) for k = vconfig.Pubkey(string) *)
  x_sig_verify : bytes -> bytes -> bytes -> bool; (* signature.Verify(key, data, sig) == nil *)
  x_now1h : N;                                  (* uint32(time.Now().Add(-time.Hour).Unix()) *)
  x_dec_hdr : source -> dres (E * source); x_enc_hdr : E -> bytes;   (* core/types.Header *)
  x_dec_tx : source -> dres (E * source);  x_enc_tx : E -> bytes;    (* core/types.Transaction *)
  x_dec_blk : source -> dres (E * source); x_enc_blk : E -> bytes;   (* core/types.Block *)
  x_dec_cc : source -> dres (E * source);  x_enc_cc : E -> bytes     (* core/types.CrossChainMsg *)
}.
Arguments x_hash {E}. Arguments x_pk_decode {E}. Arguments x_vpubkey {E}. Arguments x_sig_verify {E}.
Arguments x_now1h {E}. Arguments x_dec_hdr {E}. Arguments x_enc_hdr {E}. Arguments x_dec_tx {E}.
Arguments x_enc_tx {E}. Arguments x_dec_blk {E}. Arguments x_enc_blk {E}. Arguments x_dec_cc {E}.
Arguments x_enc_cc {E}.

(** common.Checksum: first CHECKSUM_LEN bytes of sha256(sha256(data)). *)
Definition checksum (H : bytes -> bytes) (data : bytes) : bytes := firstn CHECKSUM_LEN (H (H data)).

(** validatePublicKey (id.go): Difficulty leading zero bits of sha256(sha256(pub)). *)
Definition validate_kad_key (H : bytes -> bytes) (pub : bytes) : bool :=
  let hash := H (H pub) in
  let limit := N.to_nat (KAD_DIFFICULTY / 8) in
  let diff := KAD_DIFFICULTY mod 8 in
  forallb (N.eqb 0) (firstn limit hash) &&
  (if diff =? 0 then true else (nth limit hash 0 / 2 ^ (8 - diff)) =? 0).

(** A public key field: [canon] is what Serialization will write for it. *)
Definition pk_flag (data canon : bytes) : list lenient :=
  if bytes_eqb data canon then [] else [LPubKey].

Section Decoders.
Context {E : Type}.
Variable X : ext E.
Notation res := (dres (msg E * source * list lenient)).

(** ** Addr.Deserialization (address.go) *)
Definition dec_addr (s : source) : res :=
  let '(count, eof, s1) := next_uint64 s in if eof then DErr ErrEOF else
  (* for i := uint64(0); i < count; i++ *)
  match read_loop (loop_fuel s1) dec_peer_addr (Z.of_N count) s1 [] with
  | DErr e => DErr e
  | DOk (l, s2) =>
    let count' := if MAX_ADDR_NODE_CNT <? count then MAX_ADDR_NODE_CNT else count in
    match slice_to l count' with                       (* this.NodeAddrs = this.NodeAddrs[:count] *)
    | DErr e => DErr e
    | DOk l' => DOk (MAddr l', s2, if MAX_ADDR_NODE_CNT <? count then [LAddrClamp] else [])
    end
  end.

(** ** AddrReq *)
Definition dec_addrreq (s : source) : res := DOk (MAddrReq, s, []).

(** ** Version.Deserialization (version.go) *)
Definition dec_version (s : source) : res :=
  let '(ver, eof, s1) := next_uint32 s in if eof then DErr ErrEOF else
  let '(svc, eof, s2) := next_uint64 s1 in if eof then DErr ErrEOF else
  let '(ts, eof, s3) := next_uint64 s2 in if eof then DErr ErrEOF else
  let '(sp, eof, s4) := next_uint16 s3 in if eof then DErr ErrEOF else
  let '(hp, eof, s5) := next_uint16 s4 in if eof then DErr ErrEOF else
  let '(cp, eof, s6) := next_uint16 s5 in if eof then DErr ErrEOF else
  let '(cap, eof, s7) := next_bytes s6 (uint64_of_len CAP_LEN) in if eof then DErr ErrEOF else
  let '(nonce, eof, s8) := next_uint64 s7 in if eof then DErr ErrEOF else
  let '(hgt, eof, s9) := next_uint64 s8 in if eof then DErr ErrEOF else
  let '(relay, eof, s10) := next_byte s9 in if eof then DErr ErrEOF else
  let '(isc, irr, eof, s11) := next_bool s10 in if eof || irr then DErr ErrEOF else
  let '(soft, _, irr, eof, s12) := next_varbytes s11 in
  let lenientStr := eof || irr in
  let soft' := if lenientStr then [] else soft in
  DOk (MVersion (mkVer ver svc (to_signed UINT64_SIZE ts) sp hp cp (copy_into CAP_LEN cap) nonce hgt relay isc soft'),
       s12, if lenientStr then [LVersionStr] else []).

(** ** VerACK *)
Definition dec_verack (s : source) : res :=
  let '(b, irr, eof, s1) := next_bool s in
  if eof then DErr ErrEOF else if irr then DErr ErrIrregular else DOk (MVerAck b, s1, []).

(** ** Ping / Pong *)
Definition dec_ping (s : source) : res :=
  let '(h, eof, s1) := next_uint64 s in if eof then DErr ErrEOF else DOk (MPing h, s1, []).
Definition dec_pong (s : source) : res :=
  let '(h, eof, s1) := next_uint64 s in if eof then DErr ErrEOF else DOk (MPong h, s1, []).

(** ** HeadersReq / BlocksReq / DataReq / NotFound *)
Definition dec_headersreq (s : source) : res :=
  let '(len, eof, s1) := next_byte s in if eof then DErr ErrEOF else
  let '(h1, eof, s2) := next_hash s1 in if eof then DErr ErrEOF else
  let '(h2, eof, s3) := next_hash s2 in if eof then DErr ErrEOF else
  DOk (MHeadersReq len h1 h2, s3, []).
Definition dec_blocksreq (s : source) : res :=
  let '(len, eof, s1) := next_byte s in if eof then DErr ErrEOF else
  let '(h1, eof, s2) := next_hash s1 in if eof then DErr ErrEOF else
  let '(h2, eof, s3) := next_hash s2 in if eof then DErr ErrEOF else
  DOk (MBlocksReq len h1 h2, s3, []).
Definition dec_datareq (s : source) : res :=
  let '(ty, eof, s1) := next_byte s in if eof then DErr ErrEOF else
  let '(h, eof, s2) := next_hash s1 in if eof then DErr ErrEOF else
  DOk (MDataReq ty h, s2, []).
Definition dec_notfound (s : source) : res :=
  let '(h, eof, s1) := next_hash s in if eof then DErr ErrEOF else DOk (MNotFound h, s1, []).

(** ** Inv.Deserialization (inventory.go) *)
Definition dec_hash (s : source) : dres (bytes * source) :=
  let '(h, eof, s1) := next_hash s in if eof then DErr ErrEOF else DOk (h, s1).
Definition dec_inv (s : source) : res :=
  let '(ty, eof, s1) := next_byte s in if eof then DErr ErrEOF else
  let '(cnt, eof, s2) := next_uint32 s1 in if eof then DErr ErrEOF else
  (* for i := 0; i < int(blkCnt); i++ *)
  match read_loop (loop_fuel s2) dec_hash (int_of_uint32 cnt) s2 [] with
  | DErr e => DErr e
  | DOk (l, s3) =>
    let cnt' := if MAX_INV_BLK_CNT <? cnt then MAX_INV_BLK_CNT else cnt in
    match slice_to l cnt' with                         (* this.P.Blk = this.P.Blk[:blkCnt] *)
    | DErr e => DErr e
    | DOk l' => DOk (MInv ty l', s3, if MAX_INV_BLK_CNT <? cnt then [LInvClamp] else [])
    end
  end.

(** ** FindNodeReq / FindNodeResp (find_node.go) *)
Definition dec_findnodereq (s : source) : res :=
  match dec_peer_id s with DErr e => DErr e | DOk (id, s1) => DOk (MFindNodeReq id, s1, []) end.

Definition dec_closer (s : source) : dres (bytes * bytes * bool * source) :=
  match dec_peer_id s with
  | DErr e => DErr e
  | DOk (id, s1) =>
    let '(addr, _, irr, eof, s2) := next_varbytes s1 in         (* addr, _, _, eof := NextString() *)
    if eof then DErr ErrEOF else DOk (id, addr, irr, s2)
  end.
Definition dec_closer' (s : source) : dres ((bytes * bytes * bool) * source) :=
  match dec_closer s with DErr e => DErr e | DOk (id, a, irr, s') => DOk ((id, a, irr), s') end.

Definition dec_findnoderesp (s : source) : res :=
  match dec_peer_id s with
  | DErr e => DErr e
  | DOk (id, s1) =>
    let '(succ, irrb, eof, s2) := next_bool s1 in if eof then DErr ErrEOF else   (* succ, _, eof := *)
    let '(addr, _, irrs, eof, s3) := next_varbytes s2 in if eof then DErr ErrEOF else
    let '(num, eof, s4) := next_uint32 s3 in if eof then DErr ErrEOF else
    (* for i := 0; i < int(numCloser); i++ *)
    match read_loop (loop_fuel s4) dec_closer' (int_of_uint32 num) s4 [] with
    | DErr e => DErr e
    | DOk (l, s5) =>
      DOk (MFindNodeResp id succ addr (map (fun x => (fst (fst x), snd (fst x))) l), s5,
           (if irrb then [LFindBool] else []) ++
           (if irrs || existsb (fun x => snd x) l then [LFindStr] else []))
    end
  end.

(** ** PeerKeyId / UpdatePeerKeyId (id.go, update_kadid.go) *)
Definition dec_updatekadid (s : source) : res :=
  let '(data, _, irr, eof, s1) := next_varbytes s in
  if irr then DErr ErrIrregular else if eof then DErr ErrEOF else
  match x_pk_decode X data with
  | None => DErr ErrKey
  | Some pub =>
    if negb (validate_kad_key (x_hash X) pub) then DErr ErrKadKey
    else DOk (MUpdateKadId pub, s1, pk_flag data pub)
  end.

(** ** SubnetMembersRequest / SubnetMembers (subnet.go) *)
Definition subnet_sigdata (from to : bytes) (ts : N) : bytes := from ++ to ++ write_uint32 ts.

Definition dec_subnetreq (s : source) : res :=
  match dec_peer_id s with
  | DErr e => DErr e
  | DOk (from, s1) =>
  match dec_peer_id s1 with
  | DErr e => DErr e
  | DOk (to, s2) =>
    let '(ts, eof, s3) := next_uint32 s2 in if eof then DErr ErrEOF else      (* ReadUint32 *)
    if ts =? 0 then DOk (MSubnetReq from to ts [] [], s3, []) else
    match read_varbytes s3 with
    | (inr e, _) => DErr (rerr_to_derr e)
    | (inl pkb, s4) =>
      match x_pk_decode X pkb with
      | None => DErr ErrKey
      | Some pub =>
        match read_varbytes s4 with
        | (inr e, _) => DErr (rerr_to_derr e)
        | (inl sig, s5) =>
          if ts <? x_now1h X then DErr ErrExpired          (* uint32(now-1h) > Timestamp *)
          else if negb (x_sig_verify X pub (subnet_sigdata from to ts) sig) then DErr ErrSig
          else DOk (MSubnetReq from to ts pub sig, s5, pk_flag pkb pub)
        end
      end
    end
  end end.

Definition dec_member (s : source) : dres ((bytes * bytes) * source) :=
  match read_string s with
  | (inr e, _) => DErr (rerr_to_derr e)
  | (inl pk, s1) =>
    match read_string s1 with
    | (inr e, _) => DErr (rerr_to_derr e)
    | (inl addr, s2) => DOk ((pk, addr), s2)
    end
  end.

Definition dec_subnetmembers (s : source) : res :=
  let '(num, eof, s1) := next_uint32 s in if eof then DErr ErrEOF else
  (* for i := uint32(0); i < num; i++ *)
  match read_loop (loop_fuel s1) dec_member (Z.of_N num) s1 [] with
  | DErr e => DErr e
  | DOk (l, s2) => DOk (MSubnetMembers l, s2, [])
  end.

(** ** OfflineWitnessMsg (offline_witness.go). Deserialization does not read ProposerSig
    (Serialization writes it between Proposer and the voter count): the field stays empty. *)
Definition dec_str (s : source) : dres (bytes * source) :=
  match read_string s with (inr e, _) => DErr (rerr_to_derr e) | (inl d, s1) => DOk (d, s1) end.

Definition dec_voter (nkeys : nat) (s : source) : dres (voter * source) :=
  match read_varbytes s with
  | (inr e, _) => DErr (rerr_to_derr e)
  | (inl index, s1) =>
    (* for _, idx := range index { if int(idx) >= len(self.NodePubKeys) ... *)
    if existsb (fun idx => (Z.of_nat nkeys <=? int_of_uint8 idx)%Z) index then DErr ErrVoteIdx else
    match read_string s1 with
    | (inr e, _) => DErr (rerr_to_derr e)
    | (inl pk, s2) =>
      match read_varbytes s2 with
      | (inr e, _) => DErr (rerr_to_derr e)
      | (inl sig, s3) => DOk (mkVoter index pk sig, s3)
      end
    end
  end.

Definition enc_offline_unsigned (o : offline) : bytes :=
  write_uint32 (ow_timestamp o) ++ write_uint32 (ow_view o) ++
  write_uint32 (uint32_of_len (length (ow_keys o))) ++ flat_map write_string (ow_keys o) ++
  write_string (ow_proposer o).

Fixpoint verify_voters (unsign : bytes) (vs : list voter) : option derr :=
  match vs with
  | [] => None
  | v :: r =>
    let data := x_hash X (unsign ++ write_varbytes (vt_index v)) in
    match x_vpubkey X (vt_pubkey v) with
    | None => Some ErrKey
    | Some key => if negb (x_sig_verify X key data (vt_sig v)) then Some ErrSig else verify_voters unsign r
    end
  end.

Definition verify_sigs (o : offline) : option derr :=
  let unsign := enc_offline_unsigned o in
  let data := x_hash X unsign in
  match x_vpubkey X (ow_proposer o) with
  | None => Some ErrKey
  | Some prop =>
    if negb (x_sig_verify X prop data (ow_propsig o)) then Some ErrSig else verify_voters unsign (ow_voters o)
  end.

Definition dec_offline (s : source) : res :=
  let '(ts, eof, s1) := next_uint32 s in if eof then DErr ErrEOF else
  let '(view, eof, s2) := next_uint32 s1 in if eof then DErr ErrEOF else
  let '(nk, eof, s3) := next_uint32 s2 in if eof then DErr ErrEOF else
  if 255 <? nk then DErr ErrTooMany else                          (* lenPubKeys > math.MaxUint8 *)
  match read_loop (loop_fuel s3) dec_str (Z.of_N nk) s3 [] with
  | DErr e => DErr e
  | DOk (keys, s4) =>
    match dec_str s4 with
    | DErr e => DErr e
    | DOk (proposer, s5) =>
      let '(nv, eof, s6) := next_uint32 s5 in if eof then DErr ErrEOF else
      match read_loop (loop_fuel s6) (dec_voter (length keys)) (Z.of_N nv) s6 [] with
      | DErr e => DErr e
      | DOk (voters, s7) =>
        let o := mkOff ts view keys proposer [] voters in
        match verify_sigs o with Some e => DErr e | None => DOk (MOffline o, s7, []) end
      end
    end
  end.

(** ** ConsensusPayload / Consensus (consensus_payload.go) *)
Definition dec_consensus (s : source) : res :=
  (* DeserializationUnsigned *)
  let '(ver, eof, s1) := next_uint32 s in if eof then DErr ErrEOF else
  let '(prev, eof, s2) := next_hash s1 in if eof then DErr ErrEOF else
  let '(hgt, eof, s3) := next_uint32 s2 in if eof then DErr ErrEOF else
  let '(bk, eof, s4) := next_uint16 s3 in if eof then DErr ErrEOF else
  let '(ts, eof, s5) := next_uint32 s4 in if eof then DErr ErrEOF else
  let '(data, _, irr, eof, s6) := next_varbytes s5 in
  if eof then DErr ErrEOF else if irr then DErr ErrIrregular else
  (* Deserialization *)
  let '(pkb, _, irr, eof, s7) := next_varbytes s6 in
  if eof then DErr ErrEOF else if irr then DErr ErrIrregular else
  match x_pk_decode X pkb with
  | None => DErr ErrKey
  | Some owner =>
    let '(sig, _, irr, eof, s8) := next_varbytes s7 in
    if irr then DErr ErrIrregular else if eof then DErr ErrEOF else
    DOk (MConsensus (mkCons ver prev hgt bk ts data owner sig), s8, pk_flag pkb owner)
  end.

(** ** BlkHeader / Block / Trn: embedded core/types objects *)
Definition dec_blkheader (s : source) : res :=
  let '(count, eof, s1) := next_uint32 s in if eof then DErr ErrEOF else
  (* for i := 0; i < int(count); i++ *)
  match read_loop (loop_fuel s1) (x_dec_hdr X) (int_of_uint32 count) s1 [] with
  | DErr e => DErr e
  | DOk (l, s2) => DOk (MBlkHeader l, s2, [])
  end.

Definition dec_block (s : source) : res :=
  match x_dec_blk X s with
  | DErr e => DErr e
  | DOk (b, s1) =>
    let '(root, eofr, s2) := next_hash s1 in               (* on eof: UINT256_EMPTY (= what next_hash gives) *)
    let '(has, irr, eof, s3) := next_bool s2 in
    let fr := if eofr then [LBlockRoot] else [] in
    if irr || eof then DOk (MBlock b root None, s3, fr ++ [LBlockCC]) else
    if has then
      match x_dec_cc X s3 with
      | DErr e => DErr e
      | DOk (cc, s4) => DOk (MBlock b root (Some cc), s4, fr)
      end
    else DOk (MBlock b root None, s3, fr)
  end.

Definition dec_trn (s : source) : res :=
  match x_dec_tx X s with DErr e => DErr e | DOk (tx, s1) => DOk (MTrn tx, s1, []) end.

(** ** UnknownMessage *)
Definition dec_unknown (cmd : bytes) (s : source) : res :=
  let '(p, _, s1) := next_bytes s (src_len s) in DOk (MUnknown cmd p, s1, []).

(** * Serialization *)
Definition enc_version (v : version_payload) : bytes :=
  write_uint32 (v_version v) ++ write_uint64 (v_services v) ++
  write_uint64 (of_signed UINT64_SIZE (v_timestamp v)) ++
  write_uint16 (v_syncport v) ++ write_uint16 (v_httpport v) ++ write_uint16 (v_consport v) ++
  v_cap v ++ write_uint64 (v_nonce v) ++ write_uint64 (v_height v) ++ write_uint8 (v_relay v) ++
  write_bool (v_iscons v) ++ write_string (v_soft v).

Definition enc_cons_unsigned (c : cons_payload) : bytes :=
  write_uint32 (c_version c) ++ c_prevhash c ++ write_uint32 (c_height c) ++
  write_uint16 (c_bkindex c) ++ write_uint32 (c_timestamp c) ++ write_varbytes (c_data c).

Definition enc_voter (v : voter) : bytes :=
  write_varbytes (vt_index v) ++ write_string (vt_pubkey v) ++ write_varbytes (vt_sig v).

Definition enc_msg (m : msg E) : bytes :=
  match m with
  | MAddr l => write_uint64 (uint64_of_len (length l)) ++ flat_map enc_peer_addr l
  | MAddrReq => []
  | MVersion v => enc_version v
  | MVerAck b => write_bool b
  | MPing h => write_uint64 h
  | MPong h => write_uint64 h
  | MHeadersReq len a b => write_uint8 len ++ a ++ b
  | MBlocksReq len a b => write_uint8 len ++ a ++ b
  | MDataReq ty h => write_uint8 ty ++ h
  | MInv ty l => write_uint8 ty ++ write_uint32 (uint32_of_len (length l)) ++ flat_map (fun h => h) l
  | MNotFound h => h
  | MFindNodeReq id => id
  | MFindNodeResp id succ addr closer =>
      id ++ write_bool succ ++ write_string addr ++ write_uint32 (uint32_of_len (length closer)) ++
      flat_map (fun p => fst p ++ write_string (snd p)) closer
  | MUpdateKadId pk => write_varbytes pk
  | MSubnetReq from to ts pk sig =>
      from ++ to ++ write_uint32 ts ++
      (if ts =? 0 then [] else write_varbytes pk ++ write_varbytes sig)
  | MSubnetMembers l =>
      write_uint32 (uint32_of_len (length l)) ++
      flat_map (fun p => write_string (fst p) ++ write_string (snd p)) l
  | MOffline o =>
      enc_offline_unsigned o ++ write_varbytes (ow_propsig o) ++
      write_uint32 (uint32_of_len (length (ow_voters o))) ++ flat_map enc_voter (ow_voters o)
  | MConsensus c => enc_cons_unsigned c ++ write_varbytes (c_owner c) ++ write_varbytes (c_sig c)
  | MBlkHeader hs => write_uint32 (uint32_of_len (length hs)) ++ flat_map (x_enc_hdr X) hs
  | MBlock b root cc =>
      x_enc_blk X b ++ root ++
      match cc with Some c => write_bool true ++ x_enc_cc X c | None => write_bool false end
  | MTrn tx => x_enc_tx X tx
  | MUnknown _ p => p
  end.

(** * Dispatch (makeEmptyMessage) through the generated table *)
Inductive mkind :=
| KAddr | KAddrReq | KVersion | KVerAck | KPing | KPong | KHeadersReq | KBlocksReq | KDataReq | KInv
| KNotFound | KFindNodeReq | KFindNodeResp | KUpdateKadId | KSubnetReq | KSubnetMembers | KOffline
| KConsensus | KBlkHeader | KBlock | KTrn.

Definition mkind_eqb (a b : mkind) : bool :=
  match a, b with
  | KAddr, KAddr | KAddrReq, KAddrReq | KVersion, KVersion | KVerAck, KVerAck | KPing, KPing
  | KPong, KPong | KHeadersReq, KHeadersReq | KBlocksReq, KBlocksReq | KDataReq, KDataReq
  | KInv, KInv | KNotFound, KNotFound | KFindNodeReq, KFindNodeReq | KFindNodeResp, KFindNodeResp
  | KUpdateKadId, KUpdateKadId | KSubnetReq, KSubnetReq | KSubnetMembers, KSubnetMembers
  | KOffline, KOffline | KConsensus, KConsensus | KBlkHeader, KBlkHeader | KBlock, KBlock
  | KTrn, KTrn => true
  | _, _ => false
  end.

(** Go type name (as printed by the translator) -> modelled decoder. *)
Definition kind_names : list (string * mkind) :=
  [("Addr", KAddr); ("AddrReq", KAddrReq); ("Version", KVersion); ("VerACK", KVerAck);
   ("Ping", KPing); ("Pong", KPong); ("HeadersReq", KHeadersReq); ("BlocksReq", KBlocksReq);
   ("DataReq", KDataReq); ("Inv", KInv); ("NotFound", KNotFound); ("FindNodeReq", KFindNodeReq);
   ("FindNodeResp", KFindNodeResp); ("UpdatePeerKeyId", KUpdateKadId);
   ("SubnetMembersRequest", KSubnetReq); ("SubnetMembers", KSubnetMembers);
   ("OfflineWitnessMsg", KOffline); ("Consensus", KConsensus); ("BlkHeader", KBlkHeader);
   ("Block", KBlock); ("Trn", KTrn)]%string.

Definition kind_of_name (n : string) : option mkind :=
  match find (fun e => String.eqb (fst e) n) kind_names with Some e => Some (snd e) | None => None end.

Definition d_cmd (e : list N * string * list N) : bytes := fst (fst e).
Definition d_name (e : list N * string * list N) : string := snd (fst e).
Definition d_cmdtype (e : list N * string * list N) : bytes := snd e.

(** [None]: default branch of the switch (UnknownMessage). *)
Definition lookup_cmd (cmd : bytes) : option (list N * string * list N) :=
  find (fun e => bytes_eqb (d_cmd e) cmd) DISPATCH.

Definition dec_kind (k : mkind) : source -> res :=
  match k with
  | KAddr => dec_addr | KAddrReq => dec_addrreq | KVersion => dec_version | KVerAck => dec_verack
  | KPing => dec_ping | KPong => dec_pong | KHeadersReq => dec_headersreq
  | KBlocksReq => dec_blocksreq | KDataReq => dec_datareq | KInv => dec_inv
  | KNotFound => dec_notfound | KFindNodeReq => dec_findnodereq | KFindNodeResp => dec_findnoderesp
  | KUpdateKadId => dec_updatekadid | KSubnetReq => dec_subnetreq
  | KSubnetMembers => dec_subnetmembers | KOffline => dec_offline | KConsensus => dec_consensus
  | KBlkHeader => dec_blkheader | KBlock => dec_block | KTrn => dec_trn
  end.

Definition kind_of_msg (m : msg E) : option mkind :=
  match m with
  | MAddr _ => Some KAddr | MAddrReq => Some KAddrReq | MVersion _ => Some KVersion
  | MVerAck _ => Some KVerAck | MPing _ => Some KPing | MPong _ => Some KPong
  | MHeadersReq _ _ _ => Some KHeadersReq | MBlocksReq _ _ _ => Some KBlocksReq
  | MDataReq _ _ => Some KDataReq | MInv _ _ => Some KInv | MNotFound _ => Some KNotFound
  | MFindNodeReq _ => Some KFindNodeReq | MFindNodeResp _ _ _ _ => Some KFindNodeResp
  | MUpdateKadId _ => Some KUpdateKadId | MSubnetReq _ _ _ _ _ => Some KSubnetReq
  | MSubnetMembers _ => Some KSubnetMembers | MOffline _ => Some KOffline
  | MConsensus _ => Some KConsensus | MBlkHeader _ => Some KBlkHeader | MBlock _ _ _ => Some KBlock
  | MTrn _ => Some KTrn | MUnknown _ _ => None
  end.

(** msg.CmdType(): the table's third column for the message's Go type. *)
Definition cmd_of_kind (k : mkind) : bytes :=
  match find (fun e => match kind_of_name (d_name e) with Some k' => mkind_eqb k k' | None => false end) DISPATCH with
  | Some e => d_cmdtype e
  | None => []
  end.
Definition cmd_of_msg (m : msg E) : bytes :=
  match m with
  | MUnknown cmd _ => cmd
  | _ => match kind_of_msg m with Some k => cmd_of_kind k | None => [] end
  end.

(** makeEmptyMessage(cmdType).Deserialization(NewZeroCopySource(payload)). A table entry whose Go
    type has no modelled decoder decodes as ErrEmb here; Proofs/P2PMsg.v checks there is none. *)
Definition decode_payload (cmd : bytes) (payload : bytes) : res :=
  match lookup_cmd cmd with
  | None => dec_unknown cmd (src_new payload)
  | Some e => match kind_of_name (d_name e) with
              | Some k => dec_kind k (src_new payload)
              | None => DErr ErrEmb
              end
  end.

(** * The frame (message.go) *)
Fixpoint drop0 (l : bytes) : bytes := match l with 0 :: r => drop0 r | _ => l end.
Definition trim_right0 (b : bytes) : bytes := rev (drop0 (rev b)).   (* bytes.TrimRight(b, "\x00") *)

Inductive ferr := FShortHeader | FMagic | FLength | FShortPayload | FChecksum | FDecode (e : derr).
Inductive fres := FOk (m : msg E) (len : N) (lf : list lenient) (consumed : nat) (rest : bytes) | FErr (e : ferr).

(** readMessageHeader on the MSG_HDR_LEN bytes io.ReadFull delivered (eof flags are ignored there). *)
Definition parse_header (h : bytes) : N * bytes * N * bytes :=
  let hs := src_new h in
  let '(hmagic, _, hs1) := next_uint32 hs in
  let '(cmd, _, hs2) := next_bytes hs1 (N.of_nat MSG_CMD_LEN) in
  let '(len, _, hs3) := next_uint32 hs2 in
  let '(cks, _, _) := next_bytes hs3 (N.of_nat CHECKSUM_LEN) in
  (hmagic, copy_into MSG_CMD_LEN cmd, len, copy_into CHECKSUM_LEN cks).

(** ReadMessage on the bytes a reader will deliver (a reader that ends early gives the io error). *)
Definition read_message (magic : N) (stream : bytes) : fres :=
  if (length stream <? MSG_HDR_LEN)%nat then FErr FShortHeader else        (* io.ReadFull(hdr) *)
  let '(hmagic, cmd, len, cks) := parse_header (firstn MSG_HDR_LEN stream) in
  if negb (hmagic =? magic) then FErr FMagic else
  if MAX_PAYLOAD_LEN <? len then FErr FLength else
  let body := skipn MSG_HDR_LEN stream in
  (* buf := make([]byte, hdr.Length); io.ReadFull(reader, buf) *)
  if N.of_nat (length body) <? len then FErr FShortPayload else   (* compared in N: no unary blow-up on evaluation *)
  let payload := firstn (N.to_nat len) body in
  if negb (bytes_eqb (checksum (x_hash X) payload) cks) then FErr FChecksum else
  match decode_payload (trim_right0 cmd) payload with
  | DErr e => FErr (FDecode e)
  | DOk (m, s', lf) => FOk m len lf (off s') (skipn (N.to_nat len) body)
  end.

(** Size of the buffers ReadMessage allocates for a stream: the header, then [make([]byte, Length)]
    once the magic and length checks have passed (before any payload byte is read). *)
Definition read_message_alloc (magic : N) (stream : bytes) : N :=
  if (length stream <? MSG_HDR_LEN)%nat then N.of_nat MSG_HDR_LEN else
  let '(hmagic, _, len, _) := parse_header (firstn MSG_HDR_LEN stream) in
  if negb (hmagic =? magic) then N.of_nat MSG_HDR_LEN else
  if MAX_PAYLOAD_LEN <? len then N.of_nat MSG_HDR_LEN else N.of_nat MSG_HDR_LEN + len.

(** WriteMessage: header (magic, cmd copied into 12 zeroed bytes, uint32(len), checksum) ++ payload. *)
Definition write_message (magic : N) (m : msg E) : bytes :=
  let payload := enc_msg m in
  write_uint32 magic ++ copy_into MSG_CMD_LEN (cmd_of_msg m) ++
  write_uint32 (uint32_of_len (length payload)) ++ checksum (x_hash X) payload ++ payload.

End Decoders.

(** Number of slice elements a decoded message holds (what the decoder appended one by one). *)
Definition msg_elems {E : Type} (m : msg E) : nat :=
  match m with
  | MAddr l => length l
  | MInv _ l => length l
  | MFindNodeResp _ _ _ l => length l
  | MSubnetMembers l => length l
  | MOffline o => length (ow_keys o) + length (ow_voters o)
  | MBlkHeader l => length l
  | _ => 0
  end.
