(** Executable model of the block side of the ledger store
    (core/store/ledgerstore/{ledger_store.go, block_store.go, header_Index_cache.go, block_cache.go}).

    What is modelled, and from where:
    - the LevelDB block store as finite maps (association lists, newest binding first):
        DATA_BLOCK_HASH  height  -> block hash                 (SaveBlockHash / BlockStore.GetBlockHash)
        DATA_HEADER      hash    -> header + tx hash list      (SaveHeader / loadHeaderWithTx / loadHeader)
        DATA_TRANSACTION tx hash -> height + transaction       (putTransaction / loadTransaction)
        SYS_CURRENT_BLOCK        -> (hash, height)             (SaveCurrentBlock / GetCurrentBlock)
        SYS_VERSION              -> version byte               (SaveVersion / GetVersion)
      A batch (NewBatch .. CommitTo) is atomic and nothing reads the store between the first BatchPut
      and CommitTo of submitBlock (block pruning is off), so puts are applied immediately.
    - HeaderIndexCache with its exact window arithmetic; the uint32 expressions come from
      Gen/LedgerIndexFormulas.v (translated from the source on every run) and are taken modulo 2^32.
    - the in-memory current block, the header cache filled by AddHeader, and the ARC block/transaction
      caches of BlockStore.  The ARC caches are modelled by *everything added since the store was
      opened* plus, at query time, an arbitrary membership predicate (which entries ARC still holds):
      ARC only ever drops entries, and an entry that is present carries the value of its last Add.
    - opening a data directory: InitLedgerStoreWithGenesisBlock (both paths), init, loadCurrentBlock,
      loadHeaderIndexList.
    Not modelled (outside the property): state/event stores, execution, verifyHeader, bloom data,
    cross-chain messages, block pruning (disabled unless EnableBlockPrune is called).

    Definitions only; proofs are in Proofs/BlockStore.v. *)
From Coq Require Import List NArith ZArith Bool.
Import ListNotations.
From Ont Require Import Gen.LedgerIndexConsts Gen.LedgerIndexFormulas.
Local Open Scope N_scope.

(** ** Identifiers *)
Definition hash := N.            (* common.Uint256 read as a number; 0 = common.UINT256_EMPTY *)
Definition payload := N.         (* digest of the serialized header / transaction *)
Definition EMPTY : hash := 0.

(** uint32 wrap of a translated expression *)
Definition u32z (z : Z) : N := Z.to_N (z mod 4294967296)%Z.

(** ** Finite maps keyed by N: association lists, newest binding first *)
Section AMap.
  Context {V : Type}.
  Definition amap := list (N * V).
  Fixpoint lookup (k : N) (m : amap) : option V :=
    match m with
    | [] => None
    | (k', v) :: r => if k =? k' then Some v else lookup k r
    end.
  Definition put (k : N) (v : V) (m : amap) : amap := (k, v) :: m.
  Definition del (k : N) (m : amap) : amap := filter (fun kv => negb (k =? fst kv)) m.
  (* distinct keys bound in the map (len(map) in Go) *)
  Fixpoint keys (m : amap) : list N :=
    match m with
    | [] => []
    | (k, _) :: r => k :: filter (fun x => negb (x =? k)) (keys r)
    end.
End AMap.
Arguments amap V : clear implicits.

(** ** Chain data *)
(* h_keys / h_sigs: how many bookkeepers the header lists and how many signatures it carries (the
   stored record holds two separately counted lists; the hash covers neither) *)
Record header := { h_hash : hash; h_height : N; h_body : payload; h_keys : N; h_sigs : N }.
Record tx := { t_hash : hash; t_body : payload }.
Record block := { b_hdr : header; b_txs : list tx }.

Definition bhash (b : block) : hash := h_hash (b_hdr b).       (* block.Hash() *)
Definition bheight (b : block) : N := h_height (b_hdr b).      (* block.Header.Height *)
Definition btxhashes (b : block) : list hash := map t_hash (b_txs b).

(** ** Persistent block store *)
Record blockdb := {
  d_ver : option N;
  d_cur : option (hash * N);
  d_bhash : amap hash;
  d_hdr : amap (header * list hash);
  d_tx : amap (N * tx)
}.
Definition empty_db : blockdb :=
  {| d_ver := None; d_cur := None; d_bhash := []; d_hdr := []; d_tx := [] |}.

(** ** HeaderIndexCache *)
Record hicache := { hi_map : amap hash; hi_first : N; hi_last : N }.
Definition new_hicache : hicache := {| hi_map := []; hi_first := 0; hi_last := 0 |}.

(** The eviction loop
      for height := first; cacheSize > MAX; cacheSize-- { del(height); height++; firstIndex = height }
    runs exactly (cacheSize - MAX) times when cacheSize > MAX and not at all otherwise. *)
Fixpoint evict_loop (n : nat) (m : amap hash) (height first : N) : amap hash * N :=
  match n with
  | O => (m, first)
  | S n' => let height' := u32z (Z.of_N height + 1) in
            evict_loop n' (del height m) height' height'
  end.

Definition evict_count (size maxsz : N) : nat :=
  N.to_nat (u32z (hic_evict_lhs (Z.of_N size) (Z.of_N maxsz)) - u32z (hic_evict_rhs (Z.of_N size) (Z.of_N maxsz))).

(** HeaderIndexCache.setHeaderIndex(curBlockHeight, curHeaderHeight, blockHash) *)
Definition set_header_index (c : hicache) (cur hh : N) (k : hash) : hicache :=
  let m := put hh k (hi_map c) in
  let last := if u32z (hic_last_guard_lhs (Z.of_N (hi_last c)) (Z.of_N hh)) <? u32z (hic_last_guard_rhs (Z.of_N (hi_last c)) (Z.of_N hh))
              then hh else hi_last c in
  if u32z (hic_first_guard_lhs (Z.of_N (hi_first c)) (Z.of_N cur)) <? u32z (hic_first_guard_rhs (Z.of_N (hi_first c)) (Z.of_N cur)) then
    let size := u32z (hic_cache_size (Z.of_N cur) (Z.of_N (hi_first c))) in
    let '(m', first') := evict_loop (evict_count size HEADER_INDEX_MAX_SIZE) m (hi_first c) (hi_first c) in
    {| hi_map := m'; hi_first := first'; hi_last := last |}
  else {| hi_map := m; hi_first := hi_first c; hi_last := last |}.

(** getHeaderIndex of the cache: the zero hash when the height is not cached *)
Definition hic_get (c : hicache) (h : N) : hash :=
  match lookup h (hi_map c) with Some k => k | None => EMPTY end.

(** ** The ledger store (block side) *)
Record store := {
  s_db : blockdb;
  s_hic : hicache;
  s_cur_height : N;
  s_cur_hash : hash;
  s_hdrcache : amap header;          (* LedgerStoreImp.headerCache *)
  s_bc_blocks : amap block;          (* adds to BlockCache.blockCache since open *)
  s_bc_txs : amap (tx * N)           (* adds to BlockCache.transactionCache since open *)
}.

Definition fresh_store (d : blockdb) : store :=
  {| s_db := d; s_hic := new_hicache; s_cur_height := 0; s_cur_hash := EMPTY;
     s_hdrcache := []; s_bc_blocks := []; s_bc_txs := [] |}.

(** BlockStore.SaveTransaction for every transaction of the block, in order *)
Fixpoint save_txs (txs : list tx) (ht : N) (dtx : amap (N * tx)) (ctx : amap (tx * N)) : amap (N * tx) * amap (tx * N) :=
  match txs with
  | [] => (dtx, ctx)
  | t :: r => save_txs r ht (put (t_hash t) (ht, t) dtx) (put (t_hash t) (t, ht) ctx)
  end.

(** saveBlockToBlockStore: setHeaderIndex (with the *old* current height), SaveCurrentBlock,
    SaveBlockHash, SaveBlock (cache.AddBlock, SaveHeader, SaveTransaction for each tx). *)
Definition save_block_to_block_store (s : store) (b : block) : store :=
  let k := bhash b in
  let ht := bheight b in
  let d := s_db s in
  let '(dtx, ctx) := save_txs (b_txs b) ht (d_tx d) (s_bc_txs s) in
  {| s_db := {| d_ver := d_ver d;
                d_cur := Some (k, ht);
                d_bhash := put ht k (d_bhash d);
                d_hdr := put k (b_hdr b, btxhashes b) (d_hdr d);
                d_tx := dtx |};
     s_hic := set_header_index (s_hic s) (s_cur_height s) ht k;
     s_cur_height := s_cur_height s;
     s_cur_hash := s_cur_hash s;
     s_hdrcache := s_hdrcache s;
     s_bc_blocks := put k b (s_bc_blocks s);
     s_bc_txs := ctx |}.

(** submitBlock, block side: saveBlockToBlockStore; CommitTo; setCurrentBlock *)
Definition submit_block (s : store) (b : block) : store :=
  let s' := save_block_to_block_store s b in
  {| s_db := s_db s'; s_hic := s_hic s'; s_cur_height := bheight b; s_cur_hash := bhash b;
     s_hdrcache := s_hdrcache s'; s_bc_blocks := s_bc_blocks s'; s_bc_txs := s_bc_txs s' |}.

Inductive status := Added | Ignored | Rejected.

(** AddBlock (header verification, execution and the state root are taken to succeed: blocks the
    ledger rejects for those reasons change nothing and belong to C39). *)
Definition add_block (s : store) (b : block) : store * status :=
  let cur := s_cur_height s in
  let bh := bheight b in
  if u32z (add_block_stale_lhs (Z.of_N bh) (Z.of_N cur)) <=? u32z (add_block_stale_rhs (Z.of_N bh) (Z.of_N cur)) then (s, Ignored)
  else if negb (bh =? u32z (add_block_next (Z.of_N cur))) then (s, Rejected)
  else
    let s' := submit_block s b in
    ({| s_db := s_db s'; s_hic := s_hic s'; s_cur_height := s_cur_height s'; s_cur_hash := s_cur_hash s';
        s_hdrcache := del (bhash b) (s_hdrcache s');          (* delHeaderCache *)
        s_bc_blocks := s_bc_blocks s'; s_bc_txs := s_bc_txs s' |}, Added).

(** GetCurrentHeaderHeight *)
Definition current_header_height (s : store) : N :=
  if hi_last (s_hic s) =? 0 then s_cur_height s else hi_last (s_hic s).

(** AddHeader (signature/linkage verification taken to succeed) *)
Definition add_header (s : store) (hd : header) : store * status :=
  if negb (h_height hd =? u32z (add_header_next (Z.of_N (current_header_height s)))) then (s, Rejected)
  else
    ({| s_db := s_db s;
        s_hic := set_header_index (s_hic s) (s_cur_height s) (h_height hd) (h_hash hd);
        s_cur_height := s_cur_height s; s_cur_hash := s_cur_hash s;
        s_hdrcache := put (h_hash hd) hd (s_hdrcache s);
        s_bc_blocks := s_bc_blocks s; s_bc_txs := s_bc_txs s |}, Added).

(** ** Opening a data directory *)

(** loadHeaderIndexList's loop: for i := height; i <= currBlockHeight; i++ *)
Fixpoint load_loop (n : nat) (d : blockdb) (cur i : N) (c : hicache) : option hicache :=
  match n with
  | O => Some c
  | S n' =>
      match lookup i (d_bhash d) with
      | None => None                                        (* LoadBlockHash error *)
      | Some k => if k =? EMPTY then None                   (* "hash nil" *)
                  else load_loop n' d cur (u32z (Z.of_N i + 1)) (set_header_index c cur i k)
      end
  end.

Definition reload_first (cur : N) : N :=
  if u32z (reload_guard_rhs (Z.of_N cur) (Z.of_N HEADER_INDEX_MAX_SIZE)) <? u32z (reload_guard_lhs (Z.of_N cur) (Z.of_N HEADER_INDEX_MAX_SIZE))
  then u32z (reload_start (Z.of_N cur) (Z.of_N HEADER_INDEX_MAX_SIZE)) else 0.

Definition load_header_index_list (d : blockdb) (cur : N) : option hicache :=
  let height := reload_first cur in
  let from := u32z (reload_loop_from (Z.of_N height)) in
  (* iterations of  i <= currBlockHeight  starting at height (cur < 2^32-1) *)
  let n := N.to_nat (u32z (reload_loop_rhs (Z.of_N from) (Z.of_N cur)) + 1 - u32z (reload_loop_lhs (Z.of_N from) (Z.of_N cur))) in
  load_loop n d cur from {| hi_map := []; hi_first := height; hi_last := height |}.

(** NewLedgerStore + InitLedgerStoreWithGenesisBlock on an existing or empty directory.
    None = the ledger fails to open. *)
Definition open_store (d : blockdb) (g : block) : option store :=
  match d_ver d with
  | Some v =>
      if v =? SYSTEM_VERSION then
        match lookup (bhash g) (d_hdr d) with           (* ContainBlock(genesis) *)
        | None => None
        | Some _ =>
            match d_cur d with                          (* loadCurrentBlock *)
            | None => None
            | Some (k, cur) =>
                match load_header_index_list d cur with
                | None => None
                | Some c =>
                    Some {| s_db := d; s_hic := c; s_cur_height := cur; s_cur_hash := k;
                            s_hdrcache := []; s_bc_blocks := []; s_bc_txs := [] |}
                end
            end
        end
      else None (* other versions: treated as a failed open; never written by this code *)
  | None =>
      (* ClearAll; submitBlock(genesis); SaveVersion *)
      let s := submit_block (fresh_store empty_db) g in
      let d' := s_db s in
      Some {| s_db := {| d_ver := Some SYSTEM_VERSION; d_cur := d_cur d'; d_bhash := d_bhash d'; d_hdr := d_hdr d'; d_tx := d_tx d' |};
              s_hic := s_hic s; s_cur_height := s_cur_height s; s_cur_hash := s_cur_hash s;
              s_hdrcache := s_hdrcache s; s_bc_blocks := s_bc_blocks s; s_bc_txs := s_bc_txs s |}
  end.

(** ** Queries.  [cb]/[ct]: which block / transaction hashes the ARC caches still hold. *)

(** getHeaderIndex = GetBlockHash *)
Definition get_block_hash (s : store) (h : N) : hash :=
  let k := hic_get (s_hic s) h in
  if k =? EMPTY then
    match lookup h (d_bhash (s_db s)) with Some k' => k' | None => EMPTY end
  else k.

Definition cache_block (cb : hash -> bool) (s : store) (k : hash) : option block :=
  if cb k then lookup k (s_bc_blocks s) else None.
Definition cache_tx (ct : hash -> bool) (s : store) (k : hash) : option (tx * N) :=
  if ct k then lookup k (s_bc_txs s) else None.

(** BlockStore.GetTransaction; None = error *)
Definition get_transaction (ct : hash -> bool) (s : store) (k : hash) : option (tx * N) :=
  match cache_tx ct s k with
  | Some r => Some r
  | None => match lookup k (d_tx (s_db s)) with Some (h, t) => Some (t, h) | None => None end
  end.

Fixpoint collect_txs (ct : hash -> bool) (s : store) (ks : list hash) : option (list tx) :=
  match ks with
  | [] => Some []
  | k :: r =>
      match get_transaction ct s k with
      | None => None
      | Some (t, _) => match collect_txs ct s r with None => None | Some l => Some (t :: l) end
      end
  end.

(** BlockStore.GetBlock = GetBlockByHash; None = error *)
Definition get_block (cb ct : hash -> bool) (s : store) (k : hash) : option block :=
  match cache_block cb s k with
  | Some b => Some b
  | None =>
      match lookup k (d_hdr (s_db s)) with
      | None => None
      | Some (hd, ks) =>
          match collect_txs ct s ks with
          | None => None
          | Some l => Some {| b_hdr := hd; b_txs := l |}
          end
      end
  end.

(** GetHeaderByHash: headerCache, then BlockStore.GetHeader (block cache, then the store) *)
Definition get_header_by_hash (cb : hash -> bool) (s : store) (k : hash) : option header :=
  match lookup k (s_hdrcache s) with
  | Some hd => Some hd
  | None =>
      match cache_block cb s k with
      | Some b => Some (b_hdr b)
      | None => match lookup k (d_hdr (s_db s)) with Some (hd, _) => Some hd | None => None end
      end
  end.

(** GetHeaderByHeight = GetHeaderByHash (GetBlockHash height) *)
Definition get_header_by_height (cb : hash -> bool) (s : store) (h : N) : option header :=
  get_header_by_hash cb s (get_block_hash s h).

(** GetRawHeaderByHash: height and raw bytes of the header GetHeaderByHash returns *)
Definition get_raw_header_by_hash (cb : hash -> bool) (s : store) (k : hash) : option (N * payload) :=
  match get_header_by_hash cb s k with Some hd => Some (h_height hd, h_body hd) | None => None end.

Inductive byheight := BHNil | BHErr | BHOk (b : block).

(** GetBlockByHeight: (nil, nil) when no hash is known for the height *)
Definition get_block_by_height (cb ct : hash -> bool) (s : store) (h : N) : byheight :=
  let k := get_block_hash s h in
  if k =? EMPTY then BHNil
  else match get_block cb ct s k with Some b => BHOk b | None => BHErr end.

(** ** Histories *)
Inductive op := OCommit (b : block) | OAddHeader (hd : header) | OReopen.

Definition step (g : block) (s : store) (o : op) : option store :=
  match o with
  | OCommit b => Some (fst (add_block s b))
  | OAddHeader hd => Some (fst (add_header s hd))
  | OReopen => open_store (s_db s) g
  end.

Fixpoint run (g : block) (s : store) (ops : list op) : option store :=
  match ops with
  | [] => Some s
  | o :: r => match step g s o with None => None | Some s' => run g s' r end
  end.

(** A new ledger: open an empty directory with genesis block g, then the history. *)
Definition run_ledger (g : block) (ops : list op) : option store :=
  match open_store empty_db g with None => None | Some s => run g s ops end.

(** The blocks a history commits on top of height [cur] (specification side: which AddBlock calls
    are for the next height). *)
Fixpoint committed (cur : N) (ops : list op) : list block :=
  match ops with
  | [] => []
  | OCommit b :: r => if bheight b =? cur + 1 then b :: committed (cur + 1) r else committed cur r
  | _ :: r => committed cur r
  end.
