(** C12 - the guards between user-controlled integers and the Go runtime.

    A Gallina function cannot panic, so the model makes the failure a VALUE: every Go slice index
    [x[i]] and slice expression [x[a:b]] is a partial operation that answers [GPanic] outside its
    bounds (what the Go runtime does), every recursion runs on fuel and answers [Oof] where Go
    would have to recurse deeper. The functions below mirror, statement by statement, the code of

      vm/neovm/value_stack.go           Insert Peek Remove Set Push PushMany Pop Swap CopyTo
      vm/neovm/executor.go ExecuteOp    SUBSTR LEFT RIGHT PICKITEM SETITEM NEWARRAY PACK JMP.. DCALL
      vm/neovm/types/array_value.go     RemoveAt
      vm/neovm/types/struct_value.go    cloneStruct                (on the heap graphs of Model/VmValue.v)
      vm/neovm/types/neovm_value.go     convertNeoVmValueHexString (System.Runtime.Notify, pre-exec result)
      smartcontract/service/native/ontid/owner.go   revokePkByIndex, getPk   (repaired 2977caad)
      smartcontract/service/native/ontfs/...        CheckPdpProve, GenChallenge, VerifyMerkleProof (repaired)
      smartcontract/service/neovm/neovm_service.go  the Invoke loop's gas / step accounting

    with the TESTS taken from Gen/GuardSites.v (regenerated from the source on every run) and the
    index arithmetic that follows each test written out here.  Definitions only; proofs are in
    Proofs/Guards.v. *)
From Coq Require Import List Bool Arith ZArith.
Import ListNotations.
From Ont Require Import Gen.GuardSites Model.VmValue.
Local Open Scope Z_scope.

(** * Go slices *)
Inductive gerr := EIndexOOB | EOverStackLen | EOverLimitStack | EOverMaxArray | EBadValue | EFault
                | EDcallOffset | ENoSuchKey | EShort | EOther.

Inductive gres (A : Type) := GOk (a : A) | GErr (e : gerr) | GPanic.
Arguments GOk {A} a. Arguments GErr {A} e. Arguments GPanic {A}.

Definition len {A} (l : list A) : Z := Z.of_nat (length l).

(** x[i]: runtime panic unless 0 <= i < len(x) *)
Definition idx {A} (l : list A) (i : Z) : gres A :=
  if (0 <=? i) && (i <? len l) then
    match nth_error l (Z.to_nat i) with Some a => GOk a | None => GPanic end
  else GPanic.

(** x[a:b]: runtime panic unless 0 <= a <= b <= len(x) (cap(x) in Go; len is the stricter bound) *)
Definition slice {A} (l : list A) (a b : Z) : gres (list A) :=
  if (0 <=? a) && (a <=? b) && (b <=? len l) then GOk (firstn (Z.to_nat (b - a)) (skipn (Z.to_nat a) l))
  else GPanic.

(** x[i] = v *)
Definition upd {A} (l : list A) (i : Z) (v : A) : gres (list A) :=
  if (0 <=? i) && (i <? len l) then GOk (firstn (Z.to_nat i) l ++ v :: skipn (S (Z.to_nat i)) l)
  else GPanic.

Definition gbind {A B} (r : gres A) (k : A -> gres B) : gres B :=
  match r with GOk a => k a | GErr e => GErr e | GPanic => GPanic end.
Notation "x <- r ;; k" := (gbind r (fun x => k)) (at level 61, r at next level, right associativity).

(** * ValueStack (data[0] is the bottom; index 0 of the API is the top) *)
Section Stack.
Context {A : Type}.

Definition vs_insert (limit : Z) (data : list A) (index : Z) (t : A) : gres (list A) :=
  let l := len data in
  if vs_insert_full l limit then GErr EOverLimitStack else
  if vs_insert_bad index l then GErr EIndexOOB else
  let index := l - index in
  let data1 := data ++ [t] in                       (* self.data = append(self.data, t) *)
  src <- slice data1 index (len data1) ;;            (* self.data[index:] *)
  dst <- slice data1 (index + 1) (len data1) ;;      (* self.data[index+1:] *)
  (* copy(dst, src) copies min(len dst, len src) elements *)
  let moved := firstn (length dst) src in
  let data2 := firstn (Z.to_nat (index + 1)) data1 ++ moved in
  upd data2 index t.                                 (* self.data[index] = t *)

Definition vs_peek (data : list A) (index : Z) : gres A :=
  let l := len data in
  if vs_peek_bad index l then GErr EIndexOOB else
  let index := l - index in
  idx data (index - 1).

Definition vs_remove (data : list A) (index : Z) : gres (A * list A) :=
  let l := len data in
  if vs_remove_bad index l then GErr EIndexOOB else
  let index := l - index in
  v <- idx data (index - 1) ;;
  a <- slice data 0 (index - 1) ;;
  b <- slice data index l ;;
  GOk (v, a ++ b).

Definition vs_set (data : list A) (index : Z) (t : A) : gres (list A) :=
  if vs_set_bad index (len data) then GErr EIndexOOB else upd data index t.

Definition vs_push (limit : Z) (data : list A) (t : A) : gres (list A) :=
  if vs_push_full (len data) limit then GErr EOverStackLen else GOk (data ++ [t]).

Definition vs_pushmany (limit : Z) (data vals : list A) : gres (list A) :=
  if vs_pushmany_full (len data) (len vals) limit then GErr EOverStackLen else GOk (data ++ vals).

Definition vs_copyto (limit : Z) (self_data stack_data : list A) : gres (list A) :=
  if vs_copyto_full (len self_data) (len stack_data) limit then GErr EOverStackLen else GOk (stack_data ++ self_data).

Definition vs_pop (data : list A) : gres (A * list A) :=
  let length := len data in
  if length =? 0 then GErr EIndexOOB else
  v <- idx data (length - 1) ;;
  r <- slice data 0 (length - 1) ;;
  GOk (v, r).

Definition vs_swap (data : list A) (i j : Z) : gres (list A) :=
  let l := len data in
  if vs_swap_bad_i i l then GErr EIndexOOB else
  if vs_swap_bad_j j l then GErr EIndexOOB else
  if i =? j then GOk data else
  a <- idx data (l - i - 1) ;;
  b <- idx data (l - j - 1) ;;
  d1 <- upd data (l - i - 1) b ;;
  upd d1 (l - j - 1) a.

(** * Executor: splice *)
(** [start + count] is an int64 addition: it wraps *)
Definition i64 (z : Z) : Z := (z + 9223372036854775808) mod 18446744073709551616 - 9223372036854775808.

Definition ex_substr (arr : list A) (start count : Z) : gres (list A) :=
  let length := len arr in
  if ex_substr_start_bad start length then GErr EOverMaxArray else
  if ex_substr_count_bad count length then GErr EOverMaxArray else
  let fin := i64 (start + count) in
  if ex_substr_end_bad fin length then GErr EOverMaxArray else
  slice arr start fin.

Definition ex_left (arr : list A) (count : Z) : gres (list A) :=
  if ex_left_bad count (len arr) then GErr EOverMaxArray else slice arr 0 count.

Definition ex_right (arr : list A) (count : Z) : gres (list A) :=
  let length := len arr in
  if ex_right_bad count length then GErr EOverMaxArray else slice arr (length - count) length.

(** * Executor: element access *)
Definition ex_pickitem_array (data : list A) (ind : Z) : gres A :=
  if ex_pickitem_array_bad ind (len data) then GErr EIndexOOB else idx data ind.
Definition ex_pickitem_struct (data : list A) (ind : Z) : gres A :=
  if ex_pickitem_struct_bad ind (len data) then GErr EIndexOOB else idx data ind.
Definition ex_pickitem_bytes (data : list A) (ind : Z) : gres A :=
  if ex_pickitem_bytes_bad ind (len data) then GErr EIndexOOB else idx data ind.
Definition ex_setitem_array (data : list A) (ind : Z) (v : A) : gres (list A) :=
  if ex_setitem_array_bad ind (len data) then GErr EIndexOOB else upd data ind v.
Definition ex_setitem_struct (data : list A) (ind : Z) (v : A) : gres (list A) :=
  if ex_setitem_struct_bad ind (len data) then GErr EIndexOOB else upd data ind v.

(** ArrayValue.RemoveAt: append(self.Data[:index], self.Data[index+1:]...) *)
Definition arr_removeat (data : list A) (index : Z) : gres (list A) :=
  if arr_removeat_bad index (len data) then GErr EIndexOOB else
  a <- slice data 0 index ;;
  b <- slice data (index + 1) (len data) ;;
  GOk (a ++ b).

(** ArrayValue.Append (limit from the source: APPEND_MAX_ARRAY_SIZE) *)
Definition arr_append (data : list A) (v : A) : gres (list A) :=
  if APPEND_MAX_ARRAY_SIZE <=? len data then GErr EOverMaxArray else GOk (data ++ [v]).

(** NEWARRAY / NEWSTRUCT: [count] appends of a default element *)
Fixpoint append_n (n : nat) (data : list A) (v : A) : gres (list A) :=
  match n with O => GOk data | S k => d <- arr_append data v ;; append_n k d v end.
Definition ex_newarray (count : Z) (dflt : A) : gres (list A) :=
  if ex_newarray_bad count then GErr EBadValue else append_n (Z.to_nat count) [] dflt.

(** PACK: [size] pops appended to a new array; returns the array and the remaining stack *)
Fixpoint pack_n (n : nat) (stack acc : list A) : gres (list A * list A) :=
  match n with
  | O => GOk (acc, stack)
  | S k => p <- vs_pop stack ;; acc' <- arr_append acc (fst p) ;; pack_n k (snd p) acc'
  end.
(** the loop runs [size] times only as long as the pops succeed: fuel = min(size, stack depth + 1) *)
Definition ex_pack (stack : list A) (size : Z) : gres (list A * list A) :=
  if ex_pack_bad size then GErr EBadValue else
  pack_n (Z.to_nat (Z.min size (len stack + 1))) stack [].
End Stack.

(** * Executor: control flow *)
(** JMP/JMPIF/JMPIFNOT/CALL: [ip] is the reader position after the 2-byte operand was read;
    answers the new instruction pointer. bytes.Reader.Seek accepts any non-negative position. *)
Definition ex_jmp_target (ip codelen num : Z) : gres Z :=
  let offset := ip + num - 3 in
  if ex_jmp_bad offset codelen then GErr EFault else GOk offset.

Definition ex_dcall_target (codelen target : Z) : gres Z :=
  if ex_dcall_bad target codelen then GErr EDcallOffset else GOk target.

(** the next opcode is read with ReadByte at [ip]: end of code = clean stop, never an index *)
Definition read_opcode (code : list Z) (ip : Z) : option Z :=
  if (0 <=? ip) && (ip <? len code) then nth_error code (Z.to_nat ip) else None.

Definition ex_pushcontext (callers : Z) : gres Z :=
  if ex_pushcontext_full callers then GErr EOverStackLen else GOk (callers + 1).

(** * Native contracts: the repaired index tests (uint32 arithmetic written with its wrap) *)
Definition u32 (z : Z) : Z := z mod 4294967296.

(** revokePkByIndex, both storage versions: test, [index -= 1], then keys[index] *)
Definition ontid_revoke_index {A} (guard : Z -> Z -> bool) (keys : list A) (index : Z) : gres A :=
  if guard index (len keys) then GErr ENoSuchKey else
  let index := u32 (index - 1) in
  idx keys index.
Definition ontid_revoke_v0 {A} := @ontid_revoke_index A ontid_revoke_bad_v0.
Definition ontid_revoke_v1 {A} := @ontid_revoke_index A ontid_revoke_bad_v1.

(** getPk: publicKeys[index-1] *)
Definition ontid_getpk {A} (keys : list A) (index : Z) : gres A :=
  if len keys =? 0 then GErr ENoSuchKey else
  if ontid_getpk_bad index (len keys) then GErr ENoSuchKey else idx keys (u32 (index - 1)).

(** governance updateConfig (repaired 0545dab5): test of K, then [L % K] (integer division by
    zero is a run-time panic) *)
Definition gov_l_mod_k (l k : Z) : gres Z :=
  if gov_config_k_zero k then GErr EBadValue else
  if k =? 0 then GPanic else GOk (l mod k).

(** ontfs CheckPdpProve: length test, then proof[0:VersionLength] *)
Definition ontfs_proof_version {A} (proof : list A) : gres (list A) :=
  if ontfs_proof_short (len proof) then GErr EShort else slice proof 0 PDP_VERSION_LENGTH.

(** ontfs GenChallenge: x mod fileBlockNum ([None] = big.Int division by zero panic) *)
Definition ontfs_challenge (x n : Z) : gres Z :=
  if ontfs_blocknum_zero n then GErr EBadValue else
  if n =? 0 then GPanic else GOk (x mod n).

(** ontfs VerifyMerkleProof: proof[proofLength-1], proof[0], proof[1:proofLength-1] *)
Definition ontfs_merkle_parts {A} (proof : list A) : gres (A * A * list A) :=
  let n := len proof in
  if ontfs_merkle_short n then GErr EShort else
  root <- idx proof (n - 1) ;;
  first <- idx proof 0 ;;
  sib <- slice proof 1 (n - 1) ;;
  GOk (root, first, sib).

(** * Recursion counters on heap graphs (cycles expressible) *)

(** outcome of a counted recursion: finished / refused by the counter / Go would recurse deeper *)
Inductive cres := CDone (count : Z) | CRefused | COof.

(** cloneStruct(s, &length): [if *length > MAX_CLONE_LENGTH { error }]; for each element:
    [*length++], recurse into struct elements. Arrays and maps are shared, not cloned. Returns the
    counter (the clone itself is not needed for termination). *)
Fixpoint clone_list (rec : nat -> Z -> cres) (l : list hval) (length : Z) : cres :=
  match l with
  | [] => CDone length
  | v :: r =>
    let length := length + 1 in
    match v with
    | HStruct a =>
      match rec a length with
      | CDone length' => clone_list rec r length'
      | other => other
      end
    | _ => clone_list rec r length
    end
  end.

Fixpoint clone_struct (h : heap) (fuel : nat) (a : nat) (length : Z) : cres :=
  match fuel with
  | O => COof
  | S f => if clone_over length then CRefused else clone_list (clone_struct h f) (get_list h a) length
  end.

(** the stack cloneStruct can need: one frame per unit of the counter, plus the refusing call *)
Definition clone_fuel : nat := Z.to_nat MAX_CLONE_LENGTH + 3.

(** convertNeoVmValueHexString(count, length): both counters are tested on entry; arrays and
    structs do [*count++] before each element; primitives add their byte length to [*length]
    (abstracted by [plen]); maps are refused (default branch). State = (count, length). *)
Inductive vres := VDone (count length : Z) | VRefused | VOof.

Section Convert.
Variable plen : prim -> Z.

Fixpoint conv_list (rec : hval -> Z -> Z -> vres) (l : list hval) (count length : Z) : vres :=
  match l with
  | [] => VDone count length
  | v :: r =>
    match rec v (count + 1) length with
    | VDone c' l' => conv_list rec r c' l'
    | other => other
    end
  end.

Fixpoint convert (h : heap) (fuel : nat) (v : hval) (count length : Z) : vres :=
  match fuel with
  | O => VOof
  | S f =>
    if convert_count_over count then VRefused else
    if convert_length_over length then VRefused else
    match v with
    | HPrim p => VDone count (length + plen p)
    | HInterop => VDone count length
    | HStruct a | HArr a => conv_list (convert h f) (get_list h a) count length
    | HMap _ => VRefused
    end
  end.
End Convert.

Definition convert_fuel : nat := Z.to_nat CONVERT_MAX_COUNT + 3.

(** * The Invoke loop's accounting: every iteration pays at least MIN_OPCODE_GAS, and in
    pre-execution also one step out of VM_STEP_LIMIT. [step] is whatever one instruction does to
    the machine state (None = the loop ends: halt, fault or error). *)
Section Loop.
Context {St : Type}.
Variable step : St -> option St.       (* one instruction; unspecified *)
Variable price : St -> Z.            (* gas price of the next instruction *)

Record acct := mkAcct { gas : Z; steps : Z }.

(** one iteration of NeoVmService.Invoke: CheckExecStep (pre-exec only), CheckUseGas, execute *)
Definition iter (preexec : bool) (a : acct) (s : St) : option (acct * St) :=
  if preexec && sc_steps_over (steps a) then None else
  let a1 := if preexec then mkAcct (gas a) (steps a + 1) else a in
  if sc_gas_short (gas a1) (price s) then None else
  let a2 := mkAcct (gas a1 - price s) (steps a1) in
  match step s with Some s' => Some (a2, s') | None => None end.

(** run with fuel: answers the number of iterations done, or None when the fuel ran out *)
Fixpoint run (preexec : bool) (fuel : nat) (a : acct) (s : St) : option nat :=
  match fuel with
  | O => None
  | S f => match iter preexec a s with
           | None => Some O
           | Some (a', s') => option_map S (run preexec f a' s')
           end
  end.
End Loop.
