(** Model of the transaction codec: core/types/transaction.go (Deserialization,
    deserializeOntUnsigned, decodeEip155, isEip155TxBytes, TransactionFromEIP155,
    TransactionFromRawBytes, RawSig), core/payload/{invoke_code,deploy_code,eip155_code}.go and
    the field-wise writer core/types/mutable_transaction.go (serialize / serializeUnsigned, with
    RawSig.Serialization for the signature section).
    Executable definitions only; proofs are in Proofs/TxCodec.v. Built on Model/Codec.v
    (ZeroCopySource). Constants come from Gen/TxConsts.v (printed from the linked packages and
    read from validateDeployCode / checkVmFlags / VmType on every run).

    External functions are Section variables: [H] (sha256.Sum256), the go-ethereum RLP decoder
    and encoder for types.Transaction ([rlp_dec], [rlp_enc]) and the accessors of the decoded
    Ethereum transaction used by TransactionFromEIP155. Signature scripts are opaque byte
    strings here (their parsers belong to C23/C16). *)
From Coq Require Import List Bool Arith NArith.
Import ListNotations.
From Ont Require Import Lib.Bytes Gen.CodecConsts Gen.TxConsts Model.Codec.
Local Open Scope N_scope.
Open Scope bool_scope.

(** Errors of the decoder, one constructor per distinguishable Go error site.
    [TBackUp]: a ZeroCopySource.BackUp(n) with n > off (uint64 wrap; the next slicing read would
    be out of range). [TPanic]: DeployCode.VmType's panic("unreachable"). Both are excluded by
    theorem (Proofs/TxCodec.v: decode_total). *)
Inductive terr :=
| TEof | TIrregular | TVersion | TTxType | TUnreachable | TAttr | TSigCount | TOversize
| TVmFlags | TDeployLimit | TRlp | TEipSender | TEipBig | TEipGwei | TBackUp | TPanic.

(** A reader: runs on a source, returns a value or an error, and the source where it stopped. *)
Definition M (A : Type) : Type := source -> (A + terr) * source.
Definition ret {A} (a : A) : M A := fun s => (inl a, s).
Definition fail {A} (e : terr) : M A := fun s => (inr e, s).
Definition bind {A B} (m : M A) (f : A -> M B) : M B :=
  fun s => match m s with (inl a, s') => f a s' | (inr e, s') => (inr e, s') end.
Definition guard (b : bool) (e : terr) : M unit := if b then ret tt else fail e.
Notation "x <- m ;; f" := (bind m (fun x => f)) (at level 61, m at next level, right associativity).
Notation "m ;;; f" := (bind m (fun _ => f)) (at level 61, right associativity).

(** uint64 subtraction as Go performs it (pos - pstart). *)
Definition sub64 (a b : N) : N := (a + two64 - b) mod two64.

(** ZeroCopySource.BackUp(n): off -= n. *)
Definition back_up (s : source) (n : N) : option source :=
  if n <=? src_pos s then Some (mkSrc (buf s) (off s - N.to_nat n)) else None.

(** The read idioms of the anchored files: `x, eof := source.NextX(); if eof { return ErrUnexpectedEOF }`. *)
Definition m_pos : M N := fun s => (inl (src_pos s), s).
Definition m_byte : M N := fun s =>
  let '(v, eof, s') := next_byte s in if eof then (inr TEof, s') else (inl v, s').
(** `tx.Version, _ = source.NextByte()` (decodeEip155 ignores eof). *)
Definition m_byte_noeof : M N := fun s => let '(v, _, s') := next_byte s in (inl v, s').
Definition m_uint (w : nat) : M N := fun s =>
  let '(v, eof, s') := next_uint w s in if eof then (inr TEof, s') else (inl v, s').
Definition m_bytes (n : N) : M bytes := fun s =>
  let '(d, eof, s') := next_bytes s n in if eof then (inr TEof, s') else (inl d, s').
(** NextVarBytes / NextString with `if eof {...}; if irregular {...}` in that order ... *)
Definition m_varbytes_ei : M bytes := fun s =>
  let '(d, _, irr, eof, s') := next_varbytes s in
  if eof then (inr TEof, s') else if irr then (inr TIrregular, s') else (inl d, s').
(** ... and in the other order (DeployCode.Description, ReadVarBytes). *)
Definition m_varbytes_ie : M bytes := fun s =>
  let '(d, _, irr, eof, s') := next_varbytes s in
  if irr then (inr TIrregular, s') else if eof then (inr TEof, s') else (inl d, s').
(** NextVarUint with irregular tested before eof (attribute count; ReadVarUint). *)
Definition m_varuint_ie : M N := fun s =>
  let '(v, _, irr, eof, s') := next_varuint s in
  if irr then (inr TIrregular, s') else if eof then (inr TEof, s') else (inl v, s').

(** * Payloads *)
Record deploy := mkDeploy {
  d_code : bytes; d_flags : N; d_name : bytes; d_version : bytes; d_author : bytes;
  d_email : bytes; d_desc : bytes }.

Definition blen (b : bytes) : N := N.of_nat (length b).
Definition mem (x : N) (l : list N) : bool := existsb (N.eqb x) l.

(** DeployCode.VmType(): Some true = WASMVM_TYPE, Some false = NEOVM_TYPE, None = panic. *)
Definition vm_is_wasm (flags : N) : option bool :=
  if mem flags VM_FLAGS_NEO then Some false
  else if mem flags VM_FLAGS_WASM then Some true else None.

(** validateDeployCode: None = ok. *)
Definition validate_deploy (d : deploy) : option terr :=
  if negb (mem (d_flags d) VM_FLAGS_OK) then Some TVmFlags else
  match vm_is_wasm (d_flags d) with
  | None => Some TPanic
  | Some wasm =>
    if (if wasm then DEPLOY_MAX_WASM_CODE <? blen (d_code d) else DEPLOY_MAX_NEO_CODE <? blen (d_code d))
    then Some TDeployLimit
    else if DEPLOY_MAX_NAME <? blen (d_name d) then Some TDeployLimit
    else if DEPLOY_MAX_VERSION <? blen (d_version d) then Some TDeployLimit
    else if DEPLOY_MAX_AUTHOR <? blen (d_author d) then Some TDeployLimit
    else if DEPLOY_MAX_EMAIL <? blen (d_email d) then Some TDeployLimit
    else if DEPLOY_MAX_DESC <? blen (d_desc d) then Some TDeployLimit
    else None
  end.

(** InvokeCode.Deserialization *)
Definition invoke_deser : M bytes := m_varbytes_ei.

(** DeployCode.Deserialization *)
Definition deploy_deser : M deploy :=
  code <- m_varbytes_ei ;;
  flags <- m_byte ;;
  name <- m_varbytes_ei ;;
  version <- m_varbytes_ei ;;
  author <- m_varbytes_ei ;;
  email <- m_varbytes_ei ;;
  desc <- m_varbytes_ie ;;
  let d := mkDeploy code flags name version author email desc in
  match validate_deploy d with
  | Some e => fail e
  | None => ret d
  end.

Definition deploy_encode (d : deploy) : bytes :=
  write_varbytes (d_code d) ++ [d_flags d] ++ write_varbytes (d_name d) ++ write_varbytes (d_version d)
  ++ write_varbytes (d_author d) ++ write_varbytes (d_email d) ++ write_varbytes (d_desc d).

(** * Signature section: raw invocation / verification script pairs *)
Record rawsig := mkSig { sg_invoke : bytes; sg_verify : bytes }.

(** RawSig.Deserialization *)
Definition sig_deser : M rawsig :=
  inv <- m_varbytes_ei ;;
  ver <- m_varbytes_ei ;;
  ret (mkSig inv ver).

Definition sig_encode (g : rawsig) : bytes := write_varbytes (sg_invoke g) ++ write_varbytes (sg_verify g).

(** `for i := 0; i < int(length); i++ { sig.Deserialization; append }` *)
Fixpoint sigs_deser (n : nat) : M (list rawsig) :=
  match n with
  | O => ret []
  | S n' => g <- sig_deser ;; r <- sigs_deser n' ;; ret (g :: r)
  end.

(** go-ethereum, as used by the codec: *types.Transaction ([etx]), rlp.DecodeBytes /
    rlp.EncodeToBytes on it, and what TransactionFromEIP155 reads from it: Nonce(), GasPrice(),
    Gas(), the sender recovered by NewEIP155Signer(ChainId()).Sender (None = error), signer.Hash
    and Hash(). *)
Record ethapi (etx : Type) := mkEth {
  rlp_dec : bytes -> option etx;
  rlp_enc : etx -> bytes;
  e_nonce : etx -> N;
  e_gasprice : etx -> N;
  e_gas : etx -> N;
  e_sender : etx -> option bytes;
  e_sighash : etx -> bytes;
  e_hash : etx -> bytes }.
Arguments rlp_dec {etx}. Arguments rlp_enc {etx}. Arguments e_nonce {etx}. Arguments e_gasprice {etx}.
Arguments e_gas {etx}. Arguments e_sender {etx}. Arguments e_sighash {etx}. Arguments e_hash {etx}.

Section Tx.
(** sha256.Sum256 *)
Variable H : bytes -> bytes.
Variable etx : Type.
Variable E : ethapi etx.

Inductive payload := PInvoke (code : bytes) | PDeploy (d : deploy) | PEip (e : etx).

(** types.Transaction (the fields the codec sets). [t_attr] is `attributes`. *)
Record tx := mkTx {
  t_version : N; t_type : N; t_nonce : N; t_gasprice : N; t_gaslimit : N; t_payer : bytes;
  t_payload : payload; t_attr : N; t_sigs : list rawsig;
  t_raw : bytes; t_hash_unsigned : bytes; t_hash : bytes }.

Record unsigned := mkU {
  u_version : N; u_type : N; u_nonce : N; u_gasprice : N; u_gaslimit : N; u_payer : bytes;
  u_payload : payload }.

(** ** Writer: MutableTransaction.serializeUnsigned / serialize, Payload.Serialization *)
Definition payload_encode (p : payload) : bytes :=
  match p with
  | PInvoke c => write_varbytes c
  | PDeploy d => deploy_encode d
  | PEip e => write_varbytes (rlp_enc E e)
  end.

Definition encode_unsigned (ver ty nonce gp gl : N) (payer : bytes) (p : payload) (attr : N) : bytes :=
  [ver; ty] ++ write_uint32 nonce ++ write_uint64 gp ++ write_uint64 gl ++ payer
  ++ payload_encode p ++ write_varuint attr.

Definition tx_encode_unsigned (t : tx) : bytes :=
  encode_unsigned (t_version t) (t_type t) (t_nonce t) (t_gasprice t) (t_gaslimit t) (t_payer t)
                  (t_payload t) (t_attr t).

Definition sigs_encode (l : list rawsig) : bytes :=
  write_varuint (N.of_nat (length l)) ++ flat_map sig_encode l.

(** The one encoding of a transaction: Ontology format = unsigned part ++ signature section;
    EIP-155 format = version, type, varbytes(rlp) (TransactionFromEIP155). *)
Definition tx_encode (t : tx) : bytes :=
  match t_payload t with
  | PEip e => [t_version t; t_type t] ++ write_varbytes (rlp_enc E e)
  | _ => tx_encode_unsigned t ++ sigs_encode (t_sigs t)
  end.

(** Transaction.Serialization / ToArray: writes tx.Raw. *)
Definition tx_to_array (t : tx) : bytes := t_raw t.

(** ** deserializeOntUnsigned *)
Definition payload_deser (ty : N) : M payload :=
  if (ty =? TX_INVOKE_NEO) || (ty =? TX_INVOKE_WASM) then c <- invoke_deser ;; ret (PInvoke c)
  else if ty =? TX_DEPLOY then d <- deploy_deser ;; ret (PDeploy d)
  else fail TTxType.

Definition deserialize_ont_unsigned : M unsigned :=
  ver <- m_byte ;;
  guard (ver =? 0) TVersion ;;;
  ty <- m_byte ;;
  guard (negb (ty =? TX_EIP155)) TUnreachable ;;;
  nonce <- m_uint UINT32_SIZE ;;
  gp <- m_uint UINT64_SIZE ;;
  gl <- m_uint UINT64_SIZE ;;
  payer <- m_bytes (N.of_nat ADDR_LEN) ;;
  p <- payload_deser ty ;;
  n <- m_varuint_ie ;;
  guard (n =? 0) TAttr ;;;
  ret (mkU ver ty nonce gp gl payer p).

(** ** TransactionFromEIP155 (CheckChainID = false, the library default) *)
Definition tx_from_eip155 (e : etx) : tx + terr :=
  match e_sender E e with
  | None => inr TEipSender
  | Some addr =>
    if (MAX_UINT32 <? e_nonce E e) || negb (e_gasprice E e <? two64) then inr TEipBig
    else if negb (e_gasprice E e mod GWEI =? 0) then inr TEipGwei
    else inl (mkTx 0 TX_EIP155 (e_nonce E e) (e_gasprice E e / GWEI) (e_gas E e) addr (PEip e) 0 []
                   ([0; TX_EIP155] ++ write_varbytes (rlp_enc E e)) (e_sighash E e) (e_hash E e))
  end.

(** ** isEip155TxBytes: on eof the source is left at the end (no BackUp). *)
Definition is_eip155 : M bool := fun s =>
  let '(prefix, eof, s1) := next_bytes s 2 in
  if eof then (inl false, s1) else
  match back_up s1 2 with
  | Some s2 => (inl (nth 1 prefix 0 =? TX_EIP155), s2)
  | None => (inr TBackUp, s1)
  end.

(** ** decodeEip155 *)
Definition decode_eip155 : M tx :=
  pstart <- m_pos ;;
  ver <- m_byte_noeof ;;
  guard (ver =? 0) TVersion ;;;
  ty <- m_byte ;;
  guard (ty =? TX_EIP155) TUnreachable ;;;
  code <- m_varbytes_ie ;;
  match rlp_dec E code with
  | None => fail TRlp
  | Some e =>
    match tx_from_eip155 e with
    | inr er => fail er
    | inl t =>
      pend <- m_pos ;;
      guard (negb (MAX_TX_SIZE <? sub64 pend pstart)) TOversize ;;;
      ret t
    end
  end.

(** `source.BackUp(n); x, _ := source.NextBytes(n)` *)
Definition m_reread (n : N) : M bytes := fun s =>
  match back_up s n with
  | None => (inr TBackUp, s)
  | Some s1 => let '(d, _, s2) := next_bytes s1 n in (inl d, s2)
  end.

(** ** Transaction.Deserialization, Ontology format (everything after the isEip155TxBytes test) *)
Definition ont_deserialization : M tx :=
  pstart <- m_pos ;;
  u <- deserialize_ont_unsigned ;;
  pos <- m_pos ;;
  rawUnsigned <- m_reread (sub64 pos pstart) ;;
  let hu := H rawUnsigned in
  let h := H hu in
  length <- m_varuint_ie ;;
  guard (negb (TX_MAX_SIG_SIZE <? length)) TSigCount ;;;
  sigs <- sigs_deser (N.to_nat length) ;;
  pend <- m_pos ;;
  guard (negb (MAX_TX_SIZE <? sub64 pend pstart)) TOversize ;;;
  raw <- m_reread (sub64 pend pstart) ;;
  ret (mkTx (u_version u) (u_type u) (u_nonce u) (u_gasprice u) (u_gaslimit u) (u_payer u)
            (u_payload u) 0 sigs raw hu h).

(** ** Transaction.Deserialization *)
Definition tx_deserialization : M tx :=
  is155 <- is_eip155 ;;
  if is155 then decode_eip155 else ont_deserialization.

(** ** TransactionFromRawBytes *)
Definition tx_from_raw_bytes (raw : bytes) : (tx + terr) * source :=
  if MAX_TX_SIZE <? blen raw then (inr TOversize, src_new raw)
  else tx_deserialization (src_new raw).

End Tx.

Arguments PInvoke {etx}. Arguments PDeploy {etx}. Arguments PEip {etx}.
Arguments mkTx {etx}. Arguments t_version {etx}. Arguments t_type {etx}. Arguments t_nonce {etx}.
Arguments t_gasprice {etx}. Arguments t_gaslimit {etx}. Arguments t_payer {etx}. Arguments t_payload {etx}.
Arguments t_attr {etx}. Arguments t_sigs {etx}. Arguments t_raw {etx}. Arguments t_hash_unsigned {etx}.
Arguments t_hash {etx}.
Arguments mkU {etx}. Arguments u_version {etx}. Arguments u_type {etx}. Arguments u_nonce {etx}.
Arguments u_gasprice {etx}. Arguments u_gaslimit {etx}. Arguments u_payer {etx}. Arguments u_payload {etx}.
Arguments payload_encode {etx}. Arguments encode_unsigned {etx}. Arguments tx_encode_unsigned {etx}.
Arguments tx_encode {etx}. Arguments tx_to_array {etx}. Arguments payload_deser {etx}.
Arguments deserialize_ont_unsigned {etx}. Arguments tx_from_eip155 {etx}. Arguments decode_eip155 {etx}.
Arguments ont_deserialization H {etx}. Arguments tx_deserialization H {etx}. Arguments tx_from_raw_bytes H {etx}.
