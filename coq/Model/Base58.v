(** Executable model of common/address.go's textual address encodings:
      Address.ToBase58, AddressFromBase58, AddressParseFromBytes, Address.ToHexString,
      AddressFromHexString, common.ToArrayReverse / ToHexString / HexToBytes,
    and of what they call: github.com/itchyny/base58-go v0.1.0 (Encoding.Encode / Decode, which
    work on DECIMAL strings), the four math/big functions used (SetBytes, Bytes, String,
    SetString(_, 10)) and encoding/hex (EncodeToString, DecodeString).
    Strings are byte strings ([bytes] = [list N]), exactly as Go indexes them.
    Definitions only; proofs are in Proofs/Base58.v.

    Constants come from Gen/AddrConsts.v (regenerated from the current source on every run):
    the alphabet and radix of the linked base58 package, ADDR_LEN, MaxBase58AddrLen, and the
    literals of ToBase58 / AddressFromBase58 (version byte at both sites, checksum slice bounds,
    decoded length, address slice bounds). *)
From Coq Require Import List Bool Arith NArith.
Import ListNotations.
From Ont Require Import Lib.Bytes Lib.Radix Gen.AddrConsts.
Local Open Scope N_scope.
Open Scope bool_scope.

(** ** math/big, non-negative values only *)

(** new(big.Int).SetBytes(d): big-endian unsigned *)
Definition big_set_bytes (d : bytes) : N := of_digits 256 d.
(** x.Bytes(): minimal big-endian, empty for 0 *)
Definition big_bytes (x : N) : bytes := to_digits 256 x.

Definition ch_0 : N := 48.  (* '0' *)
(** x.String() / x.Append(buf, 10) for x >= 0: "0" for zero, otherwise no leading zero *)
Definition big_string10 (x : N) : bytes :=
  if x =? 0 then [ch_0] else map (fun d => ch_0 + d) (to_digits 10 x).

Definition dec_digit (c : N) : option N :=
  if (ch_0 <=? c) && (c <=? ch_0 + 9) then Some (c - ch_0) else None.

Fixpoint map_opt {A B} (f : A -> option B) (l : list A) : option (list B) :=
  match l with
  | [] => Some []
  | x :: r => match f x with
              | None => None
              | Some y => match map_opt f r with None => None | Some ys => Some (y :: ys) end
              end
  end.

(** new(big.Int).SetString(s, 10) on sign-less input: at least one character, decimal digits
    only (base 10 given explicitly: no prefix, no '_'), leading zeros allowed. A leading '+'/'-'
    (accepted by Go) cannot reach either call site: the arguments are big.Int.String() of a
    non-negative number and the output of Encoding.Decode, which are digit strings; the model
    answers None for them. *)
Definition big_set_string10 (s : bytes) : option N :=
  match s with
  | [] => None
  | _ => match map_opt dec_digit s with
         | None => None
         | Some ds => Some (of_digits 10 ds)
         end
  end.

(** ** github.com/itchyny/base58-go, BitcoinEncoding *)

Definition alpha (d : N) : N := nth (N.to_nat d) B58_ALPHABET 0.

(** decodeMap[c]: index of [c] in the alphabet. New() fills the map in increasing index order so a
    repeated character would keep its last index; the alphabet has no repetition
    ([alphabet_nodup]), so first = last. *)
Fixpoint index_from (i : N) (tbl : list N) (c : N) : option N :=
  match tbl with
  | [] => None
  | x :: r => if x =? c then Some i else index_from (i + 1) r c
  end.
Definition alpha_index (c : N) : option N := index_from 0 B58_ALPHABET c.

Fixpoint count_leading (z : N) (s : bytes) : nat :=
  match s with
  | c :: r => if c =? z then S (count_leading z r) else O
  | [] => O
  end.

(** Encode(src): src is a decimal string. *)
Definition b58_encode (src : bytes) : option bytes :=
  match src with
  | [] => Some []
  | _ =>
    match big_set_string10 src with
    | None => None
    | Some n =>
      (* one alphabet[0] per leading '0' of src, then the base-58 digits of n (loop
         DivMod until n = 0, reversed) *)
      Some (repeat (alpha 0) (count_leading ch_0 src) ++ map alpha (to_digits B58_RADIX n))
    end
  end.

(** the [zeros] loop of Decode: [c == alphabet[0] && i < len(src)-1] — the last character is
    never counted *)
Fixpoint count_leading_not_last (z : N) (s : bytes) : nat :=
  match s with
  | c :: (_ :: _) as r => if c =? z then S (count_leading_not_last z r) else O
  | _ => O
  end.

(** Decode(src): [None] = "invalid character"; the result is a decimal string. *)
Definition b58_decode (src : bytes) : option bytes :=
  match src with
  | [] => Some []
  | _ =>
    match map_opt alpha_index src with
    | None => None
    | Some ds =>
      Some (repeat ch_0 (count_leading_not_last (alpha 0) src) ++ big_string10 (of_digits B58_RADIX ds))
    end
  end.

(** ** common/address.go *)

Inductive aerr :=
| EInvalid     (* "invalid address": empty, longer than MaxBase58AddrLen, or SetString failed *)
| EBadChar     (* error of base58 Decode *)
| EWrong       (* "wrong encoded address": decoded length or version byte *)
| EParseLen    (* AddressParseFromBytes: len != 20 *)
| EVerify.     (* re-encoded string differs from the input *)

(** AddressParseFromBytes *)
Definition address_parse_from_bytes (f : bytes) : aerr + bytes :=
  if Nat.eqb (length f) B58_ADDR_LEN then inr f else inl EParseLen.

Section WithHash.
  (** sha256.Sum256 *)
  Variable H : bytes -> bytes.

  (** [temps[0:4]] of [temps = H (H data)] *)
  Definition checksum (data : bytes) : bytes := slice (H (H data)) CHK_LO (CHK_HI - CHK_LO).

  (** the 25 bytes version :: address ++ checksum *)
  Definition payload (a : bytes) : bytes :=
    let data := [ADDR_VERSION_ENC] ++ a in
    data ++ checksum data.

  (** Address.ToBase58; the error of Encode is dropped by the code ([encoded, _ :=]), a nil
      result would become "" *)
  Definition to_base58 (a : bytes) : bytes :=
    let bi := big_string10 (big_set_bytes (payload a)) in
    match b58_encode bi with
    | Some e => e
    | None => []
    end.

  (** AddressFromBase58 without its final re-encode comparison (used only to show what the
      comparison is needed for) *)
  Definition from_base58_nocheck (s : bytes) : aerr + bytes :=
    if (N.of_nat (length s) =? 0) || (MAX_B58_ADDR_LEN <? N.of_nat (length s)) then inl EInvalid else
    match b58_decode s with
    | None => inl EBadChar
    | Some dec =>
      match big_set_string10 dec with
      | None => inl EInvalid
      | Some x =>
        let buf := big_bytes x in
        if negb (Nat.eqb (length buf) DEC_LEN) || negb (nth DEC_VER_IDX buf 0 =? ADDR_VERSION_DEC)
        then inl EWrong
        else address_parse_from_bytes (slice buf DEC_LO (DEC_HI - DEC_LO))
      end
    end.

  (** AddressFromBase58 *)
  Definition from_base58 (s : bytes) : aerr + bytes :=
    match from_base58_nocheck s with
    | inl e => inl e
    | inr ph => if bytes_eqb (to_base58 ph) s then inr ph else inl EVerify
    end.
End WithHash.

(** ** hex *)

Inductive herr :=
| HErrLength            (* hex.ErrLength: odd length *)
| HErrChar (c : N)      (* hex.InvalidByteError(c) *)
| HParseLen.            (* AddressParseFromBytes: len != 20 *)

(** "0123456789abcdef"[d] *)
Definition hex_char (d : N) : N := if d <? 10 then 48 + d else 87 + d.

(** hex.EncodeToString / fmt.Sprintf("%x", []byte) *)
Definition hex_encode (b : bytes) : bytes :=
  flat_map (fun x => [hex_char (x / 16); hex_char (x mod 16)]) b.

(** reverseHexTable: '0'-'9', 'a'-'f', 'A'-'F' *)
Definition from_hex_char (c : N) : option N :=
  if (48 <=? c) && (c <=? 57) then Some (c - 48)
  else if (97 <=? c) && (c <=? 102) then Some (c - 87)
  else if (65 <=? c) && (c <=? 70) then Some (c - 55)
  else None.

(** hex.DecodeString: pairs left to right; the first bad character of a pair is reported; an odd
    trailing character is reported as invalid if it is, otherwise ErrLength *)
Fixpoint hex_decode (s : bytes) : herr + bytes :=
  match s with
  | [] => inr []
  | [p] => match from_hex_char p with None => inl (HErrChar p) | Some _ => inl HErrLength end
  | p :: q :: r =>
    match from_hex_char p with
    | None => inl (HErrChar p)
    | Some a =>
      match from_hex_char q with
      | None => inl (HErrChar q)
      | Some b =>
        match hex_decode r with
        | inl e => inl e
        | inr t => inr ((a * 16 + b) :: t)
        end
      end
    end
  end.

(** common.ToArrayReverse *)
Definition to_array_reverse (b : bytes) : bytes := rev b.

(** Address.ToHexString *)
Definition to_hex_string (a : bytes) : bytes := hex_encode (to_array_reverse a).

(** AddressFromHexString *)
Definition from_hex_string (s : bytes) : herr + bytes :=
  match hex_decode s with
  | inl e => inl e
  | inr hx =>
    match address_parse_from_bytes (to_array_reverse hx) with
    | inl _ => inl HParseLen
    | inr a => inr a
    end
  end.

(** ASCII lower-casing of 'A'-'F' (for stating that hex decoding is case-insensitive) *)
Definition hex_lower (c : N) : N := if (65 <=? c) && (c <=? 70) then c + 32 else c.
