(** Model of common.ZeroCopySource / ZeroCopySink and of common/serialization.
    Executable definitions only; proofs are in Proofs/Codec.v. Widths come from Gen/CodecConsts.v
    (printed from the linked package on every run). *)
From Coq Require Import List Bool Arith NArith ZArith.
Import ListNotations.
From Ont Require Import Lib.Bytes Gen.CodecConsts.
Local Open Scope N_scope.
Open Scope bool_scope.

(** * Source *)
Record source := mkSrc { buf : bytes; off : nat }.

Definition src_new (b : bytes) : source := mkSrc b 0.
Definition src_pos (s : source) : N := N.of_nat (off s).
Definition src_len (s : source) : N := N.of_nat (length (buf s) - off s).

(** NextBytes(n): clamps to the end and reports eof when off+n overflows uint64 or passes the end. *)
Definition next_bytes (s : source) (n : N) : bytes * bool * source :=
  let m := N.of_nat (length (buf s)) in
  let e := N.of_nat (off s) + n in
  if (two64 <=? e) || (m <? e)
  then (skipn (off s) (buf s), true, mkSrc (buf s) (length (buf s)))
  else (slice (buf s) (off s) (N.to_nat n), false, mkSrc (buf s) (N.to_nat e)).

Definition skip (s : source) (n : N) : bool * source :=
  let '(_, eof, s') := next_bytes s n in (eof, s').

Definition next_byte (s : source) : N * bool * source :=
  if (length (buf s) <=? off s)%nat then (0, true, s)
  else (nth (off s) (buf s) 0, false, mkSrc (buf s) (S (off s))).

(** NextBool: (data, irregular, eof). On eof the byte read is 0, so data = false. *)
Definition next_bool (s : source) : bool * bool * bool * source :=
  let '(v, eof, s') := next_byte s in
  if v =? 0 then (false, false, eof, s')
  else if v =? 1 then (true, false, eof, s')
  else (true, true, eof, s').

(** Fixed-width little-endian reads: on eof the offset has moved to the end and 0 is returned. *)
Definition next_uint (w : nat) (s : source) : N * bool * source :=
  let '(b, eof, s') := next_bytes s (N.of_nat w) in
  if eof then (0, true, s') else (le_decode b, false, s').

Definition next_uint16 := next_uint UINT16_SIZE.
Definition next_uint32 := next_uint UINT32_SIZE.
Definition next_uint64 := next_uint UINT64_SIZE.

Definition to_signed (w : nat) (v : N) : Z :=
  let m := (256 ^ N.of_nat w)%N in
  if (v <? m / 2)%N then Z.of_N v else (Z.of_N v - Z.of_N m)%Z.

Definition getVarUintSize (v : N) : N :=
  if v <? 253 then 1 else if v <=? 65535 then 3 else if v <=? 4294967295 then 5 else 9.

(** NextVarUint: (data, size, irregular, eof). *)
Definition next_varuint (s : source) : N * N * bool * bool * source :=
  let '(fb, eof, s1) := next_byte s in
  if eof then (0, 0, false, true, s1) else
  let fin (r : N * bool * source) (sz : N) :=
    let '(v, e, s2) := r in
    if e then (0, 0, false, true, s2)
    else (v, sz, negb (sz =? getVarUintSize v), false, s2) in
  if fb =? 253 then fin (next_uint16 s1) 3
  else if fb =? 254 then fin (next_uint32 s1) 5
  else if fb =? 255 then fin (next_uint64 s1) 9
  else (fb, 1, negb (1 =? getVarUintSize fb), false, s1).

(** NextVarBytes: (data, size, irregular, eof); size = prefix size + count modulo 2^64. *)
Definition next_varbytes (s : source) : bytes * N * bool * bool * source :=
  let '(count, size, irr, eof, s1) := next_varuint s in
  let size' := (size + count) mod two64 in
  if 0 <? count then
    let '(d, eof', s2) := next_bytes s1 count in (d, size', irr, eof', s2)
  else ([], size', irr, eof, s1).

(** NextAddress / NextHash / NextI128: fixed-size arrays, zero-filled on eof. *)
Definition next_fixed (w : nat) (s : source) : bytes * bool * source :=
  let '(b, eof, s') := next_bytes s (N.of_nat w) in
  if eof then (repeat 0 w, true, s') else (b, false, s').

Definition next_address := next_fixed ADDR_LEN.
Definition next_hash := next_fixed UINT256_SIZE.
Definition next_i128 := next_fixed I128_SIZE.

(** ReadVarUint / ReadVarBytes: irregular takes precedence over eof. *)
Inductive rerr := EIrregular | EEof.
Definition read_varuint (s : source) : (N + rerr) * source :=
  let '(v, _, irr, eof, s') := next_varuint s in
  if irr then (inr EIrregular, s') else if eof then (inr EEof, s') else (inl v, s').
Definition read_varbytes (s : source) : (bytes + rerr) * source :=
  let '(d, _, irr, eof, s') := next_varbytes s in
  if irr then (inr EIrregular, s') else if eof then (inr EEof, s') else (inl d, s').

(** * Sink: every write appends bytes *)
Definition write_uint8 (v : N) : bytes := [v mod 256].
Definition write_bool (b : bool) : bytes := [if b then 1 else 0].
Definition write_uint16 (v : N) : bytes := le_encode UINT16_SIZE v.
Definition write_uint32 (v : N) : bytes := le_encode UINT32_SIZE v.
Definition write_uint64 (v : N) : bytes := le_encode UINT64_SIZE v.
Definition of_signed (w : nat) (z : Z) : N := Z.to_N (z mod Z.of_N (256 ^ N.of_nat w)).
Definition write_varuint (v : N) : bytes :=
  if v <? 253 then [v]
  else if v <=? 65535 then 253 :: le_encode 2 v
  else if v <=? 4294967295 then 254 :: le_encode 4 v
  else 255 :: le_encode 8 v.
Definition varuint_size (v : N) : N := N.of_nat (length (write_varuint v)).
Definition write_varbytes (d : bytes) : bytes := write_varuint (N.of_nat (length d)) ++ d.

(** * Read scripts (used by the correspondence and by the safety theorem) *)
Inductive rop :=
| RByte | RBool | RU16 | RU32 | RU64 | RI16 | RI32 | RI64
| RVarUint | RVarBytes | RAddr | RHash | RI128 | RBytes (n : N) | RSkip (n : N)
| RReadVarUint | RReadVarBytes.

Inductive rres :=
| VNum (v : N) (eof : bool)
| VInt (v : Z) (eof : bool)
| VBool (b irr eof : bool)
| VVarUint (v size : N) (irr eof : bool)
| VBytes (d : bytes) (eof : bool)
| VVarBytes (d : bytes) (size : N) (irr eof : bool)
| VEofOnly (eof : bool)
| VOkNum (v : N) | VOkBytes (d : bytes) | VErr (e : rerr).

Definition run_rop (s : source) (o : rop) : rres * source :=
  match o with
  | RByte => let '(v, e, s') := next_byte s in (VNum v e, s')
  | RBool => let '(b, i, e, s') := next_bool s in (VBool b i e, s')
  | RU16 => let '(v, e, s') := next_uint16 s in (VNum v e, s')
  | RU32 => let '(v, e, s') := next_uint32 s in (VNum v e, s')
  | RU64 => let '(v, e, s') := next_uint64 s in (VNum v e, s')
  | RI16 => let '(v, e, s') := next_uint16 s in (VInt (to_signed UINT16_SIZE v) e, s')
  | RI32 => let '(v, e, s') := next_uint32 s in (VInt (to_signed UINT32_SIZE v) e, s')
  | RI64 => let '(v, e, s') := next_uint64 s in (VInt (to_signed UINT64_SIZE v) e, s')
  | RVarUint => let '(v, sz, i, e, s') := next_varuint s in (VVarUint v sz i e, s')
  | RVarBytes => let '(d, sz, i, e, s') := next_varbytes s in (VVarBytes d sz i e, s')
  | RAddr => let '(d, e, s') := next_address s in (VBytes d e, s')
  | RHash => let '(d, e, s') := next_hash s in (VBytes d e, s')
  | RI128 => let '(d, e, s') := next_i128 s in (VBytes d e, s')
  | RBytes n => let '(d, e, s') := next_bytes s n in (VBytes d e, s')
  | RSkip n => let '(e, s') := skip s n in (VEofOnly e, s')
  | RReadVarUint => match read_varuint s with (inl v, s') => (VOkNum v, s') | (inr e, s') => (VErr e, s') end
  | RReadVarBytes => match read_varbytes s with (inl d, s') => (VOkBytes d, s') | (inr e, s') => (VErr e, s') end
  end.

(** Run a script, recording each result together with Pos() after the step. *)
Fixpoint run_script (s : source) (ops : list rop) : list (rres * N) :=
  match ops with
  | [] => []
  | o :: r => let '(v, s') := run_rop s o in (v, src_pos s') :: run_script s' r
  end.

(** * Write scripts *)
Inductive wop :=
| WU8 (v : N) | WBool (b : bool) | WU16 (v : N) | WU32 (v : N) | WU64 (v : N)
| WI16 (z : Z) | WI32 (z : Z) | WI64 (z : Z)
| WVarUint (v : N) | WVarBytes (d : bytes) | WRaw (d : bytes).

Definition run_wop (o : wop) : bytes :=
  match o with
  | WU8 v => write_uint8 v | WBool b => write_bool b
  | WU16 v => write_uint16 v | WU32 v => write_uint32 v | WU64 v => write_uint64 v
  | WI16 z => write_uint16 (of_signed UINT16_SIZE z)
  | WI32 z => write_uint32 (of_signed UINT32_SIZE z)
  | WI64 z => write_uint64 (of_signed UINT64_SIZE z)
  | WVarUint v => write_varuint v
  | WVarBytes d => write_varbytes d
  | WRaw d => d
  end.

Definition run_wscript (ops : list wop) : bytes := flat_map run_wop ops.

(** The read op that reads back what a write op wrote, and the result it must give. *)
Definition readback (o : wop) : rop * rres :=
  match o with
  | WU8 v => (RByte, VNum v false)
  | WBool b => (RBool, VBool b false false)
  | WU16 v => (RU16, VNum v false) | WU32 v => (RU32, VNum v false) | WU64 v => (RU64, VNum v false)
  | WI16 z => (RI16, VInt z false) | WI32 z => (RI32, VInt z false) | WI64 z => (RI64, VInt z false)
  | WVarUint v => (RVarUint, VVarUint v (varuint_size v) false false)
  | WVarBytes d => (RVarBytes, VVarBytes d ((varuint_size (N.of_nat (length d)) + N.of_nat (length d)) mod two64) false false)
  | WRaw d => (RBytes (N.of_nat (length d)), VBytes d false)
  end.

(** * common/serialization (io.Reader based): functions over the remaining bytes *)
Inductive serr := SErrEof | SErrRange.
Definition ser_take (n : nat) (b : bytes) : option (bytes * bytes) :=
  if (n <=? length b)%nat then Some (firstn n b, skipn n b) else None.

Definition ser_read_uint (w : nat) (b : bytes) : (N * bytes) + serr :=
  match ser_take w b with Some (x, r) => inl (le_decode x, r) | None => inr SErrEof end.

Definition ser_read_varuint (b : bytes) (maxint : N) : (N * bytes) + serr :=
  let maxint := if maxint =? 0 then two64 - 1 else maxint in
  match b with
  | [] => inr SErrEof
  | fb :: r =>
    let chk (x : (N * bytes) + serr) :=
      match x with
      | inl (v, r') => if maxint <? v then inr SErrRange else inl (v, r')
      | inr e => inr e
      end in
    if fb =? 253 then chk (ser_read_uint 2 r)
    else if fb =? 254 then chk (ser_read_uint 4 r)
    else if fb =? 255 then chk (ser_read_uint 8 r)
    else chk (inl (fb, r))
  end.

Definition ser_read_varbytes (b : bytes) : (bytes * bytes) + serr :=
  match ser_read_varuint b 0 with
  | inr e => inr e
  | inl (n, r) =>
    if (n <=? N.of_nat (length r)) then inl (firstn (N.to_nat n) r, skipn (N.to_nat n) r) else inr SErrEof
  end.

Definition ser_write_varuint := write_varuint.
Definition ser_write_varbytes := write_varbytes.
