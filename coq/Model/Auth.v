(** C41 — executable model of the native auth contract
    (/repo/smartcontract/service/native/auth: auth.go, utils.go, state.go, param.go).

    Storage (utils.go): four families of keys under the auth contract's own address,
      this ++ contract ++ 0x01              -> admin ONT ID                (PreAdmin)
      this ++ contract ++ 0x02 ++ role      -> roleFuncs  (function names) (PreRoleFunc)
      this ++ contract ++ 0x03 ++ ontID     -> roleTokens ([]AuthToken)    (PreRoleToken)
      this ++ contract ++ 0x04 ++ ontID     -> Status     ([]DelegateStatus) (PreDelegateStatus)
    [this] and [contract] are 20-byte addresses and the prefix is one byte at a fixed offset, so a
    key is determined by (family, contract, suffix); the model keeps one finite map per family,
    keyed by (contract, suffix).  Values are kept exactly as stored: the ordered lists of tokens and
    delegation records, and the sorted de-duplicated list of function names.

    The identity proof (verifySig -> ONT ID contract's verifySignature(ontID, keyNo)) is an oracle
    given per call: [e_sig].  The real ONT ID contract answers TRUE or fails (the transaction
    aborts); the auth code also handles a non-TRUE answer without error, so the oracle is
    three-valued.  account.VerifyID is a pure function of the id string: the section variable
    [valid_id].

    Comparison operators, the expiry of admin-assigned tokens and the two level constants come
    from Gen/AuthConsts.v, which the translator regenerates from auth.go / param.go on every run. *)
From Coq Require Import List Bool NArith.
Import ListNotations.
From Ont Require Import Lib.Bytes Gen.AuthConsts.
Local Open Scope N_scope.
Open Scope bool_scope.

(* Readable names for byte strings (notations, so that terms stay syntactically [bytes]). *)
Notation addr := bytes (only parsing).
Notation ontid := bytes (only parsing).
Notation role := bytes (only parsing).
Notation fname := bytes (only parsing).   (* a Go string, as its bytes *)

(** state.go: AuthToken, DelegateStatus (embeds AuthToken). *)
Record token := mkTok { t_role : role; t_expire : N; t_level : N }.
Record dstat := mkDel { d_root : ontid; d_tok : token }.
Definition d_role (d : dstat) : role := t_role (d_tok d).
Definition d_expire (d : dstat) : N := t_expire (d_tok d).
Definition d_level (d : dstat) : N := t_level (d_tok d).

Inductive sigres := SigOk | SigFalse | SigErr.
Inductive res := RTrue | RFalse | RErr.

(** Per-call environment: block time (native.Time, uint32) and the identity-proof oracle. *)
Record env := mkEnv { e_now : N; e_sig : ontid -> N -> sigres }.

(** Finite maps as functions (lookup of the latest binding). *)
Definition key := (bytes * bytes)%type.
Definition key_eqb (a b : key) : bool := bytes_eqb (fst a) (fst b) && bytes_eqb (snd a) (snd b).
Definition fmap (V : Type) := key -> option V.
Definition fempty {V : Type} : fmap V := fun _ => None.
Definition fput {V : Type} (m : fmap V) (k : key) (v : V) : fmap V :=
  fun k' => if key_eqb k' k then Some v else m k'.

Record state := mkState {
  s_admin : fmap ontid;            (* key (contract, []) *)
  s_funcs : fmap (list fname);     (* key (contract, role) *)
  s_tokens : fmap (list token);    (* key (contract, ontID) *)
  s_deleg : fmap (list dstat) }.   (* key (contract, ontID) *)

Definition init_state : state := mkState fempty fempty fempty fempty.

Definition set_admin (s : state) (c : addr) (a : ontid) : state :=
  mkState (fput (s_admin s) (c, []) a) (s_funcs s) (s_tokens s) (s_deleg s).
Definition set_funcs (s : state) (k : key) (v : list fname) : state :=
  mkState (s_admin s) (fput (s_funcs s) k v) (s_tokens s) (s_deleg s).
Definition set_tokens (s : state) (k : key) (v : list token) : state :=
  mkState (s_admin s) (s_funcs s) (fput (s_tokens s) k v) (s_deleg s).
Definition set_deleg (s : state) (k : key) (v : list dstat) : state :=
  mkState (s_admin s) (s_funcs s) (s_tokens s) (fput (s_deleg s) k v).

Definition opt_list {A : Type} (o : option (list A)) : list A :=
  match o with Some l => l | None => [] end.

(** utils.go StringsDedupAndSort: drop "", remove duplicates, sort.Strings (bytewise order). *)
Fixpoint bytes_cmp (a b : bytes) : comparison :=
  match a, b with
  | [], [] => Eq
  | [], _ :: _ => Lt
  | _ :: _, [] => Gt
  | x :: a', y :: b' => match N.compare x y with Eq => bytes_cmp a' b' | c => c end
  end.
Fixpoint ins_uniq (f : fname) (l : list fname) : list fname :=
  match l with
  | [] => [f]
  | g :: l' => match bytes_cmp f g with
               | Lt => f :: l
               | Eq => l
               | Gt => g :: ins_uniq f l'
               end
  end.
Definition is_nil (b : bytes) : bool := match b with [] => true | _ => false end.
Definition dedup_sort (l : list fname) : list fname :=
  fold_right (fun f acc => if is_nil f then acc else ins_uniq f acc) [] l.

(** getContractAdmin / getRoleFunc (Deserialization re-applies StringsDedupAndSort). *)
Definition get_admin (s : state) (c : addr) : option ontid := s_admin s (c, []).
Definition get_role_func (s : state) (c : addr) (r : role) : option (list fname) :=
  option_map dedup_sort (s_funcs s (c, r)).
(** roleFuncs.ContainsFunc *)
Definition contains_func (fs : list fname) (fn : fname) : bool := existsb (bytes_eqb fn) fs.

(** auth.go getAuthToken: first admin-assigned token with the role (no expiry test), else the
    first delegation record with the role and [native.Time < expireTime]. *)
Definition tok_has_role (r : role) (t : token) : bool := bytes_eqb (t_role t) r.
Definition del_live_role (now : N) (r : role) (d : dstat) : bool :=
  bytes_eqb (d_role d) r && gat_deleg_live now (d_expire d).
Definition get_auth_token (s : state) (now : N) (c : addr) (id : ontid) (r : role) : option token :=
  match find (tok_has_role r) (opt_list (s_tokens s (c, id))) with
  | Some t => Some t
  | None =>
      match find (del_live_role now r) (opt_list (s_deleg s (c, id))) with
      | Some d => Some (d_tok d)
      | None => None
      end
  end.

Section WithValid.
Variable valid_id : ontid -> bool.   (* account.VerifyID *)

(** InitContractAdmin (contract = calling context's address). *)
Definition init_admin (s : state) (c : addr) (a : ontid) : res * state :=
  if negb (valid_id a) then (RErr, s) else
  match get_admin s c with
  | Some _ => (RFalse, s)
  | None => (RTrue, set_admin s c a)
  end.

(** Transfer / transfer: the identity checked is the stored admin. *)
Definition transfer (s : state) (e : env) (c : addr) (newAdmin : ontid) (keyNo : N) : res * state :=
  if negb (valid_id newAdmin) then (RErr, s) else
  match get_admin s c with
  | None => (RFalse, s)
  | Some a =>
      match e_sig e a keyNo with
      | SigErr => (RErr, s)
      | SigFalse => (RFalse, s)
      | SigOk => (RTrue, set_admin s c newAdmin)
      end
  end.

(** AssignFuncsToRole *)
Definition assign_funcs (s : state) (e : env) (c : addr) (adminId : ontid) (r : role)
           (fns : list fname) (keyNo : N) : res * state :=
  if is_nil r then (RErr, s) else   (* param.Role == nil: NextVarBytes yields nil for length 0 *)
  match get_admin s c with
  | None => (RErr, s)
  | Some a =>
      if negb (bytes_eqb a adminId) then (RFalse, s) else
      match e_sig e adminId keyNo with
      | SigErr => (RErr, s)
      | SigFalse => (RFalse, s)
      | SigOk =>
          let old := opt_list (get_role_func s c r) in
          (RTrue, set_funcs s (c, r) (dedup_sort (old ++ fns)))
      end
  end.

(** assignToRole: the loop body for one person. *)
Definition assign_one (now : N) (c : addr) (r : role) (s : state) (p : ontid) : state :=
  let tok := mkTok r AUTH_FUTURE ADMIN_TOKEN_LEVEL in
  match s_tokens s (c, p) with
  | None => set_tokens s (c, p) [tok]
  | Some ts =>
      match get_auth_token s now c p r with
      | Some _ => s                                   (* hasRole: continue *)
      | None => set_tokens s (c, p) (ts ++ [tok])
      end
  end.

(** AssignOntIDsToRole / assignToRole *)
Definition assign_ids (s : state) (e : env) (c : addr) (adminId : ontid) (r : role)
           (persons : list ontid) (keyNo : N) : res * state :=
  if is_nil r then (RErr, s) else
  if existsb (fun p => negb (valid_id p)) persons then (RErr, s) else
  match get_admin s c with
  | None => (RErr, s)
  | Some a =>
      if negb (bytes_eqb a adminId) then (RFalse, s) else
      match e_sig e adminId keyNo with
      | SigErr => (RErr, s)
      | SigFalse => (RFalse, s)
      | SigOk => (RTrue, fold_left (assign_one (e_now e) c r) persons s)
      end
  end.

(** delegate: overwrite the first record with the role, else append. *)
Fixpoint upd_status (r : role) (from : ontid) (lvl exp : N) (l : list dstat) : list dstat :=
  match l with
  | [] => [mkDel from (mkTok r exp lvl)]
  | d :: l' =>
      if bytes_eqb (d_role d) r then mkDel from (mkTok (d_role d) exp lvl) :: l'
      else d :: upd_status r from lvl exp l'
  end.

(** Delegate + DelegateParam.Deserialization's range check + delegate.  [period], [level] are the
    decoded varuints (uint64). *)
Definition delegate (s : state) (e : env) (c : addr) (from to : ontid) (r : role)
           (period level keyNo : N) : res * state :=
  if del_param_too_large level period then (RErr, s) else
  if del_entry_too_large period level then (RErr, s) else
  let period := period mod 4294967296 in   (* uint32(param.Period) *)
  let level := level mod 256 in            (* uint8(param.Level) *)
  let now := e_now e in
  if del_overflow period now then (RErr, s) else
  let expire := (now + period) mod 4294967296 in
  match e_sig e from keyNo with
  | SigErr => (RErr, s)
  | SigFalse => (RFalse, s)
  | SigOk =>
      if negb (valid_id to) then (RErr, s) else
      match get_auth_token s now c from r, get_auth_token s now c to r with
      | Some ft, None =>
          if (t_level ft =? DELEGATOR_LEVEL) && del_allowed level (t_level ft) expire (t_expire ft)
          then (RTrue, set_deleg s (c, to) (upd_status r from level expire (opt_list (s_deleg s (c, to)))))
          else (RFalse, s)
      | _, _ => (RFalse, s)
      end
  end.

Fixpoint remove_first {A : Type} (f : A -> bool) (l : list A) : option (list A) :=
  match l with
  | [] => None
  | x :: l' => if f x then Some l' else option_map (cons x) (remove_first f l')
  end.

(** withdraw *)
Definition withdraw (s : state) (e : env) (c : addr) (initiator delegate_ : ontid) (r : role)
           (keyNo : N) : res * state :=
  match e_sig e initiator keyNo with
  | SigErr => (RErr, s)
  | SigFalse => (RFalse, s)
  | SigOk =>
      match get_auth_token s (e_now e) c initiator r with
      | None => (RFalse, s)
      | Some _ =>
          match s_deleg s (c, delegate_) with
          | None => (RFalse, s)
          | Some l =>
              match remove_first (fun d => bytes_eqb (d_role d) r && bytes_eqb (d_root d) initiator) l with
              | None => (RFalse, s)
              | Some l' => (RTrue, set_deleg s (c, delegate_) l')
              end
          end
      end
  end.

(** verifyToken *)
Definition tok_grants (s : state) (now : N) (c : addr) (fn : fname) (t : token) : bool :=
  match get_role_func s c (t_role t) with
  | None => false
  | Some fs => negb (vt_token_expired (t_expire t) now) && contains_func fs fn
  end.
Definition del_grants (s : state) (now : N) (c : addr) (fn : fname) (d : dstat) : bool :=
  match get_role_func s c (d_role d) with
  | None => false
  | Some fs => negb (vt_deleg_expired (d_expire d) now) && contains_func fs fn
  end.
Definition verify_token (s : state) (e : env) (c : addr) (caller : ontid) (fn : fname) (keyNo : N) : res :=
  match e_sig e caller keyNo with
  | SigErr => RErr
  | SigFalse => RFalse
  | SigOk =>
      if existsb (tok_grants s (e_now e) c fn) (opt_list (s_tokens s (c, caller))) then RTrue
      else if existsb (del_grants s (e_now e) c fn) (opt_list (s_deleg s (c, caller))) then RTrue
      else RFalse
  end.

(** Histories. *)
Inductive op :=
| OInit (c : addr) (admin : ontid)
| OTransfer (c : addr) (newAdmin : ontid) (keyNo : N)
| OAssignFuncs (c : addr) (admin : ontid) (r : role) (fns : list fname) (keyNo : N)
| OAssignIds (c : addr) (admin : ontid) (r : role) (persons : list ontid) (keyNo : N)
| ODelegate (c : addr) (from to : ontid) (r : role) (period level keyNo : N)
| OWithdraw (c : addr) (initiator delegate_ : ontid) (r : role) (keyNo : N)
| OVerify (c : addr) (caller : ontid) (fn : fname) (keyNo : N).

Record event := mkEv { ev_env : env; ev_op : op }.

(** One native call; an erroring call aborts the transaction, a refused one (FALSE) changes
    nothing either: in both cases the state is returned unchanged. *)
Definition step (s : state) (ev : event) : res * state :=
  let e := ev_env ev in
  match ev_op ev with
  | OInit c a => init_admin s c a
  | OTransfer c a k => transfer s e c a k
  | OAssignFuncs c a r fns k => assign_funcs s e c a r fns k
  | OAssignIds c a r ps k => assign_ids s e c a r ps k
  | ODelegate c f t r p l k => delegate s e c f t r p l k
  | OWithdraw c i d r k => withdraw s e c i d r k
  | OVerify c id fn k => (verify_token s e c id fn k, s)
  end.

Definition run_from (s : state) (h : list event) : state := fold_left (fun s ev => snd (step s ev)) h s.
Definition run (h : list event) : state := run_from init_state h.

End WithValid.
