(** Types and reader combinators shared by the generated header layout (Gen/BlockLayout.v, printed
    from core/types/header.go on every run) and the block codec model (Model/BlockCodec.v).
    Definitions only. *)
From Coq Require Import List Bool Arith NArith.
Import ListNotations.
From Ont Require Import Lib.Bytes Gen.CodecConsts Model.Codec.
Local Open Scope N_scope.
Open Scope bool_scope.

(** Decoding errors. [DEof] = io.ErrUnexpectedEOF, [DIrregular] = common.ErrIrregularData,
    [DKey] = error of keypair.DeserializePublicKey, [DTx e] = error [e] of
    Transaction.Deserialization (0 eof, 1 irregular, otherwise other), [DDup] = "duplicated
    transaction in block", [DRoot] = "mismatched transaction root". [DFuel] is not a Go error: it
    is the model running out of recursion fuel (excluded in the theorems). *)
Inductive derr := DEof | DIrregular | DKey | DTx (e : N) | DDup | DRoot | DFuel.

(** The unsigned part of types.Header (field names = Go field names with an [h] prefix). *)
Record uhdr := mkU {
  hVersion : N;
  hPrevBlockHash : bytes;
  hTransactionsRoot : bytes;
  hBlockRoot : bytes;
  hTimestamp : N;
  hHeight : N;
  hConsensusData : N;
  hConsensusPayload : bytes;
  hNextBookkeeper : bytes
}.

(** Reader combinators in continuation style. The name says which ZeroCopySource method is called
    and which flags the Go code tests afterwards, in the order it tests them; the translator
    builds the name from the statements it finds, so a dropped or reordered test yields a name
    that does not exist here and the generated file stops compiling. *)
Definition rd_NextUint32_eof {R} (s : source) (k : N -> source -> R + derr) : R + derr :=
  let '(v, eof, s') := next_uint32 s in if eof then inr DEof else k v s'.
Definition rd_NextUint64_eof {R} (s : source) (k : N -> source -> R + derr) : R + derr :=
  let '(v, eof, s') := next_uint64 s in if eof then inr DEof else k v s'.
Definition rd_NextHash_eof {R} (s : source) (k : bytes -> source -> R + derr) : R + derr :=
  let '(v, eof, s') := next_hash s in if eof then inr DEof else k v s'.
Definition rd_NextAddress_eof {R} (s : source) (k : bytes -> source -> R + derr) : R + derr :=
  let '(v, eof, s') := next_address s in if eof then inr DEof else k v s'.
Definition rd_NextVarBytes_eof_irregular {R} (s : source) (k : bytes -> source -> R + derr) : R + derr :=
  let '(v, _, irr, eof, s') := next_varbytes s in
  if eof then inr DEof else if irr then inr DIrregular else k v s'.

(** Writer pieces used by the generated serializer. [wr_WriteBytes] is sink.WriteBytes(x[:]). *)
Definition wr_WriteUint32 (v : N) : bytes := write_uint32 v.
Definition wr_WriteUint64 (v : N) : bytes := write_uint64 v.
Definition wr_WriteBytes (d : bytes) : bytes := d.
Definition wr_WriteVarBytes (d : bytes) : bytes := write_varbytes d.
