(** Model of the transaction signature validator:
    - core/validation/transaction_validator.go  (VerifyTransaction, checkTransactionSignatures),
    - core/signature/signature.go               (Verify, VerifyMultiSignature),
    - core/types/transaction.go                 (RawSig.GetSig, Transaction.GetSignatureAddresses).
    Executable definitions only; proofs are in Proofs/Sig.v and Proofs/SigAddr.v.

    Built on Model/Program.v (script parsers, address derivation; C23).  The three integer guards
    of the validator come from Gen/SigGuards.v (translated from the source text on every run), the
    constants from Gen/SigConsts.v.

    What the validator reads of a transaction is the record [vtx]: IsEipTx(), Hash(), Payer, Sigs.
    (Hash() of an Ontology-format transaction is sha256(sha256(unsigned bytes)): Model/TxCodec.v, C19.)

    External functions are Section variables:
      [deser]   keypair.DeserializePublicKey
      [sdeser]  ontology-crypto/signature.Deserialize  (None = error)
      [sverify] ontology-crypto/signature.Verify       (true / false / run-time panic; core/signature
                calls it only through its recovering wrapper, [wverify])
      [H]       RIPEMD160 . SHA256 (common.AddressFromVmCode), [Keth] Keccak256(.)[12:].
    The abstract signatures of DESIGN section 2 ([asig], [abs_verify]) are one instance, defined at
    the end of this file; it is the instance the correspondence cases run. *)
From Coq Require Import List Bool Arith NArith ZArith.
Import ListNotations.
From Ont Require Import Lib.Bytes Model.Codec Gen.ProgramConsts Model.Program Gen.SigConsts Gen.SigGuards.
Local Open Scope N_scope.
Open Scope bool_scope.

(** types.RawSig *)
Record rawsig := mkRawSig { rs_invoke : bytes; rs_verify : bytes }.

(** What checkTransactionSignatures reads of a *types.Transaction. *)
Record vtx := mkVtx { v_eip : bool; v_hash : bytes; v_payer : bytes; v_sigs : list rawsig }.

(** types.Sig *)
Record sigset := mkSigSet { ss_sigdata : list bytes; ss_keys : list pubkey; ss_m : N }.

(** Result of one signature.Verify call of the crypto library. *)
Inductive vout := VTrue | VFalse | VPanic.

(** Errors of checkTransactionSignatures, one constructor per error site. *)
Inductive verr :=
| VEGetSig (e : perr)  (* RawSig.GetSig: GetParamInfo / GetProgramInfo error *)
| VETooMany            (* "transaction signature number %d execced %d" *)
| VEParamLen           (* "wrong tx sig param length" *)
| VESingle             (* "signature verification failed" (kn == 1) *)
| VENotEnough          (* "not enough signatures in multi-signature" *)
| VESigData            (* "invalid signature data" (VerifyMultiSignature) *)
| VEMulti              (* "multi-signature verification failed" *)
| VEAddr               (* AddressFromMultiPubKeys: "wrong multi-sig param" *)
| VEPayer.             (* "signature missing for payer" *)

(** [VAccept addrs]: nil error, tx.SignedAddr := addrs (a Go map's keys: the order is not
    specified; the model lists them in order of first insertion).  [VAcceptEip]: the early return
    for EIP-155 transactions (SignedAddr untouched).  [VCrash]: a run-time panic. *)
Inductive vres := VAccept (addrs : list bytes) | VAcceptEip | VReject (e : verr) | VCrash.

Definition mem_addr (a : bytes) (l : list bytes) : bool := existsb (bytes_eqb a) l.

(** address[a] = true on a map[common.Address]bool *)
Definition add_addr (a : bytes) (l : list bytes) : list bytes := if mem_addr a l then l else l ++ [a].

Section Validator.
Variable deser : bytes -> option pubkey.
Variable sigT : Type.
Variable sdeser : bytes -> option sigT.
Variable sverify : pubkey -> bytes -> sigT -> vout.
Variable H : bytes -> bytes.
Variable Keth : bytes -> bytes.

(** RawSig.GetSig *)
Definition get_sig (r : rawsig) : sigset + perr :=
  match get_param_info (rs_invoke r) with
  | inr e => inr e
  | inl sigs =>
    match get_program_info deser (rs_verify r) with
    | inr e => inr e
    | inl (keys, m) => inl (mkSigSet sigs keys m)
    end
  end.

(** core/signature.verify (the wrapper added by the repair c4422b91): the crypto library's Verify
    under a deferred recover; a panic of the library counts as "does not verify".  Its shape is
    checked by the translator on every run (Gen/SigGuards.v, verify_wrapper_recovers). *)
Definition wverify (k : pubkey) (h : bytes) (s : sigT) : bool :=
  match sverify k h s with VTrue => true | VFalse => false | VPanic => false end.

(** core/signature.Verify(pubKey, data, signature) *)
Inductive sres := SOk | SErrData | SErrVerify.

Definition verify_single (k : pubkey) (h : bytes) (sb : bytes) : sres :=
  match sdeser sb with
  | None => SErrData
  | Some s => if wverify k h s then SOk else SErrVerify
  end.

(** The inner loop of VerifyMultiSignature:
      for j := 0; j < n; j++ { if mask[j] {continue}; if verify(keys[j], data, sig) { mask[j] = true; valid = true; break } } *)
Inductive slot := SFound (mask' : list bool) | SNone.

Fixpoint find_slot (h : bytes) (s : sigT) (keys : list pubkey) (mask : list bool) : slot :=
  match keys, mask with
  | k :: ks, b :: bs =>
    if b then
      match find_slot h s ks bs with SFound m' => SFound (b :: m') | SNone => SNone end
    else if wverify k h s then SFound (true :: bs)
    else match find_slot h s ks bs with SFound m' => SFound (false :: m') | SNone => SNone end
  | _, _ => SNone
  end.

Inductive mres := MOk | MErr (e : verr) | MCrash.

(** for i := 0; i < m; i++ { sig, err := s.Deserialize(sigs[i]) ... } ; [sigs] is the not yet
    visited suffix.  An empty suffix with i < m is the index panic sigs[i] (excluded by the
    length test before the loop). *)
Fixpoint multi_loop (h : bytes) (keys : list pubkey) (m : nat) (sigs : list bytes) (mask : list bool) : mres :=
  match m with
  | O => MOk
  | S m' =>
    match sigs with
    | [] => MCrash
    | sb :: rest =>
      match sdeser sb with
      | None => MErr VESigData
      | Some s =>
        match find_slot h s keys mask with
        | SFound mask' => multi_loop h keys m' rest mask'
        | SNone => MErr VEMulti
        end
      end
    end
  end.

(** core/signature.VerifyMultiSignature(data, keys, m, sigs); m is a Go int. *)
Definition verify_multi (h : bytes) (keys : list pubkey) (m : Z) (sigs : list bytes) : mres :=
  if multi_not_enough (Z.of_nat (length sigs)) m then MErr VENotEnough
  else multi_loop h keys (Z.to_nat m) sigs (repeat false (length keys)).

(** One iteration of `for _, sigdata := range tx.Sigs`: the address added to the map, an error,
    or a panic. *)
Inductive cres := COk (addr : bytes) | CErr (e : verr) | CCrash.

Definition check_sigset (h : bytes) (r : rawsig) : cres :=
  match get_sig r with
  | inr e => CErr (VEGetSig e)
  | inl ss =>
    let m := Z.of_N (ss_m ss) in
    let kn := Z.of_nat (length (ss_keys ss)) in
    let sn := Z.of_nat (length (ss_sigdata ss)) in
    if sig_param_bad kn sn m then CErr VEParamLen
    else if (kn =? 1)%Z then
      match ss_keys ss, ss_sigdata ss with
      | k :: _, sb :: _ =>
        match verify_single k h sb with
        | SOk => match address_from_pubkey H Keth k with AOk a => COk a | _ => CCrash end
        | _ => CErr VESingle
        end
      | _, _ => CCrash   (* sig.PubKeys[0] / sig.SigData[0] out of range: excluded by the guard *)
      end
    else
      match verify_multi h (ss_keys ss) m (ss_sigdata ss) with
      | MErr e => CErr e
      | MCrash => CCrash
      | MOk =>
        match address_from_multi_pubkeys H (ss_keys ss) m with
        | AOk a => COk a
        | AErrParam => CErr VEAddr
        | APanic => CCrash
        end
      end
  end.

Inductive lres := LOk (addrs : list bytes) | LErr (e : verr) | LCrash.

Fixpoint check_sigs (h : bytes) (rs : list rawsig) (acc : list bytes) : lres :=
  match rs with
  | [] => LOk acc
  | r :: rest =>
    match check_sigset h r with
    | COk a => check_sigs h rest (add_addr a acc)
    | CErr e => LErr e
    | CCrash => LCrash
    end
  end.

(** checkTransactionSignatures *)
Definition check_transaction_signatures (t : vtx) : vres :=
  if v_eip t then VAcceptEip
  else if too_many_sigs (Z.of_nat (length (v_sigs t))) then VReject VETooMany
  else
    match check_sigs (v_hash t) (v_sigs t) [] with
    | LErr e => VReject e
    | LCrash => VCrash
    | LOk addrs => if mem_addr (v_payer t) addrs then VAccept addrs else VReject VEPayer
    end.

(** VerifyTransaction's error code for a transaction whose payload check passes (invoke
    payloads and NeoVM deployments); None = panic. *)
Definition verify_transaction_code (t : vtx) : option N :=
  match check_transaction_signatures t with
  | VAccept _ | VAcceptEip => Some ERR_NO_ERROR
  | VReject _ => Some ERR_VERIFY_SIGNATURE
  | VCrash => None
  end.

(** Transaction.GetSignatureAddresses: the cached tx.SignedAddr when it is not empty, else the
    hash of every raw verification script. *)
Definition fallback_addresses (t : vtx) : list bytes := map (fun r => H (rs_verify r)) (v_sigs t).

Definition get_signature_addresses (signed : list bytes) (t : vtx) : list bytes :=
  match signed with [] => fallback_addresses t | _ => signed end.

(** The address the validator derives for a parsed signature set. *)
Definition sigset_address (ss : sigset) : ares :=
  match ss_keys ss with
  | [k] => address_from_pubkey H Keth k
  | ks => address_from_multi_pubkeys H ks (Z.of_N (ss_m ss))
  end.

End Validator.

(** * Abstract signatures (DESIGN section 2)

    A signature is the pair (signer, message) it was made over; anything else that deserializes is
    [SigJunk].  Two classes of run-time panics of the crypto library's Verify are part of the
    model of the LIBRARY (found by C16, repaired in core/signature by c4422b91: the validator now
    treats them as "does not verify"; the witnesses are regression probes in corpus/C16):
    - [SigEthShort]: a signature of scheme KECCAK256WithECDSA whose value has fewer than
      ETH_RECOVERY_ID_OFFSET bytes; Verify slices sig[:64] for an Ethereum-style key and panics;
    - [weak] keys: an EC key given in uncompressed form is not checked to lie on its curve
      (ec.DecodePublicKey, "TODO verify whether (x,y) is on the curve"); Go's curve arithmetic
      panics on such a point.  Whether a signature reaches that arithmetic depends on its scheme
      and on the range of (r, s) relative to the order of the key's curve; the harness determines
      it by calling Verify with an off-curve key of every curve label, and the signature carries
      the list [pc] of the curve labels on which it does.

    The signer is identified by what Verify looks at: for *ec.PublicKey (key types ECDSA and SM2)
    the curve and the point - the algorithm tag of the key is not consulted, the signature's
    scheme byte selects ECDSA or SM2 - and the whole key otherwise. *)
Inductive asig := SigOf (k : pubkey) (m : bytes) (pc : list N) | SigJunk (pc : list N) | SigEthShort.

Definition sig_panic_curves (s : asig) : list N :=
  match s with SigOf _ _ pc | SigJunk pc => pc | SigEthShort => [] end.

Definition is_ec (k : pubkey) : bool := (pk_type k =? PK_ECDSA) || (pk_type k =? PK_SM2).

Definition same_signer (a b : pubkey) : bool :=
  if is_ec a && is_ec b
  then (pk_curve a =? pk_curve b) && (pk_x a =? pk_x b) && (pk_y a =? pk_y b)
  else pubkey_eqb a b.

Section AbsVerify.
(** [weak k]: an EC key whose point is not on its curve. *)
Variable weak : pubkey -> bool.

Definition abs_verify (k : pubkey) (m : bytes) (s : asig) : vout :=
  if weak k && existsb (N.eqb (pk_curve k)) (sig_panic_curves s) then VPanic
  else match s with
  | SigOf k' m' _ => if same_signer k k' && bytes_eqb m m' then VTrue else VFalse
  | SigJunk _ => VFalse
  | SigEthShort => if pk_type k =? PK_ETHECDSA then VPanic else VFalse
  end.
End AbsVerify.
