(** Specification side of C05: what "only the fee moved" means on the ordered-map view of the
    block state ([abs_block] of Model/KV.v, the C04 abstraction). Definitions only. *)
From Coq Require Import List Bool NArith ZArith.
Import ListNotations.
From Ont Require Import Lib.Bytes Lib.U64 Model.KV Model.NeoInt Gen.FeeConsts Gen.FeeFormulas Model.Fee.
Local Open Scope N_scope.

(** the ONG balance (10^-18 ONG) of an address in an ordered map of stored records *)
Definition bal_in (l : list kv) (a : bytes) : option Z :=
  read_balance (kv_lookup (pkey pfx (ong_key a)) l).

(** the stored form of a balance: no record for zero, else MustToStorageItemBytes *)
Definition enc_bal (b : Z) : bytes :=
  if (b =? 0)%Z then [] else match balance_to_bytes b with Some raw => raw | None => [] end.

Definition set_bal (a : bytes) (b : Z) (l : list kv) : list kv :=
  spec_put (pkey pfx (ong_key a)) (enc_bal b) l.

(** [fee] (10^-9 ONG) moved from [payer] to the governance contract in map [l], giving [l']:
    nothing at all for a zero fee; otherwise the payer had at least that much, and the two
    records — and only they — are rewritten. *)
Definition fee_moved (payer : bytes) (fee : N) (l l' : list kv) : Prop :=
  (fee = 0 /\ l' = l) \/
  (fee <> 0 /\ exists fb tb : Z,
      let v := (Z.of_N fee * ScaleFactor)%Z in
      bal_in l payer = Some fb /\ (v <= fb)%Z /\
      bal_in (set_bal payer (fb - v) l) FEE_GOV_ADDR = Some tb /\
      l' = set_bal FEE_GOV_ADDR (tb + v) (set_bal payer (fb - v) l)).

(** The property for one failed transaction: [before] is the state the transaction started from,
    [r] what handling it produced. *)
Definition only_fee (payer : bytes) (before : state) (r : result) : Prop :=
  st_store (r_state r) = st_store before /\
  r_fee_events r = fee_events (r_gas r) /\
  r_events r = N.of_nat (length (fee_events (r_gas r))) /\
  fee_moved payer (r_gas r) (abs_block before) (abs_block (r_state r)).

(** every recorded transaction cache is a MemDB: key-sorted *)
Definition interp_sorted (ip : interp) : Prop :=
  forall s g o, ip s g = Some o -> sortedb (o_cache o) = true.

(** the states before each transaction of a block (after the Reset) paired with the results *)
Fixpoint block_trace (env : envp) (txs : list (txp * interp)) (s : state) : list (txp * state * result) :=
  match txs with
  | [] => []
  | (tx, ip) :: rest =>
      let r := handle_invoke env tx ip (cache_reset s) in
      (tx, cache_reset s, r) :: (if stops (r_status r) then [] else block_trace env rest (r_state r))
  end.

(** isCharge := !sysTransFlag && tx.GasPrice != 0 *)
Definition is_charge (tx : txp) : bool := negb (t_sys tx) && negb (t_price tx =? 0).

(** The property for one successful transaction that ran with outcome [o]: the cache is empty
    afterwards (nothing is left that a later Commit could publish again), the store is untouched,
    and the block view is the old one with the execution's writes applied once and, when the
    transaction is charged, the fee [r_gas r] moved on top of them. *)
Definition success_commits (tx : txp) (before : state) (o : outcome) (r : result) : Prop :=
  st_cache (r_state r) = [] /\ st_store (r_state r) = st_store before /\
  let l1 := apply_layer (o_cache o) (abs_block before) in
  if is_charge tx then
    r_fee_events r = fee_events (r_gas r) /\
    r_events r = o_events o + N.of_nat (length (fee_events (r_gas r))) /\
    fee_moved (t_payer tx) (r_gas r) l1 (abs_block (r_state r))
  else r_fee_events r = [] /\ r_events r = o_events o /\ abs_block (r_state r) = l1.

(** sc.Gas only decreases (CheckUseGas is its only writer) *)
Definition interp_gas_ok (ip : interp) : Prop :=
  forall s g o, ip s g = Some o -> o_left o <= g.
