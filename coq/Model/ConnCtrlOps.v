(** Vocabulary shared by the translator output (Gen/ConnCtrlProg.v) and the connection-controller
    model (Model/ConnCtrl.v): one constructor per atomic section (mutex-protected function, or
    external blocking call) that p2pserver/connect_controller's AcceptConnect / Connect go through.

      OpReserved          checkReservedPeers      -> ReservedPeers.Contains(addr)        (no lock, external)
      OpHasBound          hasBoundAddr            (lock)   addr in inbounds/outbounds/inboundListenAddress
      OpOwn               OwnAddress              (lock)   compared with addr
      OpFull              isBoundFull -> boundsCount (lock), then count >= Max{In,Out}Bound
      OpIpCount           getInboundCountWithIp   (lock), then connNum >= MaxConnInBoundPerIP
      OpTryConnecting     tryAddConnecting        (lock)
      OpDial              dialer.Dial             (external, blocking)
      OpHandshake         handshake.HandshakeServer / HandshakeClient (external, blocking)
      OpSelfCheck         isHandWithSelf          (SetOwnAddress under lock when the remote id is ours)
      OpGetPeer           checkPeerIdAndIP -> getPeer (lock), then the IP comparison
      OpSave              savePeer                (lock)
      OpRemoveConnecting  removeConnecting        (lock; deferred in Connect)
*)
From Coq Require Import List Bool.
Import ListNotations.

Inductive op :=
| OpReserved | OpHasBound | OpOwn | OpFull | OpIpCount | OpTryConnecting | OpDial | OpHandshake
| OpSelfCheck | OpGetPeer | OpSave | OpRemoveConnecting.

(** A program item: an atomic step on the straight-line success path, or the registration of a
    deferred call (`defer self.removeConnecting(addr)`), which runs when the function returns. *)
Inductive item := IOp (o : op) | IDefer (o : op).

Definition op_eqb (a b : op) : bool :=
  match a, b with
  | OpReserved, OpReserved | OpHasBound, OpHasBound | OpOwn, OpOwn | OpFull, OpFull
  | OpIpCount, OpIpCount | OpTryConnecting, OpTryConnecting | OpDial, OpDial
  | OpHandshake, OpHandshake | OpSelfCheck, OpSelfCheck | OpGetPeer, OpGetPeer
  | OpSave, OpSave | OpRemoveConnecting, OpRemoveConnecting => true
  | _, _ => false
  end.

Definition item_is (o : op) (i : item) : bool :=
  match i with IOp o' => op_eqb o o' | IDefer _ => false end.
