(** Model of the NeoVM value codec of ontio/ontology (property C14):
      vm/neovm/types/neovm_value.go   Serialize, Deserialize/deserialize, BuildParamToNative,
                                      CircularRefAndDepthDetection, AsBytes/GetMapKey
      vm/neovm/types/map_value.go     Set, getMapSortedKey
      vm/neovm/types/array_value.go, struct_value.go   Append (size limit)

    Executable definitions only; the proofs are in Proofs/VmValue*.v. Limits, comparison operands and
    type tags come from Gen/VmValueConsts.v (regenerated from the source on every run).

    Two value representations:
    - [hval] over a [heap]: what the VM holds. Arrays, structs and maps are references (addresses of
      heap objects), so sharing and reference cycles are representable. The address plays the role
      of the Go pointer [reflect.ValueOf(x.Data).Pointer()] the detector uses as identity. A
      dangling or ill-typed address denotes the empty container (total functions, no junk errors).
    - [tval]: finite trees; what Deserialize builds (fresh, unshared) and what an acyclic heap value
      unfolds to ([unfold]).

    Nondeterminism: the detector inspects only the first element, and for a map "first" is Go's
    randomised iteration order, chosen afresh at every [range]. The model therefore computes the
    SET of possible outcomes: [detect] returns (may answer false, may answer true), the encoders
    return a [rs] (the unique possible success value, the possible errors, may-run-out-of-fuel). *)
From Coq Require Import List Bool Arith NArith ZArith.
Import ListNotations.
From Ont Require Import Lib.Bytes Model.NeoInt Gen.VmValueConsts.
Local Open Scope N_scope.
Open Scope bool_scope.

(** * Limits, as the code compares them (Gen/VmValueConsts.v) *)
Definition max_struct_depth : nat := Z.to_nat detect_limit.       (* depth > MAX_STRUCT_DEPTH *)
Definition max_count : nat := Z.to_nat deser_limit.                (* depth > MAX_COUNT *)
Definition max_array_size : nat := Z.to_nat array_append_limit.    (* len(Data) >= MAX_ARRAY_SIZE, ArrayValue.Append *)
Definition max_struct_size : nat := Z.to_nat struct_append_limit.  (* same, StructValue.Append *)
Definition max_ser_size : N := Z.to_N ser_size_limit.              (* sink.Size() > MAX_BYTEARRAY_SIZE *)
Definition max_item_size : N := Z.to_N bytes_limit.                (* len(val) > MAX_BYTEARRAY_SIZE, VmValueFromBytes *)
Definition max_int_size : nat := Z.to_nat int_limit.               (* len(val.Bytes()) > MAX_INT_SIZE *)

(** * Values *)
Inductive prim :=
| PBytes (b : bytes)      (* bytearrayType *)
| PBool (b : bool)        (* boolType, integer field 0/1 *)
| PInt (z : Z)            (* integerType: int64 *)
| PBig (z : Z).           (* bigintType: *big.Int *)

Inductive hval :=
| HPrim (p : prim)
| HArr (a : nat)          (* arrayType: *ArrayValue *)
| HStruct (a : nat)       (* structType: *StructValue *)
| HMap (a : nat)          (* mapType: *MapValue *)
| HInterop.               (* interopType *)

(** MapValue.Data is map[string][2]VmValue with key string = GetMapKey(entry[0]) (only Set inserts):
    an entry is (key value, value); the key is a primitive because GetMapKey fails otherwise. The
    list order is NOT meaningful (a Go map has none); invariant: key images pairwise distinct. *)
Inductive hobj :=
| OList (l : list hval)
| OMap (m : list (prim * hval)).

Definition heap := list hobj.

Definition get_list (h : heap) (a : nat) : list hval :=
  match nth_error h a with Some (OList l) => l | _ => [] end.
Definition get_map (h : heap) (a : nat) : list (prim * hval) :=
  match nth_error h a with Some (OMap m) => m | _ => [] end.

Inductive tval :=
| TPrim (p : prim)
| TArr (l : list tval)
| TStruct (l : list tval)
| TMap (m : list (prim * tval))
| TInterop.

(** * AsBytes / GetMapKey on primitives *)
Definition prim_bytes (p : prim) : bytes :=
  match p with
  | PBool b => [if b then 1 else 0]
  | PInt z | PBig z => neo_of_Z z              (* common.BigIntToNeoBytes *)
  | PBytes b => b
  end.

(** sort.Strings order on map keys: bytewise lexicographic, a proper prefix first. *)
Fixpoint bytes_ltb (a b : bytes) : bool :=
  match a, b with
  | [], [] => false
  | [], _ :: _ => true
  | _ :: _, [] => false
  | x :: a', y :: b' => if x <? y then true else if y <? x then false else bytes_ltb a' b'
  end.

(** getMapSortedKey followed by the lookups Data[key]: entries in increasing key-image order. *)
Fixpoint ins_entry {V : Type} (e : prim * V) (l : list (prim * V)) : list (prim * V) :=
  match l with
  | [] => [e]
  | e' :: r => if bytes_ltb (prim_bytes (fst e')) (prim_bytes (fst e)) then e' :: ins_entry e r else e :: l
  end.
Definition sort_entries {V : Type} (l : list (prim * V)) : list (prim * V) := fold_right ins_entry [] l.

(** * CircularRefAndDepthDetection *)
(** Possible answers: (may return false, may return true). *)
Definition dset := (bool * bool)%type.
Definition dunion (x y : dset) : dset := (fst x || fst y, snd x || snd y).
(** [visited map[uintptr]bool]: keyed by the pointer of the slice's backing array (arrays, structs)
    or of the Go map (maps). A slice pointer never equals a map pointer, so an entry is an address
    together with the kind of object (true = map). *)
Definition vkey := (bool * nat)%type.
Definition mem_addr (k : vkey) (l : list vkey) : bool :=
  existsb (fun x => Bool.eqb (fst k) (fst x) && Nat.eqb (snd k) (snd x)) l.

(** [rem] = MAX_STRUCT_DEPTH + 1 - depth: the test [depth > MAX_STRUCT_DEPTH] is [rem = 0], and
    [depth+1] is [rem-1]. In the array and struct cases the [for ... range] loop body is a [return],
    so only element 0 is visited; in the map case only the first entry in Go's iteration order, i.e.
    any entry. [delete(visited, p)] is reached only for an empty map. *)
Fixpoint detect (h : heap) (rem : nat) (visited : list vkey) (v : hval) : dset :=
  match rem with
  | O => (false, true)
  | S rem' =>
    match v with
    | HArr a | HStruct a =>
      match get_list h a with
      | [] => (true, false)
      | x :: _ => if mem_addr (false, a) visited then (false, true) else detect h rem' ((false, a) :: visited) x
      end
    | HMap a =>
      if mem_addr (true, a) visited then (false, true) else
      match get_map h a with
      | [] => (true, false)
      | es => fold_right (fun e acc => dunion (detect h rem' ((true, a) :: visited) (snd e)) acc) (false, false) es
      end
    | _ => (true, false)
    end
  end.

Definition detect_top (h : heap) (v : hval) : dset := detect h (S max_struct_depth) [] v.

(** * Serialize *)
Inductive serr :=
| ECircular      (* "can not serialize circular reference data" (detector said true) *)
| ESize          (* "can not serialize length over the uplimit" *)
| EInterop       (* "not support type: interopType" *)
| EBadType.      (* errors.ERR_BAD_TYPE (BuildParamToNative on map / interop) *)

(** Set of possible results of one call: at most one success value exists (the detector's choices
    only decide between "circular" and going on). *)
Record rs := mkRs { r_ok : option bytes; r_errs : list serr; r_oof : bool }.
Definition rs_ret (s : bytes) : rs := mkRs (Some s) [] false.
Definition rs_fail (e : serr) : rs := mkRs None [e] false.
Definition rs_oof : rs := mkRs None [] true.
Definition rs_none : rs := mkRs None [] false.
(** alternative outcomes of one call; at most one side carries a success value *)
Definition rs_alt (a b : rs) : rs :=
  mkRs (match r_ok a with Some s => Some s | None => r_ok b end) (r_errs a ++ r_errs b) (r_oof a || r_oof b).
(** sequencing: continue from the success value, keep the other outcomes *)
Definition rs_bind (a : rs) (k : bytes -> rs) : rs :=
  match r_ok a with
  | None => a
  | Some s => let b := k s in mkRs (r_ok b) (r_errs a ++ r_errs b) (r_oof a || r_oof b)
  end.

Definition enc_prim (p : prim) : bytes :=
  match p with
  | PBool b => [T_BOOL; if b then 1 else 0]                          (* WriteByte(boolType); WriteBool *)
  | PBytes b => T_BYTEARRAY :: nv_write_varbytes b
  | PInt z | PBig z => T_INTEGER :: nv_write_varbytes (neo_of_Z z)   (* both written with integerType *)
  end.

(** The sink: [base] bytes were in it before the outermost call (their content is irrelevant to
    Serialize, only sink.Size() looks at them), [s] is what has been written since.
    The final test of Serialize: sink.Size() > MAX_BYTEARRAY_SIZE *)
Definition check_size (base : N) (s : bytes) : rs :=
  if max_ser_size <? base + N.of_nat (length s) then rs_fail ESize else rs_ret s.

(** the element loops of Serialize / BuildParamToNative ([rec] = the nested call) *)
Fixpoint ser_list (rec : hval -> bytes -> rs) (l : list hval) (s : bytes) : rs :=
  match l with
  | [] => rs_ret s
  | x :: r => rs_bind (rec x s) (ser_list rec r)
  end.

(** the entry loop of Serialize over the sorted keys: key, then value *)
Fixpoint ser_entries (rec : hval -> bytes -> rs) (l : list (prim * hval)) (s : bytes) : rs :=
  match l with
  | [] => rs_ret s
  | e :: r => rs_bind (rec (HPrim (fst e)) s) (fun s1 => rs_bind (rec (snd e) s1) (ser_entries rec r))
  end.

(** what Serialize does after the detector answered false *)
Definition ser_body (h : heap) (base : N) (rec : hval -> bytes -> rs) (v : hval) (s : bytes) : rs :=
  match v with
  | HPrim p => check_size base (s ++ enc_prim p)
  | HArr a =>
    let l := get_list h a in
    rs_bind (ser_list rec l (s ++ T_ARRAY :: nv_write_varuint (N.of_nat (length l)))) (check_size base)
  | HStruct a =>
    let l := get_list h a in
    rs_bind (ser_list rec l (s ++ T_STRUCT :: nv_write_varuint (N.of_nat (length l)))) (check_size base)
  | HMap a =>
    let m := get_map h a in
    rs_bind (ser_entries rec (sort_entries m) (s ++ T_MAP :: nv_write_varuint (N.of_nat (length m)))) (check_size base)
  | HInterop => rs_fail EInterop
  end.

(** one call: the detector first (from depth 0, at EVERY call), then the body *)
Definition guarded (h : heap) (v : hval) (body : rs) : rs :=
  let d := detect_top h v in
  rs_alt (if snd d then rs_fail ECircular else rs_none) (if fst d then body else rs_none).

(** [s] is what the sink holds (after the first [base] bytes) when the call starts. Fuel counts
    nested Go calls of Serialize (fuel 0 = "Go would have to recurse deeper"). *)
Fixpoint h_serialize (h : heap) (base : N) (fuel : nat) (v : hval) (s : bytes) : rs :=
  match fuel with
  | O => rs_oof
  | S f => guarded h v (ser_body h base (h_serialize h base f) v s)
  end.

(** * BuildParamToNative *)
Definition build_body (h : heap) (rec : hval -> bytes -> rs) (v : hval) (s : bytes) : rs :=
  match v with
  | HPrim (PBytes b) => rs_ret (s ++ nv_write_varbytes b)
  | HPrim (PBool b) => rs_ret (s ++ [if b then 1 else 0])
  | HPrim (PInt z) | HPrim (PBig z) => rs_ret (s ++ nv_write_varbytes (neo_of_Z z))
  | HArr a =>
    let l := get_list h a in
    ser_list rec l (s ++ nv_write_varbytes (neo_of_Z (Z.of_nat (length l))))
  | HStruct a => ser_list rec (get_list h a) s
  | HMap _ => rs_fail EBadType
  | HInterop => rs_fail EBadType
  end.

Fixpoint h_build (h : heap) (fuel : nat) (v : hval) (s : bytes) : rs :=
  match fuel with
  | O => rs_oof
  | S f => guarded h v (build_body h (h_build h f) v s)
  end.

(** * Unfolding an acyclic heap value to a tree (specification side) *)
Fixpoint map_opt {A B : Type} (g : A -> option B) (l : list A) : option (list B) :=
  match l with
  | [] => Some []
  | x :: r => match g x with
              | Some y => match map_opt g r with Some ys => Some (y :: ys) | None => None end
              | None => None
              end
  end.

Fixpoint unfold (h : heap) (fuel : nat) (v : hval) : option tval :=
  match fuel with
  | O => None
  | S f =>
    match v with
    | HPrim p => Some (TPrim p)
    | HArr a => option_map TArr (map_opt (unfold h f) (get_list h a))
    | HStruct a => option_map TStruct (map_opt (unfold h f) (get_list h a))
    | HMap a => option_map TMap
        (map_opt (fun e : prim * hval => option_map (fun t => (fst e, t)) (unfold h f (snd e))) (get_map h a))
    | HInterop => Some TInterop
    end
  end.

(** * Deserialize *)
Inductive derr :=
| DEof           (* io.ErrUnexpectedEOF *)
| DIrregular     (* common.ErrIrregularData *)
| DItemSize      (* errors.ERR_OVER_MAX_ITEM_SIZE *)
| DIntSize       (* errors.ERR_OVER_MAX_BIGINTEGER_SIZE *)
| DArraySize     (* errors.ERR_OVER_MAX_ARRAY_SIZE *)
| DDepth         (* "vmvalue depth over the uplimit" *)
| DBadType.      (* errors.ERR_BAD_TYPE: unknown tag, or a map key that is not a primitive *)

Inductive dres (A : Type) := DOk (x : A) | DErr (e : derr) | DOof.
Arguments DOk {A} x. Arguments DErr {A} e. Arguments DOof {A}.

Definition two63 : N := 9223372036854775808.
Definition int64_min : Z := (-9223372036854775808)%Z.
Definition int64_max : Z := 9223372036854775807%Z.
Definition is_int64 (z : Z) : bool := (int64_min <=? z)%Z && (z <=? int64_max)%Z.

(** number of iterations of [for i := 0; i < int(l); i++]: int(l) is negative from 2^63 on *)
Definition loop_count (l : N) : N := if l <? two63 then l else 0.

(** VmValueFromIntValue(IntValFromBigInt(z)): integerType when z.IsInt64() *)
Definition int_prim (z : Z) : prim := if is_int64 z then PInt z else PBig z.

(** MapValue.Set into the canonical (sorted by key image) representation of the Go map:
    an entry with the same key image is replaced, key value included. *)
Fixpoint map_set (k : prim) (v : tval) (m : list (prim * tval)) : list (prim * tval) :=
  match m with
  | [] => [(k, v)]
  | (k', v') :: r =>
    if bytes_eqb (prim_bytes k) (prim_bytes k') then (k, v) :: r
    else if bytes_ltb (prim_bytes k) (prim_bytes k') then (k, v) :: m
    else (k', v') :: map_set k v r
  end.

(** [deser f d b]: VmValue.deserialize(source, d) on the remaining bytes [b]; result value and
    remaining bytes. Fuel bounds the number of nested calls plus loop iterations; [deserialize]
    supplies 2*len+1, which is never exhausted (Proofs: deser_total). *)
Fixpoint deser (f : nat) (d : nat) (b : bytes) {struct f} : dres (tval * bytes) :=
  match f with
  | O => DOof
  | S f' =>
    if (max_count <? d)%nat then DErr DDepth else
    match b with
    | [] => DErr DEof
    | t :: r =>
      if t =? T_BOOL then
        match r with
        | [] => DErr DEof
        | x :: r' => if x =? 0 then DOk (TPrim (PBool false), r')
                     else if x =? 1 then DOk (TPrim (PBool true), r') else DErr DIrregular
        end
      else if t =? T_BYTEARRAY then
        let '(data, irr, eof, r') := nv_next_varbytes r in
        if eof then DErr DEof else if irr then DErr DIrregular
        else if max_item_size <? N.of_nat (length data) then DErr DItemSize
        else DOk (TPrim (PBytes data), r')
      else if t =? T_INTEGER then
        let '(data, irr, eof, r') := nv_next_varbytes r in
        if eof then DErr DEof else if irr then DErr DIrregular
        else let z := Z_of_neo data in
          if (max_int_size <? byte_len (Z.abs_N z))%nat then DErr DIntSize
          else DOk (TPrim (int_prim z), r')
      else if t =? T_ARRAY then
        match nv_next_varuint r with
        | None => DErr DEof
        | Some (l, irr, r') =>
          if irr then DErr DIrregular else
          match deser_items f' max_array_size (S d) (loop_count l) [] r' with
          | DOk (items, r'') => DOk (TArr items, r'')
          | DErr e => DErr e
          | DOof => DOof
          end
        end
      else if t =? T_MAP then
        match nv_next_varuint r with
        | None => DErr DEof
        | Some (l, irr, r') =>
          if irr then DErr DIrregular else
          match deser_entries f' (S d) (loop_count l) [] r' with
          | DOk (m, r'') => DOk (TMap m, r'')
          | DErr e => DErr e
          | DOof => DOof
          end
        end
      else if t =? T_STRUCT then
        match nv_next_varuint r with
        | None => DErr DEof
        | Some (l, irr, r') =>
          if irr then DErr DIrregular else
          match deser_items f' max_struct_size (S d) (loop_count l) [] r' with
          | DOk (items, r'') => DOk (TStruct items, r'')
          | DErr e => DErr e
          | DOof => DOof
          end
        end
      else DErr DBadType
    end
  end
(** the element loop; [acc] holds the elements appended so far, newest first; Append refuses when
    [limit] elements are already there (after the element was decoded) *)
with deser_items (f : nat) (limit : nat) (d : nat) (n : N) (acc : list tval) (b : bytes) {struct f}
  : dres (list tval * bytes) :=
  if n =? 0 then DOk (rev acc, b) else
  match f with
  | O => DOof
  | S f' =>
    match deser f' d b with
    | DOk (v, r) =>
      if (limit <=? length acc)%nat then DErr DArraySize
      else deser_items f' limit d (n - 1) (v :: acc) r
    | DErr e => DErr e
    | DOof => DOof
    end
  end
(** the entry loop: key, value, then MapValue.Set (GetMapKey fails on a non-primitive key) *)
with deser_entries (f : nat) (d : nat) (n : N) (m : list (prim * tval)) (b : bytes) {struct f}
  : dres (list (prim * tval) * bytes) :=
  if n =? 0 then DOk (m, b) else
  match f with
  | O => DOof
  | S f' =>
    match deser f' d b with
    | DOk (k, r) =>
      match deser f' d r with
      | DOk (v, r2) =>
        match k with
        | TPrim p => deser_entries f' d (n - 1) (map_set p v m) r2
        | _ => DErr DBadType
        end
      | DErr e => DErr e
      | DOof => DOof
      end
    | DErr e => DErr e
    | DOof => DOof
    end
  end.

Definition deser_fuel (b : bytes) : nat := S (2 * length b).

(** VmValue.Deserialize: the value and the unread rest of the source. *)
Definition deserialize (b : bytes) : dres (tval * bytes) := deser (deser_fuel b) 0 b.

(** * The identification under which a round trip is the identity *)
Definition norm_prim (p : prim) : prim :=
  match p with
  | PInt z | PBig z => int_prim z      (* integers come back in the representation IsInt64 selects *)
  | _ => p
  end.

Fixpoint norm (t : tval) : tval :=
  match t with
  | TPrim p => TPrim (norm_prim p)
  | TArr l => TArr (map norm l)
  | TStruct l => TStruct (map norm l)
  | TMap m => TMap (sort_entries (map (fun e : prim * tval => (norm_prim (fst e), norm (snd e))) m))
  | TInterop => TInterop
  end.

(** * Specification-side measures *)
Definition list_max (l : list nat) : nat := fold_right Nat.max O l.

Fixpoint tdepth (t : tval) : nat :=
  match t with
  | TArr l | TStruct l => S (list_max (map tdepth l))
  | TMap m => S (list_max (map (fun e : prim * tval => tdepth (snd e)) m))
  | _ => O
  end.

(** The writer's encoding of a tree (what Serialize appends when it succeeds). *)
Fixpoint enc (t : tval) : bytes :=
  match t with
  | TPrim p => enc_prim p
  | TArr l => T_ARRAY :: nv_write_varuint (N.of_nat (length l)) ++ flat_map enc l
  | TStruct l => T_STRUCT :: nv_write_varuint (N.of_nat (length l)) ++ flat_map enc l
  | TMap m => T_MAP :: nv_write_varuint (N.of_nat (length m)) ++
              flat_map (fun e : prim * bytes => enc_prim (fst e) ++ snd e)
                       (sort_entries (map (fun e : prim * tval => (fst e, enc (snd e))) m))
  | TInterop => []
  end.

(** * Specification-side predicates used by the theorems *)
Fixpoint distinctb (l : list bytes) : bool :=
  match l with
  | [] => true
  | x :: r => negb (existsb (bytes_eqb x) r) && distinctb r
  end.

(** integer within MAX_INT_SIZE magnitude bytes (what IntValFromBigInt accepts) *)
Definition prim_ok (p : prim) : bool :=
  match p with
  | PInt z | PBig z => (byte_len (Z.abs_N z) <=? max_int_size)%nat
  | _ => true
  end.

(** The VM's limits on a (tree) value: integers within MAX_INT_SIZE, arrays and structs within
    MAX_ARRAY_SIZE elements, no interop value, and the map invariant (pairwise distinct key images). *)
Fixpoint within_limits (t : tval) : bool :=
  match t with
  | TPrim p => prim_ok p
  | TArr l => (length l <=? max_array_size)%nat && forallb within_limits l
  | TStruct l => (length l <=? max_struct_size)%nat && forallb within_limits l
  | TMap m => distinctb (map (fun e : prim * tval => prim_bytes (fst e)) m) &&
              forallb (fun e : prim * tval => prim_ok (fst e) && within_limits (snd e)) m
  | TInterop => false
  end.

(** Reachability in a heap: [child h v w] when [w] is an element of the array/struct [v] or a value
    of the map [v]. A value contains a reference cycle when some reachable value reaches itself. *)
Definition child (h : heap) (v w : hval) : Prop :=
  match v with
  | HArr a | HStruct a => In w (get_list h a)
  | HMap a => In w (map snd (get_map h a))
  | _ => False
  end.

Inductive reach (h : heap) : hval -> hval -> Prop :=
| reach_refl v : reach h v v
| reach_step v w x : child h v w -> reach h w x -> reach h v x.

Inductive reach1 (h : heap) : hval -> hval -> Prop :=
| reach1_step v w x : child h v w -> reach h w x -> reach1 h v x.

Definition cyclic (h : heap) (v : hval) : Prop := exists w, reach h v w /\ reach1 h w w.

Fixpoint interop_free (t : tval) : bool :=
  match t with
  | TArr l | TStruct l => forallb interop_free l
  | TMap m => forallb (fun e : prim * tval => interop_free (snd e)) m
  | TInterop => false
  | TPrim _ => true
  end.

(** number of nested Go calls Serialize needs for a tree: 1 for a leaf or an empty container *)
Fixpoint theight (t : tval) : nat :=
  match t with
  | TArr l | TStruct l => S (list_max (map theight l))
  | TMap m => S (list_max (map (fun e : prim * tval => theight (snd e)) m))
  | _ => 1%nat
  end.
