(** Model for property C15, part 2: straight-line NeoVM programs over maps and arrays, executed by
    the NeoVM service, with Go's map iteration orders as an explicit schedule.
      vm/neovm/executor.go            ExecuteOp: PUSH*, NEWMAP, NEWARRAY, DUP, SWAP, DROP, OVER, PICK,
                                      TOALTSTACK, FROMALTSTACK, DUPFROMALTSTACK, SETITEM, APPEND, PICKITEM,
                                      REMOVE, HASKEY, KEYS, VALUES, ARRAYSIZE
      vm/neovm/value_stack.go         Push/Pop/Peek/Swap with STACK_LIMIT
      smartcontract/service/neovm     Invoke (opcode loop, result = top of the evaluation stack),
                                      RuntimeSerialize, RuntimeNotify (ConvertNeoVmValueHexString),
                                      StorageGetContext + StoragePut (write set)
    Fragment: no structs (NEWSTRUCT and Deserialize are not instructions here, so StructValue.Clone
    never runs), no jumps/calls, gas and the pre-execution step limit never exhausted. Values live in
    the heap of Model/VmValue.v (address = Go pointer identity), so shared and self-referential
    containers exist exactly as a contract can build them.

    An instruction first states what it needs from a map iteration ([request_of]); the environment
    answers ([answer_s]: under a schedule - what one run of the Go code does; [answer_ref]: the unique
    possible answer, or None when Go's choice can change it); [step] is a pure function of the answer. *)
From Coq Require Import List Bool Arith NArith ZArith.
Import ListNotations.
From Ont Require Import Lib.Bytes Model.NeoInt Gen.VmValueConsts Model.VmValue Gen.VmMapRanges Model.VmMapOrder.
Local Open Scope N_scope.
Open Scope bool_scope.

(** * Limits (Gen/VmMapRanges.v, Gen/VmValueConsts.v) *)
Definition stack_limit : nat := Z.to_nat VM_STACK_LIMIT.            (* NewValueStack(STACK_LIMIT) *)
Definition newarray_limit : Z := VM_NEWARRAY_LIMIT.                  (* count > MAX_ARRAY_SIZE *)
Definition max_notify_length : N := Z.to_N VM_MAX_NOTIFY_LENGTH.     (* length > MAX_NOTIFY_LENGTH *)
Definition notify_max_count : N := Z.to_N MAX_COUNT.                 (* *count > MAX_COUNT *)
Definition put_key_limit : nat := Z.to_nat vm_put_key_limit.         (* len(key) > 1024 *)

(** * Instructions *)
Inductive instr :=
| IPushInt (z : Z)        (* PUSHM1, PUSH0, PUSH1..PUSH16 *)
| IPushBytes (b : bytes)  (* PUSHBYTES1..PUSHBYTES75 *)
| INewMap | INewArray
| IDup | ISwap | IDrop | IOver | IPick
| IToAlt | IFromAlt | IDupFromAlt
| ISetItem | IAppend | IPickItem | IRemove | IHasKey | IKeys | IValues | IArraySize
| ISerialize              (* SYSCALL System.Runtime.Serialize *)
| INotify                 (* SYSCALL System.Runtime.Notify *)
| IPut.                   (* SYSCALL System.Storage.GetContext; SYSCALL System.Storage.Put *)

Inductive fault :=
| FIndex            (* ERR_INDEX_OUT_OF_BOUND: stack underflow, Peek or array index out of range *)
| FOverStack        (* ERR_OVER_STACK_LEN *)
| FBadType          (* ERR_BAD_TYPE *)
| FBadValue         (* ERR_BAD_VALUE *)
| FMapNotExist      (* ERR_MAP_NOT_EXIST *)
| FArraySize        (* ERR_OVER_MAX_ARRAY_SIZE *)
| FIntSize          (* ERR_OVER_MAX_BIGINTEGER_SIZE *)
| FIntUnderflow     (* ERR_INTEGER_UNDERFLOW *)
| FAppendType       (* "[executor] ExecuteOp APPEND error, unknown datatype" *)
| FRemoveType       (* "[REMOVE] not support datatype" *)
| FSer (e : serr)   (* the error of VmValue.Serialize *)
| FSerOof           (* Serialize nested deeper than the fuel (Go: deeper recursion) *)
| FItemSize         (* ERR_OVER_MAX_ITEM_SIZE (PushBytes of the serialized value) *)
| FNotify           (* any error of ConvertNeoVmValueHexString *)
| FNotifyOof
| FPutKeyLen        (* "[StoragePut] Storage key to long" *)
| FOutside.         (* a struct or interop operand: outside the modelled fragment *)

(** notification payload: nested lists of hex strings (recorded as the bytes) *)
Inductive ntree := NStr (b : bytes) | NList (l : list ntree).

Record vmstate := mkSt {
  st_heap : heap;
  st_eval : list hval;              (* top first *)
  st_alt : list hval;
  st_notes : list ntree;            (* newest first *)
  st_writes : list (bytes * bytes)  (* CacheDB.Put calls, newest first *)
}.

Definition st0 : vmstate := mkSt [] [] [] [] [].

(** * Helpers *)
Definition res (A : Type) := (fault + A)%type.
Definition bindr {A B : Type} (a : res A) (k : A -> res B) : res B :=
  match a with inl f => inl f | inr x => k x end.
Notation "'do' x <- a ; b" := (bindr a (fun x => b)) (at level 200, x name, a at level 100, b at level 200).
Notation "'do' ' p <- a ; b" := (bindr a (fun x => match x with p => b end))
  (at level 200, p pattern, a at level 100, b at level 200).

(** ValueStack.Push *)
Definition push (v : hval) (stk : list hval) : res (list hval) :=
  if (stack_limit <=? length stk)%nat then inl FOverStack else inr (v :: stk).
(** ValueStack.Pop *)
Definition pop (stk : list hval) : res (hval * list hval) :=
  match stk with [] => inl FIndex | v :: r => inr (v, r) end.
(** ValueStack.Peek(n) *)
Definition peek (n : Z) (stk : list hval) : res hval :=
  if (n <? 0)%Z || (Z.of_nat (length stk) <=? n)%Z then inl FIndex
  else match nth_error stk (Z.to_nat n) with Some v => inr v | None => inl FIndex end.

(** VmValue.AsInt64 *)
Definition int_of_big (z : Z) : res Z :=
  if (max_int_size <? byte_len (Z.abs_N z))%nat then inl FIntSize
  else if is_int64 z then inr z else inl FIntUnderflow.
Definition as_int64 (v : hval) : res Z :=
  match v with
  | HPrim (PInt z) => inr z
  | HPrim (PBool b) => inr (if b then 1 else 0)%Z
  | HPrim (PBig z) => int_of_big z
  | HPrim (PBytes b) => int_of_big (Z_of_neo b)
  | _ => inl FBadType
  end.
(** VmValue.AsBytes / GetMapKey *)
Definition as_bytes (v : hval) : res bytes :=
  match v with HPrim p => inr (prim_bytes p) | _ => inl FBadType end.
Definition as_key (v : hval) : res prim :=
  match v with HPrim p => inr p | _ => inl FBadType end.

Definition is_outside (v : hval) : bool :=
  match v with HStruct _ | HInterop => true | _ => false end.

Definition alloc (h : heap) (o : hobj) : heap * nat := (h ++ [o], length h).
Definition upd_heap (h : heap) (a : nat) (o : hobj) : heap := firstn a h ++ o :: skipn (S a) h.

Fixpoint set_nth {A : Type} (i : nat) (x : A) (l : list A) : list A :=
  match l, i with
  | [], _ => []
  | _ :: r, O => x :: r
  | y :: r, S i' => y :: set_nth i' x r
  end.

(** MapValue.Set: [this.Data[skey] = [2]VmValue{key, value}] (a new entry goes to the end of the
    list; the position carries no meaning) *)
Fixpoint entries_set (k : prim) (v : hval) (m : list (prim * hval)) : list (prim * hval) :=
  match m with
  | [] => [(k, v)]
  | e :: r => if bytes_eqb (key_image e) (prim_bytes k) then (k, v) :: r else e :: entries_set k v r
  end.
(** MapValue.Remove *)
Definition entries_remove (k : bytes) (m : list (prim * hval)) : list (prim * hval) :=
  filter (fun e => negb (bytes_eqb (key_image e) k)) m.

Definition in_range (ind : Z) (len : nat) : bool := (0 <=? ind)%Z && (ind <? Z.of_nat len)%Z.

(** * ConvertNeoVmValueHexString (RuntimeNotify) *)
Inductive cres := COk (t : ntree) (count length : N) | CErr | COof.

Definition nonzero_bytes (z : Z) : bytes := if (z =? 0)%Z then [0] else neo_of_Z z.

Fixpoint conv_list (rec : hval -> N -> N -> cres) (l : list hval) (acc : list ntree) (c len : N) : cres :=
  match l with
  | [] => COk (NList (rev acc)) c len
  | x :: r =>
    match rec x (c + 1) len with           (* *count++ before the nested call *)
    | COk t c' len' => conv_list rec r (t :: acc) c' len'
    | e => e
    end
  end.

Fixpoint conv (h : heap) (fuel : nat) (v : hval) (c len : N) : cres :=
  match fuel with
  | O => COof
  | S f =>
    if notify_max_count <? c then CErr else
    if max_notify_length <? len then CErr else
    match v with
    | HPrim (PBool b) => COk (NStr [if b then 1 else 0]) c (len + 1)
    | HPrim (PBytes b) => COk (NStr b) c (len + N.of_nat (length b))
    | HPrim (PInt z) | HPrim (PBig z) =>
      let bs := nonzero_bytes z in COk (NStr bs) c (len + N.of_nat (length bs))
    | HArr a | HStruct a => conv_list (conv h f) (get_list h a) [] c len
    | HMap _ => CErr                        (* "[ConvertTypes] Invalid Types!" *)
    | HInterop => CErr                      (* interop: outside the fragment *)
    end
  end.

(** every nested call happens after *count++ and fails once count > MAX_COUNT *)
Definition conv_fuel : nat := S (S (S (Z.to_nat MAX_COUNT))).

Definition convert_notify (h : heap) (v : hval) : cres :=
  match conv h conv_fuel v 0 0 with
  | COk t c len => if max_notify_length <? len then CErr else COk t c len
  | e => e
  end.

(** * What the caller sees of the returned value: its shape down to [obs_depth] containers, maps in
    sorted key order (the driver canonicalises the Go value the same way) *)
Inductive otree :=
| OPrimT (p : prim)
| OArrT (l : list otree)
| OMapT (m : list (prim * otree))
| OOther          (* struct / interop: outside the fragment *)
| OCut.           (* deeper than obs_depth (possibly cyclic) *)

Fixpoint observe (h : heap) (fuel : nat) (v : hval) : otree :=
  match fuel with
  | O => OCut
  | S f =>
    match v with
    | HPrim p => OPrimT p
    | HArr a => OArrT (map (observe h f) (get_list h a))
    | HMap a => OMapT (map (fun e : prim * hval => (fst e, observe h f (snd e))) (sort_entries (get_map h a)))
    | _ => OOther
    end
  end.
Definition obs_depth : nat := 5.

Inductive outcome :=
| OHalt (ret : option otree) (notes : list ntree) (writes : list (bytes * bytes))   (* oldest first *)
| OFault (f : fault).

Definition halt_outcome (st : vmstate) : outcome :=
  OHalt (match st_eval st with [] => None | v :: _ => Some (observe (st_heap st) obs_depth v) end)
        (rev (st_notes st)) (rev (st_writes st)).

(** * Requests and answers *)
Inductive request :=
| RqNone
| RqEntries (m : list (prim * hval))      (* MapValue.getMapSortedKey + lookups (KEYS, VALUES) *)
| RqSerialize (h : heap) (v : hval).      (* VmValue.Serialize into an empty sink *)

Inductive answer :=
| AnNone
| AnEntries (l : list (prim * hval))
| AnSer (r : sres).

Definition request_of (i : instr) (st : vmstate) : request :=
  match i, st_eval st with
  | IKeys, HMap a :: _ => RqEntries (get_map (st_heap st) a)
  | IValues, HMap a :: _ => RqEntries (get_map (st_heap st) a)
  | ISerialize, v :: _ => RqSerialize (st_heap st) v
  | _, _ => RqNone
  end.

(** one run of the Go code, consuming the runtime's iteration orders *)
Definition answer_s (fuel : nat) (rq : request) (sch : sched) : answer * sched :=
  match rq with
  | RqNone => (AnNone, sch)
  | RqEntries m => let (p, sch') := next_ord sch in (AnEntries (map_sorted_entries p m), sch')
  | RqSerialize h v => let (r, sch') := h_serialize_s h 0 fuel v [] sch in (AnSer r, sch')
  end.

(** the only possible answer; None when more than one is possible (outcome set of C14's
    [h_serialize] not a singleton) *)
Definition answer_ref (fuel : nat) (rq : request) : option answer :=
  match rq with
  | RqNone => Some AnNone
  | RqEntries m => Some (AnEntries (map_sorted_entries [] m))
  | RqSerialize h v => option_map AnSer (rs_single (h_serialize h 0 fuel v []))
  end.

Definition ans_entries (a : answer) : list (prim * hval) := match a with AnEntries l => l | _ => [] end.
Definition ans_ser (a : answer) : sres := match a with AnSer r => r | _ => SOof end.

(** the array built by KEYS / VALUES: one Append per element *)
Definition build_array (l : list hval) : res (list hval) :=
  if (max_array_size <? length l)%nat then inl FArraySize else inr l.

(** * One instruction *)
Definition step (i : instr) (st : vmstate) (ans : answer) : res vmstate :=
  let h := st_heap st in
  let ev := st_eval st in
  let with_eval (h' : heap) (ev' : list hval) := mkSt h' ev' (st_alt st) (st_notes st) (st_writes st) in
  match i with
  | IPushInt z => do ev' <- push (HPrim (PInt z)) ev; inr (with_eval h ev')
  | IPushBytes b => do ev' <- push (HPrim (PBytes b)) ev; inr (with_eval h ev')
  | INewMap =>
    let (h', a) := alloc h (OMap []) in
    do ev' <- push (HMap a) ev; inr (with_eval h' ev')
  | INewArray =>
    do '(c, ev1) <- pop ev;
    do count <- as_int64 c;
    if (count <? 0)%Z || (newarray_limit <? count)%Z then inl FBadValue else
    if (max_array_size <? Z.to_nat count)%nat then inl FArraySize else
    let (h', a) := alloc h (OList (repeat (HPrim (PBool false)) (Z.to_nat count))) in
    do ev' <- push (HArr a) ev1; inr (with_eval h' ev')
  | IDup => do v <- peek 0 ev; do ev' <- push v ev; inr (with_eval h ev')
  | ISwap =>
    match ev with
    | x :: y :: r => inr (with_eval h (y :: x :: r))
    | _ => inl FIndex
    end
  | IDrop => do '(_, ev') <- pop ev; inr (with_eval h ev')
  | IOver => do v <- peek 1 ev; do ev' <- push v ev; inr (with_eval h ev')
  | IPick =>
    do '(c, ev1) <- pop ev;
    do n <- as_int64 c;
    do v <- peek n ev1;
    do ev' <- push v ev1; inr (with_eval h ev')
  | IToAlt =>
    do '(v, ev') <- pop ev;
    do alt' <- push v (st_alt st);
    inr (mkSt h ev' alt' (st_notes st) (st_writes st))
  | IFromAlt =>
    do '(v, alt') <- pop (st_alt st);
    do ev' <- push v ev;
    inr (mkSt h ev' alt' (st_notes st) (st_writes st))
  | IDupFromAlt =>
    do v <- peek 0 (st_alt st);
    do ev' <- push v ev; inr (with_eval h ev')
  | ISetItem =>
    (* item, index, val := PopTriple() : val on top *)
    do '(val, ev1) <- pop ev;
    do '(index, ev2) <- pop ev1;
    do '(item, ev3) <- pop ev2;
    if is_outside val || is_outside item then inl FOutside else
    match item with
    | HArr a =>
      do ind <- as_int64 index;
      let l := get_list h a in
      if in_range ind (length l) then inr (with_eval (upd_heap h a (OList (set_nth (Z.to_nat ind) val l))) ev3)
      else inl FIndex
    | HMap a =>
      do k <- as_key index;
      inr (with_eval (upd_heap h a (OMap (entries_set k val (get_map h a)))) ev3)
    | _ => inl FBadType
    end
  | IAppend =>
    do '(item, ev1) <- pop ev;
    if is_outside item then inl FOutside else
    match ev1 with
    | [] => inl FAppendType                 (* the error of the second Pop is dropped: zero value *)
    | HArr a :: ev2 =>
      let l := get_list h a in
      if (max_array_size <=? length l)%nat then inl FArraySize
      else inr (with_eval (upd_heap h a (OList (l ++ [item]))) ev2)
    | HStruct _ :: _ => inl FOutside
    | _ :: _ => inl FAppendType
    end
  | IPickItem =>
    (* item, index := PopPair() : index on top *)
    do '(index, ev1) <- pop ev;
    do '(item, ev2) <- pop ev1;
    do v <-
      match item with
      | HArr a =>
        do ind <- as_int64 index;
        let l := get_list h a in
        if in_range ind (length l) then
          match nth_error l (Z.to_nat ind) with Some v => inr v | None => inl FIndex end
        else inl FIndex
      | HStruct _ | HInterop => inl FOutside
      | HMap a =>
        do k <- as_key index;
        match data_get (get_map h a) (prim_bytes k) with
        | Some e => inr (snd e)
        | None => inl FMapNotExist
        end
      | HPrim p =>
        let buf := prim_bytes p in
        do ind <- as_int64 index;
        if in_range ind (length buf) then inr (HPrim (PInt (Z.of_N (nth (Z.to_nat ind) buf 0)))) else inl FIndex
      end;
    do ev' <- push v ev2; inr (with_eval h ev')
  | IRemove =>
    do '(index, ev1) <- pop ev;
    do '(item, ev2) <- pop ev1;
    match item with
    | HMap a =>
      do k <- as_key index;
      inr (with_eval (upd_heap h a (OMap (entries_remove (prim_bytes k) (get_map h a)))) ev2)
    | HArr a =>
      do ind <- as_int64 index;
      let l := get_list h a in
      if in_range ind (length l) then inr (with_eval (upd_heap h a (OList (remove_nth (Z.to_nat ind) l))) ev2)
      else inl FIndex
    | _ => inl FRemoveType
    end
  | IHasKey =>
    do '(key, ev1) <- pop ev;
    do '(item, ev2) <- pop ev1;
    match item with
    | HMap a =>
      do k <- as_key key;
      let ok := match data_get (get_map h a) (prim_bytes k) with Some _ => true | None => false end in
      do ev' <- push (HPrim (PBool ok)) ev2; inr (with_eval h ev')
    | _ => inl FBadType
    end
  | IKeys =>
    do '(item, ev1) <- pop ev;
    match item with
    | HMap _ =>
      do l <- build_array (map (fun e : prim * hval => HPrim (fst e)) (ans_entries ans));
      let (h', a) := alloc h (OList l) in
      do ev' <- push (HArr a) ev1; inr (with_eval h' ev')
    | _ => inl FBadType
    end
  | IValues =>
    do '(item, ev1) <- pop ev;
    match item with
    | HMap _ =>
      do l <- build_array (map snd (ans_entries ans));
      let (h', a) := alloc h (OList l) in
      do ev' <- push (HArr a) ev1; inr (with_eval h' ev')
    | _ => inl FBadType
    end
  | IArraySize =>
    do '(v, ev1) <- pop ev;
    do n <-
      match v with
      | HArr a => inr (length (get_list h a))
      | HPrim p => inr (length (prim_bytes p))
      | _ => inl FBadType
      end;
    do ev' <- push (HPrim (PInt (Z.of_nat n))) ev1; inr (with_eval h ev')
  | ISerialize =>
    do '(_, ev1) <- pop ev;
    match ans_ser ans with
    | SOk bs =>
      if max_item_size <? N.of_nat (length bs) then inl FItemSize else
      do ev' <- push (HPrim (PBytes bs)) ev1; inr (with_eval h ev')
    | SErr e => inl (FSer e)
    | SOof => inl FSerOof
    end
  | INotify =>
    do '(v, ev1) <- pop ev;
    match convert_notify h v with
    | COk t _ _ => inr (mkSt h ev1 (st_alt st) (t :: st_notes st) (st_writes st))
    | CErr => inl FNotify
    | COof => inl FNotifyOof
    end
  | IPut =>
    (* GetContext pushes the storage context; StoreGasCost peeks key (1) and value (2) as bytes;
       StoragePut pops context, key, value *)
    if (stack_limit <=? length ev)%nat then inl FOverStack else
    match ev with
    | [] => inl FIndex
    | k :: r1 =>
      do key <- as_bytes k;
      match r1 with
      | [] => inl FIndex
      | v :: r =>
        do val <- as_bytes v;
        if (put_key_limit <? length key)%nat then inl FPutKeyLen
        else inr (mkSt h r (st_alt st) (st_notes st) ((key, val) :: st_writes st))
      end
    end
  end.

(** * Runs *)
(** [fuel] = how deep Serialize may nest (Go: the goroutine stack) *)
Fixpoint run_s (fuel : nat) (prog : list instr) (st : vmstate) (sch : sched) : outcome :=
  match prog with
  | [] => halt_outcome st
  | i :: rest =>
    let (ans, sch') := answer_s fuel (request_of i st) sch in
    match step i st ans with
    | inl f => OFault f
    | inr st' => run_s fuel rest st' sch'
    end
  end.

(** the outcome when it cannot depend on iteration order; None = some answer was not unique *)
Fixpoint run_ref (fuel : nat) (prog : list instr) (st : vmstate) : option outcome :=
  match prog with
  | [] => Some (halt_outcome st)
  | i :: rest =>
    match answer_ref fuel (request_of i st) with
    | None => None
    | Some ans =>
      match step i st ans with
      | inl f => Some (OFault f)
      | inr st' => run_ref fuel rest st'
      end
    end
  end.

(** schedule in which every range iterates in the order [p] *)
Definition const_sched (p : perm_code) (n : nat) : sched := repeat p n.

(** The finding class (known finding maporder:cycle-detector-first-entry), as a decidable predicate on
    programs: some Serialize of the run has more than one possible result. The check's
    correspondence uses this same predicate (Corr/C15.v). *)
Definition in_finding_class (fuel : nat) (prog : list instr) : bool :=
  match run_ref fuel prog st0 with None => true | Some _ => false end.
