(** Executable model of the governance fee split (method.go: executeSplit2, splitNodeFee,
    executeAddressSplit, executePeerSplit; utils.go: splitCurve).  uint64 arithmetic wraps
    explicitly, the places where the code uses math/big are exact, `.Uint64()` keeps the low 64
    bits.  The places where the code would panic (index out of range, division by zero, explicit
    panics) are the result [SPanic].  Definitions only. *)
From Coq Require Import List NArith Bool.
Import ListNotations.
From Ont Require Import Lib.AList Gen.GovConsts Model.Gov.
Local Open Scope N_scope.

Inductive sres (A : Type) := SOk (x : A) | SErr | SPanic.
Arguments SOk {A} x.
Arguments SErr {A}.
Arguments SPanic {A}.

Definition sbind {A C} (o : sres A) (f : A -> sres C) : sres C :=
  match o with SOk x => f x | SErr => SErr | SPanic => SPanic end.
Notation "'sdo' x <- o ; f" := (sbind o (fun x => f)) (at level 200, x pattern, o at level 100, f at level 200).

Definition nth_N (l : list N) (i : N) : N := nth (N.to_nat i) l 0.
Definition len_N {A} (l : list A) : N := N.of_nat (length l).

(** splitCurve (avg <> 0 is checked by the code: error) *)
Definition split_curve (Yi : list N) (pos avg yita : N) : sres N :=
  if avg =? 0 then SErr else
  let xi0 := w64 (w64 (w64 (PRECISE * yita) * 2) * pos) / w64 (avg * 10) in
  if w64 (avg * 10) =? 0 then SPanic else
  let index0 := xi0 / (PRECISE / 10) in
  let last := len_N Xi - 2 in
  let '(index, xi) := if last <? index0 then (last, nth_N Xi (len_N Xi - 1)) else (index0, xi0) in
  if len_N Yi <=? index + 1 then SPanic else
  let y1 := nth_N Yi (index + 1) in let y0 := nth_N Yi index in
  let x1 := nth_N Xi (index + 1) in let x0 := nth_N Xi index in
  let num := wsub (wsub (w64 (w64 (y1 * xi) + w64 (y0 * x1))) (w64 (y0 * xi))) (w64 (y1 * x0)) in
  let den := wsub x1 x0 in
  if den =? 0 then SPanic else SOk (num / den).

(** the part of a node's amount that is shared with its authorizers (splitNodeFee) *)
Definition shared_amount (newcost : bool) (nodeAmount init total peerCost stakeCost0 : N) : sres N :=
  let sc1 := if stakeCost0 =? 0 then peerCost else stakeCost0 in
  let sc := if sc1 =? 101 then 0 else sc1 in
  if newcost then
    if init + total =? 0 then SPanic else
    let stakeFee := w64 ((nodeAmount * total) / (init + total)) in
    let nodeFee := wsub nodeAmount stakeFee in
    SOk (w64 (w64 (stakeFee * wsub 100 sc) / 100 + w64 (nodeFee * wsub 100 peerCost) / 100))
  else SOk (w64 (nodeAmount * wsub 100 peerCost) / 100).

(** executeAddressSplit: the amount credited to one authorizer *)
Definition validate_pos (cons_side : bool) (i : infov) : N :=
  if cons_side then w64 (i_cons i + i_wcons i) else w64 (i_cand i + i_wcand i).

Definition address_amount (exact : bool) (vp totalAmount totalPos : N) : N :=
  if exact then w64 ((vp * totalAmount) / totalPos) else w64 (vp * totalAmount) / totalPos.

Definition credit (fees : list (N * N)) (a amt : N) : list (N * N) :=
  aset N.eqb a (w64 (nget a fees + amt)) fees.

(** the loop of splitNodeFee over the authorize infos of peer [k] (storage order) *)
Fixpoint split_addresses (exact cons_side : bool) (k owner totalPos amount : N)
         (infos : list ((N * N) * infov)) (fees : list (N * N)) (sumAmount : N) : sres (list (N * N) * N) :=
  match infos with
  | [] => SOk (fees, sumAmount)
  | ((p, a), i) :: r =>
      if negb (p =? k) then split_addresses exact cons_side k owner totalPos amount r fees sumAmount else
      let vp := validate_pos cons_side i in
      if (vp =? 0) || (a =? owner) then split_addresses exact cons_side k owner totalPos amount r fees sumAmount else
      if totalPos =? 0 then SPanic else
      let amt := address_amount exact vp amount totalPos in
      split_addresses exact cons_side k owner totalPos amount r (credit fees a amt) (w64 (sumAmount + amt))
  end.

Record split_env := mkSplitEnv {
  e_newcost : bool;      (* native.Height > config.GetNewPeerCostHeight() *)
  e_exact : bool;        (* native.Height > config.GetUserFeeSplitHeight() *)
  e_A : N; e_B : N; e_yita : N; e_K : N; e_candSplitNum : N;
  e_dappFee : N; e_gas : bool;          (* a gas address is set *)
  e_Yi : list N
}.

(** peer -> (TPeerCost, TStakeCost); a peer without a record has (100, 0) *)
Definition costs_of (k : N) (attrs : list (N * (N * N))) : N * N :=
  match aget N.eqb k attrs with Some v => v | None => (100, 0) end.

Definition split_node_fee (e : split_env) (k owner : N) (pre_cons cur_cons : bool) (init total nodeAmount : N)
           (attrs : list (N * (N * N))) (infos : list ((N * N) * infov)) (fees : list (N * N)) : sres (list (N * N)) :=
  let '(pc, sc) := costs_of k attrs in
  sdo amount <- shared_amount (e_newcost e) nodeAmount init total pc sc;
  sdo r <- split_addresses (e_exact e) (cur_cons || pre_cons) k owner total amount infos fees 0;
  let '(fees1, sumAmount) := r in
  SOk (credit fees1 owner (wsub nodeAmount sumAmount)).

(** one candidate of the split: (stake, peer id) with the data of the previous view's pool *)
Definition is_cons (pool : list (N * peerv)) (k : N) : sres bool :=
  match pget k pool with Some p => SOk (p_status p =? ConsensusStatus) | None => SPanic end.

(** fee split of a list of peers, each with its weight; [weight_sum] is the divisor *)
Fixpoint split_nodes (e : split_env) (prev cur : list (N * peerv)) (attrs : list (N * (N * N)))
         (infos : list ((N * N) * infov)) (part weight_sum : N)
         (l : list (N * N)) (fees : list (N * N)) (splitSum : N) : sres (list (N * N) * N) :=
  match l with
  | [] => SOk (fees, splitSum)
  | (w, k) :: r =>
      if weight_sum =? 0 then SPanic else
      let nodeAmount := w64 ((part * w) / weight_sum) in
      match pget k prev with
      | None => SPanic
      | Some p =>
          sdo pre <- is_cons prev k;
          sdo cu <- is_cons cur k;
          sdo fees1 <- split_node_fee e k (p_owner p) pre cu (p_init p) (p_total p) nodeAmount attrs infos fees;
          split_nodes e prev cur attrs infos part weight_sum r fees1 (w64 (splitSum + nodeAmount))
      end
  end.

Fixpoint curve_all (e : split_env) (avg : N) (l : list (N * N)) : sres (list (N * N)) :=
  match l with
  | [] => SOk []
  | (stake, k) :: r =>
      sdo s <- split_curve (e_Yi e) stake avg (e_yita e);
      sdo rest <- curve_all e avg r;
      SOk ((s, k) :: rest)
  end.

Definition wsum64 (l : list (N * N)) : N := fold_left (fun acc x => w64 (acc + fst x)) l 0.

Record split_out := mkSplitOut { so_fees : list (N * N); so_splitSum : N; so_dapp : N }.

(** executeSplit2; [prev]/[cur] = peer pool of view-1 / view, [balance] = ONG balance of
    governance, [splitFee] = the recorded sum of unclaimed split fees *)
Definition execute_split2 (e : split_env) (prev cur : list (N * peerv)) (attrs : list (N * (N * N)))
           (infos : list ((N * N) * infov)) (fees : list (N * N)) (balance splitFee : N) : sres split_out :=
  if balance <? splitFee then SPanic else
  let income := balance - splitFee in
  let dapp := if e_gas e then (income * e_dappFee e) / 100 else 0 in
  (* the ONG transfer of dappIncome.Uint64() to the gas address fails when the balance is short *)
  if e_gas e && (balance <? w64 dapp) then SErr else
  if income <? w64 dapp then SPanic else
  (* dappIncome >= 2^64 with small low bits (DappFee far above 100): the big-int difference would
     be negative; not a case the code can reach with a percentage, treated as a panic here *)
  if income <? dapp then SPanic else
  let nodeIncome := income - dapp in
  let cands := sort_desc (candidates prev) in
  let K := N.to_nat (e_K e) in
  if len_N cands <? e_K e then SPanic else
  let top := firstn K cands in
  let sum := wsum64 top in
  if sum <? e_K e then SOk (mkSplitOut fees 0 dapp) else
  if e_K e =? 0 then SPanic else
  let avg := sum / e_K e in
  sdo ss <- curve_all e avg top;
  let sumS := wsum64 ss in
  if sumS =? 0 then SErr else
  sdo r1 <- split_nodes e prev cur attrs infos ((nodeIncome * e_A e) / 100) sumS ss fees 0;
  let '(fees1, splitSum1) := r1 in
  let len := if len_N cands <=? e_candSplitNum e then length cands else N.to_nat (e_candSplitNum e) in
  let rest := skipn K (firstn len cands) in
  let sum2 := wsum64 rest in
  if sum2 =? 0 then SOk (mkSplitOut fees1 splitSum1 dapp) else
  sdo r2 <- split_nodes e prev cur attrs infos ((nodeIncome * e_B e) / 100) sum2 rest fees1 splitSum1;
  let '(fees2, splitSum2) := r2 in
  SOk (mkSplitOut fees2 splitSum2 dapp).

(** ** the fee ledger: what executeCommitDpos2 and WithdrawFee do to the recorded split fees *)
Record fee_state := mkFeeState { fs_fees : list (N * N); fs_splitFee : N; fs_balance : N }.

(** executeCommitDpos2 around executeSplit2: the dapp income leaves, splitFee grows by splitSum *)
Definition settle (e : split_env) (prev cur : list (N * peerv)) (attrs : list (N * (N * N)))
           (infos : list ((N * N) * infov)) (st : fee_state) : sres fee_state :=
  sdo o <- execute_split2 e prev cur attrs infos (fs_fees st) (fs_balance st) (fs_splitFee st);
  SOk (mkFeeState (so_fees o) (w64 (so_splitSum o + fs_splitFee st)) (fs_balance st - so_dapp o)).

(** WithdrawFee of address [a] (height gate and witness check not modelled) *)
Definition withdraw_fee (st : fee_state) (a : N) : sres fee_state :=
  let fee := nget a (fs_fees st) in
  if fs_balance st <? fee then SErr
  else if fs_splitFee st <? fee then SErr
  else SOk (mkFeeState (adel N.eqb a (fs_fees st)) (fs_splitFee st - fee) (fs_balance st - fee)).
