(** C45 — executable model of the native ONT ID contract's mutating methods
    (/repo/smartcontract/service/native/ontid: method.go, controller.go, recovery.go,
    authentication.go, owner.go, group.go, utils.go, attribute.go, init.go): the new-ONT-ID code
    path (srvc.Height >= config.GetNewOntIdHeight(): every current height) and, per event, the
    old one (heights below it: fewer methods, old key-record format), so that identities created
    before the switch and managed after it are covered.  The tie to the code holds for histories
    whose old-path calls precede the new-path ones (heights only grow).

    Abstraction of data (done by the driver, checked by the correspondence):
      - ONT IDs, serialized public keys and addresses are tokens ([N]): distinct byte strings get
        distinct tokens.  [id_ok i] says that encodeID accepts the byte string (length 1..255),
        [id_valid i] is account.VerifyID, [addr_of k] is types.AddressFromPubKey of key k (several
        encodings of one key have different tokens and the same address).
      - an "operator" / "new key" argument is a [blob]: a byte string that
        keypair.DeserializePublicKey accepts ([BKey]), a 20-byte string ([BAddr], what
        common.AddressParseFromBytes accepts), or neither ([BBad]).
      - a controller / recovery group argument arrives syntactically parsed ([option group], [None]
        when the bytes are not of the shape  count, members, threshold); depth and threshold
        validation (group.go rDeserialize) is done here ([group_ok]).
      - the witness set is the list of the transaction's signature addresses
        (SmartContract.CheckWitness with no calling contract).
    A failing native call aborts the transaction: [step] returns [None] and the state is unchanged.

    Storage: one record per id (flag under encId; FIELD_PK, FIELD_CONTROLLER, FIELD_RECOVERY,
    FIELD_ATTR under encId ++ field).  encId = contract ++ len ++ id is prefix-free, so records of
    different ids never share a key.  Not modelled: the per-key "controller" string (display
    only), services, contexts, created/updated times, the 1 MB bound on the key list.

    Conditions and constants marked (Gen) are regenerated from the source on every run
    (Gen/OntIdConsts.v). *)
From Coq Require Import List Bool NArith.
Import ListNotations.
From Ont Require Export Gen.OntIdConsts.
Local Open Scope N_scope.
Open Scope bool_scope.

Definition id := N.
Definition key := N.
Definition addr := N.

Inductive blob := BKey (k : key) | BAddr (a : addr) | BBad (n : N).

(** owner.go publicKey (without the display-only controller string). *)
Record pk := mkPk { pk_key : key; pk_revoked : bool; pk_list : bool; pk_auth : bool }.

(** group.go Group: members are ids (byte strings starting with "did:ont:") or sub-groups. *)
Inductive group := G (ms : list member) (t : N)
with member := MId (i : id) | MGrp (g : group).

Inductive controller := CSingle (i : id) | CGroup (g : group).
(** recovery.go: storage version 0 = deprecated single address, version 1 = group. *)
Inductive recovery := ROld (a : addr) | RNew (g : group).

Definition attr := (N * N)%type.   (* (attribute key, (type, value) payload) tokens; key token 0 is the empty byte string *)

Record idrec := mkRec {
  r_flag : N;                       (* utils.go flag_not_exist / flag_valid / flag_revoke *)
  r_keys : list pk;
  r_ctrl : option controller;
  r_rec : option recovery;
  r_attrs : list attr }.

Definition empty_rec : idrec := mkRec FLAG_NOT_EXIST [] None None [].
(** utils.go deleteID: every field deleted, flag_revoke stored. *)
Definition revoked_rec : idrec := mkRec FLAG_REVOKE [] None None [].

Definition state := id -> idrec.
Definition init_state : state := fun _ => empty_rec.
Definition upd (s : state) (i : id) (r : idrec) : state := fun j => if j =? i then r else s j.

Definition set_flag (r : idrec) (f : N) := mkRec f (r_keys r) (r_ctrl r) (r_rec r) (r_attrs r).
Definition set_keys (r : idrec) (k : list pk) := mkRec (r_flag r) k (r_ctrl r) (r_rec r) (r_attrs r).
Definition set_ctrl (r : idrec) (c : option controller) := mkRec (r_flag r) (r_keys r) c (r_rec r) (r_attrs r).
Definition set_rec (r : idrec) (c : option recovery) := mkRec (r_flag r) (r_keys r) (r_ctrl r) c (r_attrs r).
Definition set_attrs (r : idrec) (a : list attr) := mkRec (r_flag r) (r_keys r) (r_ctrl r) (r_rec r) a.

Definition u32 (n : N) : N := n mod 4294967296.

Definition signer := (id * N)%type.   (* group.go Signer, index still as decoded (uint64) *)

(** What follows the fixed arguments of a *ByController call / regIDWithController: read as a
    varuint (single controller) or as var-bytes holding a signer list (group controller). *)
Record proof := mkProof { p_index : option N; p_signers : option (list signer) }.

(** The controller argument of regIDWithController: the bytes as an id token and as a group. *)
Record ctrlarg := mkCtrlArg { ca_id : id; ca_group : option group }.

Inductive op :=
| RegIdWithPublicKey (i : id) (k : blob)
| RegIdWithAttributes (i : id) (k : blob) (attrs : option (list attr))
| RegIdWithController (i : id) (c : ctrlarg) (pr : proof)
| AddKey (i : id) (newk operator : blob)
| AddKeyByIndex (i : id) (newk : blob) (idx : N)
| RemoveKey (i : id) (k operator : blob)
| RemoveKeyByIndex (i : id) (k : blob) (idx : N)
| AddAttributes (i : id) (attrs : option (list attr)) (operator : blob)
| AddAttributesByIndex (i : id) (attrs : option (list attr)) (idx : N)
| RemoveAttribute (i : id) (path : N) (operator : blob)
| RemoveAttributeByIndex (i : id) (path : N) (idx : N)
| RevokeID (i : id) (idx : N)
| RevokeIDByController (i : id) (pr : proof)
| RemoveController (i : id) (idx : N)
| AddKeyByController (i : id) (newk : blob) (pr : proof)
| RemoveKeyByController (i : id) (kidx : N) (pr : proof)
| AddAttributesByController (i : id) (attrs : option (list attr)) (pr : proof)
| RemoveAttributeByController (i : id) (path : N) (pr : proof)
| AddRecovery (i : id) (a : addr) (operator : blob)
| ChangeRecovery (i : id) (newa olda : addr)
| SetRecovery (i : id) (g : option group) (idx : N)
| UpdateRecovery (i : id) (g : option group) (sgn : option (list signer))
| RemoveRecovery (i : id) (idx : N)
| AddKeyByRecovery (i : id) (newk : blob) (sgn : option (list signer))
| RemoveKeyByRecovery (i : id) (kidx : N) (sgn : option (list signer))
| AddNewAuthKey (i : id) (newk : blob) (idx : N)
| AddNewAuthKeyByRecovery (i : id) (newk : blob) (sgn : option (list signer))
| AddNewAuthKeyByController (i : id) (newk : blob) (pr : proof)
| SetAuthKey (i : id) (kidx idx : N)
| SetAuthKeyByRecovery (i : id) (kidx : N) (sgn : option (list signer))
| SetAuthKeyByController (i : id) (kidx : N) (pr : proof)
| RemoveAuthKey (i : id) (kidx idx : N)
| RemoveAuthKeyByRecovery (i : id) (kidx : N) (sgn : option (list signer))
| RemoveAuthKeyByController (i : id) (kidx : N) (pr : proof).

(** The identity an operation addresses (its first argument). *)
Definition target (o : op) : id :=
  match o with
  | RegIdWithPublicKey i _ | RegIdWithAttributes i _ _ | RegIdWithController i _ _
  | AddKey i _ _ | AddKeyByIndex i _ _ | RemoveKey i _ _ | RemoveKeyByIndex i _ _
  | AddAttributes i _ _ | AddAttributesByIndex i _ _ | RemoveAttribute i _ _
  | RemoveAttributeByIndex i _ _ | RevokeID i _ | RevokeIDByController i _
  | RemoveController i _ | AddKeyByController i _ _ | RemoveKeyByController i _ _
  | AddAttributesByController i _ _ | RemoveAttributeByController i _ _
  | AddRecovery i _ _ | ChangeRecovery i _ _ | SetRecovery i _ _ | UpdateRecovery i _ _
  | RemoveRecovery i _ | AddKeyByRecovery i _ _ | RemoveKeyByRecovery i _ _
  | AddNewAuthKey i _ _ | AddNewAuthKeyByRecovery i _ _ | AddNewAuthKeyByController i _ _
  | SetAuthKey i _ _ | SetAuthKeyByRecovery i _ _ | SetAuthKeyByController i _ _
  | RemoveAuthKey i _ _ | RemoveAuthKeyByRecovery i _ _ | RemoveAuthKeyByController i _ _ => i
  end.

(** [e_legacy]: the call runs at a height below config.GetNewOntIdHeight() (old code path). *)
Record event := mkEv { e_legacy : bool; e_signers : list addr; e_op : op }.

(** init.go RegisterIDContract: the methods registered below the new-ONT-ID height. *)
Definition legacy_method (o : op) : bool :=
  match o with
  | RegIdWithPublicKey _ _ | RegIdWithAttributes _ _ _ | RegIdWithController _ _ _
  | AddKey _ _ _ | RemoveKey _ _ _ | AddAttributes _ _ _ | RemoveAttribute _ _ _
  | RevokeID _ _ | RevokeIDByController _ _ | RemoveController _ _
  | AddKeyByController _ _ _ | RemoveKeyByController _ _ _
  | AddAttributesByController _ _ _ | RemoveAttributeByController _ _ _
  | AddRecovery _ _ _ | ChangeRecovery _ _ _ | SetRecovery _ _ _ | UpdateRecovery _ _ _
  | AddKeyByRecovery _ _ _ | RemoveKeyByRecovery _ _ _ => true
  | _ => false
  end.

(** ---------- list helpers ---------- *)
Fixpoint upd_nth {A : Type} (l : list A) (n : nat) (x : A) : list A :=
  match l, n with
  | [], _ => []
  | _ :: r, O => x :: r
  | y :: r, S n' => y :: upd_nth r n' x
  end.

Definition len {A : Type} (l : list A) : N := N.of_nat (length l).

Definition blob_is_key (b : blob) (k : key) : bool :=
  match b with BKey k' => k' =? k | _ => false end.
Definition blob_is_addr (b : blob) (a : addr) : bool :=
  match b with BAddr a' => a' =? a | _ => false end.

Definition set_revoked (p : pk) : pk := mkPk (pk_key p) true (pk_list p) (pk_auth p).
Definition set_auth (p : pk) (v : bool) : pk := mkPk (pk_key p) (pk_revoked p) (pk_list p) v.

(** ---------- key list (owner.go) ---------- *)

(** getPk: "no record" on an empty list, then the index check (Gen). *)
Definition get_pk (keys : list pk) (index : N) : option pk :=
  match keys with
  | [] => None
  | _ => if getpk_index_invalid index (len keys) then None
         else nth_error keys (N.to_nat (index - 1))
  end.

(** findPk_Version1: first entry with equal bytes that has authentication (Gen: the match
    condition); returns (1-based index or 0, revoked). *)
Fixpoint find_pk (keys : list pk) (b : blob) (n : N) : N * bool :=
  match keys with
  | [] => (0, false)
  | p :: r => if findpk_match (blob_is_key b (pk_key p)) (pk_auth p) then (n, pk_revoked p)
              else find_pk r b (n + 1)
  end.

(** isOwner (Gen: the returned expression). *)
Definition is_owner (keys : list pk) (b : blob) : bool :=
  let '(kid, rv) := find_pk keys b 1 in is_owner_ok kid rv.

(** insertPk, new path: reject bytes already in the list (revoked or not), append. *)
Definition insert_pk (keys : list pk) (k : key) (isl isa : bool) : option (list pk) :=
  if existsb (fun p => pk_key p =? k) keys then None
  else Some (keys ++ [mkPk k false isl isa]).

(** revokePk: the loop over all entries; an equal entry that is already revoked is an error, an
    equal live entry is marked; [snd] = whether any entry was equal (index != 0). *)
Fixpoint revoke_loop (keys : list pk) (b : blob) : option (list pk * bool) :=
  match keys with
  | [] => Some ([], false)
  | p :: r =>
      if blob_is_key b (pk_key p) then
        if pk_revoked p then None
        else match revoke_loop r b with
             | None => None
             | Some (r', _) => Some (set_revoked p :: r', true)
             end
      else match revoke_loop r b with
           | None => None
           | Some (r', f) => Some (p :: r', f)
           end
  end.
Definition revoke_pk (keys : list pk) (b : blob) : option (list pk) :=
  match revoke_loop keys b with
  | Some (l, true) => Some l
  | _ => None
  end.

(** revokePkByIndex (index already uint32): the range check (Gen; since repair 2977caad it also
    rejects index 0), then [index -= 1] in uint32 and [publicKeys[index]] — an index outside the
    slice is a Go panic, i.e. the call cannot succeed. *)
Definition revoke_by_index (keys : list pk) (index : N) : option (list pk) :=
  if revoke_index_nokey index (len keys) then None
  else let j := u32 (index + 4294967295) in
       if len keys <=? j then None   (* index out of range: panic *)
       else match nth_error keys (N.to_nat j) with
            | None => None
            | Some p => if pk_revoked p then None
                        else Some (upd_nth keys (N.to_nat j) (set_revoked p))
            end.

(** changePkAuthentication (Gen: index check, revoked check). *)
Definition change_auth (keys : list pk) (index : N) (v : bool) : option (list pk) :=
  if chauth_index_invalid index (len keys) then None
  else match nth_error keys (N.to_nat (index - 1)) with
       | None => None
       | Some p => if chauth_reject_revoked (pk_revoked p) then None
                   else Some (upd_nth keys (N.to_nat (index - 1)) (set_auth p v))
       end.

(** ---------- attributes (attribute.go over utils/linked_list.go) ---------- *)
Definition attr_has (l : list attr) (k : N) : bool := existsb (fun x => fst x =? k) l.
(** LinkedlistInsert: payload replaced in place when the key exists, else new head. *)
Definition attr_insert (l : list attr) (a : attr) : list attr :=
  if attr_has l (fst a) then map (fun x => if fst x =? fst a then a else x) l else a :: l.
(** batchInsertAttr: insert all, then the count check (Gen). *)
Definition batch_insert (l : list attr) (attrs : list attr) : option (list attr) :=
  if existsb (fun x => fst x =? 0) attrs then None   (* empty key: "[linked list] invalid item" *)
  else
  let l' := fold_left attr_insert attrs l in
  if too_many_attrs (len l') then None else Some l'.
(** deleteAttr: "attribute not exist" unless present. *)
Definition attr_delete (l : list attr) (k : N) : option (list attr) :=
  if k =? 0 then None else
  if attr_has l k then Some (filter (fun x => negb (fst x =? k)) l) else None.

(** ---------- groups (group.go) ---------- *)

(** rDeserialize's semantic checks: depth (Gen), recursively every sub-group, threshold (Gen). *)
Fixpoint group_ok (g : group) (depth : N) : bool :=
  match g with
  | G ms t =>
      negb (depth_exceeded depth) &&
      (fix all (l : list member) : bool :=
         match l with
         | [] => true
         | m :: r => match m with MId _ => true | MGrp g' => group_ok g' (depth + 1) end && all r
         end) ms &&
      negb (threshold_invalid t (len ms))
  end.

(** verifyThreshold with "member id is among the signers" abstracted to [P]: the number of
    satisfied members (sub-groups recursively) reaches the threshold (Gen). *)
Fixpoint gsat (P : id -> bool) (g : group) : bool :=
  match g with
  | G ms t =>
      threshold_met
        ((fix cnt (l : list member) : N :=
            match l with
            | [] => 0
            | m :: r => (if match m with MId i => P i | MGrp g' => gsat P g' end then 1 else 0) + cnt r
            end) ms) t
  end.

(** all leaf ids satisfy [P] (validateMembers' traversal). *)
Fixpoint gall (P : id -> bool) (g : group) : bool :=
  match g with
  | G ms _ =>
      (fix all (l : list member) : bool :=
         match l with
         | [] => true
         | m :: r => match m with MId i => P i | MGrp g' => gall P g' end && all r
         end) ms
  end.

Definition find_signer (signers : list signer) (i : id) : bool :=
  existsb (fun x => fst x =? i) signers.

Section Model.
  Variable id_ok : id -> bool.      (* encodeID succeeds: 1 <= len <= 255 *)
  Variable id_valid : id -> bool.   (* account.VerifyID *)
  Variable addr_of : key -> addr.   (* types.AddressFromPubKey *)

  Definition mem (a : addr) (sg : list addr) : bool := existsb (N.eqb a) sg.

  (** utils.go checkWitness: as a public key, then as an address. *)
  Definition check_witness (sg : list addr) (b : blob) : bool :=
    match b with
    | BKey k => mem (addr_of k) sg
    | BAddr a => mem a sg
    | BBad _ => false
    end.

  (** utils.go checkWitnessByIndex (Gen: the two rejections). *)
  Definition cwbi (s : state) (sg : list addr) (i : id) (index : N) : bool :=
    match get_pk (r_keys (s i)) index with
    | None => false
    | Some p => if cwbi_reject_revoked (pk_revoked p) then false
                else if cwbi_reject_noauth (pk_auth p) then false
                else check_witness sg (BKey (pk_key p))
    end.

  Definition is_valid (s : state) (i : id) : bool := id_is_valid (r_flag (s i)).

  (** group.go verifyGroupSignature: threshold over the signer ids, then every signer must pass
      checkWitnessByIndex with its (uint32) index. *)
  Definition verify_group (s : state) (sg : list addr) (g : group) (signers : list signer) : bool :=
    gsat (find_signer signers) g &&
    forallb (fun x => id_ok (fst x) && cwbi s sg (fst x) (u32 (snd x))) signers.

  (** controller.go verifySingleController / verifyGroupController / verifyControllerSignature *)
  Definition verify_single (s : state) (sg : list addr) (j : id) (pr : proof) : bool :=
    match p_index pr with
    | None => false
    | Some n => id_ok j && cwbi s sg j (u32 n)
    end.
  Definition verify_groupc (s : state) (sg : list addr) (g : group) (pr : proof) : bool :=
    match p_signers pr with
    | None => false
    | Some l => verify_group s sg g l
    end.
  Definition verify_ctrl (s : state) (sg : list addr) (i : id) (pr : proof) : bool :=
    match r_ctrl (s i) with
    | None => false
    | Some (CSingle j) => verify_single s sg j pr
    | Some (CGroup g) => group_ok g 0 && verify_groupc s sg g pr
    end.

  (** recovery.go getRecovery + verifyGroupSignature as used by the *ByRecovery methods:
      version-0 record is an error, absent is an error. *)
  Definition verify_rec (s : state) (sg : list addr) (i : id) (sgn : option (list signer)) : bool :=
    match sgn, r_rec (s i) with
    | Some l, Some (RNew g) => group_ok g 0 && verify_group s sg g l
    | _, _ => false
    end.

  (** group.go validateMembers: every leaf id registered and with a key #1. *)
  Definition validate_members (s : state) (g : group) : bool :=
    gall (fun j => id_ok j && is_valid s j &&
                   match get_pk (r_keys (s j)) 1 with Some _ => true | None => false end) g.

  (** recovery.go putRecovery *)
  Definition put_recovery (s : state) (i : id) (ga : option group) : option state :=
    match ga with
    | None => None
    | Some g => if group_ok g 0 && validate_members s g
                then Some (upd s i (set_rec (s i) (Some (RNew g)))) else None
    end.

  (** the authorisation shared by addKey / removeKey: the deprecated recovery address when one
      is stored and equals the operator bytes, otherwise isOwner. *)
  Definition old_rec_is (s : state) (i : id) (b : blob) : bool :=
    match r_rec (s i) with
    | Some (ROld a) => blob_is_addr b a
    | _ => false
    end.

  Definition with_keys (s : state) (i : id) (o : option (list pk)) : option state :=
    match o with Some l => Some (upd s i (set_keys (s i) l)) | None => None end.
  Definition with_attrs (s : state) (i : id) (o : option (list attr)) : option state :=
    match o with Some l => Some (upd s i (set_attrs (s i) l)) | None => None end.

  Definition add_key_as (s : state) (i : id) (newk : blob) (isl isa : bool) : option state :=
    match newk with
    | BKey k => with_keys s i (insert_pk (r_keys (s i)) k isl isa)
    | _ => None
    end.
  Definition newk_ok (b : blob) : bool := match b with BKey _ => true | _ => false end.

  Definition batch_opt (l : list attr) (a : option (list attr)) : option (list attr) :=
    match a with Some x => batch_insert l x | None => None end.

  (** One native call as its own transaction.  [None] = the call fails (state unchanged).
      [lg]: the call runs below the new-ONT-ID height: only the methods registered there exist,
      and insertPk writes the old record format (key, revoked), which every later read
      (getAllPk_Version1, storage version 0) takes as "in the key list, with authentication". *)
  Definition step (lg : bool) (s : state) (sg : list addr) (o : op) : option state :=
    if lg && negb (legacy_method o) then None else
    match o with
    | RegIdWithPublicKey i kb =>
        (* method.go regIdWithPublicKey *)
        match kb with
        | BKey k =>
            if id_valid i && id_ok i && negb (reg_pk_taken (r_flag (s i))) && check_witness sg kb
            then match insert_pk (r_keys (s i)) k true true with
                 | Some l => Some (upd s i (set_flag (set_keys (s i) l) FLAG_VALID))
                 | None => None
                 end
            else None
        | _ => None
        end
    | RegIdWithAttributes i kb attrs =>
        match kb with
        | BKey k =>
            if id_valid i && id_ok i && negb (reg_attr_taken (r_flag (s i))) && check_witness sg kb
            then match insert_pk (r_keys (s i)) k true lg, batch_opt (r_attrs (s i)) attrs with
                 | Some l, Some a => Some (upd s i (set_flag (set_attrs (set_keys (s i) l) a) FLAG_VALID))
                 | _, _ => None
                 end
            else None
        | _ => None
        end
    | RegIdWithController i c pr =>
        (* controller.go regIdWithController *)
        if id_valid i && id_ok i && negb (reg_ctrl_taken (r_flag (s i))) then
          if id_valid (ca_id c) then
            if verify_single s sg (ca_id c) pr
            then Some (upd s i (set_flag (set_ctrl (s i) (Some (CSingle (ca_id c)))) FLAG_VALID))
            else None
          else match ca_group c with
               | None => None
               | Some g => if group_ok g 0 && verify_groupc s sg g pr
                           then Some (upd s i (set_flag (set_ctrl (s i) (Some (CGroup g))) FLAG_VALID))
                           else None
               end
        else None
    | AddKey i newk operator =>
        if newk_ok newk && check_witness sg operator && id_ok i && is_valid s i &&
           (old_rec_is s i operator || is_owner (r_keys (s i)) operator)
        then add_key_as s i newk (lg || true) (lg || false) else None
    | AddKeyByIndex i newk idx =>
        if newk_ok newk && id_ok i && is_valid s i && cwbi s sg i (u32 idx)
        then add_key_as s i newk (lg || true) (lg || false) else None
    | RemoveKey i kb operator =>
        (* getOldRecovery's error (a version-1 recovery is stored) is returned here *)
        if check_witness sg operator && id_ok i && is_valid s i &&
           match r_rec (s i) with Some (RNew _) => false | _ => true end &&
           (old_rec_is s i operator || is_owner (r_keys (s i)) operator)
        then with_keys s i (revoke_pk (r_keys (s i)) kb) else None
    | RemoveKeyByIndex i kb idx =>
        if id_ok i && is_valid s i && cwbi s sg i (u32 idx)
        then with_keys s i (revoke_pk (r_keys (s i)) kb) else None
    | AddAttributes i attrs operator =>
        if id_ok i && is_valid s i && is_owner (r_keys (s i)) operator && check_witness sg operator
        then with_attrs s i (batch_opt (r_attrs (s i)) attrs) else None
    | AddAttributesByIndex i attrs idx =>
        if id_ok i && is_valid s i && cwbi s sg i (u32 idx)
        then with_attrs s i (batch_opt (r_attrs (s i)) attrs) else None
    | RemoveAttribute i path operator =>
        if check_witness sg operator && id_ok i && is_valid s i && is_owner (r_keys (s i)) operator
        then with_attrs s i (attr_delete (r_attrs (s i)) path) else None
    | RemoveAttributeByIndex i path idx =>
        if id_ok i && is_valid s i && cwbi s sg i (u32 idx)
        then with_attrs s i (attr_delete (r_attrs (s i)) path) else None
    | RevokeID i idx =>
        if id_ok i && is_valid s i && cwbi s sg i (u32 idx)
        then Some (upd s i revoked_rec) else None
    | RevokeIDByController i pr =>
        if id_ok i && is_valid s i && verify_ctrl s sg i pr
        then Some (upd s i revoked_rec) else None
    | RemoveController i idx =>
        if id_ok i && is_valid s i && cwbi s sg i (u32 idx)
        then Some (upd s i (set_ctrl (s i) None)) else None
    | AddKeyByController i newk pr =>
        if newk_ok newk && id_ok i && is_valid s i && verify_ctrl s sg i pr
        then add_key_as s i newk (lg || true) (lg || false) else None
    | RemoveKeyByController i kidx pr =>
        if id_ok i && is_valid s i && verify_ctrl s sg i pr
        then with_keys s i (revoke_by_index (r_keys (s i)) (u32 kidx)) else None
    | AddAttributesByController i attrs pr =>
        if id_ok i && is_valid s i && verify_ctrl s sg i pr
        then with_attrs s i (batch_opt (r_attrs (s i)) attrs) else None
    | RemoveAttributeByController i path pr =>
        if id_ok i && is_valid s i && verify_ctrl s sg i pr
        then with_attrs s i (attr_delete (r_attrs (s i)) path) else None
    | AddRecovery i a operator =>
        (* deprecated; "already set" only for a version-0 record *)
        if check_witness sg operator && id_ok i && is_valid s i && is_owner (r_keys (s i)) operator &&
           match r_rec (s i) with Some (ROld _) => false | _ => true end
        then Some (upd s i (set_rec (s i) (Some (ROld a)))) else None
    | ChangeRecovery i newa olda =>
        if id_ok i &&
           match r_rec (s i) with Some (ROld a) => a =? olda | _ => false end &&
           check_witness sg (BAddr olda) && is_valid s i
        then Some (upd s i (set_rec (s i) (Some (ROld newa)))) else None
    | SetRecovery i ga idx =>
        (* "already set" only when a well-formed version-1 group is stored *)
        if id_ok i && is_valid s i && cwbi s sg i (u32 idx) &&
           match r_rec (s i) with Some (RNew g) => negb (group_ok g 0) | _ => true end
        then put_recovery s i ga else None
    | UpdateRecovery i ga sgn =>
        if id_ok i && is_valid s i && verify_rec s sg i sgn
        then put_recovery s i ga else None
    | RemoveRecovery i idx =>
        if id_ok i && is_valid s i && cwbi s sg i (u32 idx)
        then Some (upd s i (set_rec (s i) None)) else None
    | AddKeyByRecovery i newk sgn =>
        if newk_ok newk && id_ok i && is_valid s i && verify_rec s sg i sgn
        then add_key_as s i newk (lg || true) (lg || false) else None
    | RemoveKeyByRecovery i kidx sgn =>
        if id_ok i && is_valid s i && verify_rec s sg i sgn
        then with_keys s i (revoke_by_index (r_keys (s i)) (u32 kidx)) else None
    | AddNewAuthKey i newk idx =>
        if newk_ok newk && id_ok i && is_valid s i && cwbi s sg i (u32 idx)
        then add_key_as s i newk (lg || false) (lg || true) else None
    | AddNewAuthKeyByRecovery i newk sgn =>
        if newk_ok newk && id_ok i && is_valid s i && verify_rec s sg i sgn
        then add_key_as s i newk (lg || false) (lg || true) else None
    | AddNewAuthKeyByController i newk pr =>
        if newk_ok newk && id_ok i && is_valid s i && verify_ctrl s sg i pr
        then add_key_as s i newk (lg || false) (lg || true) else None
    | SetAuthKey i kidx idx =>
        if id_ok i && is_valid s i && cwbi s sg i (u32 idx)
        then with_keys s i (change_auth (r_keys (s i)) (u32 kidx) true) else None
    | SetAuthKeyByRecovery i kidx sgn =>
        if id_ok i && is_valid s i && verify_rec s sg i sgn
        then with_keys s i (change_auth (r_keys (s i)) (u32 kidx) true) else None
    | SetAuthKeyByController i kidx pr =>
        if id_ok i && is_valid s i && verify_ctrl s sg i pr
        then with_keys s i (change_auth (r_keys (s i)) (u32 kidx) true) else None
    | RemoveAuthKey i kidx idx =>
        if id_ok i && is_valid s i && cwbi s sg i (u32 idx)
        then with_keys s i (change_auth (r_keys (s i)) (u32 kidx) false) else None
    | RemoveAuthKeyByRecovery i kidx sgn =>
        if id_ok i && is_valid s i && verify_rec s sg i sgn
        then with_keys s i (change_auth (r_keys (s i)) (u32 kidx) false) else None
    | RemoveAuthKeyByController i kidx pr =>
        if id_ok i && is_valid s i && verify_ctrl s sg i pr
        then with_keys s i (change_auth (r_keys (s i)) (u32 kidx) false) else None
    end.

  (** A history: events applied in order, failing calls leave the state unchanged. *)
  Definition step_ev (s : state) (e : event) : state :=
    match step (e_legacy e) s (e_signers e) (e_op e) with Some s' => s' | None => s end.
  Definition run (s : state) (h : list event) : state := fold_left step_ev h s.
End Model.
