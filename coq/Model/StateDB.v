(** Model of smartcontract/storage/statedb.go (StateDB over a CacheDB) together with the parts of
    smartcontract/storage/cachedb.go, core/store/overlaydb/memdb.go, core/states and
    smartcontract/service/native/ong (OngBalanceHandle) that its methods execute.
    Executable definitions only; proofs are in Proofs/StateDB.v.

    What is mirrored, and how:
    - MemDB (skip list, append-only kv buffer) is a VALUE: the key-sorted list of (key, value)
      pairs that [ForEach] enumerates; a tombstone is a pair with the empty value
      ([Put(key, nil)] keeps/creates the node with value length 0, [Get] then answers
      (nil, known)). [DeepClone] copies kvData and nodeData, so a clone is the same value and is
      never affected by later writes to the original: in the model [Snapshot] simply stores the
      value. (A shallow clone breaks exactly this; the correspondence shows it at the first write
      after a snapshot.)
    - The backend ([OverlayDB] over the persistent store) is fixed during a transaction: a finite
      map given as a parameter. Real store errors are outside the model.
    - [Suicided] (Go map address -> true) is the sorted list of its keys.
    - Log records are opaque to StateDB (it appends pointers and truncates the slice): [log := N].
    - Keccak-256 is a parameter [H].
    - A Go [panic(...)] written in the code is the result [RPanic]; a Go run-time fault (index or
      slice bound out of range) is [RFault]. In both cases the method had not yet assigned any
      field when it stopped (shown for RFault by [fault_only_out_of_range] in Proofs), so the
      state is unchanged.
    - [logs[:n]] with n > len(logs) would, in Go, re-expose stale elements of the backing array
      (or fault when n > cap). The model answers [RFault] there; Proofs/StateDB.v shows that no
      reachable state gets there ([wf_logs_in_range]).
    - Index arithmetic of Snapshot/RevertToSnapshot/DiscardSnapshot comes from Gen/StateDBSites.v
      (translated from the source on every run), the storage-layout constants from
      Gen/StateDBConsts.v.
    - Not modelled: Prepare/BlockHash (thash, bhash are not touched by snapshots and have no other
      reader in StateDB; txIndex is never read or written), Commit/CommitToCacheDB (end of the
      transaction, clears the snapshot stack), AddPreimage (empty), ForEachStorage (panics "todo"). *)
From Coq Require Import List Bool Arith NArith ZArith.
Import ListNotations.
From Ont Require Import Lib.Bytes Model.Codec Gen.StateDBConsts Gen.StateDBSites.
Local Open Scope N_scope.
Open Scope bool_scope.

(** * MemDB as a value *)
Fixpoint bytes_cmp (a b : bytes) : comparison :=
  match a, b with
  | [], [] => Eq
  | [], _ :: _ => Lt
  | _ :: _, [] => Gt
  | x :: a', y :: b' => match x ?= y with Eq => bytes_cmp a' b' | c => c end
  end.

Definition memdb := list (bytes * bytes).

(** MemDB.Get: [None] = unknown, [Some []] = deleted (or present with empty value). *)
Fixpoint mem_find (m : memdb) (k : bytes) : option bytes :=
  match m with
  | [] => None
  | (k', v) :: r => if bytes_eqb k' k then Some v else mem_find r k
  end.

(** MemDB.Put (Delete = Put nil): overwrite the node of an equal key, else insert in key order. *)
Fixpoint mem_put (m : memdb) (k v : bytes) : memdb :=
  match m with
  | [] => [(k, v)]
  | (k', v') :: r =>
      match bytes_cmp k k' with
      | Lt => (k, v) :: m
      | Eq => (k', v) :: r
      | Gt => (k', v') :: mem_put r k v
      end
  end.

(** * CacheDB.get / put: one-byte prefix, memdb first, then the backend (missing = nil). *)
Definition cache_get (mem backend : memdb) (prefix : N) (key : bytes) : bytes :=
  let k := prefix :: key in
  match mem_find mem k with
  | Some v => v
  | None => match mem_find backend k with Some v => v | None => [] end
  end.

Definition cache_put (mem : memdb) (prefix : N) (key v : bytes) : memdb := mem_put mem (prefix :: key) v.

(** OverlayDB.Get on the backend alone (GetCommittedState). *)
Definition backend_get (backend : memdb) (k : bytes) : bytes :=
  match mem_find backend k with Some v => v | None => [] end.

(** * EthAccount *)
Record account := mkAcct { a_nonce : N; a_codehash : bytes }.
Definition zero_hash : bytes := repeat 0 ETH_HASH_LEN.
Definition zero_account : account := mkAcct 0 zero_hash.

Definition acct_is_empty (a : account) : bool := (a_nonce a =? 0) && bytes_eqb (a_codehash a) zero_hash.

(** Serialization: WriteUint64(nonce); WriteHash(codeHash). *)
Definition acct_ser (a : account) : bytes := write_uint64 (a_nonce a) ++ a_codehash a.

(** Deserialization: [nonce, _ := NextUint64(); hash, eof := NextHash(); if eof -> error]. *)
Definition acct_deser (raw : bytes) : option account :=
  let '(n, _, s1) := next_uint64 (src_new raw) in
  let '(h, eof, _) := next_hash s1 in
  if eof then None else Some (mkAcct n h).

(** CacheDB.GetEthAccount: [None] = error. *)
Definition get_eth_account (mem backend : memdb) (addr : bytes) : option account :=
  match cache_get mem backend ST_ETH_ACCOUNT addr with
  | [] => Some zero_account
  | raw => acct_deser raw
  end.

(** CacheDB.PutEthAccount: an empty account is stored as nil (tombstone). *)
Definition put_eth_account (mem : memdb) (addr : bytes) (a : account) : memdb :=
  cache_put mem ST_ETH_ACCOUNT addr (if acct_is_empty a then [] else acct_ser a).

(** * ONG balance: native token storage layout (core/states/native_token_balance.go) *)
(** BigIntToNeoBytes for a non-negative value: minimal little-endian magnitude, one 0 byte
    appended when the top bit is set; zero is the empty string. *)
Fixpoint le_minimal (fuel : nat) (v : N) : bytes :=
  match fuel with
  | O => []
  | S f => if v =? 0 then [] else (v mod 256) :: le_minimal f (v / 256)
  end.
Definition neo_bytes (v : N) : bytes :=
  let b := le_minimal (S (N.to_nat (N.log2 v))) v in
  match rev b with
  | [] => []
  | top :: _ => if 128 <=? top then b ++ [0] else b
  end.

(** BigIntFromNeoBytes: little-endian two's complement. *)
Definition neo_to_Z (b : bytes) : Z :=
  match rev b with
  | [] => 0%Z
  | top :: _ =>
      if 128 <=? top then (Z.of_N (le_decode b) - Z.of_N (256 ^ N.of_nat (length b)))%Z
      else Z.of_N (le_decode b)
  end.

(** StorageItem.ToArray = WriteByte(version); WriteVarBytes(value). *)
Definition storage_item (version : N) (value : bytes) : bytes := write_uint8 version ++ write_varbytes value.

(** NativeTokenBalance.MustToStorageItemBytes: [None] = panic "too large token balance". *)
Definition balance_item (v : N) : option bytes :=
  if v mod SCALE_FACTOR =? 0 then
    let q := v / SCALE_FACTOR in
    if q <? two64 then Some (storage_item DEFAULT_VERSION (write_uint64 q)) else None
  else Some (storage_item SCALE_DECIMAL9_VERSION (neo_bytes v)).

(** GetStorageItem + NativeTokenBalanceFromStorageItem: [None] = error. *)
Definition balance_of_raw (raw : bytes) : option N :=
  match raw with
  | [] => Some 0
  | _ =>
      let '(ver, eof, s1) := next_byte (src_new raw) in
      if eof then None else
      let '(val, _, irr, eof2, _) := next_varbytes s1 in
      if irr then None else if eof2 then None else
      if ver =? DEFAULT_VERSION then
        let '(x, eof3, _) := next_uint64 (src_new val) in
        if eof3 then None else Some (x * SCALE_FACTOR)
      else
        let z := neo_to_Z val in
        if (z <? 0)%Z then None else Some (Z.to_N z)
  end.

(** ont.GenBalanceKey(OngContractAddress, addr), stored under ST_STORAGE by CacheDB.Put. *)
Definition balance_key (addr : bytes) : bytes := ONG_CONTRACT_ADDRESS ++ addr.

Definition get_balance (mem backend : memdb) (addr : bytes) : option N :=
  balance_of_raw (cache_get mem backend ST_STORAGE (balance_key addr)).

(** OngBalanceHandle.SetBalance: zero deletes; [None] = panic before the write. *)
Definition set_balance (mem : memdb) (addr : bytes) (v : N) : option memdb :=
  if v =? 0 then Some (cache_put mem ST_STORAGE (balance_key addr) [])
  else match balance_item v with
       | Some b => Some (cache_put mem ST_STORAGE (balance_key addr) b)
       | None => None
       end.

(** * StateDB *)
Definition log := N.

Record snapshot := mkSnap {
  sn_changes : memdb;          (* changes  *overlaydb.MemDB  (a deep clone) *)
  sn_suicided : list bytes;    (* suicided map copy *)
  sn_logsSize : nat;           (* logsSize int *)
  sn_refund : N                (* refund uint64 *)
}.

Record statedb := mkSDB {
  sd_mem : memdb;              (* cacheDB.memdb *)
  sd_suicided : list bytes;    (* Suicided *)
  sd_logs : list log;          (* logs *)
  sd_refund : N;               (* refund uint64 *)
  sd_snaps : list snapshot;    (* snapshots, oldest first *)
  sd_err : bool                (* cacheDB.backend.dbErr != nil (sticky; not part of any snapshot) *)
}.

Definition sdb_new : statedb := mkSDB [] [] [] 0 [] false.

Definition with_mem (s : statedb) (m : memdb) : statedb :=
  mkSDB m (sd_suicided s) (sd_logs s) (sd_refund s) (sd_snaps s) (sd_err s).
Definition with_err (s : statedb) (e : bool) : statedb :=
  mkSDB (sd_mem s) (sd_suicided s) (sd_logs s) (sd_refund s) (sd_snaps s) (sd_err s || e).
Definition with_refund (s : statedb) (r : N) : statedb :=
  mkSDB (sd_mem s) (sd_suicided s) (sd_logs s) r (sd_snaps s) (sd_err s).

(** Go map used as a set: sorted, duplicate-free list of keys. *)
Fixpoint set_add (a : bytes) (l : list bytes) : list bytes :=
  match l with
  | [] => [a]
  | x :: r => match bytes_cmp a x with Lt => a :: l | Eq => l | Gt => x :: set_add a r end
  end.
Definition set_mem (a : bytes) (l : list bytes) : bool := existsb (bytes_eqb a) l.

(** common.BytesToHash: keep the last 32 bytes, left-pad with zeros. *)
Definition bytes_to_hash (b : bytes) : bytes :=
  let b' := skipn (length b - ETH_HASH_LEN) b in
  repeat 0 (ETH_HASH_LEN - length b') ++ b'.

Section WithEnv.
  Variable H : bytes -> bytes.       (* crypto.Keccak256Hash *)
  Variable backend : memdb.          (* effective content of cacheDB.backend, fixed *)

  (** getEthAccount: (account, error?) — on error the zero account is returned and dbErr set. *)
  Definition sdb_account (s : statedb) (addr : bytes) : account * bool :=
    match get_eth_account (sd_mem s) backend addr with
    | Some a => (a, false)
    | None => (zero_account, true)
    end.

  (** ** Getters (value, error?) *)
  Definition get_state (s : statedb) (contract key : bytes) : bytes :=
    bytes_to_hash (cache_get (sd_mem s) backend ST_STORAGE (contract ++ key)).
  Definition get_committed_state (s : statedb) (addr key : bytes) : bytes :=
    bytes_to_hash (backend_get backend (ST_STORAGE :: addr ++ key)).
  Definition get_nonce (s : statedb) (addr : bytes) : N := a_nonce (fst (sdb_account s addr)).
  Definition get_code_hash (s : statedb) (addr : bytes) : bytes := a_codehash (fst (sdb_account s addr)).
  Definition get_code (s : statedb) (addr : bytes) : bytes :=
    cache_get (sd_mem s) backend ST_ETH_CODE (get_code_hash s addr).
  Definition get_code_size (s : statedb) (addr : bytes) : nat := length (get_code s addr).
  Definition get_balance_err (s : statedb) (addr : bytes) : N * bool :=
    match get_balance (sd_mem s) backend addr with Some v => (v, false) | None => (0, true) end.
  Definition get_balance_v (s : statedb) (addr : bytes) : N := fst (get_balance_err s addr).
  Definition get_refund (s : statedb) : N := sd_refund s.
  Definition get_logs (s : statedb) : list log := sd_logs s.
  Definition has_suicided (s : statedb) (addr : bytes) : bool := set_mem addr (sd_suicided s).
  Definition exist (s : statedb) (addr : bytes) : bool :=
    if set_mem addr (sd_suicided s) then true else
    let acct := fst (sdb_account s addr) in
    match get_balance (sd_mem s) backend addr with
    | None => false
    | Some bal => negb (acct_is_empty acct) || (0 <? bal)
    end.
  Definition empty (s : statedb) (addr : bytes) : bool :=
    let acct := fst (sdb_account s addr) in
    match get_balance (sd_mem s) backend addr with
    | None => false
    | Some bal => acct_is_empty acct && (bal =? 0)
    end.
  (** does calling the getters of [addr] set dbErr? *)
  Definition getters_err (s : statedb) (addr : bytes) : bool :=
    snd (sdb_account s addr) || snd (get_balance_err s addr).

  (** ** Operations *)
  Inductive op :=
  | OSetState (contract key value : bytes)
  | OSetNonce (addr : bytes) (nonce : N)
  | OSetCode (addr code : bytes)
  | OAddBalance (addr : bytes) (val : N)
  | OSubBalance (addr : bytes) (val : N)
  | OSuicide (addr : bytes)
  | OAddLog (l : log)
  | OAddRefund (gas : N)
  | OSubRefund (gas : N)
  | OCreateAccount (addr : bytes)
  | OSnapshot
  | ORevert (idx : Z)
  | ODiscard (idx : Z).

  Inductive ret := RUnit | RBool (b : bool) | RInt (z : Z) | RPanic | RFault.

  Definition set_state (s : statedb) (contract key value : bytes) : statedb :=
    with_mem s (cache_put (sd_mem s) ST_STORAGE (contract ++ key) value).

  Definition set_nonce (s : statedb) (addr : bytes) (nonce : N) : statedb :=
    let '(acct, e) := sdb_account s addr in
    with_err (with_mem s (put_eth_account (sd_mem s) addr (mkAcct nonce (a_codehash acct)))) e.

  Definition set_code (s : statedb) (addr code : bytes) : statedb :=
    let h := H code in
    let '(acct, e) := sdb_account s addr in
    let m1 := put_eth_account (sd_mem s) addr (mkAcct (a_nonce acct) h) in
    let m2 := cache_put m1 ST_ETH_CODE h code in
    with_err (with_mem s m2) e.

  (** AddBalance: GetBalance; balance += val; SetBalance. *)
  Definition add_balance (s : statedb) (addr : bytes) (val : N) : statedb * ret :=
    match get_balance (sd_mem s) backend addr with
    | None => (with_err s true, RUnit)
    | Some bal =>
        match set_balance (sd_mem s) addr (bal + val) with
        | Some m => (with_mem s m, RUnit)
        | None => (s, RPanic)
        end
    end.

  (** SubBalance: error (dbErr) when balance < val. *)
  Definition sub_balance (s : statedb) (addr : bytes) (val : N) : statedb * ret :=
    match get_balance (sd_mem s) backend addr with
    | None => (with_err s true, RUnit)
    | Some bal =>
        if bal <? val then (with_err s true, RUnit) else
        match set_balance (sd_mem s) addr (bal - val) with
        | Some m => (with_mem s m, RUnit)
        | None => (s, RPanic)
        end
    end.

  (** Suicide: false for an empty account; else mark and SetBalance(0) (a delete). *)
  Definition suicide (s : statedb) (addr : bytes) : statedb * ret :=
    let '(acct, e) := sdb_account s addr in
    if acct_is_empty acct then (with_err s e, RBool false) else
    let m := cache_put (sd_mem s) ST_STORAGE (balance_key addr) [] in
    (mkSDB m (set_add addr (sd_suicided s)) (sd_logs s) (sd_refund s) (sd_snaps s) (sd_err s || e), RBool true).

  Definition add_log (s : statedb) (l : log) : statedb :=
    mkSDB (sd_mem s) (sd_suicided s) (sd_logs s ++ [l]) (sd_refund s) (sd_snaps s) (sd_err s).

  (** AddRefund: uint64 addition (wraps). *)
  Definition add_refund (s : statedb) (gas : N) : statedb := with_refund s ((sd_refund s + gas) mod two64).

  (** SubRefund: panics when gas > refund. *)
  Definition sub_refund (s : statedb) (gas : N) : statedb * ret :=
    if sd_refund s <? gas then (s, RPanic) else (with_refund s (sd_refund s - gas), RUnit).

  Definition snap_of (s : statedb) : snapshot :=
    mkSnap (sd_mem s) (sd_suicided s) (length (sd_logs s)) (sd_refund s).

  (** Snapshot: append; return len(snapshots)-1. *)
  Definition do_snapshot (s : statedb) : statedb * ret :=
    let snaps := sd_snaps s ++ [snap_of s] in
    (mkSDB (sd_mem s) (sd_suicided s) (sd_logs s) (sd_refund s) snaps (sd_err s),
     RInt (snapshot_ret (Z.of_nat (length snaps)))).

  (** Go [l[i]]: run-time fault unless 0 <= i < len. *)
  Definition go_index {A} (l : list A) (i : Z) : option A :=
    if (i <? 0)%Z || (Z.of_nat (length l) <=? i)%Z then None else nth_error l (Z.to_nat i).
  (** Go [l[:n]] restricted to n <= len (see the header on n > len). *)
  Definition go_prefix {A} (l : list A) (n : Z) : option (list A) :=
    if (n <? 0)%Z || (Z.of_nat (length l) <? n)%Z then None else Some (firstn (Z.to_nat n) l).

  (** Go [int] is 64 bits here: [idx+1] wraps at MaxInt64 (the guard then passes and the index
      expression faults instead). *)
  Definition wrap_int64 (z : Z) : Z := ((z + 9223372036854775808) mod 18446744073709551616 - 9223372036854775808)%Z.

  (** RevertToSnapshot(idx). *)
  Definition revert (s : statedb) (idx : Z) : statedb * ret :=
    let len := Z.of_nat (length (sd_snaps s)) in
    if (wrap_int64 (revert_guard_lhs idx len) >? revert_guard_rhs idx len)%Z then (s, RPanic) else
    match go_index (sd_snaps s) (revert_index idx len) with
    | None => (s, RFault)
    | Some sn =>
        match go_prefix (sd_snaps s) (revert_keep idx len) with
        | None => (s, RFault)
        | Some keep =>
            match go_prefix (sd_logs s) (Z.of_nat (sn_logsSize sn)) with
            | None => (s, RFault)
            | Some lg => (mkSDB (sn_changes sn) (sn_suicided sn) lg (sn_refund sn) keep (sd_err s), RUnit)
            end
        end
    end.

  (** DiscardSnapshot(idx). *)
  Definition discard (s : statedb) (idx : Z) : statedb * ret :=
    let len := Z.of_nat (length (sd_snaps s)) in
    if (wrap_int64 (discard_guard_lhs idx len) >? discard_guard_rhs idx len)%Z then (s, RPanic) else
    match go_prefix (sd_snaps s) (discard_keep idx len) with
    | None => (s, RFault)
    | Some keep => (mkSDB (sd_mem s) (sd_suicided s) (sd_logs s) (sd_refund s) keep (sd_err s), RUnit)
    end.

  Definition step (s : statedb) (o : op) : statedb * ret :=
    match o with
    | OSetState c k v => (set_state s c k v, RUnit)
    | OSetNonce a n => (set_nonce s a n, RUnit)
    | OSetCode a code => (set_code s a code, RUnit)
    | OAddBalance a v => add_balance s a v
    | OSubBalance a v => sub_balance s a v
    | OSuicide a => suicide s a
    | OAddLog l => (add_log s l, RUnit)
    | OAddRefund g => (add_refund s g, RUnit)
    | OSubRefund g => sub_refund s g
    | OCreateAccount _ => (s, RUnit)
    | OSnapshot => do_snapshot s
    | ORevert idx => revert s idx
    | ODiscard idx => discard s idx
    end.

  Definition run (s : statedb) (ops : list op) : statedb := fold_left (fun s o => fst (step s o)) ops s.

  (** ** All getters of one (address, slot) pair at once. *)
  Record observation := mkObs {
    ob_state : bytes; ob_committed : bytes; ob_nonce : N; ob_codehash : bytes; ob_code : bytes;
    ob_codesize : nat; ob_balance : N; ob_suicided : bool; ob_exist : bool; ob_empty : bool;
    ob_refund : N; ob_logs : list log
  }.
  Definition observe (s : statedb) (addr key : bytes) : observation :=
    mkObs (get_state s addr key) (get_committed_state s addr key) (get_nonce s addr) (get_code_hash s addr)
          (get_code s addr) (get_code_size s addr) (get_balance_v s addr) (has_suicided s addr)
          (exist s addr) (empty s addr) (get_refund s) (get_logs s).

  (** ** What a caller can read: everything the getters depend on besides the fixed backend. *)
  Definition core : Type := (memdb * list bytes * list log * N)%type.
  Definition core_of (s : statedb) : core := (sd_mem s, sd_suicided s, sd_logs s, sd_refund s).
End WithEnv.

