(** Model/VbftPool.v — executable mirror of the VBFT block pool's commit/endorse bookkeeping
    (consensus/vbft/block_pool.go, node_utils.go) and of what the receive path checks before a
    message reaches the pool (service.go). Definitions only; proofs are in Proofs/C31.v.

    Signatures are abstract: the pool never looks at signature bytes, so every place where the Go
    structures hold a signature the model holds a ghost bit [valid] — "these bytes verify under
    the consensus public key of the peer index they are filed under, over the hash of the block
    (or empty block) of the proposer named next to them". The harness computes the bit with
    signature.Verify and the real keys. The pool functions only copy the bit around.

    Go maps are association lists in insertion order. Where the code ranges over a map and the
    result can depend on the order (commitDone's second path, endorseDone) the model takes the
    iteration order [ord] as an argument; theorems quantify over every duplicate-free [ord].

    Widths: peer indices/block numbers are uint32 ([N] below 2^32). getCommitConsensus computes in
    Go [int] (64 bit; counters are bounded by the number of messages, no wrap is reachable), so [Z]
    without reduction; commitDone's threshold is uint32 arithmetic, written with [mod 2^32] (exact for
    N >= 1; for N = 0 the unsigned division differs from the generated [Z.quot] formula, and the
    theorems assume 1 <= N). The uint32 counters emptyCnt/endorseCnt[..] count stored signature
    entries and cannot wrap with fewer than 2^32 entries; they are not reduced. *)
From Coq Require Import List Bool NArith ZArith.
Import ListNotations.
From Ont Require Import Gen.Thresholds Gen.VbftIntake.
Local Open Scope N_scope.

Definition MAXU32 : N := 4294967295.   (* math.MaxUint32 *)
Definition U32 : N := 4294967296.

(** * Go maps with uint32 keys *)
Section AMap.
  Context {V : Type}.
  Fixpoint aget (k : N) (m : list (N * V)) : option V :=
    match m with
    | [] => None
    | (k', v) :: r => if k =? k' then Some v else aget k r
    end.
  Fixpoint aset (k : N) (v : V) (m : list (N * V)) : list (N * V) :=
    match m with
    | [] => [(k, v)]
    | (k', v') :: r => if k =? k' then (k', v) :: r else (k', v') :: aset k v r
    end.
  Definition akeys (m : list (N * V)) : list N := map fst m.
End AMap.

(** * Messages and candidate bookkeeping *)

(** CandidateEndorseSigInfo: EndorsedProposer, ForEmpty, Signature (as its ghost validity bit). *)
Record esig := mkES { es_proposer : N; es_empty : bool; es_valid : bool }.

(** blockProposalMsg as far as the pool reads it: proposer, BlockProposerSig (an id for the byte
    string, compared by bytes.Equal in the duplicate check) and its validity. *)
Record proposal := mkPP { pp_proposer : N; pp_sig : N; pp_valid : bool }.

(** blockEndorseMsg: Endorser, EndorsedProposer, EndorseForEmpty, EndorserSig. *)
Record endorse_msg := mkEM { em_endorser : N; em_proposer : N; em_empty : bool; em_valid : bool }.

(** blockCommitMsg: Committer, BlockProposer, CommitBlockHash (an id), CommitForEmpty, CommitterSig
    (valid under the key of [cm_committer]?), EndorsersSig (claimed endorser index -> valid?). *)
Record commit_msg := mkCM {
  cm_committer : N; cm_proposer : N; cm_hash : N; cm_empty : bool; cm_valid : bool;
  cm_endorsers : list (N * bool) }.

(** CandidateInfo: Proposals, CommitMsgs, EndorseSigs (indexed by endorser). *)
Record cand := mkCand {
  c_proposals : list proposal;
  c_commits : list commit_msg;
  c_esigs : list (N * list esig) }.

Definition cand_empty : cand := mkCand [] [] [].

(** * getCommitConsensus (node_utils.go) *)

(** signCount : map[uint32]map[uint32]int *)
Definition signcount := list (N * list (N * Z)).

Definition zincr (k : N) (m : list (N * Z)) : list (N * Z) :=
  aset k (match aget k m with Some v => v + 1 | None => 1 end)%Z m.

Definition sc_inner (p : N) (sc : signcount) : list (N * Z) :=
  match aget p sc with Some m => m | None => [] end.

(** if _, present := signCount[p]; !present { signCount[p] = make(map[uint32]int) } *)
Definition sc_ensure (p : N) (sc : signcount) : signcount :=
  match aget p sc with Some _ => sc | None => aset p [] sc end.

(** signCount[p][k] += 1 *)
Definition sc_incr (p k : N) (sc : signcount) : signcount := aset p (zincr k (sc_inner p sc)) sc.

Fixpoint gcc_loop (n : Z) (msgs : list commit_msg) (emptyCount : Z) (emptyCommit : bool) (c : Z)
    (sc : signcount) : N * bool :=
  match msgs with
  | [] => (MAXU32, false)
  | m :: r =>
      let emptyCount' := if cm_empty m then (emptyCount + 1)%Z else emptyCount in
      let bump := cm_empty m && (emptyCount' >? c)%Z && negb emptyCommit in
      let c' := if bump then (c + 1)%Z else c in
      let emptyCommit' := if bump then true else emptyCommit in
      let p := cm_proposer m in
      let sc1 := sc_ensure p sc in
      let sc2 := sc_incr p (cm_committer m) sc1 in
      let sc3 := fold_left (fun s e => sc_incr p (fst e) s) (cm_endorsers m) sc2 in
      if (commit_consensus_have (Z.of_nat (length (sc_inner p sc3))) >=? commit_consensus_need n)%Z
      then (p, emptyCommit')
      else gcc_loop n r emptyCount' emptyCommit' c' sc3
  end.

Definition get_commit_consensus (msgs : list commit_msg) (c n : Z) : N * bool :=
  gcc_loop n msgs 0%Z false c [].

(** * addBlockEndorsementLocked, newBlockProposal, newBlockEndorsement, newBlockCommitment *)

Definition add_endorsement (endorser : N) (s : esig) (commitment : bool)
    (es : list (N * list esig)) : list (N * list esig) :=
  match aget endorser es with
  | Some l =>
      if commitment then aset endorser [s] es
      else if existsb es_empty l then es                       (* has endorsed for empty: ignore *)
      else if es_empty s then aset endorser (l ++ [s]) es      (* add empty endorsement *)
      else if existsb (fun x => es_proposer x =? es_proposer s) l then es   (* dup endorsement *)
      else aset endorser (l ++ [s]) es
  | None => aset endorser [s] es
  end.

Inductive add_res := Added | DupSame | DupErr | Dropped.

Definition new_block_proposal (p : proposal) (st : cand) : cand * add_res :=
  match find (fun q => pp_proposer q =? pp_proposer p) (c_proposals st) with
  | Some q => if pp_sig q =? pp_sig p then (st, DupSame) else (st, DupErr)
  | None =>
      (mkCand (c_proposals st ++ [p]) (c_commits st)
         (add_endorsement (pp_proposer p) (mkES (pp_proposer p) false (pp_valid p)) false (c_esigs st)),
       Added)
  end.

Definition new_block_endorsement (m : endorse_msg) (st : cand) : cand * add_res :=
  (mkCand (c_proposals st) (c_commits st)
     (add_endorsement (em_endorser m) (mkES (em_proposer m) (em_empty m) (em_valid m)) false (c_esigs st)),
   Added).

Definition new_block_commitment (m : commit_msg) (st : cand) : cand * add_res :=
  match find (fun c => cm_committer c =? cm_committer m) (c_commits st) with
  | Some c => if cm_hash c =? cm_hash m then (st, DupSame) else (st, DupErr)
  | None =>
      let es1 := fold_left (fun es e =>
                   add_endorsement (fst e) (mkES (cm_proposer m) (cm_empty m) (snd e)) false es)
                   (cm_endorsers m) (c_esigs st) in
      let es2 := add_endorsement (cm_committer m) (mkES (cm_proposer m) (cm_empty m) (cm_valid m)) true es1 in
      (mkCand (c_proposals st) (c_commits st ++ [m]) es2, Added)
  end.

(** * Server.isEndorser (node_utils.go): the prefix of the endorser list up to the (2C+1)-th
    active one. [active] is isPeerActive. *)
Fixpoint is_endorser_loop (c2 : N) (active : N -> bool) (peer : N) (ends : list N) (activeN : N) : bool :=
  match ends with
  | [] => false
  | id :: r =>
      if id =? peer then true
      else if active id then
        let a := activeN + 1 in
        if c2 <? a then false else is_endorser_loop c2 active peer r a
      else is_endorser_loop c2 active peer r activeN
  end.

Definition is_endorser (c : N) (active : N -> bool) (ends : list N) (peer : N) : bool :=
  is_endorser_loop ((c * 2) mod U32) active peer ends 0.

Definition memN (x : N) (l : list N) : bool := existsb (N.eqb x) l.

(** isPeerActive for a peer pool whose peers have no heartbeat info yet: alive (self, or
    connected) and known to the pool. *)
Definition peer_active (self : N) (peers connected : list N) (id : N) : bool :=
  ((id =? self) || memN id connected) && memN id peers.

(** * BlockPool.commitDone (block_pool.go) *)

Definition nincr (k : N) (m : list (N * N)) : list (N * N) :=
  aset k (match aget k m with Some v => v + 1 | None => 1 end) m.
Definition nget (k : N) (m : list (N * N)) : N := match aget k m with Some v => v | None => 0 end.

(** local variables of the second path: emptyCnt, endorseCnt, proposer, forEmpty *)
Record p2 := mkP2 { p2_empty : N; p2_cnt : list (N * N); p2_proposer : N; p2_forEmpty : bool }.

Definition count_empty (sigs : list esig) : N := N.of_nat (length (filter es_empty sigs)).

(** for _, sig := range eSigs { if sig.ForEmpty {emptyCnt++} else { endorseCnt[p] += 1; if > C {...; break} } } *)
Fixpoint cd_inner (C' : N) (sigs : list esig) (st : p2) : p2 :=
  match sigs with
  | [] => st
  | s :: r =>
      if es_empty s then cd_inner C' r (mkP2 (p2_empty st + 1) (p2_cnt st) (p2_proposer st) (p2_forEmpty st))
      else
        let cnt' := nincr (es_proposer s) (p2_cnt st) in
        if C' <? nget (es_proposer s) cnt'
        then mkP2 (p2_empty st) cnt' (es_proposer s)
                  (if p2_forEmpty st then true else C' <? p2_empty st)
        else cd_inner C' r (mkP2 (p2_empty st) cnt' (p2_proposer st) (p2_forEmpty st))
  end.

(** for endorser, eSigs := range candidate.EndorseSigs, in the order [ord] *)
Fixpoint cd_outer (isE : N -> bool) (C' : N) (es : list (N * list esig)) (ord : list N) (st : p2) : p2 :=
  match ord with
  | [] => st
  | e :: r =>
      match aget e es with
      | None => cd_outer isE C' es r st
      | Some sigs =>
          let st1 := if isE e then st
                     else mkP2 (p2_empty st + count_empty sigs) (p2_cnt st) (p2_proposer st) (p2_forEmpty st) in
          let st2 := cd_inner C' sigs st1 in
          if p2_proposer st2 =? MAXU32 then cd_outer isE C' es r st2 else st2
      end
  end.

(** C = N - (N-1)/3 - 1 in uint32 *)
Definition commit_done_threshold (n : N) : N := Z.to_N ((commit_done_c (Z.of_N n)) mod (Z.of_N U32)).

Definition commit_done (isE : N -> bool) (ord : list N) (st : cand) (c n : N) : N * bool * bool :=
  let '(p, fe) := get_commit_consensus (c_commits st) (Z.of_N c) (Z.of_N n) in
  let '(p', fe') :=
    if p =? MAXU32 then
      let r := cd_outer isE (commit_done_threshold n) (c_esigs st) ord (mkP2 0 [] p fe) in
      (p2_proposer r, p2_forEmpty r)
    else (p, fe) in
  if p' =? MAXU32 then (MAXU32, false, false) else (p', fe', true).

(** * BlockPool.endorseDone (block_pool.go); emptyEndorseCount is an int compared with int(C). *)
Record e2 := mkE2 { e2_empty : N; e2_cnt : list (N * N) }.

Fixpoint ed_inner (c : N) (sigs : list esig) (st : e2) : e2 + (N * bool) :=
  match sigs with
  | [] => inl st
  | s :: r =>
      if es_empty s then
        let e := e2_empty st + 1 in
        if c <? e then inr (es_proposer s, true) else ed_inner c r (mkE2 e (e2_cnt st))
      else
        let cnt' := nincr (es_proposer s) (e2_cnt st) in
        if c <? nget (es_proposer s) cnt' then inr (es_proposer s, false)
        else ed_inner c r (mkE2 (e2_empty st) cnt')
  end.

Fixpoint ed_outer (c : N) (es : list (N * list esig)) (ord : list N) (st : e2) : N * bool * bool :=
  match ord with
  | [] => (MAXU32, false, false)
  | e :: r =>
      match aget e es with
      | None => ed_outer c es r st
      | Some sigs =>
          match ed_inner c sigs st with
          | inr (p, fe) => (p, fe, true)
          | inl st' => ed_outer c es r st'
          end
      end
  end.

Definition endorse_done (ord : list N) (st : cand) (c : N) : N * bool * bool :=
  if N.of_nat (length (c_esigs st)) <? (c + 1) mod U32 then (MAXU32, false, false)
  else ed_outer c (c_esigs st) ord (mkE2 0 []).

(** * Receive path (service.go: the receive loop of Server.run, onConsensusMsg, processMsgEvent)

    [ok] says whether the message's own mandatory signature (CommitterSig, EndorserSig, the block
    signatures of a proposal) verifies under the key of the *sending* peer (for proposals: of the
    proposer named in the block) over the digest the message carries — ground truth computed by
    the harness with real keys; msg.Verify(pk) must reject exactly the messages with [ok = false]. Nothing else is checked for endorse/commit messages before
    the pool sees them (Gen/VbftIntake.v records that from the current source). *)
Inductive op :=
| OpProposal (ok : bool) (p : proposal)
| OpEndorse (sender : N) (ok : bool) (m : endorse_msg)
| OpCommit (sender : N) (ok : bool) (m : commit_msg).

(** msg.Verify checks the message's own (mandatory) signature unconditionally for every signed
    message type (inventory of the Verify methods, Gen/VbftIntake.v). *)
Definition own_sigs_mandatory : bool :=
  verify_proposal_sig_unconditional && verify_endorse_sig_unconditional
  && verify_commit_sig_unconditional && verify_submit_sig_unconditional.

(** DeserializeVbftMsg rejects a proposal whose block header (or empty-block header) carries no
    signature with an error, before msg.Verify: such a proposal is an [OpProposal false _] and is
    [Dropped]. (Before repo fix fa5ca75d the decoder indexed SigData[0] and panicked.) *)
Definition decode_rejects_unsigned_proposal : bool := proposal_decode_checks_sigdata.

Definition passes (ok : bool) : bool :=
  if recv_verifies_sender_sig && own_sigs_mandatory then ok else true.

Definition receive (o : op) (st : cand) : cand * add_res :=
  match o with
  | OpProposal ok p => if passes ok then new_block_proposal p st else (st, Dropped)
  | OpEndorse _ ok m => if passes ok then new_block_endorsement m st else (st, Dropped)
  | OpCommit _ ok m => if passes ok then new_block_commitment m st else (st, Dropped)
  end.

Fixpoint run_ops (ops : list op) (st : cand) : cand :=
  match ops with
  | [] => st
  | o :: r => run_ops r (fst (receive o st))
  end.

Fixpoint run_ops_res (ops : list op) (st : cand) : list add_res :=
  match ops with
  | [] => []
  | o :: r => snd (receive o st) :: run_ops_res r (fst (receive o st))
  end.

(** What the current intake does and does not establish (from Gen/VbftIntake.v). *)
Definition intake_checks_endorser_sigs : bool :=
  commit_verify_reads_endorsers_sig || on_msg_commit_verifies || pool_commit_verifies.
Definition intake_checks_claimed_identity : bool :=
  commit_verify_reads_committer || endorse_verify_reads_endorser || on_msg_commit_verifies
  || on_msg_endorse_verifies || negb recv_key_is_sender.
