(** Model of the pre-execution entry points of core/store/ledgerstore/ledger_store.go
    (definitions only; proofs are in Proofs/PreExec.v), over the layered store of Model/KV.v.

    Mirrors
      LedgerStoreImp.PreExecuteContract / PreExecuteContractBatch / PreExecuteContractWithParam
      LedgerStoreImp.PreExecuteEIP155  (+ StateStore.HandleEIP155Transaction)
      LedgerStoreImp.PreExecuteEip155Tx / TraceEip155Tx / executeEip155Tx / GetCacheDB
      StateStore.NewOverlayDB, calcGasByCodeLen, tuneGasFeeByHeight
      leveldbstore.LevelDBStore NewBatch / BatchPut / BatchDelete / BatchCommit (the pending batch)
      overlaydb.OverlayDB.CommitTo, StateStore.CommitTo (only to state what pre-execution must NOT do)

    The ledger is a record of everything the block-adding path persists or keeps as "the chain":
    the three LevelDB stores with their pending batches, the merkle hash file, the current block,
    and the process-global gas table (neovm.GAS_TABLE). A pre-execution opens a *session*: a fresh
    OverlayDB and CacheDB over the state store. The layers hold the store by reference, so the model
    threads the whole ledger through the session and re-reads / writes back the state store's data
    around every operation (se_state / se_put): "the store did not change" is then a theorem about
    the operations, not an artefact of copying.

    The VM engines (NeoVM service, native contracts, EVM interpreter, tracer callbacks) are outside
    the model. They enter as an arbitrary *adaptive program* [prog]: a tree whose nodes are the
    operations the engines can perform on what they are handed -- the CacheDB (and through it the
    OverlayDB) and the getters of the LedgerStore interface -- each continuation receiving what the
    operation returned. Theorems quantify over all such programs. That the engines use nothing else
    of the LedgerStore they are handed (Store: this) is the stated assumption A1 (checks/C42.json);
    the digest oracle of the driver checks its consequence on every run. *)
From Coq Require Import List Bool NArith String.
Import ListNotations.
From Ont Require Import Lib.Bytes Model.KV.
From Ont Require Import Gen.PreExecGen.
Local Open Scope N_scope.
Open Scope bool_scope.

(** * LevelDBStore: persisted data + the pending batch (nil when none is open) *)
Record pstore := mkPStore { ps_data : store; ps_batch : option (list wr) }.

Definition apply_batch_wr (st : store) (w : wr) : store :=
  match w with WPut k v => store_put k v st | WDel k => store_delete k st end.

(** NewBatch / BatchPut / BatchDelete / BatchCommit. BatchPut on a nil batch dereferences nil:
    the model returns [None] (the process panics). *)
Definition ps_new_batch (p : pstore) : pstore := mkPStore (ps_data p) (Some []).
Definition ps_batch_add (w : wr) (p : pstore) : option pstore :=
  match ps_batch p with
  | Some b => Some (mkPStore (ps_data p) (Some (b ++ [w])))
  | None => None
  end.
Definition ps_batch_commit (p : pstore) : option pstore :=
  match ps_batch p with
  | Some b => Some (mkPStore (fold_left apply_batch_wr b (ps_data p)) None)
  | None => None
  end.

(** * The ledger *)
Definition gastable := list (string * N).

Record ledger := mkLedger {
  l_state : pstore;         (* states   LevelDB *)
  l_block : pstore;         (* block    LevelDB *)
  l_event : pstore;         (* ledgerevent LevelDB *)
  l_merkle : bytes;         (* merkle_tree.db hash file *)
  l_height : N;             (* currBlockHeight *)
  l_hash : bytes;           (* currBlockHash *)
  l_gas : gastable;         (* neovm.GAS_TABLE: process global, refreshed only by executed blocks *)
  l_pending : list memdb    (* write sets of executed, not yet submitted blocks: ExecuteResult.WriteSet is the
                               memdb of executeBlock's overlay itself (GetWriteSet returns it, no copy), held by
                               consensus between ExecuteBlock and SubmitBlock; most recent first *)
}.

Definition set_state (L : ledger) (p : pstore) : ledger :=
  mkLedger p (l_block L) (l_event L) (l_merkle L) (l_height L) (l_hash L) (l_gas L) (l_pending L).
Definition set_event (L : ledger) (p : pstore) : ledger :=
  mkLedger (l_state L) (l_block L) p (l_merkle L) (l_height L) (l_hash L) (l_gas L) (l_pending L).
Definition set_block (L : ledger) (p : pstore) : ledger :=
  mkLedger (l_state L) p (l_event L) (l_merkle L) (l_height L) (l_hash L) (l_gas L) (l_pending L).
Definition set_current (L : ledger) (h : N) (hash : bytes) : ledger :=
  mkLedger (l_state L) (l_block L) (l_event L) (l_merkle L) h hash (l_gas L) (l_pending L).
Definition set_gas (L : ledger) (g : gastable) : ledger :=
  mkLedger (l_state L) (l_block L) (l_event L) (l_merkle L) (l_height L) (l_hash L) g (l_pending L).
Definition set_pending (L : ledger) (w : list memdb) : ledger :=
  mkLedger (l_state L) (l_block L) (l_event L) (l_merkle L) (l_height L) (l_hash L) (l_gas L) w.
Definition set_state_data (L : ledger) (d : store) : ledger :=
  set_state L (mkPStore d (ps_batch (l_state L))).

(** * Sessions: fresh overlay + cache over the state store (held by reference) *)
Record session := mkSession { se_ledger : ledger; se_cache : memdb; se_overlay : memdb }.

(** StateStore.NewOverlayDB + storage.NewCacheDB (= LedgerStoreImp.GetCacheDB) *)
Definition open_session (L : ledger) : session := mkSession L [] [].

Definition se_state (x : session) : state :=
  mkState (se_cache x) (se_overlay x) (ps_data (l_state (se_ledger x))).
Definition se_put (x : session) (s : state) : session :=
  mkSession (set_state_data (se_ledger x) (st_store s)) (st_cache s) (st_overlay s).

(** Operations the engines can perform on the CacheDB they are handed (every DataEntryPrefix),
    and on the OverlayDB behind it. There is no operation that commits the overlay: CacheDB has no
    method that reaches OverlayDB.CommitTo. *)
Inductive sop :=
| SPut (pfx : N) (k v : bytes)    (* CacheDB.put: Put, PutContract, SetContractDestroyed, PutEthAccount, ... *)
| SDel (pfx : N) (k : bytes)      (* CacheDB.delete *)
| SGet (pfx : N) (k : bytes)      (* CacheDB.get *)
| SIter (pfx : N) (p : bytes)     (* CacheDB.NewIterator + First/Next* (CleanContractStorage, Migrate) *)
| SCommit                         (* CacheDB.Commit (StateDB.Commit at the end of ApplyTransaction) *)
| SReset                          (* CacheDB.Reset *)
| SOvGet (k : bytes)              (* OverlayDB.Get *)
| SOvIter (p : bytes).            (* OverlayDB.NewIterator *)

Definition sop_pfx (o : sop) : N :=
  match o with SPut p _ _ | SDel p _ | SGet p _ | SIter p _ => p | _ => 0 end.
Definition sop_hop (o : sop) : hop :=
  match o with
  | SPut _ k v => HPut k v | SDel _ k => HDel k | SGet _ k => HGet k | SIter _ p => HIter p
  | SCommit => HCommit | SReset => HReset | SOvGet k => HOvGet k | SOvIter p => HOvIter p
  end.
Definition sop_step (s : state) (o : sop) : state * list obs := impl_step (sop_pfx o) s (sop_hop o).
Definition sop_ok (o : sop) : bool := hop_ok (sop_pfx o) (sop_hop o).

(** Getters of the LedgerStore interface, as raw reads of the persisted stores and the
    in-memory current block. *)
Inductive lquery :=
| QHeight | QCurHash
| QBlockKey (k : bytes) | QEventKey (k : bytes) | QStateKey (k : bytes).

Definition N_bytes (n : N) : bytes := le_encode 4 n.
Definition lq_answer (L : ledger) (q : lquery) : bytes :=
  match q with
  | QHeight => N_bytes (l_height L)
  | QCurHash => l_hash L
  | QBlockKey k => fst (store_get k (ps_data (l_block L)))
  | QEventKey k => fst (store_get k (ps_data (l_event L)))
  | QStateKey k => fst (store_get k (ps_data (l_state L)))
  end.

(** Adaptive programs: what an engine does, as a function of what it has seen. *)
Inductive prog (R : Type) : Type :=
| PRet (r : R)
| PErr (e : N)
| POp (o : sop) (k : list obs -> prog R)
| PQuery (q : lquery) (k : bytes -> prog R).
Arguments PRet {R} r.
Arguments PErr {R} e.
Arguments POp {R} o k.
Arguments PQuery {R} q k.

Inductive outcome (R : Type) : Type := Done (r : R) | Failed (e : N).
Arguments Done {R} r.
Arguments Failed {R} e.

Fixpoint run_prog {R} (p : prog R) (x : session) : outcome R * session :=
  match p with
  | PRet r => (Done r, x)
  | PErr e => (Failed e, x)
  | POp o k => let '(s', ob) := sop_step (se_state x) o in run_prog (k ob) (se_put x s')
  | PQuery q k => run_prog (k (lq_answer (se_ledger x) q)) x
  end.

(** The same program against the specification of Model/KV.v: three plain ordered maps
    (persisted / block / transaction) instead of the layered stack. *)
Definition sop_spec_step (sp : spec) (o : sop) : spec * list obs := spec_step (sop_pfx o) sp (sop_hop o).
Fixpoint run_prog_spec {R} (L : ledger) (p : prog R) (sp : spec) : outcome R * spec :=
  match p with
  | PRet r => (Done r, sp)
  | PErr e => (Failed e, sp)
  | POp o k => let '(sp', ob) := sop_spec_step sp o in run_prog_spec L (k ob) sp'
  | PQuery q k => run_prog_spec L (k (lq_answer L q)) sp
  end.

(** what a fresh session abstracts to: all three maps are the live persisted entries *)
Definition fresh_spec (L : ledger) : spec :=
  let m := live (ps_data (l_state L)) in mkSpec m m m.

(** Every operation a program can issue is well formed (keys are byte strings) *)
Inductive prog_ok {R} : prog R -> Prop :=
| ok_ret r : prog_ok (PRet r)
| ok_err e : prog_ok (PErr e)
| ok_op o k : sop_ok o = true -> (forall ob, prog_ok (k ob)) -> prog_ok (POp o k)
| ok_query q k : (forall b, prog_ok (k b)) -> prog_ok (PQuery q k).

(** * Gas arithmetic (uint64) *)
Definition u64 : N := 2 ^ 64.
Definition max_u64 : N := u64 - 1.

Fixpoint gas_lookup (g : gastable) (name : string) : N :=
  match g with
  | [] => 0                                   (* Go map: missing key reads 0 *)
  | (k, v) :: r => if String.eqb k name then v else gas_lookup r name
  end.

(** the local copy built by GAS_TABLE.Range in PreExecuteContractWithParam *)
Definition local_gas_table (g : gastable) (wasm_factor : N) : gastable :=
  map (fun kv => if String.eqb (fst kv) c42_WASM_GAS_FACTOR && negb (wasm_factor =? 0)
                 then (fst kv, wasm_factor) else kv) g.

(** calcGasByCodeLen: uint64(codeLen/PER_UNIT_CODE_LEN) * codeGas *)
Definition calc_gas_by_code_len (codelen codegas : N) : N :=
  (((codelen / c42_PER_UNIT_CODE_LEN) mod u64) * codegas) mod u64.

(** tuneGasFeeByHeight *)
Definition tune_gas (height gas round cur : N) : N :=
  if c42_GAS_ROUND_TUNE_HEIGHT <? height then
    let t := ((gas + round - 1) mod u64) / round in
    if max_u64 - round <? gas then cur
    else let ng := (round * t) mod u64 in
         if cur <? ng then cur else ng
  else gas.

(** * Transactions, as far as the entry points look at them *)
Record vm_res := mkVmRes {
  vr_gas_left : N;            (* sc.Gas after Invoke *)
  vr_result : bytes;          (* converted return value *)
  vr_conv_err : bool;         (* ConvertNeoVmValueHexString failed *)
  vr_notify : list bytes }.

Record evm_res := mkEvmRes {
  er_used_gas : N; er_return : bytes; er_state : N; er_notify : list bytes }.

Inductive deploy_check := DWasmInvalid | DNeoIsWasm | DOk.

Inductive tx :=
| TxEip (p : prog evm_res)                                   (* ApplyTransaction on a StateDB over the cache *)
| TxInvoke (codelen : N) (p : gastable -> N -> prog vm_res)  (* engine.Invoke with the local gas table and the initial gas *)
| TxDeploy (chk : deploy_check) (codelen : N)
| TxOther.

Record preparam := mkParam { pp_jit : bool; pp_wasm_factor : N; pp_min_gas : bool }.
Record preres := mkRes { pr_state : N; pr_gas : N; pr_result : bytes; pr_notify : list bytes }.

Definition ERR_CONVERT : N := 1.
Definition ERR_WASM_INVALID : N := 2.
Definition ERR_NEO_IS_WASM : N := 3.
Definition ERR_TX_TYPE : N := 4.

(** PreExecuteEIP155: overlay, cache, HandleEIP155Transaction(..., checkNonce=false); nothing else. *)
Definition pre_execute_eip155 (L : ledger) (p : prog evm_res) : outcome evm_res * ledger :=
  let x := open_session L in
  let '(o, x') := run_prog p x in (o, se_ledger x').

(** executeEip155Tx (PreExecuteEip155Tx, TraceEip155Tx): GetCacheDB, NewStateDB, ApplyMessage. *)
Definition execute_eip155_tx (L : ledger) (p : prog evm_res) : outcome evm_res * ledger :=
  let x := open_session L in
  let '(o, x') := run_prog p x in (o, se_ledger x').

Definition pre_execute_with_param (L : ledger) (t : tx) (pm : preparam) : outcome preres * ledger :=
  let height := l_height L in
  match t with
  | TxEip p =>
      let '(o, L') := pre_execute_eip155 L p in
      (match o with
       | Done r => Done (mkRes (er_state r) (er_used_gas r) (er_return r) (er_notify r))
       | Failed e => Failed e
       end, L')
  | TxInvoke codelen p =>
      let x := open_session L in
      let g := local_gas_table (l_gas L) (pp_wasm_factor pm) in
      let gas0 := max_u64 - calc_gas_by_code_len codelen (gas_lookup g c42_UINT_INVOKE_CODE_LEN_NAME) in
      let '(o, x') := run_prog (p g gas0) x in
      (match o with
       | Failed e => Failed e
       | Done r =>
           let cost := max_u64 - (vr_gas_left r) mod u64 in
           let cost := if pp_min_gas pm
                       then tune_gas ((height + 1) mod 2 ^ 32) (N.max cost c42_MIN_TRANSACTION_GAS)
                                     c42_MIN_TRANSACTION_GAS max_u64
                       else cost in
           if vr_conv_err r then Failed ERR_CONVERT
           else Done (mkRes 1 cost (vr_result r) (vr_notify r))
       end, se_ledger x')
  | TxDeploy chk codelen =>
      let x := open_session L in
      let g := local_gas_table (l_gas L) (pp_wasm_factor pm) in
      (match chk with
       | DWasmInvalid => Failed ERR_WASM_INVALID
       | DNeoIsWasm => Failed ERR_NEO_IS_WASM
       | DOk => Done (mkRes 1 ((gas_lookup g c42_CONTRACT_CREATE_NAME +
                                 calc_gas_by_code_len codelen (gas_lookup g c42_UINT_DEPLOY_CODE_LEN_NAME)) mod u64) [] [])
       end, se_ledger x)
  | TxOther => (Failed ERR_TX_TYPE, se_ledger (open_session L))
  end.

Definition default_param : preparam := mkParam false 0 true.

Definition pre_execute_contract (L : ledger) (t : tx) : outcome preres * ledger :=
  pre_execute_with_param L t default_param.

(** PreExecuteContractBatch: optional saving-block lock (no ledger field), the height, the loop. *)
Fixpoint pre_execute_batch_loop (L : ledger) (txs : list tx) (acc : list preres) : outcome (list preres) * ledger :=
  match txs with
  | [] => (Done (rev acc), L)
  | t :: r =>
      let '(o, L1) := pre_execute_contract L t in
      match o with
      | Failed e => (Failed e, L1)
      | Done res => pre_execute_batch_loop L1 r (res :: acc)
      end
  end.
Definition pre_execute_batch (L : ledger) (txs : list tx) (atomic : bool) : outcome (list preres) * N * ledger :=
  let height := l_height L in
  let '(o, L') := pre_execute_batch_loop L txs [] in (o, height, L').

(** * What pre-execution must not do: the committing steps of the block-adding path *)

(** OverlayDB.CommitTo: memdb.ForEach -> BatchDelete / BatchPut on the state store's batch *)
Definition overlay_commit_to (x : session) : option session :=
  let step (acc : option pstore) (e : kv) :=
    match acc with
    | None => None
    | Some p => ps_batch_add (if is_empty (snd e) then WDel (fst e) else WPut (fst e) (snd e)) p
    end in
  match fold_left step (se_overlay x) (Some (l_state (se_ledger x))) with
  | Some p => Some (mkSession (set_state (se_ledger x) p) (se_cache x) (se_overlay x))
  | None => None
  end.

(** StateStore.NewBatch / StateStore.CommitTo *)
Definition state_new_batch (x : session) : session :=
  mkSession (set_state (se_ledger x) (ps_new_batch (l_state (se_ledger x)))) (se_cache x) (se_overlay x).
Definition state_commit_to (x : session) : option session :=
  match ps_batch_commit (l_state (se_ledger x)) with
  | Some p => Some (mkSession (set_state (se_ledger x) p) (se_cache x) (se_overlay x))
  | None => None
  end.

(** A committing variant of PreExecuteEIP155 (what handleTransaction + submitBlock do with the same
    overlay): used only to show that the model can express the violation. *)
Definition pre_execute_eip155_committing (L : ledger) (p : prog evm_res) : option (outcome evm_res * ledger) :=
  let x := open_session L in
  let '(o, x1) := run_prog p x in
  match overlay_commit_to (state_new_batch x1) with
  | Some x2 => match state_commit_to x2 with
               | Some x3 => Some (o, se_ledger x3)
               | None => None
               end
  | None => None
  end.

(** An overlay-recycling variant of StateStore.NewOverlayDB (a free list onto which executeBlock's
    overlay is released although its memdb escaped as ExecuteResult.WriteSet): the session's
    overlay IS the most recent pending write set, Reset first. Used only to show that the model
    can express this violation: what the pre-execution commits from its cache into its overlay
    replaces the pending block's write set, which SubmitBlock would then persist. *)
Definition pre_execute_eip155_recycling (L : ledger) (p : prog evm_res) : outcome evm_res * ledger :=
  let x := open_session L in                      (* the popped overlay after Reset: empty *)
  let '(o, x') := run_prog p x in
  match l_pending L with
  | [] => (o, se_ledger x')
  | _ :: rest => (o, set_pending (se_ledger x') (se_overlay x' :: rest))
  end.

(** * The call alphabet of the entry points (tied to the source by Gen/PreExecGen.v) *)

Inductive mutation :=
| MOverlayCommitTo          (* overlay.CommitTo: overlay write set into the state store's batch *)
| MStateNewBatch            (* stateStore.NewBatch *)
| MStateCommit              (* stateStore.CommitTo: BatchCommit *)
| MEventPut                 (* SaveNotify / eventStore.SaveEventNotify*: BatchPut into the event store *)
| MEventCommit              (* eventStore.CommitTo *)
| MBlockCommit              (* blockStore.CommitTo *)
| MSetCurrent               (* setCurrentBlock *)
| MGasStore                 (* neovm.GAS_TABLE.Store / refreshGlobalParam *)
| MAnything.                (* AddBlock, SubmitBlock, saveBlock, submitBlock, executeBlock+commit, Close, ... *)

Inductive effect :=
| EPure | ERead | ELock | ENewSession | ELocalObj | EEngine | EEnter
| EMutate (m : mutation).

(** The choice an environment makes at a call (which operation an engine performs, which key is
    written, ...). *)
Inductive choice :=
| ChNone
| ChProg (p : prog unit)
| ChKV (k v : bytes)
| ChCur (h : N) (hash : bytes)
| ChGas (name : string) (v : N)
| ChLedger (L : ledger).

Definition on_ledger (x : session) (f : ledger -> ledger) : session :=
  mkSession (f (se_ledger x)) (se_cache x) (se_overlay x).
Definition on_ledger_opt (x : session) (f : ledger -> option ledger) : option session :=
  match f (se_ledger x) with Some L => Some (mkSession L (se_cache x) (se_overlay x)) | None => None end.

Fixpoint gas_store (g : gastable) (name : string) (v : N) : gastable :=
  match g with
  | [] => [(name, v)]
  | (k, w) :: r => if String.eqb k name then (k, v) :: r else (k, w) :: gas_store r name v
  end.

Definition mutate_sem (m : mutation) (ch : choice) (x : session) : option session :=
  match m with
  | MOverlayCommitTo => overlay_commit_to x
  | MStateNewBatch => Some (state_new_batch x)
  | MStateCommit => state_commit_to x
  | MEventPut =>
      match ch with
      | ChKV k v => on_ledger_opt x (fun L => match ps_batch_add (WPut k v) (l_event L) with
                                             | Some p => Some (set_event L p) | None => None end)
      | _ => Some x
      end
  | MEventCommit => on_ledger_opt x (fun L => match ps_batch_commit (l_event L) with
                                             | Some p => Some (set_event L p) | None => None end)
  | MBlockCommit => on_ledger_opt x (fun L => match ps_batch_commit (l_block L) with
                                             | Some p => Some (set_block L p) | None => None end)
  | MSetCurrent => match ch with ChCur h hash => Some (on_ledger x (fun L => set_current L h hash)) | _ => Some x end
  | MGasStore => match ch with ChGas n v => Some (on_ledger x (fun L => set_gas L (gas_store (l_gas L) n v))) | _ => Some x end
  | MAnything => match ch with ChLedger L => Some (on_ledger x (fun _ => L)) | _ => Some x end
  end.

Definition exec_effect (e : effect) (ch : choice) (x : session) : option session :=
  match e with
  | EPure | ERead | ELock | ELocalObj | EEnter => Some x
  | ENewSession => Some (open_session (se_ledger x))
  | EEngine => match ch with ChProg p => Some (snd (run_prog p x)) | _ => Some x end
  | EMutate m => mutate_sem m ch x
  end.

(** Classification of the call strings the translator emits ("call:<selector>" / "write:<lhs>" /
    "go"). Unknown strings are unclassified ([None]) and make the tie theorem fail: a new call in a
    pre-execution path has to be looked at. *)
Local Open Scope string_scope.
Definition call_table : list (string * effect) := [
  (* other functions of the package that the translator follows *)
  ("call:this.PreExecuteContractWithParam", EEnter); ("call:this.PreExecuteContract", EEnter);
  ("call:this.PreExecuteEIP155", EEnter); ("call:this.executeEip155Tx", EEnter);
  ("call:this.stateStore.HandleEIP155Transaction", EEnter);
  ("call:calcGasByCodeLen", EEnter); ("call:tuneGasFeeByHeight", EEnter);
  (* getters *)
  ("call:this.GetCurrentBlockHeight", ERead); ("call:this.GetHeaderByHeight", ERead);
  ("call:this.GetBlockHash", ERead); ("call:this.GetCurrentBlockHash", ERead);
  ("call:neovm.GAS_TABLE.Range", ERead); ("call:params.GetChainConfig", ERead);
  ("call:sysconfig.GetGasRoundTuneHeight", ERead);
  ("call:time.Now", ERead); ("call:time.Now().Unix", ERead);
  (* the saving-block lock *)
  ("call:this.getSavingBlockLock", ELock); ("call:this.releaseSavingBlockLock", ELock);
  (* fresh layers over the state store *)
  ("call:this.stateStore.NewOverlayDB", ENewSession); ("call:overlaydb.NewOverlayDB", ENewSession);
  ("call:storage.NewCacheDB", ENewSession); ("call:this.GetCacheDB", ENewSession);
  ("call:storage.NewStateDB", ELocalObj);
  (* values local to the call *)
  ("call:cache.SetDbErr", ELocalObj); ("call:statedb.DbErr", ELocalObj); ("write:*notify", ELocalObj);
  ("call:tx.IsEipTx", EPure); ("call:tx.Hash", EPure); ("call:common2.Hash", EPure);
  ("call:common2.Address", EPure); ("call:deploy.VmType", EPure); ("call:deploy.GetRawCode", EPure);
  ("call:bytes.Compare", EPure); ("call:errors.NewErr", EPure); ("call:common.ToHexString", EPure);
  ("call:val.ConvertNeoVmValueHexString", EPure); ("call:event.ExecuteNotifyFromEthReceipt", EPure);
  ("call:evm.NewEVMTxContext", EPure); ("call:evm.NewEVMBlockContext", EPure); ("call:evm2.NewEVM", EPure);
  ("call:wasmvm.WasmjitValidate", EPure);
  (* the engines: run on the session's cache and the LedgerStore getters *)
  ("call:sc.NewExecuteEngine", EEngine); ("call:engine.Invoke", EEngine);
  ("call:evm2.ApplyTransaction", EEngine); ("call:evm.ApplyMessage", EEngine);
  (* operations on the session's own layers *)
  ("call:statedb.Commit", EEngine); ("call:cache.Commit", EEngine); ("call:cache.Reset", EEngine);
  (* the committing steps of the block-adding path, under the names they have in the package *)
  ("call:overlay.CommitTo", EMutate MOverlayCommitTo);
  ("call:this.stateStore.NewBatch", EMutate MStateNewBatch);
  ("call:this.stateStore.CommitTo", EMutate MStateCommit);
  ("call:this.stateStore.BatchPutRawKeyVal", EMutate MAnything);
  ("call:this.stateStore.BatchDeleteRawKey", EMutate MAnything);
  ("call:SaveNotify", EMutate MEventPut);
  ("call:this.eventStore.SaveEventNotifyByTx", EMutate MEventPut);
  ("call:this.eventStore.SaveEventNotifyByBlock", EMutate MEventPut);
  ("call:this.eventStore.NewBatch", EMutate MAnything);
  ("call:this.eventStore.CommitTo", EMutate MEventCommit);
  ("call:this.blockStore.NewBatch", EMutate MAnything);
  ("call:this.blockStore.CommitTo", EMutate MBlockCommit);
  ("call:this.setCurrentBlock", EMutate MSetCurrent);
  ("call:neovm.GAS_TABLE.Store", EMutate MGasStore);
  ("call:neovm.GAS_TABLE.Delete", EMutate MGasStore);
  ("call:refreshGlobalParam", EMutate MGasStore);
  ("call:this.handleTransaction", EMutate MAnything);
  ("call:this.stateStore.HandleInvokeTransaction", EMutate MAnything);
  ("call:this.stateStore.HandleDeployTransaction", EMutate MAnything);
  ("call:costInvalidGas", EMutate MAnything);
  ("call:this.executeBlock", EMutate MAnything); ("call:this.ExecuteBlock", EMutate MAnything);
  ("call:this.submitBlock", EMutate MAnything); ("call:this.SubmitBlock", EMutate MAnything);
  ("call:this.saveBlock", EMutate MAnything); ("call:this.AddBlock", EMutate MAnything);
  ("call:this.saveBlockToStateStore", EMutate MAnything);
  ("call:this.saveBlockToEventStore", EMutate MAnything);
  ("call:this.saveBlockToBlockStore", EMutate MAnything);
  ("call:this.Close", EMutate MAnything);
  ("go", EMutate MAnything)
].
Local Close Scope string_scope.

Fixpoint classify_in (tbl : list (string * effect)) (c : string) : option effect :=
  match tbl with
  | [] => None
  | (k, e) :: r => if String.eqb k c then Some e else classify_in r c
  end.
Definition classify (c : string) : option effect := classify_in call_table c.

Definition benign_effect (e : effect) : bool := match e with EMutate _ => false | _ => true end.
Definition benign (c : string) : bool :=
  match classify c with Some e => benign_effect e | None => false end.

(** A trace over a call alphabet: any order, any repetition, any environment choices (this
    over-approximates the control flow of the functions the calls were collected from). *)
Fixpoint exec_trace (tr : list (string * choice)) (x : session) : option session :=
  match tr with
  | [] => Some x
  | (c, ch) :: r =>
      match classify c with
      | None => None
      | Some e => match exec_effect e ch x with
                  | Some x' => exec_trace r x'
                  | None => None
                  end
      end
  end.

Definition reach_of (entry : string) : list string :=
  match find (fun p => String.eqb (fst p) entry) c42_reach with
  | Some p => snd p
  | None => []
  end.

Definition in_alphabet (alpha : list string) (tr : list (string * choice)) : bool :=
  forallb (fun s => existsb (String.eqb (fst s)) alpha) tr.

Definition all_benign (alpha : list string) : bool := forallb benign alpha.

(** every entry point named by the translator has an alphabet, and all of it is benign *)
Definition entries_benign : bool :=
  forallb (fun p => all_benign (snd p)) c42_reach.

Definition expected_entries : list string :=
  ["PreExecuteContract"; "PreExecuteContractBatch"; "PreExecuteContractWithParam";
   "PreExecuteEIP155"; "PreExecuteEip155Tx"; "TraceEip155Tx"]%string.
Definition entries_present : bool :=
  forallb (fun e => existsb (fun p => String.eqb (fst p) e) c42_reach) expected_entries.

(** The hand-written entry-point models above use exactly these calls of the alphabet (the ones
    with an effect on the session); the tie theorem checks that each is in the generated alphabet
    of its entry point, so the model does not describe calls the code no longer makes. *)
Definition model_calls : list (string * list string) := [
  ("PreExecuteContractWithParam",
     ["call:this.GetCurrentBlockHeight"; "call:this.PreExecuteEIP155"; "call:this.stateStore.NewOverlayDB";
      "call:storage.NewCacheDB"; "call:neovm.GAS_TABLE.Range"; "call:calcGasByCodeLen"; "call:engine.Invoke";
      "call:tuneGasFeeByHeight"; "call:wasmvm.WasmjitValidate"]);
  ("PreExecuteContract", ["call:this.PreExecuteContractWithParam"]);
  ("PreExecuteContractBatch", ["call:this.GetCurrentBlockHeight"; "call:this.PreExecuteContract";
                               "call:this.getSavingBlockLock"; "call:this.releaseSavingBlockLock"]);
  ("PreExecuteEIP155", ["call:this.stateStore.NewOverlayDB"; "call:storage.NewCacheDB";
                        "call:this.stateStore.HandleEIP155Transaction"; "call:evm2.ApplyTransaction"]);
  ("PreExecuteEip155Tx", ["call:this.executeEip155Tx"; "call:this.GetCacheDB"; "call:evm.ApplyMessage"]);
  ("TraceEip155Tx", ["call:this.executeEip155Tx"; "call:this.GetCacheDB"; "call:evm.ApplyMessage"])
]%string.
Definition model_calls_covered : bool :=
  forallb (fun p => forallb (fun c => existsb (String.eqb c) (reach_of (fst p))) (snd p)) model_calls.
