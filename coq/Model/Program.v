(** Model of core/program/program.go (signature-script builder and parser) and of
    core/types/address.go (account addresses from keys).  Executable definitions only; proofs are
    in Proofs/Program.v.  Opcode values, key-type tags and MULTI_SIG_MAX_PUBKEY_SIZE come from
    Gen/ProgramConsts.v (printed from the linked packages on every run); the bookkeeper threshold
    comes from Gen/ProgramFormulas.v (translated from the source text).

    Public keys are abstract.  A key carries exactly the data the code looks at:
    - the fields keypair.publicKeyList.Less compares (key type, curve label, X, Y; for Ed25519 the
      32 key bytes read as a big-endian number in [pk_x], which is what bytes.Compare orders by),
    - its canonical serialization keypair.SerializePublicKey (bytes).
    keypair.DeserializePublicKey is a function argument [deser] of the parser (a table in the
    correspondence cases, a Section variable in the theorems).  The address hashes
    (RIPEMD160 . SHA256 of a script; Keccak256(..)[12:] for Ethereum-style keys) are function
    arguments as well. *)
From Coq Require Import List Bool Arith NArith ZArith.
Import ListNotations.
From Ont Require Import Lib.Bytes Model.Codec Gen.ProgramConsts Gen.ProgramFormulas.
Local Open Scope N_scope.
Open Scope bool_scope.

(** * Keys and keypair.SortPublicKeys *)
Record pubkey := mkKey { pk_type : N; pk_curve : N; pk_x : N; pk_y : N; pk_ser : bytes }.

Definition pubkey_eqb (a b : pubkey) : bool :=
  (pk_type a =? pk_type b) && (pk_curve a =? pk_curve b) && (pk_x a =? pk_x b) && (pk_y a =? pk_y b)
  && bytes_eqb (pk_ser a) (pk_ser b).

(** publicKeyList.Less: by key type; then ECDSA/SM2 by curve label, X, Y; Ed25519 by the key
    bytes; Ethereum-style keys by X, Y.  Any other type tag panics in GetKeyType; the model
    returns [true] there (the statement "default: panic ... return true") and the theorems are
    stated for keys of the four known types. *)
Definition xy_less (a b : pubkey) : bool :=
  if negb (pk_x a =? pk_x b) then pk_x a <? pk_x b else pk_y a <? pk_y b.

Definition key_less (a b : pubkey) : bool :=
  let ta := pk_type a in
  let tb := pk_type b in
  if negb (ta =? tb) then ta <? tb
  else if (ta =? PK_ECDSA) || (ta =? PK_SM2) then
    if negb (pk_curve a =? pk_curve b) then pk_curve a <? pk_curve b else xy_less a b
  else if ta =? PK_EDDSA then pk_x a <? pk_x b
  else if ta =? PK_ETHECDSA then xy_less a b
  else true.

(** sort.Sort with that Less.  Keys that are equivalent under Less are the same key (same
    algorithm, curve and point), so every correct sorting algorithm returns the same list; the
    model uses insertion sort. *)
Fixpoint insert_key (x : pubkey) (l : list pubkey) : list pubkey :=
  match l with
  | [] => [x]
  | y :: r => if key_less x y then x :: y :: r else y :: insert_key x r
  end.

Fixpoint sort_keys (l : list pubkey) : list pubkey :=
  match l with
  | [] => []
  | x :: r => insert_key x (sort_keys r)
  end.

(** * Numbers: common.BigIntToNeoBytes / BigIntFromNeoBytes, big.Int.SetBytes, big.Int.Int64 *)

(** Minimal little-endian magnitude bytes of [v] (big.Int.Bytes reversed). *)
Fixpoint le_min_fuel (f : nat) (v : N) : bytes :=
  match f with
  | O => []
  | S f' => if v =? 0 then [] else (v mod 256) :: le_min_fuel f' (v / 256)
  end.
Definition le_min (v : N) : bytes := le_min_fuel (N.to_nat (N.size v)) v.

(** BigIntToNeoBytes on a non-negative integer (the builder only ever passes these): empty for 0,
    else the magnitude with a 0 byte appended when the top byte has its high bit set. *)
Definition neo_of_N (v : N) : bytes :=
  let bs := le_min v in
  match bs with
  | [] => []
  | _ => if 128 <=? last bs 0 then bs ++ [0] else bs
  end.

(** BigIntFromNeoBytes on any byte string: little-endian two's complement. *)
Definition neo_to_Z (ba : bytes) : Z :=
  match ba with
  | [] => 0%Z
  | _ => if 128 <=? last ba 0
         then (Z.of_N (le_decode ba) - Z.of_N (256 ^ N.of_nat (length ba)))%Z
         else Z.of_N (le_decode ba)
  end.

(** big.Int.SetBytes: big-endian magnitude. *)
Definition be_decode (b : bytes) : N := le_decode (rev b).

(** big.Int.Int64: the low 64 bits of the magnitude reinterpreted as int64, negated (wrapping)
    for a negative value. *)
Definition int64_of_Z (z : Z) : Z :=
  let a := (Z.abs z mod Z.of_N two64)%Z in
  let w := if (z <? 0)%Z then ((Z.of_N two64 - a) mod Z.of_N two64)%Z else a in
  if (w <? Z.of_N two64 / 2)%Z then w else (w - Z.of_N two64)%Z.

(** * ProgramBuilder *)
Definition uint8 (v : N) : N := v mod 256.

(** PushBytes; [None] is the panic "push data error: data is nil". *)
Definition push_bytes (data : bytes) : option bytes :=
  let n := N.of_nat (length data) in
  if n =? 0 then None
  else if (Z.of_N n <=? Z.of_N OP_PUSHBYTES75 + 1 - Z.of_N OP_PUSHBYTES1)%Z
  then Some (uint8 (uint8 n + uint8 OP_PUSHBYTES1 + 255) :: data)
  else if n <? 256 then Some (OP_PUSHDATA1 :: write_uint8 n ++ data)
  else if n <? 65536 then Some (OP_PUSHDATA2 :: write_uint16 n ++ data)
  else Some (OP_PUSHDATA4 :: write_uint32 n ++ data).

(** PushNum(num uint16). *)
Definition push_num (num : N) : option bytes :=
  if num =? 0 then Some [OP_PUSH0]
  else if num <=? 16 then Some [uint8 (uint8 num + 255 + uint8 OP_PUSH1)]
  else push_bytes (neo_of_N num).

Definition obind {A B} (o : option A) (f : A -> option B) : option B :=
  match o with Some a => f a | None => None end.

Fixpoint push_all (ds : list bytes) : option bytes :=
  match ds with
  | [] => Some []
  | d :: r => obind (push_bytes d) (fun a => obind (push_all r) (fun b => Some (a ++ b)))
  end.

(** ProgramFromPubKey / EncodeSinglePubKeyProgramInto. *)
Definition program_from_pubkey (k : pubkey) : option bytes :=
  obind (push_bytes (pk_ser k)) (fun a => Some (a ++ [OP_CHECKSIG])).

(** The parameter test shared by EncodeMultiPubKeyProgramInto, AddressFromMultiPubKeys and
    GetProgramInfo: 1 <= m && m <= n && n > 1 && n <= MULTI_SIG_MAX_PUBKEY_SIZE. *)
Definition multi_params_ok (m n : Z) : bool :=
  ((1 <=? m) && (m <=? n) && (1 <? n) && (n <=? MULTI_SIG_MAX_PUBKEY_SIZE))%Z.

(** The script the builder writes for (m, keys in the given order, count pushed = n). *)
Definition multi_script (m : N) (keys : list pubkey) (n : N) : option bytes :=
  obind (push_num m) (fun a =>
  obind (push_all (map pk_ser keys)) (fun b =>
  obind (push_num n) (fun c => Some (a ++ b ++ c ++ [OP_CHECKMULTISIG])))).

Inductive bres := BOk (prog : bytes) | BErrParam | BPanic.

(** ProgramFromMultiPubKey / EncodeMultiPubKeyProgramInto (m is a Go int; uint16(m) after the
    parameter test). *)
Definition program_from_multi_pubkey (keys : list pubkey) (m : Z) : bres :=
  let n := Z.of_nat (length keys) in
  if negb (multi_params_ok m n) then BErrParam
  else
    let sorted := sort_keys keys in
    match multi_script (Z.to_N m mod 65536) sorted (N.of_nat (length sorted) mod 65536) with
    | Some p => BOk p
    | None => BPanic
    end.

(** ProgramFromParams / EncodeParamProgramInto. *)
Definition program_from_params (sigs : list bytes) : option bytes := push_all sigs.

(** * programParser *)
Inductive perr :=
| EWrongProgram      (* "wrong program": len(program) <= 2 *)
| EUnexpectedEOF     (* io.ErrUnexpectedEOF *)
| EUnexpectedOpcode  (* "unexpected opcode" *)
| ENumRange          (* "num not in range (16, MaxUint16]" *)
| EExpectedEOF       (* "expected eof, but remains" *)
| EMissingLen        (* "missing pubkey length" *)
| EDeser             (* any error of keypair.DeserializePublicKey *)
| EUnmatched         (* "number of pubkeys unmarched" *)
| EWrongParam        (* "wrong multi-sig param" *)
| EUnsupported       (* "unsupported program" *)
| EFuel.             (* model only: loop fuel exhausted (excluded by parser_total) *)

Definition pres (A : Type) : Type := (A * source) + perr.

(** ZeroCopySource.BackUp(n): self.off -= n on a uint64. *)
Definition back_up (s : source) (n : N) : source :=
  mkSrc (buf s) (N.to_nat ((N.of_nat (off s) + two64 - n mod two64) mod two64)).

Definition read_opcode (s : source) : pres N :=
  let '(c, eof, s') := next_byte s in
  if eof then inr EUnexpectedEOF else inl (c, s').

Definition peek_opcode (s : source) : pres N :=
  match read_opcode s with
  | inl (c, s') => inl (c, back_up s' 1)
  | inr e => inr e
  end.

(** A ReadOpCode whose results are ignored. *)
Definition skip_opcode (s : source) : source := let '(_, _, s') := next_byte s in s'.

Definition read_bytes (s : source) : pres bytes :=
  match read_opcode s with
  | inr e => inr e
  | inl (code, s1) =>
    let '(keylen, eof, bad, s2) :=
      if code =? OP_PUSHDATA4 then let '(v, e, s2) := next_uint32 s1 in (v, e, false, s2)
      else if code =? OP_PUSHDATA2 then let '(v, e, s2) := next_uint16 s1 in (v, e, false, s2)
      else if code =? OP_PUSHDATA1 then let '(v, e, s2) := next_byte s1 in (v, e, false, s2)
      else if (code <=? OP_PUSHBYTES75) && (OP_PUSHBYTES1 <=? code)
           then ((code + two64 - OP_PUSHBYTES1 + 1) mod two64, false, false, s1)
      else (0, false, true, s1) in
    if eof then inr EUnexpectedEOF
    else if bad then inr EUnexpectedOpcode
    else
      let '(d, eof2, s3) := next_bytes s2 keylen in
      if eof2 then inr EUnexpectedEOF else inl (d, s3)
  end.

(** num := int(code) - int(PUSH1) + 1; 1 <= num && num <= 16 *)
Definition small_num (code : N) : option N :=
  let num := (Z.of_N code - Z.of_N OP_PUSH1 + 1)%Z in
  if ((1 <=? num) && (num <=? 16))%Z then Some (Z.to_N num) else None.

Definition read_num (s : source) : pres N :=
  match peek_opcode s with
  | inr e => inr e
  | inl (code, s0) =>
    if code =? OP_PUSH0 then inl (0, skip_opcode s0)
    else match small_num code with
    | Some num => inl (num, skip_opcode s0)
    | None =>
      match read_bytes s0 with
      | inr e => inr e
      | inl (buff, s1) =>
        let num := int64_of_Z (neo_to_Z buff) in
        if ((65535 <? num) || (num <=? 16))%Z then inr ENumRange else inl (Z.to_N num, s1)
      end
    end
  end.

Section Parser.
Variable deser : bytes -> option pubkey.

Definition read_pubkey (s : source) : pres pubkey :=
  match read_bytes s with
  | inr e => inr e
  | inl (b, s') => match deser b with Some k => inl (k, s') | None => inr EDeser end
  end.

(** for i := 0; i < int(m); i++ { ReadPubKey } *)
Fixpoint read_pubkeys (fuel : nat) (s : source) (m : N) : pres (list pubkey) :=
  match fuel with
  | O => inr EFuel
  | S f =>
    if m =? 0 then inl ([], s)
    else match read_pubkey s with
    | inr e => inr e
    | inl (k, s1) =>
      match read_pubkeys f s1 (m - 1) with
      | inr e => inr e
      | inl (ks, s2) => inl (k :: ks, s2)
      end
    end
  end.

(** The "for { PeekOpCode ... }" loop collecting [buffers] up to CHECKMULTISIG. *)
Fixpoint read_buffers (fuel : nat) (s : source) : pres (list bytes) :=
  match fuel with
  | O => inr EFuel
  | S f =>
    match peek_opcode s with
    | inr e => inr e
    | inl (code, s0) =>
      let cont (b : bytes) (s1 : source) : pres (list bytes) :=
        match read_buffers f s1 with
        | inr e => inr e
        | inl (bs, s2) => inl (b :: bs, s2)
        end in
      if code =? OP_CHECKMULTISIG then inl ([], skip_opcode s0)
      else if code =? OP_PUSH0 then cont (neo_of_N 0) (skip_opcode s0)
      else match small_num code with
      | Some num => cont (neo_of_N num) (skip_opcode s0)
      | None =>
        match read_bytes s0 with
        | inr e => inr e
        | inl (b, s1) => cont b s1
        end
      end
    end
  end.

Fixpoint deser_all (bs : list bytes) : option (list pubkey) :=
  match bs with
  | [] => Some []
  | b :: r => obind (deser b) (fun k => obind (deser_all r) (fun ks => Some (k :: ks)))
  end.

(** GetProgramInfo: (PubKeys, M) or the error class. *)
Definition get_program_info (prog : bytes) : (list pubkey * N) + perr :=
  if (length prog <=? 2)%nat then inr EWrongProgram
  else
    let fuel := S (length prog) in
    let e := last prog 0 in
    if e =? OP_CHECKSIG then
      match read_pubkey (src_new (removelast prog)) with
      | inr err => inr err
      | inl (k, s1) => if src_len s1 =? 0 then inl ([k], 1) else inr EExpectedEOF
      end
    else if e =? OP_CHECKMULTISIG then
      match read_num (src_new prog) with
      | inr err => inr err
      | inl (m, s1) =>
        match read_pubkeys fuel s1 m with
        | inr err => inr err
        | inl (keys1, s2) =>
          match read_buffers fuel s2 with
          | inr err => inr err
          | inl (buffers, s3) =>
            if negb (src_len s3 =? 0) then inr EExpectedEOF
            else match buffers with
            | [] => inr EMissingLen
            | _ =>
              let n := int64_of_Z (Z.of_N (be_decode (last buffers []))) in
              match deser_all (removelast buffers) with
              | None => inr EDeser
              | Some keys2 =>
                let keys := keys1 ++ keys2 in
                if negb (Z.of_nat (length keys) =? n)%Z then inr EUnmatched
                else if negb (multi_params_ok (Z.of_N m) n) then inr EWrongParam
                else inl (keys, m)
              end
            end
          end
        end
      end
    else inr EUnsupported.

End Parser.

(** GetParamInfo: for !IsEOF { ReadBytes }. *)
Fixpoint read_params (fuel : nat) (s : source) : (list bytes) + perr :=
  match fuel with
  | O => inr EFuel
  | S f =>
    if src_len s =? 0 then inl []
    else match read_bytes s with
    | inr e => inr e
    | inl (sig, s1) =>
      match read_params f s1 with
      | inr e => inr e
      | inl sigs => inl (sig :: sigs)
      end
    end
  end.

Definition get_param_info (prog : bytes) : (list bytes) + perr :=
  read_params (S (length prog)) (src_new prog).

(** * core/types/address.go *)
Inductive ares := AOk (addr : bytes) | AErrParam | APanic.

Section Address.
(** [H] = RIPEMD160 . SHA256 (common.AddressFromVmCode); [Keth] = Keccak256(.)[12:]
    (crypto.PubkeyToAddress applied to the 64 coordinate bytes, i.e. the serialization without
    its key-type byte and the 0x04 point-format byte). *)
Variable H : bytes -> bytes.
Variable Keth : bytes -> bytes.

Definition address_from_pubkey (k : pubkey) : ares :=
  if pk_type k =? PK_ETHECDSA then AOk (Keth (skipn 2 (pk_ser k)))
  else match program_from_pubkey k with
       | Some p => AOk (H p)
       | None => APanic
       end.

Definition address_from_multi_pubkeys (keys : list pubkey) (m : Z) : ares :=
  let n := Z.of_nat (length keys) in
  if negb (multi_params_ok m n) then AErrParam
  else match program_from_multi_pubkey keys m with
       | BOk p => AOk (H p)
       | BErrParam => AErrParam
       | BPanic => APanic
       end.

Definition address_from_bookkeepers (keys : list pubkey) : ares :=
  match keys with
  | [k] => address_from_pubkey k
  | _ => address_from_multi_pubkeys keys (bookkeepers_m (Z.of_nat (length keys)))
  end.

End Address.
