(** Model of NeoVM integers: vm/neovm/types/int_value.go (IntValue and its methods), the four
    github.com/JohnCGriffin/overflow functions it uses (Add64/Sub64/Mul64/Div64, vendored
    v0.0.0-20170615021017-4d914c927216, overflow_impl.go), and the integer opcodes of
    vm/neovm/executor.go:ExecuteOp (INVERT AND OR XOR INC DEC SIGN NEGATE ABS NZ ADD SUB MUL DIV MOD
    MAX MIN SHL SHR NUMEQUAL NUMNOTEQUAL LT GT LTE GTE WITHIN) with the stack plumbing of
    value_stack.go / value_stack_conversion.go / neovm_value.go that these opcodes go through.

    Executable definitions only; proofs are in Proofs/IntValue.v.

    Conventions.
    - An int64 is a [Z] in [-2^63, 2^63); every Go int64 operator that can wrap is written with the
      explicit wrap [wrap64] (two's complement), including [/] (MinInt64 / -1 wraps to MinInt64) and
      the bitwise operators (which Go computes on the 64-bit two's-complement pattern; on
      sign-extended integers that is [wrap64] of the infinite-precision two's-complement operation
      [Z.land]/[Z.lor]/[Z.lxor]/[Z.lnot]).
    - A *big.Int is a [Z]; big.Int's Add/Sub/Mul/Quo/Rem/And/Or/Xor/Not/Abs/Lsh/Rsh/Cmp are the
      corresponding [Z] functions (Quo/Rem truncate: [Z.quot]/[Z.rem]; Rsh is the arithmetic shift
      = floor division: [Z.shiftr]; the bitwise ones are two's-complement: [Z.land] etc.).
    - The size rule of IntValFromBigInt, [len(val.Bytes()) > MAX_INT_SIZE], is defined here
      arithmetically ([mag_len]): big.Int.Bytes() is the big-endian *magnitude* of the value, so the
      length is the minimal byte length of |z| (0 for 0). NOTE: this is what the code does; it is NOT
      the two's-complement (NeoBytes) length, so the accepted range is -2^256 < z < 2^256.
      Byte encodings (BigIntToNeoBytes/FromNeoBytes) belong to Model/NeoInt.v and are not modelled
      here: a byte-array stack item is identified with the integer BigIntFromNeoBytes gives for it.
    - Constants and the limit expressions come from Gen/IntConsts.v (regenerated from the source). *)
From Coq Require Import List Bool ZArith.
Import ListNotations.
From Ont Require Import Gen.IntConsts.
Local Open Scope Z_scope.
Open Scope bool_scope.

(** * int64 *)
Definition is_int64 (z : Z) : bool := (MinInt64 <=? z) && (z <=? MaxInt64).

(** Two's-complement wrap of a mathematical integer to int64. *)
Definition wrap64 (z : Z) : Z := (z + 2^63) mod 2^64 - 2^63.

Definition add64 (a b : Z) : Z := wrap64 (a + b).
Definition sub64 (a b : Z) : Z := wrap64 (a - b).
Definition mul64 (a b : Z) : Z := wrap64 (a * b).
Definition neg64 (a : Z) : Z := wrap64 (- a).
(** Go [a / b], [a % b] for b <> 0 (truncated; MinInt64 / -1 = MinInt64 and MinInt64 % -1 = 0, no panic). *)
Definition quo64 (a b : Z) : Z := wrap64 (Z.quot a b).
Definition rem64 (a b : Z) : Z := wrap64 (Z.rem a b).
Definition and64 (a b : Z) : Z := wrap64 (Z.land a b).
Definition or64 (a b : Z) : Z := wrap64 (Z.lor a b).
Definition xor64 (a b : Z) : Z := wrap64 (Z.lxor a b).
Definition not64 (a : Z) : Z := wrap64 (Z.lnot a).

(** * github.com/JohnCGriffin/overflow (overflow_impl.go) *)

(** func Add64(a, b int64) (int64, bool) { c := a + b; if (c > a) == (b > 0) { return c, true }; return c, false } *)
Definition ov_add64 (a b : Z) : Z * bool :=
  let c := add64 a b in
  if Bool.eqb (c >? a) (b >? 0) then (c, true) else (c, false).

(** func Sub64: c := a - b; if (c < a) == (b > 0) { return c, true }; return c, false *)
Definition ov_sub64 (a b : Z) : Z * bool :=
  let c := sub64 a b in
  if Bool.eqb (c <? a) (b >? 0) then (c, true) else (c, false).

(** func Mul64: if a == 0 || b == 0 { return 0, true }; c := a * b;
    if (c < 0) == ((a < 0) != (b < 0)) { if c/b == a { return c, true } }; return c, false *)
Definition ov_mul64 (a b : Z) : Z * bool :=
  if (a =? 0) || (b =? 0) then (0, true) else
  let c := mul64 a b in
  if Bool.eqb (c <? 0) (xorb (a <? 0) (b <? 0)) then
    if quo64 c b =? a then (c, true) else (c, false)
  else (c, false).

(** func Quotient64: if b == 0 { return 0, 0, false }; c := a / b;
    status := (c < 0) == ((a < 0) != (b < 0)); return c, a % b, status *)
Definition ov_quotient64 (a b : Z) : Z * Z * bool :=
  if b =? 0 then (0, 0, false) else
  let c := quo64 a b in
  let status := Bool.eqb (c <? 0) (xorb (a <? 0) (b <? 0)) in
  (c, rem64 a b, status).

(** func Div64: q, _, ok := Quotient64(a, b); return q, ok *)
Definition ov_div64 (a b : Z) : Z * bool :=
  let '(q, _, ok) := ov_quotient64 a b in (q, ok).

(** * Errors and results *)
Inductive vmerr :=
| ErrOverMaxBigIntegerSize   (* errors.ERR_OVER_MAX_BIGINTEGER_SIZE *)
| ErrShiftByNeg              (* errors.ERR_SHIFT_BY_NEG *)
| ErrDivModByZero            (* errors.ERR_DIV_MOD_BY_ZERO *)
| ErrBadType                 (* errors.ERR_BAD_TYPE *)
| ErrIndexOutOfBound         (* errors.ERR_INDEX_OUT_OF_BOUND (stack underflow) *)
| ErrOverStackLen.           (* errors.ERR_OVER_STACK_LEN *)

Inductive result (A : Type) := Ok (a : A) | Fault (e : vmerr).
Arguments Ok {A} a.
Arguments Fault {A} e.

Definition bind {A B} (r : result A) (f : A -> result B) : result B :=
  match r with Ok a => f a | Fault e => Fault e end.
Notation "x <- r ;; k" := (bind r (fun x => k)) (at level 61, r at next level, right associativity).
Notation "' p <- r ;; k" := (bind r (fun x => let p := x in k))
  (at level 61, p pattern, r at next level, right associativity).

(** * IntValue *)
(** type IntValue struct { isbig bool; integer int64; bigint *big.Int } *)
Inductive IntValue :=
| Small (i : Z)      (* isbig = false, integer = i (an int64) *)
| Big (z : Z).       (* isbig = true,  bigint = z *)

(** The mathematical integer a representation denotes; also "big.NewInt(self.integer) or self.bigint". *)
Definition val (v : IntValue) : Z := match v with Small i => i | Big z => z end.

(** Well-formed: the int64 field holds an int64. ([Big z] may hold any z, also one that would fit an int64.) *)
Definition iv_wf (v : IntValue) : bool := match v with Small i => is_int64 i | Big _ => true end.

(** len(z.Bytes()): minimal number of bytes of the magnitude |z| (big-endian, no sign), 0 for 0. *)
Definition mag_len (z : Z) : Z := if z =? 0 then 0 else Z.log2 (Z.abs z) / 8 + 1.

(** IntValFromBigInt (val != nil): size rule, then int64 values are stored small.
    (On error the Go function also returns a value; every caller discards it.) *)
Definition norm (z : Z) : IntValue := if is_int64 z then Small z else Big z.
Definition from_big (z : Z) : result IntValue :=
  if frombig_len (mag_len z) >? frombig_limit then Fault ErrOverMaxBigIntegerSize else Ok (norm z).

Definition from_int (i : Z) : IntValue := Small i.

Definition iv_is_zero (v : IntValue) : bool := match v with Small i => i =? 0 | Big z => Z.sgn z =? 0 end.
Definition iv_sign (v : IntValue) : Z :=
  match v with
  | Big z => Z.sgn z
  | Small i => if i <? 0 then -1 else if i =? 0 then 0 else 1
  end.

(** intOp: int64 fast path when both operands are small and the checked operation reports success,
    big.Int path otherwise. *)
Definition int_op (little : Z -> Z -> Z * bool) (bigf : Z -> Z -> result IntValue)
           (self other : IntValue) : result IntValue :=
  match self, other with
  | Small a, Small b =>
      let '(v, ok) := little a b in
      if ok then Ok (from_int v) else bigf (val self) (val other)
  | _, _ => bigf (val self) (val other)
  end.

Definition iv_add := int_op ov_add64 (fun a b => from_big (a + b)).
Definition iv_sub := int_op ov_sub64 (fun a b => from_big (a - b)).
Definition iv_mul := int_op ov_mul64 (fun a b => from_big (a * b)).
Definition iv_div (self other : IntValue) : result IntValue :=
  if iv_is_zero other then Fault ErrDivModByZero
  else int_op ov_div64 (fun a b => from_big (Z.quot a b)) self other.
Definition iv_mod (self other : IntValue) : result IntValue :=
  if iv_is_zero other then Fault ErrDivModByZero
  else int_op (fun a b => (rem64 a b, true)) (fun a b => from_big (Z.rem a b)) self other.
Definition iv_max :=
  int_op (fun a b => if a <? b then (b, true) else (a, true))
         (fun a b => from_big (match a ?= b with Gt => a | _ => b end)).
Definition iv_min :=
  int_op (fun a b => if a <? b then (a, true) else (b, true))
         (fun a b => from_big (match a ?= b with Gt => b | _ => a end)).
Definition iv_xor := int_op (fun a b => (xor64 a b, true)) (fun a b => from_big (Z.lxor a b)).
Definition iv_and := int_op (fun a b => (and64 a b, true)) (fun a b => from_big (Z.land a b)).
Definition iv_or := int_op (fun a b => (or64 a b, true)) (fun a b => from_big (Z.lor a b)).

Definition cmpZ (x y : Z) : Z := if x <? y then -1 else if x =? y then 0 else 1.
(** big.Int.Cmp *)
Definition big_cmp (x y : Z) : Z := match x ?= y with Lt => -1 | Eq => 0 | Gt => 1 end.
Definition iv_cmp (self other : IntValue) : Z :=
  match self, other with
  | Small a, Small b => cmpZ a b
  | _, _ => big_cmp (val self) (val other)
  end.

(** Not: no size check on either path. *)
Definition iv_not (self : IntValue) : IntValue :=
  match self with
  | Big z => Big (Z.lnot z)
  | Small i => Small (not64 i)
  end.

Definition iv_abs (self : IntValue) : IntValue :=
  match self with
  | Big z => Big (Z.abs z)
  | Small i =>
      if i =? MinInt64 then Big (Z.abs i)
      else if i <? 0 then Small (neg64 i)
      else Small i
  end.

(** Shift count of Rsh/Lsh: a uint64, or ERR_SHIFT_BY_NEG (also for a big count that is not a uint64,
    i.e. negative or >= 2^64). *)
Definition shift_count (other : IntValue) : result Z :=
  match other with
  | Small i => if i <? 0 then Fault ErrShiftByNeg else Ok i
  | Big z => if (0 <=? z) && (z <? 2^64) then Ok z else Fault ErrShiftByNeg
  end.

Definition iv_rsh (self other : IntValue) : result IntValue :=
  n <- shift_count other ;;
  if rsh_count n >? rsh_limit then
    (if iv_sign self <? 0 then Ok (from_int (-1)) else Ok (Small 0))
  else from_big (Z.shiftr (val self) n).

Definition iv_lsh (self other : IntValue) : result IntValue :=
  n <- shift_count other ;;
  if lsh_count n >? lsh_limit then Fault ErrOverMaxBigIntegerSize
  else from_big (Z.shiftl (val self) n).

(** * Stack items (types.VmValue) as far as the integer opcodes look at them *)
Inductive item :=
| IInt (i : Z)        (* integerType, int64 *)
| IBigInt (z : Z)     (* bigintType *)
| IBool (b : bool)    (* boolType (integer field 0/1) *)
| IBytes (z : Z)      (* bytearrayType whose BigIntFromNeoBytes value is z *)
| IOther.             (* array, map, struct, interop *)

Definition item_wf (it : item) : bool := match it with IInt i => is_int64 i | _ => true end.

Definition bool_int (b : bool) : Z := if b then 1 else 0.

(** VmValue.AsIntValue *)
Definition as_int_value (it : item) : result IntValue :=
  match it with
  | IInt i => Ok (from_int i)
  | IBool b => Ok (from_int (bool_int b))
  | IBigInt z => from_big z
  | IBytes z => from_big z           (* IntValFromNeoBytes = IntValFromBigInt . BigIntFromNeoBytes *)
  | IOther => Fault ErrBadType
  end.

(** VmValue.AsBigInt ("only used in cmp opcode to lift the 32byte limit of integer") *)
Definition as_big_int (it : item) : result Z :=
  match it with
  | IInt i => Ok i
  | IBool b => Ok (bool_int b)
  | IBigInt z => Ok z
  | IBytes z => Ok z
  | IOther => Fault ErrBadType
  end.

(** BigIntFromNeoBytes(VmValue.AsBytes()): the integer NUMEQUAL/NUMNOTEQUAL read from an item.
    For the two integer kinds this is decode(encode z), identified with z (round trip of the
    NeoBytes encoding: property C21, Model/NeoInt.v; re-checked by the C13 driver on every operand).
    A bool encodes as [0] / [1]. *)
Definition as_bytes_num (it : item) : result Z :=
  match it with
  | IInt i => Ok i
  | IBigInt z => Ok z
  | IBool b => Ok (bool_int b)
  | IBytes z => Ok z
  | IOther => Fault ErrBadType
  end.

(** VmValueFromIntValue *)
Definition item_of_int (v : IntValue) : item := match v with Small i => IInt i | Big z => IBigInt z end.

Definition stack := list item.    (* head = top of the evaluation stack *)

(** ValueStack.Pop / Push *)
Definition pop (st : stack) : result (item * stack) :=
  match st with [] => Fault ErrIndexOutOfBound | x :: r => Ok (x, r) end.
Definition push (st : stack) (v : item) : result stack :=
  if Z.of_nat (length st) >=? STACK_LIMIT then Fault ErrOverStackLen else Ok (v :: st).

Definition pop_int (st : stack) : result (IntValue * stack) :=
  '(x, st1) <- pop st ;; v <- as_int_value x ;; Ok (v, st1).
(** PopPairAsIntVal: right (top) first, then left. *)
Definition pop_pair_int (st : stack) : result (IntValue * IntValue * stack) :=
  '(r, st1) <- pop_int st ;; '(l, st2) <- pop_int st1 ;; Ok (l, r, st2).
(** PopTripleAsIntVal: right, middle, left. *)
Definition pop_triple_int (st : stack) : result (IntValue * IntValue * IntValue * stack) :=
  '(r, st1) <- pop_int st ;; '(m, st2) <- pop_int st1 ;; '(l, st3) <- pop_int st2 ;; Ok (l, m, r, st3).
(** PopPair: right, then left, unconverted. *)
Definition pop_pair (st : stack) : result (item * item * stack) :=
  '(r, st1) <- pop st ;; '(l, st2) <- pop st1 ;; Ok (l, r, st2).
(** PopPairAsBytes followed by BigIntFromNeoBytes on both. *)
Definition pop_pair_bytes_num (st : stack) : result (Z * Z * stack) :=
  '(r, st1) <- pop st ;; rv <- as_bytes_num r ;;
  '(l, st2) <- pop st1 ;; lv <- as_bytes_num l ;; Ok (lv, rv, st2).

Inductive opcode :=
| INVERT | AND | OR | XOR
| INC | DEC | SIGN | NEGATE | ABS | NZ
| ADD | SUB | MUL | DIV | MOD | MAX | MIN
| SHL | SHR
| NUMEQUAL | NUMNOTEQUAL | LT | GT | LTE | GTE | WITHIN.

(** Executor.ExecuteOp restricted to the integer opcodes: the new evaluation stack, or the fault. *)
Definition exec_op (op : opcode) (st : stack) : result stack :=
  match op with
  | INVERT =>
      '(x, st1) <- pop_int st ;;
      push st1 (item_of_int (iv_not x))
  | AND | OR | XOR =>
      '(l, r, st1) <- pop_pair_int st ;;
      v <- (match op with AND => iv_and l r | OR => iv_or l r | _ => iv_xor l r end) ;;
      push st1 (item_of_int v)
  | INC | DEC | SIGN | NEGATE | ABS =>
      '(x, st1) <- pop_int st ;;
      v <- (match op with
            | INC => iv_add x (from_int inc_step)
            | DEC => iv_sub x (from_int dec_step)
            | SIGN => Ok (from_int (sign_result (iv_cmp x (from_int sign_base))))
            | NEGATE => iv_sub (from_int negate_base) x
            | _ => Ok (iv_abs x)
            end) ;;
      push st1 (item_of_int v)
  | NZ =>
      '(x, st1) <- pop_int st ;;
      push st1 (IBool (negb (iv_cmp x (from_int nz_base) =? 0)))
  | ADD | SUB | MUL | DIV | MOD | MAX | MIN =>
      '(l, r, st1) <- pop_pair_int st ;;
      v <- (match op with
            | ADD => iv_add l r | SUB => iv_sub l r | MUL => iv_mul l r | DIV => iv_div l r
            | MOD => iv_mod l r | MAX => iv_max l r | _ => iv_min l r
            end) ;;
      push st1 (item_of_int v)
  | SHL | SHR =>
      '(x2, st1) <- pop_int st ;;
      '(x1, st2) <- pop_int st1 ;;
      v <- (match op with SHL => iv_lsh x1 x2 | _ => iv_rsh x1 x2 end) ;;
      push st2 (item_of_int v)
  | NUMEQUAL | NUMNOTEQUAL =>
      '(l, r, st1) <- pop_pair_bytes_num st ;;
      push st1 (IBool (match op with NUMEQUAL => big_cmp l r =? 0 | _ => negb (big_cmp l r =? 0) end))
  | LT | GT | LTE | GTE =>
      '(lv, rv, st1) <- pop_pair st ;;
      l <- as_big_int lv ;;
      r <- as_big_int rv ;;
      push st1 (IBool (match op with
                       | LT => big_cmp l r <? 0 | GT => big_cmp l r >? 0
                       | LTE => big_cmp l r <=? 0 | _ => big_cmp l r >=? 0
                       end))
  | WITHIN =>
      '(v, l, r, st1) <- pop_triple_int st ;;
      push st1 (IBool ((iv_cmp v l >=? 0) && (iv_cmp v r <? 0)))
  end.
