(** Model of header acceptance during block sync under VBFT consensus:
    core/store/ledgerstore/ledger_store.go  verifyHeader (VBFT branch), AddHeader
    core/signature/signature.go             VerifyMultiSignature (mask algorithm)
    Definitions only.  Signatures are abstract (DESIGN section 2): a signature is either
    undecodable or the pair (signer key id, message id); it verifies under key k for message m iff
    it is exactly (k, m).  Keys are identified by vconfig.PubkeyID (hex of the serialized key).
    Thresholds, comparison operands and loop bounds come from Gen/HeaderSyncGen.v, regenerated
    from the source on every run. *)
From Coq Require Import List NArith ZArith Bool.
Import ListNotations.
From Ont Require Import Gen.HeaderSyncGen.
Local Open Scope N_scope.

Definition key := N.

(** ontology-crypto signature.Deserialize + signature.Verify, abstractly. *)
Inductive sig :=
| SBad                      (* s.Deserialize fails *)
| SBy (k : key) (msg : N).  (* decodes; verifies exactly under key k for message msg *)

Definition sig_decodes (s : sig) : bool := match s with SBad => false | SBy _ _ => true end.
Definition sig_verifies (k : key) (msg : N) (s : sig) : bool :=
  match s with SBad => false | SBy k' m' => (k' =? k) && (m' =? msg) end.

(** A bookkeeper entry of a header is a decoded key OBJECT.  [BkKey k]: the genuine key object of
    key k.  [BkForged id]: any other object whose vconfig.PubkeyID is [id] - e.g. the uncompressed
    wire form (X, Y+2) of a member's key: ec.DecodePublicKey does not check that an uncompressed
    point is on its curve, and the id (compressed form: X and the parity of Y) is the member's.
    Under such an object no signature verifies (core/signature.verify: a library panic counts as
    "does not verify"); the driver re-checks that on every case. *)
Inductive bkey := BkKey (k : key) | BkForged (id : key).
Definition bk_id (b : bkey) : key := match b with BkKey k => k | BkForged i => i end.
Definition bk_verifies (b : bkey) (msg : N) (s : sig) : bool :=
  match b with BkKey k => sig_verifies k msg s | BkForged _ => false end.

(** * signature.VerifyMultiSignature *)
Inductive vms_res := VmsOk | VmsNotEnough | VmsBadSig | VmsFailed | VmsPanic.

(** inner loop [for j := 0; j < n; j++]: the first key position that is not yet masked and whose
    key verifies the signature gets masked.  [bound] is the loop bound n; running past the end of
    [keys] or [mask] is Go's index-out-of-range panic. *)
Inductive mark_res := MarkHit (mask : list bool) | MarkMiss | MarkPanic.

Fixpoint mark_first {A} (ok : A -> bool) (bound : nat) (keys : list A) (mask : list bool) : mark_res :=
  match bound with
  | O => MarkMiss
  | S b =>
    match keys, mask with
    | k :: ks, true :: bs =>
        match mark_first ok b ks bs with MarkHit r => MarkHit (true :: r) | e => e end
    | k :: ks, false :: bs =>
        if ok k then MarkHit (true :: bs)
        else match mark_first ok b ks bs with MarkHit r => MarkHit (false :: r) | e => e end
    | _, _ => MarkPanic
    end
  end.

(** outer loop [for i := 0; i < m; i++] over sigs[i]. *)
Fixpoint vms_loop (msg : N) (bound : nat) (keys : list bkey) (mask : list bool) (sigs : list sig) (m : nat) : vms_res :=
  match m with
  | O => VmsOk
  | S m' =>
    match sigs with
    | [] => VmsPanic
    | s :: rest =>
      if negb (sig_decodes s) then VmsBadSig else
      match mark_first (fun b => bk_verifies b msg s) bound keys mask with
      | MarkHit mask' => vms_loop msg bound keys mask' rest m'
      | MarkMiss => VmsFailed
      | MarkPanic => VmsPanic
      end
    end
  end.

Definition verify_multi (msg : N) (keys : list bkey) (m : Z) (sigs : list sig) : vms_res :=
  let nkeys := Z.of_nat (length keys) in
  if (vms_enough_lhs (Z.of_nat (length sigs)) <? vms_enough_rhs m)%Z then VmsNotEnough
  else vms_loop msg (Z.to_nat (vms_inner_bound nkeys)) keys
                (repeat false (Z.to_nat (vms_mask_len nkeys))) sigs (Z.to_nat (vms_outer_bound m)).

(** * Headers and the part of LedgerStoreImp that verifyHeader reads *)

(** vconfig.ChainConfig: C and the peer ids, in order (ids may repeat; Index is not consulted). *)
Record chaincfg := { cc_c : N; cc_peers : list key }.
(** vconfig.VbftBlockInfo as decoded from Header.ConsensusPayload. *)
Record blkinfo := { bi_last : N; bi_newcfg : option chaincfg }.
(** types.Header: hash ids stand for the 32-byte hashes; [h_info = None] when the payload is not
    a JSON VbftBlockInfo. *)
Record header := {
  h_height : N; h_prev : N; h_time : N; h_info : option blkinfo;
  h_bks : list bkey; h_sigs : list sig; h_hash : N }.

(** header cache + block store (by hash), header index (height -> hash), vbftPeerInfoMap
    (height -> set of peer ids), current header height. *)
Record store := {
  st_headers : list header;
  st_index : list (N * N);
  st_peers : list (N * list key);
  st_tip : N }.

Fixpoint lookup {A} (k : N) (l : list (N * A)) : option A :=
  match l with [] => None | (k', v) :: r => if k' =? k then Some v else lookup k r end.

Fixpoint header_by_hash (hs : list header) (x : N) : option header :=
  match hs with [] => None | h :: r => if h_hash h =? x then Some h else header_by_hash r x end.

Definition header_at (st : store) (height : N) : option header :=
  match lookup height (st_index st) with
  | None => None
  | Some x => header_by_hash (st_headers st) x
  end.

Definition memk (k : key) (l : list key) : bool := existsb (N.eqb k) l.

(** the key set of a Go map built by inserting the ids in order *)
Fixpoint dedup (l : list key) : list key :=
  match l with [] => [] | k :: r => if memk k r then dedup r else k :: dedup r end.

Definition cfg_of (h : header) : option chaincfg :=
  match h_info h with Some bi => bi_newcfg bi | None => None end.

Definition two32 : N := 4294967296.

Inductive vres :=
| ROk (newpeers : option (N * list key))   (* nil; the vbftPeerInfoMap entry written, if any *)
| EPrevMissing | EHeight | ETime | EPayload | EPrevPayload
| ECfgHeaderMissing | ECfgPayload | ENoNewCfg | EPeerMapMissing
| EFewListed | ENonMember | EFewDistinct
| ESig (e : vms_res).

(** the height whose chain configuration verifyHeader consults for header [h] with previous
    header [p] ([None]: the previous header's payload does not decode) *)
Definition claimed_cfg_height (p : header) (bi : blkinfo) : option N :=
  match bi_newcfg bi with
  | Some _ =>
      match h_info p with
      | None => None
      | Some pbi => Some (match bi_newcfg pbi with Some _ => h_height p | None => bi_last pbi end)
      end
  | None => Some (bi_last bi)
  end.

(** the signature-related tail of the VBFT branch, given the peer set and C it found *)
Definition check_quorum (peers : list key) (c : N) (h : header) : vres :=
  let n := Z.of_nat (length peers) in
  let m := hs_vbft_m n in
  if (hs_vbft_listed_lhs (Z.of_nat (length (h_bks h))) <? hs_vbft_listed_rhs m)%Z then EFewListed else
  if negb (forallb (fun b => memk (bk_id b) peers) (h_bks h)) then ENonMember else
  if (hs_vbft_distinct_lhs (Z.of_nat (length (dedup (map bk_id (h_bks h)))))
        <? (hs_vbft_distinct_rhs (Z.of_N c)) mod (Z.of_N two32))%Z then EFewDistinct else
  match verify_multi (h_hash h) (h_bks h) (hs_vbft_vms_m m) (h_sigs h) with
  | VmsOk => ROk None
  | e => ESig e
  end.

Definition verify_header (st : store) (h : header) : vres :=
  if h_height h =? 0 then ROk None else
  match header_by_hash (st_headers st) (h_prev h) with
  | None => EPrevMissing
  | Some p =>
    if negb ((h_height p + 1) mod two32 =? h_height h) then EHeight else
    if h_time h <=? h_time p then ETime else
    match h_info h with
    | None => EPayload
    | Some bi =>
      match claimed_cfg_height p bi with
      | None => EPrevPayload
      | Some g =>
        match header_at st g with
        | None => ECfgHeaderMissing
        | Some ch =>
          match h_info ch with
          | None => ECfgPayload
          | Some cbi =>
            match bi_newcfg cbi with
            | None => ENoNewCfg
            | Some cc =>
              match lookup g (st_peers st) with
              | None => EPeerMapMissing
              | Some peers =>
                match check_quorum peers (cc_c cc) h with
                | ROk _ =>
                    ROk (match bi_newcfg bi with
                         | Some nc => Some (h_height h, dedup (cc_peers nc))
                         | None => None
                         end)
                | e => e
                end
              end
            end
          end
        end
      end
    end
  end.

Fixpoint set_entry {A} (k : N) (v : A) (l : list (N * A)) : list (N * A) :=
  match l with
  | [] => [(k, v)]
  | (k', v') :: r => if k' =? k then (k, v) :: r else (k', v') :: set_entry k v r
  end.

(** the effect of an accepting verifyHeader call on the store (the peer map entry) *)
Definition apply_verify (st : store) (r : vres) : store :=
  match r with
  | ROk (Some (g, ps)) =>
      {| st_headers := st_headers st; st_index := st_index st;
         st_peers := set_entry g ps (st_peers st); st_tip := st_tip st |}
  | _ => st
  end.

(** LedgerStoreImp.AddHeader *)
Inductive add_res := AddOk (st : store) | AddWrongHeight | AddRejected (e : vres).

Definition add_header (st : store) (h : header) : add_res :=
  if negb (h_height h =? (st_tip st + 1) mod two32) then AddWrongHeight else
  match verify_header st h with
  | ROk r =>
      let st1 := apply_verify st (ROk r) in
      AddOk {| st_headers := h :: st_headers st1;
               st_index := set_entry (h_height h) (h_hash h) (st_index st1);
               st_peers := st_peers st1; st_tip := h_height h |}
  | e => AddRejected e
  end.
