(** What an EVM interpreter invocation can do to ONG balances, nonces, code flags and the suicide
    set, as a tree of effects.

    Every write of a balance or nonce in vm/evm and smartcontract/service/evm outside the
    state transition is one of (the inventory is regenerated into Gen/EvmEnvelopeGen.v,
    [STATE_WRITE_SITES], and compared with [modelled_write_sites] in Proofs/C07Frames.v):

      evm.Call          CanTransfer, snapshot, Transfer(caller, addr, value), run code, revert on error
      evm.CallCode      CanTransfer, snapshot, run code in the caller's context, revert on error
      evm.DelegateCall  snapshot, run code in the caller's context, revert on error
      evm.StaticCall    snapshot, AddBalance(addr, 0), run code read-only
      evm.create        CanTransfer, SetNonce(caller, +1), collision check, snapshot, SetNonce(new, 1),
                        Transfer(caller, new, value), run init code, SetCode, revert on error
      opSuicide         AddBalance(beneficiary, balance(self)); StateDB.Suicide(self)

    Whatever bytecode runs, its effect on these parts of the state is the effect of the tree of
    frames it opened and the SELFDESTRUCTs it executed; which frames it opens, with which values,
    and which of them fail, is up to the program (and gas): that is the [effect] tree, universally
    quantified in the theorems and recorded from the tracer by the harness.

    Not modelled: gas, the refund counter, memory / storage / logs, and the three early exits of
    Call / create that happen before the tracer is told (depth limit, insufficient balance,
    address collision -- the guards are in the model, the harness never sees such frames). *)
From Coq Require Import List Bool NArith.
Import ListNotations.
From Ont Require Import Gen.EvmEnvelopeGen Model.EvmEnvelope.
Local Open Scope N_scope.
Open Scope bool_scope.

Inductive fkind := KCall | KCallCode | KDelegateCall | KStaticCall | KCreate.

Inductive effect :=
| ESelfDestruct (beneficiary : addr)
| EFrame (k : fkind) (target : addr) (value : N) (ok : bool) (body : list effect).

Section Frames.
  Variable R : Type.
  Notation state := (state R).
  (** block height of the context (for the EIP-158 switch of evm.create) *)
  Variable h : N.

  Definition set_code (s : state) (a : addr) : state :=
    mkState (bal s) (nonce s) (upd (has_code s) a true) (suicided s) (dberr s) (rest s).

  (** evm.create: "there's no existing contract already at the designated address".  An account
      whose code hash is the hash of the empty string and whose nonce is 0 does not collide in the
      code; it cannot exist while EIP-158 is active (creation sets nonce 1), the model treats it as
      colliding. *)
  Definition collision (s : state) (a : addr) : bool := negb (nonce s a =? 0) || has_code s a.

  (** [d] is evm.depth at the time the frame is opened (0 for the transaction's own Call / Create;
      the code of a frame opened at depth d runs at depth d + 1). *)
  Fixpoint run_effect (d : N) (self : addr) (s : state) (ef : effect) {struct ef} : state :=
    match ef with
    | ESelfDestruct ben => op_selfdestruct s self ben
    | EFrame k to v ok body =>
        let run_body (ctx : addr) :=
          (fix go (l : list effect) (st : state) {struct l} : state :=
             match l with
             | [] => st
             | e :: r => go r (run_effect (d + 1) ctx st e)
             end) body in
        if CALL_CREATE_DEPTH <? d then s  (* ErrDepth *)
        else
        match k with
        | KCall =>
            if (negb (v =? 0)) && negb (can_transfer (bal s self) v) then s
            else
              let s1 := transfer s self to v in
              (* code runs only if there is code *)
              let s2 := if has_code s1 to then run_body to s1 else s1 in
              if ok then s2 else s
        | KCallCode =>
            if negb (can_transfer (bal s self) v) then s
            else let s2 := run_body self s in if ok then s2 else s
        | KDelegateCall => let s2 := run_body self s in if ok then s2 else s
        | KStaticCall => if ok then add_balance s to 0 else s
        | KCreate =>
            if negb (can_transfer (bal s self) v) then s
            else
              let s0 := set_nonce s self (next_nonce (nonce s self)) in
              if collision s0 to then s0
              else
                let s1 := if is_fork EIP158_BLOCK h then set_nonce s0 to 1 else s0 in
                let s2 := run_body to (transfer s1 self to v) in
                if ok then set_code s2 to else s0
        end
    end.

  Fixpoint run_effects (d : N) (ctx : addr) (l : list effect) (st : state) : state :=
    match l with
    | [] => st
    | e :: r => run_effects d ctx r (run_effect d ctx st e)
    end.

  (** What the harness records about the top frame of a transaction. *)
  Record frame_oracle := mkFO {
    fo_target : addr;        (* creation: the new address (Keccak is not modelled) *)
    fo_ok : bool;
    fo_body : list effect;
    fo_gas_left : N;
    fo_refund : N;
    fo_err : option N }.

  (** The interpreter as far as the envelope is concerned: evm.Create / evm.Call at depth 0. *)
  Definition run_of_tree (o : frame_oracle) (c : bool) (s : state) (m : msg) (g : N) : run_result R :=
    let to := match m_to m with Some a => a | None => fo_target o end in
    mkRun (run_effect 0 (m_from m) s (EFrame (if c then KCreate else KCall) to (m_value m) (fo_ok o) (fo_body o)))
          (fo_gas_left o) (fo_refund o) (fo_err o).

  (** Syntactic measures used by the theorems. *)
  Fixpoint creates (ef : effect) : N :=
    match ef with
    | ESelfDestruct _ => 0
    | EFrame k _ _ _ body =>
        (match k with KCreate => 1 | _ => 0 end) +
        (fix go (l : list effect) : N := match l with [] => 0 | e :: r => creates e + go r end) body
    end.

  Fixpoint effect_addrs (ef : effect) : list addr :=
    match ef with
    | ESelfDestruct ben => [ben]
    | EFrame _ to _ _ body =>
        to :: (fix go (l : list effect) : list addr :=
                 match l with [] => [] | e :: r => effect_addrs e ++ go r end) body
    end.

  (** No SELFDESTRUCT names its own executing context as beneficiary. *)
  Fixpoint no_sd_self (self : addr) (ef : effect) : bool :=
    match ef with
    | ESelfDestruct ben => negb (ben =? self)
    | EFrame k to _ _ body =>
        let ctx := match k with KCallCode | KDelegateCall => self | _ => to end in
        (fix go (l : list effect) : bool :=
           match l with [] => true | e :: r => no_sd_self ctx e && go r end) body
    end.
End Frames.

Arguments set_code {R}. Arguments collision {R}. Arguments run_effect {R}. Arguments run_effects {R}.
Arguments run_of_tree {R}.
