(** Model of the Ontology EVM state transition ("the envelope"):

      smartcontract/service/evm/state_transition.go   preCheck, buyGas, TransitionDb, refundGas,
                                                      handleGasFee, gasUsed, IntrinsicGas
      smartcontract/service/evm/state_processor.go    applyTransaction (ApplyMessage, Commit)
      core/store/ledgerstore/tx_handler.go            HandleEIP155Transaction (error plumbing)
      smartcontract/storage/statedb.go                Sub/Add/GetBalance, Get/SetNonce, Suicide,
                                                      CommitToCacheDB
      smartcontract/service/native/ong/ong.go         OngBalanceHandle (Sub with underflow error, Add, Set)
      smartcontract/service/evm/evm.go                CanTransfer, Transfer
      vm/evm/instructions.go                          opSuicide (two state calls)

    The EVM interpreter (evm.Call / evm.Create and everything below) is NOT modelled: it is the
    section function [run].  Definitions only; proofs are in Proofs/C07.v.

    Every arithmetic formula and branch condition of state_transition.go used here is a definition
    of Gen/EvmEnvelopeGen.v, regenerated from the source on every run.

    Numbers: balances, values and prices are big.Int in the code (N here, never negative: the ONG
    balance record rejects negative values); gas, nonces and the refund counter are uint64 (N with
    explicit [mod 2^64] where the Go operation can wrap). *)
From Coq Require Import List Bool NArith.
Import ListNotations.
From Ont Require Import Gen.EvmEnvelopeGen.
Local Open Scope N_scope.
Open Scope bool_scope.

Definition addr := N.
Definition U64 : N := 18446744073709551616.

(** uint64 subtraction ([st.gas -= gas]) *)
Definition u64_sub (a b : N) : N := (a + U64 - b) mod U64.

Definition upd {X : Type} (f : addr -> X) (a : addr) (v : X) : addr -> X :=
  fun x => if x =? a then v else f x.

(** A message (go-ethereum types.Message as built by ApplyTransaction). *)
Record msg := mkMsg {
  m_from : addr;
  m_to : option addr;        (* None = contract creation *)
  m_nonce : N;               (* uint64 *)
  m_price : N;               (* big.Int, uint64 range enforced by TransactionFromEIP155 *)
  m_gas : N;                 (* uint64 *)
  m_value : N;               (* big.Int *)
  m_data : list N;
  m_check_nonce : bool }.

(** Execution environment: chain id of the node configuration, block height of the context and the
    fee receiver (utils.GovernanceContractAddress in HandleEIP155Transaction). *)
Record env := mkEnv { chain_id : N; height : N; gas_receiver : addr }.

Inductive pre_err := ErrNonceTooHigh | ErrNonceTooLow.
Inductive vm_err := VmIntrinsicGas | VmInsufficientFundsForTransfer | VmRun (code : N).
Record exec_result := mkRes { used_gas : N; vm_error : option vm_err }.
Inductive outcome := OErr (e : pre_err) | ODbErr | OOk (r : exec_result).

Definition is_fork (b : option N) (h : N) : bool :=
  match b with Some k => k <=? h | None => false end.

(** IntrinsicGas.  The two overflow panics need more than 2^59 bytes of data and are not modelled
    (transactions are limited to 1 MiB). *)
Definition count_nonzero (d : list N) : N :=
  fold_right (fun b acc => if b =? 0 then acc else acc + 1) 0 d.

Definition intrinsic_gas (data : list N) (create homestead istanbul : bool) : N :=
  let gas := if create && homestead then TX_GAS_CONTRACT_CREATION else TX_GAS in
  match data with
  | [] => gas
  | _ =>
      let nz := count_nonzero data in
      let nonzero_gas := if istanbul then TX_DATA_NONZERO_GAS_EIP2028 else TX_DATA_NONZERO_GAS_FRONTIER in
      let gas := gas + nz * nonzero_gas in
      let z := N.of_nat (length data) - nz in
      gas + z * TX_DATA_ZERO_GAS
  end.

Section Envelope.
  (** Everything the envelope never looks at: contract storage, code bytes, logs. *)
  Variable R : Type.

  Record state := mkState {
    bal : addr -> N;          (* ONG contract storage: balance record of the address, absent = 0 *)
    nonce : addr -> N;        (* EthAccount.Nonce *)
    has_code : addr -> bool;  (* EthAccount.CodeHash <> zero hash *)
    suicided : addr -> bool;  (* StateDB.Suicided *)
    dberr : bool;             (* error recorded on the overlay through CacheDB.SetDbErr *)
    rest : R }.

  Definition set_bal (s : state) (a : addr) (v : N) : state :=
    mkState (upd (bal s) a v) (nonce s) (has_code s) (suicided s) (dberr s) (rest s).
  Definition set_nonce (s : state) (a : addr) (v : N) : state :=
    mkState (bal s) (upd (nonce s) a v) (has_code s) (suicided s) (dberr s) (rest s).
  Definition set_dberr (s : state) : state :=
    mkState (bal s) (nonce s) (has_code s) (suicided s) true (rest s).
  Definition mark_suicided (s : state) (a : addr) : state :=
    mkState (bal s) (nonce s) (has_code s) (upd (suicided s) a true) (dberr s) (rest s).

  (** OngBalanceHandle.SubBalance: error on underflow, nothing written. *)
  Definition handle_sub_balance (s : state) (a : addr) (v : N) : option state :=
    if bal s a <? v then None else Some (set_bal s a (bal s a - v)).
  (** StateDB.SubBalance: a handle error becomes the overlay error. *)
  Definition sub_balance (s : state) (a : addr) (v : N) : state :=
    match handle_sub_balance s a v with Some s' => s' | None => set_dberr s end.
  (** OngBalanceHandle.AddBalance / StateDB.AddBalance. *)
  Definition add_balance (s : state) (a : addr) (v : N) : state := set_bal s a (bal s a + v).
  (** service/evm.Transfer *)
  Definition transfer (s : state) (from to : addr) (v : N) : state :=
    add_balance (sub_balance s from v) to v.

  (** EthAccount.IsEmpty, StateDB.Suicide, opSuicide. *)
  Definition account_empty (s : state) (a : addr) : bool := (nonce s a =? 0) && negb (has_code s a).
  Definition suicide (s : state) (a : addr) : state :=
    if account_empty s a then s else set_bal (mark_suicided s a) a 0.
  Definition op_selfdestruct (s : state) (self beneficiary : addr) : state :=
    suicide (add_balance s beneficiary (bal s self)) self.

  (** StateDB.CommitToCacheDB: suicided accounts lose their EthAccount record and their storage
      ([clean]); the ONG balance record is not touched. *)
  Variable clean : (addr -> bool) -> R -> R.
  Definition commit (s : state) : state :=
    mkState (bal s)
            (fun a => if suicided s a then 0 else nonce s a)
            (fun a => if suicided s a then false else has_code s a)
            (fun _ => false) (dberr s) (clean (suicided s) (rest s)).

  (** The interpreter: [run create s m gas] stands for
        evm.Create(sender, data, gas, value)        (create = true)
        evm.Call(sender, to, data, gas, value)      (create = false)
      and returns the state afterwards, the left-over gas, StateDB.GetRefund() and the vm error. *)
  Record run_result := mkRun { r_state : state; r_gas : N; r_refund : N; r_err : option N }.
  Variable run : bool -> state -> msg -> N -> run_result.

  (** buyGas *)
  Record bought := mkBought { b_state : state; b_gas : N; b_initial : N; b_adjusted : bool }.

  Definition buy_gas (e : env) (s : state) (m : msg) : bought :=
    let gas := m_gas m in
    let mgval := buygas_want gas (m_price m) in
    let have := bal s (m_from m) in
    if buygas_short have mgval then
      let gas' := buygas_short_gas have (m_price m) in
      let mgval' := if buygas_fixed (chain_id e) (height e)
                    then buygas_short_cost_fixed gas' (m_price m)
                    else buygas_short_cost_old have in
      (* st.gas += gas ; st.initialGas = gas ; SubBalance(from, mgval) *)
      mkBought (sub_balance s (m_from m) mgval') ((0 + gas') mod U64) gas' true
    else
      mkBought (sub_balance s (m_from m) mgval) ((0 + gas) mod U64) gas false.

  (** preCheck *)
  Definition pre_check (e : env) (s : state) (m : msg) : bought + pre_err :=
    if m_check_nonce m then
      let st_nonce := nonce s (m_from m) in
      if nonce_too_high st_nonce (m_nonce m) then inr ErrNonceTooHigh
      else if nonce_too_low st_nonce (m_nonce m) then inr ErrNonceTooLow
      else inl (buy_gas e s m)
    else inl (buy_gas e s m).

  (** The middle of TransitionDb: intrinsic gas, clause 6, nonce, Create / Call. *)
  Record ran := mkRan { x_state : state; x_gas : N; x_refund : N; x_err : option vm_err }.

  Definition is_create (m : msg) : bool := match m_to m with None => true | Some _ => false end.

  (** What TransitionDb decides before it reaches the interpreter: either a vm error of its own
      (the interpreter is not called) or one interpreter invocation with these arguments. *)
  Inductive plan :=
  | PFail (err : vm_err) (gas_left : N)
  | PRun (create : bool) (s0 : state) (g : N).

  Definition plan_of (e : env) (b : bought) (m : msg) : plan :=
    let s := b_state b in
    let from := m_from m in
    let ig := intrinsic_gas (m_data m) (is_create m)
                (is_fork HOMESTEAD_BLOCK (height e)) (is_fork ISTANBUL_BLOCK (height e)) in
    if intrinsic_short (b_gas b) ig then
      (* vmerr = ErrIntrinsicGas; gas = st.gas; st.gas -= gas *)
      PFail VmIntrinsicGas (u64_sub (b_gas b) (b_gas b))
    else if transfer_short (m_value m) (bal s from) then
      PFail VmInsufficientFundsForTransfer (u64_sub (b_gas b) ig)
    else
      let g := u64_sub (b_gas b) ig (* st.gas -= gas *) in
      if is_create m then PRun true s g      (* the nonce is advanced inside evm.Create *)
      else PRun false (set_nonce s from (next_nonce (nonce s from))) g.

  Definition run_phase (e : env) (b : bought) (m : msg) : ran :=
    match plan_of e b m with
    | PFail err gl =>
        let s := b_state b in
        mkRan (set_nonce s (m_from m) (next_nonce_failed (nonce s (m_from m)))) gl 0 (Some err)
    | PRun c s0 g =>
        let r := run c s0 m g in
        mkRan (r_state r) (r_gas r) (r_refund r) (option_map VmRun (r_err r))
    end.

  (** The interpreter invocation made by a transaction, if any. *)
  Definition invocation (e : env) (s : state) (m : msg) : option (bool * state * N) :=
    match pre_check e s m with
    | inr _ => None
    | inl b => match plan_of e b m with PRun c s0 g => Some (c, s0, g) | PFail _ _ => None end
    end.

  (** refundGas (with handleGasFee) and the payment to the fee receiver. *)
  Definition finish (e : env) (b : bought) (m : msg) (x : ran) : state * exec_result :=
    let from := m_from m in
    let refund0 := refund_cap (gas_used (b_initial b) (x_gas x)) in
    let refund := if refund_over refund0 (x_refund x) then x_refund x else refund0 in
    let stgas := (x_gas x + refund) mod U64 in
    let s1 := add_balance (x_state x) from (refund_remaining stgas (m_price m)) in
    let s2 := if gasfee_skip (b_adjusted b) (height e) then s1 else add_balance s1 from REFUND_VALUE in
    let used := gas_used (b_initial b) stgas in
    let s3 := add_balance s2 (gas_receiver e) (fee_amount used (m_price m)) in
    (s3, mkRes used (x_err x)).

  (** TransitionDb *)
  Definition transition_db (e : env) (s : state) (m : msg) : (state * exec_result) + pre_err :=
    match pre_check e s m with
    | inr err => inr err
    | inl b => inl (finish e b m (run_phase e b m))
    end.

  (** The state right after the interpreter returned (or after TransitionDb's own vm error). *)
  Definition after_run (e : env) (s : state) (m : msg) : state :=
    match pre_check e s m with
    | inr _ => s
    | inl b => x_state (run_phase e b m)
    end.

  (** HandleEIP155Transaction = ApplyTransaction + error plumbing.  On a pre-check error nothing has
      been written (the returned state is the input state).  After a successful ApplyMessage the
      StateDB is committed; a recorded overlay error then turns the result into an error. *)
  Definition handle_eip155 (e : env) (s : state) (m : msg) : outcome * state :=
    match transition_db e s m with
    | inr err => (OErr err, s)
    | inl (s', res) =>
        let s'' := commit s' in
        if dberr s'' then (ODbErr, s'') else (OOk res, s'')
    end.

  (** A sequence of transactions on one overlay (the transaction loop of a block): the next
      transaction sees the state left by the previous one; the first rejected transaction ends the
      sequence (the node rejects the block). *)
  Fixpoint apply_all (e : env) (s : state) (ms : list msg) : state :=
    match ms with
    | [] => s
    | m :: rest =>
        match handle_eip155 e s m with
        | (OOk _, s') => apply_all e s' rest
        | (_, s') => s'
        end
    end.

  (** Sum of the ONG balances over a finite set of accounts. *)
  Definition total (U : list addr) (s : state) : N := fold_right (fun a acc => bal s a + acc) 0 U.
End Envelope.

Arguments mkState {R}. Arguments bal {R}. Arguments nonce {R}. Arguments has_code {R}.
Arguments suicided {R}. Arguments dberr {R}. Arguments rest {R}.
Arguments set_bal {R}. Arguments set_nonce {R}. Arguments set_dberr {R}. Arguments mark_suicided {R}.
Arguments handle_sub_balance {R}. Arguments sub_balance {R}. Arguments add_balance {R}.
Arguments transfer {R}. Arguments account_empty {R}. Arguments suicide {R}.
Arguments op_selfdestruct {R}. Arguments commit {R}. Arguments total {R}.
Arguments mkRun {R}. Arguments r_state {R}. Arguments r_gas {R}. Arguments r_refund {R}. Arguments r_err {R}.
Arguments mkBought {R}. Arguments b_state {R}. Arguments b_gas {R}. Arguments b_initial {R}. Arguments b_adjusted {R}.
Arguments mkRan {R}. Arguments x_state {R}. Arguments x_gas {R}. Arguments x_refund {R}. Arguments x_err {R}.
Arguments PFail {R}. Arguments PRun {R}. Arguments plan_of {R}. Arguments invocation {R}.
Arguments buy_gas {R}. Arguments pre_check {R}. Arguments run_phase {R}. Arguments finish {R}.
Arguments after_run {R}. Arguments transition_db {R}. Arguments handle_eip155 {R}. Arguments apply_all {R}.
