(** C01 — vocabulary of the commit protocol. [Gen/Recover.v] (regenerated from
    core/store/ledgerstore/ledger_store.go on every run) lists the steps of [submitBlock] and of the
    loop body of [recoverStore] with these constructors, in source order. *)

Inductive store_id := SBlock | SEvent | SState.

Inductive step :=
| StNewBatch (s : store_id)   (* this.<s>Store.NewBatch() *)
| StSaveBlock                 (* this.saveBlockToBlockStore(block, bloom) *)
| StSaveState                 (* this.saveBlockToStateStore(block, result): batches + eager hash-file append *)
| StSaveEvent                 (* this.saveBlockToEventStore(block) *)
| StCommit (s : store_id)     (* this.<s>Store.CommitTo() *)
| StExec                      (* this.executeBlock(block) *)
| StSetCurrent.               (* this.setCurrentBlock(height, hash) *)
