(** Model of consensus/vbft/config/genesis.go: [GenesisChainConfig] (sort of the peers by stake
    then key, stake sum of the top K, float rank, position table, hash-driven shuffle, resulting
    [ChainConfig]), the parameter validation of [genConsensusPayload], and [shuffle_hash]
    (encoding/json of the anonymous struct + FNV-1a 64).

    Definitions only (executable); proofs are in Proofs/C30*.v.
    The float rank expression, the integer [scale] formula, the two validity bounds and the FNV
    constants are NOT written here: they come from Gen/ChainConfigGen.v, which the harness
    regenerates from /repo's current source on every run. *)
From Coq Require Import List Bool NArith ZArith Floats.
From Ont Require Import Lib.Bytes Lib.F64 Gen.ChainConfigGen.
Import ListNotations.
Local Open Scope N_scope.
Open Scope bool_scope.

(** config.VBFTPeerStakeInfo: Index uint32, PeerPubkey string (bytes), InitPos uint64. *)
Record peer := mkPeer { p_index : N; p_key : bytes; p_stake : N }.

(** config.VBFTConfig, the fields GenesisChainConfig reads (all uint32). *)
Record vbft_config := mkConf {
  c_C : N; c_K : N; c_L : N;
  c_block_delay : N; c_hash_delay : N; c_handshake : N; c_max_view : N }.

(** Go's [<] on strings: bytewise lexicographic, a proper prefix is smaller. *)
Fixpoint lex_ltb (a b : list N) : bool :=
  match a, b with
  | _, [] => false
  | [], _ :: _ => true
  | x :: a', y :: b' => (x <? y) || ((x =? y) && lex_ltb a' b')
  end.
Definition str_gtb (a b : bytes) : bool := lex_ltb b a.

(** The [less] closure passed to sort.SliceStable, branch by branch. *)
Definition less (a b : peer) : bool :=
  if p_stake b <? p_stake a then true
  else if p_stake a =? p_stake b then str_gtb (p_key a) (p_key b)
  else false.

(** sort.SliceStable = the stable sort; as a stable insertion sort. *)
Fixpoint insert (x : peer) (l : list peer) : list peer :=
  match l with
  | [] => [x]
  | y :: r => if less y x then y :: insert x r else x :: y :: r
  end.
Definition sort_peers (l : list peer) : list peer := fold_right insert [] l.

Definition u32 (z : Z) : N := Z.to_N (z mod 2 ^ 32).
(* n mod 2^64, as a mask (N.land_ones): linear time, N.modulo is quadratic under vm_compute *)
Definition mask64 : N := 18446744073709551615.   (* 2^64 - 1 = N.ones 64 *)
Definition u64 (n : N) : N := N.land n mask64.

(** [var sum uint64; for i < K { sum += peers[i].InitPos }] (wraps mod 2^64). *)
Definition sum_stakes (l : list peer) : N := fold_left (fun s p => u64 (s + p_stake p)) l 0.

(** [scale := conf.L/conf.K - 1] in uint32 (expression from the source; K <> 0 here). *)
Definition scale_of (L K : N) : N := u32 (scale_expr (Z.of_N L) (Z.of_N K)).

(** One rank: [s = 1; if sum > 0 && InitPos > 0 { s = uint64(math.Ceil(<rank_float>)) }].
    [None]: the float->uint64 conversion is outside [0, 2^64) (implementation-defined in Go). *)
Definition peer_rank (sum scale K : N) (p : peer) : option N :=
  if (0 <? sum) && (0 <? p_stake p) then f64_ceil_u64 (rank_float (p_stake p) scale K sum)
  else Some 1.

Fixpoint all_some {A} (l : list (option A)) : option (list A) :=
  match l with
  | [] => Some []
  | None :: _ => None
  | Some x :: r => match all_some r with Some r' => Some (x :: r') | None => None end
  end.

(** posTable before the shuffle: peers[i].Index repeated peerRanks[i] times, in order. *)
Definition pos_table (top : list peer) (ranks : list N) : list N :=
  flat_map (fun pr => repeat (p_index (fst pr)) (N.to_nat (snd pr))) (combine top ranks).

(** chainPeers: map Index -> PeerConfig filled for i = 0..K-1 (a later write wins). *)
Definition cp_get (top : list peer) (idx : N) : option peer :=
  find (fun p => p_index p =? idx) (rev top).
Definition cp_id (top : list peer) (idx : N) : bytes :=
  match cp_get top idx with Some p => p_key p | None => [] end.

(** posTable[i], posTable[j] = posTable[j], posTable[i] for j < i < len. *)
Definition swap (t : list N) (j i : nat) : list N :=
  firstn j t ++ nth i t 0 :: firstn (i - S j) (skipn (S j) t) ++ nth j t 0 :: skipn (S i) t.

Inductive cc_err := EPanic | EScale | ERankRange.

Record chain_config := mkCC {
  cc_version : N; cc_view : N; cc_n : N; cc_c : N;
  cc_block_delay : N; cc_hash_delay : N; cc_handshake : N;   (* time.Duration, ns *)
  cc_peers : list (N * bytes);
  cc_postable : list N;
  cc_max_view : N }.

Section WithHash.
  (** shuffle_hash(txhash, height, id, idx) with txhash and height fixed. *)
  Variable H : bytes -> N -> N.

  (** [for i := len-1; i > 0; i-- { h := hash(ID of posTable[i], i); j := h % i; swap }] *)
  Fixpoint shuffle_from (top : list peer) (i : nat) (t : list N) : list N :=
    match i with
    | O => t
    | S i' =>
        let h := H (cp_id top (nth i t 0)) (N.of_nat i) in
        let j := N.to_nat (h mod N.of_nat i) in
        shuffle_from top i' (swap t j i)
    end.
  Definition shuffle (top : list peer) (t : list N) : list N :=
    shuffle_from top (length t - 1) t.

  Definition peer_cfg (top : list peer) (p : peer) : N * bytes :=
    match cp_get top (p_index p) with
    | Some q => (p_index q, p_key q)
    | None => (0, [])
    end.

  Definition genesis_chain_config (conf : vbft_config) (peers : list peer) : cc_err + chain_config :=
    let sorted := sort_peers peers in
    let K := c_K conf in
    (* peers[i] for i < K: index out of range when K > len(peers); L/K: divide by zero *)
    if (N.of_nat (length sorted) <? K) || (K =? 0) then inl EPanic else
    let top := firstn (N.to_nat K) sorted in
    let sum := sum_stakes top in
    let scale := scale_of (c_L conf) K in
    if scale =? 0 then inl EScale else
    match all_some (map (peer_rank sum scale K) top) with
    | None => inl ERankRange
    | Some ranks =>
        inr {| cc_version := 1; cc_view := 1; cc_n := K; cc_c := c_C conf;
               cc_block_delay := c_block_delay conf * 1000000;
               cc_hash_delay := c_hash_delay conf * 1000000;
               cc_handshake := c_handshake conf * 1000000000;
               cc_peers := map (peer_cfg top) top;
               cc_postable := shuffle top (pos_table top ranks);
               cc_max_view := c_max_view conf |}
    end.
End WithHash.

(** The parameter checks of genConsensusPayload, in order (uint32 arithmetic). *)
Inductive payload_err := PCzero | PPeerCount | PKC | PKL.
Definition payload_check (conf : vbft_config) (npeers : nat) : option payload_err :=
  let C := c_C conf in let K := c_K conf in let L := c_L conf in
  if C =? 0 then Some PCzero
  else if N.of_nat npeers <? K then Some PPeerCount
  else if K <? u32 (kc_min (Z.of_N C)) then Some PKC
  else if negb (L mod K =? 0) || (L <? u32 (kl_min (Z.of_N K))) then Some PKL
  else None.

(** * shuffle_hash: FNV-1a 64 of the JSON text of {txid, height, node_id, index}. *)

(* hash.Write folds the bytes into the state; Sum64 returns it *)
Definition fnv_write (st : N) (data : bytes) : N :=
  fold_left (fun h b => u64 (fnv_prime64 * N.lxor h b)) data st.
Definition fnv1a64 (data : bytes) : N := fnv_write fnv_offset64 data.

Fixpoint dec_aux (fuel : nat) (n : N) (acc : bytes) : bytes :=
  match fuel with
  | O => acc
  | S f => let acc' := (48 + n mod 10) :: acc in
           if n / 10 =? 0 then acc' else dec_aux f (n / 10) acc'
  end.
Definition dec (n : N) : bytes := dec_aux (S (N.size_nat n)) n [].

Definition hexd (n : N) : N := if n <? 10 then 48 + n else 87 + n.

(** encoding/json string escaping (escapeHTML on), ASCII part exactly as appendString; bytes
    >= 0x80 are passed through (true for valid UTF-8 other than U+2028/U+2029 — keys outside
    ASCII are outside the modelled domain). *)
Definition json_esc (b : N) : bytes :=
  if (b =? 34) || (b =? 92) then [92; b]
  else if b =? 8 then [92; 98]
  else if b =? 12 then [92; 102]
  else if b =? 10 then [92; 110]
  else if b =? 13 then [92; 114]
  else if b =? 9 then [92; 116]
  else if (b <? 32) || (b =? 60) || (b =? 62) || (b =? 38)
       then [92; 117; 48; 48; hexd (b / 16); hexd (b mod 16)]
  else [b].
Definition json_string (s : bytes) : bytes := 34 :: flat_map json_esc s ++ [34].

Fixpoint json_nums (l : list N) : bytes :=
  match l with
  | [] => []
  | [x] => dec x
  | x :: r => dec x ++ 44 :: json_nums r
  end.

(** ASCII codes of a Coq string literal would need Ascii; the four field names are spelled out. *)
Definition k_txid : bytes := [123;34;116;120;105;100;34;58].                       (* {"txid": *)
Definition k_height : bytes := [44;34;104;101;105;103;104;116;34;58].               (* ,"height": *)
Definition k_node_id : bytes := [44;34;110;111;100;101;95;105;100;34;58].           (* ,"node_id": *)
Definition k_index : bytes := [44;34;105;110;100;101;120;34;58].                    (* ,"index": *)

Definition json_head (txid : bytes) (height : N) : bytes :=
  k_txid ++ 91 :: json_nums txid ++ 93 :: k_height ++ dec height ++ k_node_id.
Definition json_tail (id : bytes) (idx : N) : bytes :=
  json_string id ++ k_index ++ dec idx ++ [125].
Definition shuffle_json (txid : bytes) (height : N) (id : bytes) (idx : N) : bytes :=
  json_head txid height ++ json_tail id idx.

(** [fnv1a64 (shuffle_json txid height id idx)], with the state after the (txid, height) prefix
    computed once per (txid, height) — the shuffle asks for one hash per table position. *)
Definition shuffle_hash (txid : bytes) (height : N) : bytes -> N -> N :=
  let st := fnv_write fnv_offset64 (json_head txid height) in
  fun id idx => fnv_write st (json_tail id idx).
