(** C43 — model of the per-block log bloom and of the per-section bloom bit index.

    Mirrors (definitions only, no proofs):
    - go-ethereum v1.9.25 [core/types/bloom9.go]: [bloomValues], [Bloom.add], [Bloom.Test],
      [LogsBloom], [BytesToBloom]/[SetBytes];
    - [core/store/ledgerstore/ledger_store.go]: the log collection of [executeBlock]
      ([allLogs = append(allLogs, receipt.Logs...)] for the receipts [handleTransaction] returns,
      [parseOntLogsToEth], [LogsBloom], [BytesToBloom]);
    - [core/store/ledgerstore/block_store.go]: [genBloomKey], [SaveBloomData], [cleanStaleBloomData],
      [GetBloomData], [LoadBloomBits], [MinFilterStart];
    - [core/store/ledgerstore/bloombits.go]: [bloomBitsKey], [PutBloomIndex], [ReadBloomBits],
      [GetOrSetFilterStart];
    - go-ethereum [core/bloombits/generator.go] ([AddBloom]/[Bitset] as the transposition they
      compute) and [common/bitutil/compress.go] ([CompressBytes], [DecompressBytes]).

    Constants and the integer expressions of [SaveBloomData], [cleanStaleBloomData],
    [LoadBloomBits] and [MinFilterStart] are taken from the current source on every run
    ([Gen/BloomConsts.v], [Gen/BloomFormulas.v]).  Keccak-256 is not modelled: [K6] (its first six
    bytes) is a section variable; no theorem assumes anything about it.  Heights are uint32 in Go;
    the model uses [N] and the theorems assume fewer than 2^32 blocks. *)
From Coq Require Import List Bool NArith ZArith FMapPositive.
Import ListNotations.
From Ont Require Import Lib.Bytes Gen.BloomConsts Gen.BloomFormulas.
Local Open Scope N_scope.

Definition nthb (b : bytes) (i : N) : N := nth (N.to_nat i) b 0.

(** [nseq s n] = [s; s+1; ...; s+n-1] *)
Definition nseq (s n : N) : list N := map (fun j => s + N.of_nat j) (seq 0 (N.to_nat n)).

(** * 1. types.Bloom *)

Definition bloom := bytes.
Definition zero_bloom : bloom := repeat 0 (N.to_nat BloomByteLength).
Definition wf_bloom (b : bloom) : bool := (N.of_nat (length b) =? BloomByteLength) && wf_bytes b.

(** [bloomValues]: [i = BloomByteLength - uint((BigEndian.Uint16(hashbuf[2k:]) & 0x7ff) >> 3) - 1],
    [v = byte(1 << (hashbuf[2k+1] & 0x7))]. *)
Definition bv_pos (hi lo : N) : N := (hi * 256 + lo) mod 2048.
Definition bv_index (hi lo : N) : N := BloomByteLength - bv_pos hi lo / 8 - 1.
Definition bv_mask (lo : N) : N := 2 ^ (lo mod 8).

Fixpoint or_at (b : bytes) (i : nat) (v : N) : bytes :=
  match b, i with
  | [], _ => []
  | x :: r, O => N.lor x v :: r
  | x :: r, S i' => x :: or_at r i' v
  end.

Record log := Log { l_addr : bytes; l_topics : list bytes; l_data : bytes }.

Section Keccak.
Variable K6 : bytes -> bytes. (* first six bytes of Keccak-256 of the argument *)

Definition bloom_values (d : bytes) : list (N * N) :=
  let h := K6 d in
  [ (bv_index (nthb h 0) (nthb h 1), bv_mask (nthb h 1));
    (bv_index (nthb h 2) (nthb h 3), bv_mask (nthb h 3));
    (bv_index (nthb h 4) (nthb h 5), bv_mask (nthb h 5)) ].

(** the three bit positions (numbering of [Bloom.Big()] and of the bloombits generator) *)
Definition bloom_positions (d : bytes) : list N :=
  let h := K6 d in
  [ bv_pos (nthb h 0) (nthb h 1); bv_pos (nthb h 2) (nthb h 3); bv_pos (nthb h 4) (nthb h 5) ].

(** [Bloom.add]: [b[i1] |= v1; b[i2] |= v2; b[i3] |= v3] *)
Definition bloom_add (d : bytes) (b : bloom) : bloom :=
  fold_left (fun acc iv => or_at acc (N.to_nat (fst iv)) (snd iv)) (bloom_values d) b.

(** [Bloom.Test]: [v1 == v1&b[i1] && v2 == v2&b[i2] && v3 == v3&b[i3]] *)
Definition bloom_test (d : bytes) (b : bloom) : bool :=
  forallb (fun iv => snd iv =? N.land (snd iv) (nthb b (fst iv))) (bloom_values d).

(** [LogsBloom]: for each log, the address, then each topic *)
Definition log_items (l : log) : list bytes := l_addr l :: l_topics l.

Definition logs_bloom (logs : list log) : bytes :=
  fold_left (fun bin l => fold_left (fun bn t => bloom_add t bn) (l_topics l) (bloom_add (l_addr l) bin))
            logs zero_bloom.

(** [BytesToBloom]/[SetBytes]: panics when the input is longer than the bloom ([None]), otherwise
    copies to the tail. *)
Definition bytes_to_bloom (d : bytes) : option bloom :=
  if BloomByteLength <? N.of_nat (length d) then None
  else Some (repeat 0 (N.to_nat BloomByteLength - length d) ++ d).

(** [executeBlock]: a transaction contributes the logs of its receipt; [handleTransaction] returns
    a receipt only for EIP155 transactions ([None] here for every other type). *)
Definition tx_receipt := option (list log).
Definition receipt_logs (r : tx_receipt) : list log := match r with Some l => l | None => [] end.
Definition all_logs (txs : list tx_receipt) : list log := flat_map receipt_logs txs.
Definition block_bloom (txs : list tx_receipt) : option bloom := bytes_to_bloom (logs_bloom (all_logs txs)).

End Keccak.

(** bit [i] of a bloom in the numbering of the bloombits generator: [AddBloom] reads
    [bloomByte := bloom[BloomByteLength-1-byt]] and feeds bit [t] of it to vector [8*byt+t]. *)
Definition bloom_bit (b : bloom) (i : N) : bool :=
  N.testbit (nthb b (BloomByteLength - 1 - i / 8)) (i mod 8).

(** * 2. bloombits.Generator: the transposition *)

(** bits to bytes, first bit = most significant ([bitIndex := 7 - nextSec%8]) *)
Definition b2n (b : bool) : N := if b then 1 else 0.
Fixpoint pack8 (l : list bool) : bytes :=
  match l with
  | b7 :: b6 :: b5 :: b4 :: b3 :: b2 :: b1 :: b0 :: r =>
      (128 * b2n b7 + 64 * b2n b6 + 32 * b2n b5 + 16 * b2n b4 + 8 * b2n b3 + 4 * b2n b2 + 2 * b2n b1 + b2n b0)
        :: pack8 r
  | _ => []
  end.

(** bit [k] of a section vector as the matcher reads it: byte [k/8], bit [7 - k%8] *)
Definition vec_bit (v : bytes) (k : N) : bool := N.testbit (nthb v (k / 8)) (7 - k mod 8).

(** column [p] of the byte matrix whose rows are the blooms *)
Fixpoint columns (n : nat) (rows : list bytes) : list bytes :=
  match n with
  | O => []
  | S n' => map (fun r => hd 0 r) rows :: columns n' (map (@tl N) rows)
  end.

(** the eight vectors fed by one byte position; [AddBloom] skips a zero byte
    ([if bloomByte == 0 { continue }]), so a position where every bloom of the section has a zero
    byte leaves its eight vectors as allocated ([make([]byte, sections/8)]) *)
Definition col_vectors (col : bytes) : list bytes :=
  if forallb (N.eqb 0) col then repeat (repeat 0 (Nat.div (length col) 8)) 8
  else map (fun t => pack8 (map (fun x => N.testbit x t) col)) (nseq 0 8).

(** all [BloomBitLength] vectors of a section, vector [8*byt+t] at index [8*byt+t] *)
Definition gen_vectors (blooms : list bloom) : list bytes :=
  flat_map col_vectors (rev (columns (N.to_nat BloomByteLength) blooms)).

(** * 3. bitutil.CompressBytes / DecompressBytes *)

Fixpoint group_byte (g : bytes) (w : N) : N :=
  match g with
  | [] => 0
  | x :: r => (if x =? 0 then 0 else w) + group_byte r (w / 2)
  end.

(** [nonZeroBitset[i/8] |= 1 << byte(7-i%8)] for the non-zero bytes; [n] = number of groups *)
Fixpoint nz_bitset (n : nat) (d : bytes) : bytes :=
  match n with
  | O => []
  | S n' => group_byte (firstn 8 d) 128 :: nz_bitset n' (skipn 8 d)
  end.

Definition nonzero (x : N) : bool := negb (x =? 0).
Definition groups (n : nat) : nat := Nat.div (n + 7) 8.

(** [bitsetEncodeBytes]; [None] = fuel exhausted *)
Fixpoint bitset_encode (fuel : nat) (d : bytes) : option bytes :=
  match fuel with
  | O => None
  | S f =>
      match d with
      | [] => Some []
      | [x] => Some (if x =? 0 then [] else [x])
      | _ =>
          match filter nonzero d with
          | [] => Some []
          | nz => match bitset_encode f (nz_bitset (groups (length d)) d) with
                  | Some e => Some (e ++ nz)
                  | None => None
                  end
          end
      end
  end.

(** [CompressBytes]: the encoding when it is shorter, else a copy.  [length d + 1] levels of
    recursion always suffice (Proofs/BloomCompress.v: [bitset_encode_total]); the fall-back of the
    [None] branch is the same copy. *)
Definition compress_bytes (d : bytes) : bytes :=
  match bitset_encode (S (length d)) d with
  | Some out => if Nat.ltb (length out) (length d) then out else d
  | None => d
  end.

Inductive dres := DOk (out : bytes) (ptr : nat) | DErr | DFuel.

Definition byte_bits (x : N) : list bool := map (fun t => N.testbit x (7 - t)) (nseq 0 8).

(** the loop of [bitsetDecodePartialBytes]: [i] = position, [rest] = [data[ptr:]] *)
Fixpoint fill (bits : list bool) (i target : nat) (rest : bytes) (ptr : nat) : option (bytes * nat) :=
  match bits with
  | [] => Some ([], ptr)
  | false :: r =>
      match fill r (S i) target rest ptr with
      | Some (o, p) => Some (if Nat.ltb i target then 0 :: o else o, p)
      | None => None
      end
  | true :: r =>
      match rest with
      | [] => None (* errMissingData *)
      | x :: rest' =>
          if Nat.leb target i then None (* errExceededTarget *)
          else if x =? 0 then None (* errZeroContent *)
          else match fill r (S i) target rest' (S ptr) with
               | Some (o, p) => Some (x :: o, p)
               | None => None
               end
      end
  end.

Fixpoint decode_partial (fuel : nat) (data : bytes) (target : nat) : dres :=
  match fuel with
  | O => DFuel
  | S f =>
      if Nat.eqb target 0 then DOk [] 0
      else match data with
           | [] => DOk (repeat 0 target) 0
           | x0 :: _ =>
               if Nat.eqb target 1 then DOk [x0] (if x0 =? 0 then 0%nat else 1%nat)
               else match decode_partial f data (groups target) with
                    | DOk bitset ptr =>
                        match fill (flat_map byte_bits bitset) 0 target (skipn ptr data) ptr with
                        | Some (o, p) => DOk o p
                        | None => DErr
                        end
                    | e => e
                    end
           end
  end.

(** [DecompressBytes(data, target)]; [None] = an error of the real function *)
Definition decompress_bytes (data : bytes) (target : nat) : option bytes :=
  if Nat.ltb target (length data) then None
  else if Nat.eqb (length data) target then Some data
  else match decode_partial (S target) data target with
       | DOk out size => if Nat.eqb size (length data) then Some out else None
       | _ => None
       end.

(** * 4. The block store records *)

(** The LevelDB key space: a finite map on byte strings, kept as a trie over an injective numbering
    of byte strings (little-endian digits with a terminating 1; Proofs/BloomStore.v: [key_pos_inj]). *)
Definition kvstore := PositiveMap.t bytes.
Definition key_pos (k : bytes) : positive := N.succ_pos (le_decode (k ++ [1])).
Definition kv_get (s : kvstore) (k : bytes) : option bytes := PositiveMap.find (key_pos k) s.
Definition kv_put (s : kvstore) (k v : bytes) : kvstore := PositiveMap.add (key_pos k) v s.

Definition be_encode (w : nat) (v : N) : bytes := rev (le_encode w v).

(** [genBloomKey]: [DATA_BLOOM ++ LittleEndian.PutUint32(height)] *)
Definition bloom_key (h : N) : bytes := DATA_BLOOM :: le_encode 4 h.
(** [bloomBitsKey]: prefix ++ BigEndian uint16(bit) ++ BigEndian uint32(section) *)
Definition bloom_bits_key (bit section : N) : bytes :=
  BLOOM_BITS_PREFIX :: be_encode 2 bit ++ be_encode 4 section.

Definition ckey (h : N) : positive := N.succ_pos h.

Record bstate := BState {
  filter_start : N;                 (* BlockStore.filterStart *)
  fs_rec : option N;                (* the ST_ETH_FILTER_START record *)
  cur_rec : option N;               (* height of the SYS_CURRENT_BLOCK record *)
  kv : kvstore;                     (* DATA_BLOOM and bloom-bits records *)
  cache : PositiveMap.t bloom       (* BlockStore.bloomCache *)
}.

Definition init_state : bstate := BState 0 None None (PositiveMap.empty bytes) (PositiveMap.empty bloom).

Definition zN (f : Z) : N := Z.to_N f.
Definition SZ : Z := Z.of_N BloomBitsBlocks.

(** [GetBloomData]: the zero bloom when there is no record *)
Definition get_bloom_data (s : kvstore) (h : N) : option bloom :=
  match kv_get s (bloom_key h) with
  | None => Some zero_bloom
  | Some v => bytes_to_bloom v
  end.

(** [ReadBloomBits] *)
Definition read_bloom_bits (s : kvstore) (bit section : N) : option bytes :=
  kv_get s (bloom_bits_key bit section).

Fixpoint collect {A : Type} (l : list (option A)) : option (list A) :=
  match l with
  | [] => Some []
  | None :: _ => None
  | Some x :: r => match collect r with Some r' => Some (x :: r') | None => None end
  end.

(** the loop of [SaveBloomData] that dereferences [bloomCache[height+uint32(i)+1-BloomBitsBlocks]];
    [None] = nil pointer dereference *)
Definition section_blooms (c : PositiveMap.t bloom) (h : N) : option (list bloom) :=
  collect (map (fun i => PositiveMap.find (ckey (zN (bloom_member (Z.of_N h) (Z.of_N i) SZ))) c)
               (nseq 0 (zN (bloom_loop_bound SZ)))).

(** [PutBloomIndex]; [None] = one of its panics ([NewGenerator] with a size that is no multiple
    of 8, [AddBloom] past the section, [Bitset] before the section is full) *)
Definition put_bloom_index (s : kvstore) (blooms : list bloom) (section : N) : option kvstore :=
  if negb (BloomBitsBlocks mod 8 =? 0) then None
  else if negb (N.of_nat (length blooms) =? BloomBitsBlocks) then None
  else Some (fold_left (fun acc iv => kv_put acc (bloom_bits_key (fst iv) section) (compress_bytes (snd iv)))
                       (combine (nseq 0 (zN (put_index_bound (Z.of_N BloomBitLength)))) (gen_vectors blooms)) s).

(** [SaveBloomData]; [None] = panic *)
Definition save_bloom_data (st : bstate) (h : N) (b : bloom) : option bstate :=
  if h <? filter_start st then Some st
  else
    let kv1 := kv_put (kv st) (bloom_key h) b in
    let c1 := PositiveMap.add (ckey h) b (cache st) in
    let c2 := if zN (clean_bound SZ) <? h
              then PositiveMap.remove (ckey (zN (clean_target (Z.of_N h) SZ))) c1 else c1 in
    if Z.eqb (bloom_trigger (Z.of_N h) SZ) (bloom_trigger_rhs (Z.of_N h) SZ) then
      match section_blooms c2 h with
      | None => None
      | Some bl =>
          match put_bloom_index kv1 bl (zN (bloom_section (Z.of_N h) SZ)) with
          | None => None
          | Some kv2 => Some (BState (filter_start st) (fs_rec st) (cur_rec st) kv2 c2)
          end
      end
    else Some (BState (filter_start st) (fs_rec st) (cur_rec st) kv1 c2).

(** one committed block as far as these records go: [SaveCurrentBlock] + [SaveBloomData] *)
Definition commit (st : bstate) (h : N) (b : bloom) : option bstate :=
  match save_bloom_data st h b with
  | Some st' => Some (BState (filter_start st') (fs_rec st') (Some h) (kv st') (cache st'))
  | None => None
  end.

(** [LoadBloomBits] on a freshly opened block store (empty cache); [adh] =
    [config.GetAddDecimalsHeight()]; [None] = [GetBloomData] panicked *)
Definition load_bloom_bits (adh : N) (st : bstate) : option bstate :=
  let cur := match cur_rec st with Some c => c | None => 0 end in
  let init := if cur <? adh then zN (min_filter_start (Z.of_N adh)) else zN (load_init_start (Z.of_N cur)) in
  let fs := match fs_rec st with Some f => f | None => init end in
  if cur <? fs then Some (BState fs (Some fs) (cur_rec st) (kv st) (PositiveMap.empty bloom))
  else
    let ls := zN (load_start (Z.of_N cur) SZ) in
    match collect (map (fun i => get_bloom_data (kv st) i) (nseq ls (cur + 1 - ls))) with
    | None => None
    | Some bl =>
        Some (BState fs (Some fs) (cur_rec st) (kv st)
                (fold_left (fun c ib => PositiveMap.add (ckey (fst ib)) (snd ib) c)
                           (combine (nseq ls (cur + 1 - ls)) bl) (PositiveMap.empty bloom)))
    end.

(** * 5. Histories *)

Inductive op := OBlock (b : bloom) | ORestart.

Definition next_height (st : bstate) : N := match cur_rec st with None => 0 | Some c => c + 1 end.

(** A restart before the genesis block was committed re-initialises the ledger
    ([InitLedgerStoreWithGenesisBlock]: [ClearAll], no [LoadBloomBits]). *)
Definition step (adh : N) (st : bstate) (o : op) : option bstate :=
  match o with
  | OBlock b => commit st (next_height st) b
  | ORestart => match cur_rec st with None => Some st | Some _ => load_bloom_bits adh st end
  end.

Fixpoint run (adh : N) (st : bstate) (ops : list op) : option bstate :=
  match ops with
  | [] => Some st
  | o :: r => match step adh st o with Some st' => run adh st' r | None => None end
  end.

Fixpoint blooms_of (ops : list op) : list bloom :=
  match ops with
  | [] => []
  | OBlock b :: r => b :: blooms_of r
  | ORestart :: r => blooms_of r
  end.

(** ledger level: a block is the list of its transactions' receipts *)
Inductive lop := LBlock (txs : list tx_receipt) | LRestart.

Section KeccakHist.
Variable K6 : bytes -> bytes.

Fixpoint lower (lops : list lop) : option (list op) :=
  match lops with
  | [] => Some []
  | LBlock txs :: r =>
      match block_bloom K6 txs, lower r with
      | Some b, Some r' => Some (OBlock b :: r')
      | _, _ => None
      end
  | LRestart :: r => match lower r with Some r' => Some (ORestart :: r') | None => None end
  end.

Fixpoint blocks_of (lops : list lop) : list (list tx_receipt) :=
  match lops with
  | [] => []
  | LBlock txs :: r => txs :: blocks_of r
  | LRestart :: r => blocks_of r
  end.

(** [None] = some panic on the way *)
Definition lrun (adh : N) (lops : list lop) : option bstate :=
  match lower lops with Some ops => run adh init_state ops | None => None end.
End KeccakHist.
