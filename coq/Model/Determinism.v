(** Model/Determinism.v -- C02 "every node derives the same state from the same blocks".
    Definitions only (proofs: Proofs/Determinism.v, Proofs/C02.v).

    Part A.  Go map iteration.  A Go map is a duplicate-free association list; a `range` over it (or a
             sync.Map.Range) visits SOME permutation of the entries, chosen by the runtime, different on
             every node, process and loop execution.  Every function below that mirrors a loop over a
             map therefore takes the visiting order [order] as an explicit argument; the theorems
             quantify over all permutations.  Each definition names the Go loop it mirrors.
    Part B.  The table of iteration sites: every site the translator finds in the current source
             (Gen/MapRanges.v, regenerated on every run) must occur, with the digest of its loop text, in
             the committed [classification].
    Part C.  Block execution as the two node roles perform it: [executeBlock] = fold of
             [handleTransaction] over the block's transactions on one overlay, state-change hash = H over
             the sorted write set (Model/WriteSet.v), state root = compact merkle tree with that hash
             appended (Model/Merkle.v).  The roles differ in ONE place: the signer list returned by
             [Transaction.GetSignatureAddresses] -- set by the validator (consensus member) or derived
             from the raw verification scripts (syncing / restarted node). *)
From Coq Require Import List Bool NArith String.
Import ListNotations.
From Ont Require Import Lib.Bytes Model.WriteSet Model.Merkle.
Local Open Scope N_scope.

(** * Part A -- loops over Go maps *)

(** `for k, v := range m { s = body(s, k, v) }` *)
Definition range_fold {E S : Type} (body : S -> E -> S) (order : list E) (s : S) : S :=
  fold_left body order s.

(** ** A1. transaction_validator.go checkTransactionSignatures:
       addrList := make([]Address, 0, len(address)); for addr := range address { addrList = append(addrList, addr) }
    and smart_contract.go checkAccountAddress: for _, v := range addresses { if v == address { return true } } *)
Definition collect_keys {K V : Type} (order : list (K * V)) : list K :=
  range_fold (fun acc kv => acc ++ [fst kv]) order [].

Definition check_witness (signers : list bytes) (a : bytes) : bool :=
  existsb (fun v => bytes_eqb v a) signers.

(** ** A2. association-list view of a Go map (used for the destination of copy loops) *)
Section AMap.
  Variable K V : Type.
  Variable keqb : K -> K -> bool.
  Fixpoint am_get (k : K) (m : list (K * V)) : option V :=
    match m with
    | [] => None
    | (k', v) :: r => if keqb k' k then Some v else am_get k r
    end.
  (** m[k] = v : replace in place or append *)
  Fixpoint am_set (k : K) (v : V) (m : list (K * V)) : list (K * V) :=
    match m with
    | [] => [(k, v)]
    | (k', v') :: r => if keqb k' k then (k', v) :: r else (k', v') :: am_set k v r
    end.

  (** ledger_store.go executeBlock: neovm.GAS_TABLE.Range(func(k, value) { gasTable[key] = val })
      statedb.go Snapshot: for k, v := range self.Suicided { suicided[k] = v }
      vm/evm/logger.go Storage.Copy *)
  Definition map_copy (order : list (K * V)) : list (K * V) :=
    range_fold (fun m kv => am_set (fst kv) (snd kv) m) order [].

  (** tx_handler.go refreshGlobalParam: GAS_TABLE.Range(func(key, value) { if p := params[key]; ok && parses
      { GAS_TABLE.Store(key, pu) } }) : each visited key is overwritten by a function of that key alone
      ([upd k = None]: left as it is). *)
  Definition per_key_update (upd : K -> option V) (order : list (K * V)) (m : list (K * V)) : list (K * V) :=
    range_fold (fun m kv => match upd (fst kv) with Some v => am_set (fst kv) v m | None => m end) order m.
End AMap.
Arguments am_get {K V}. Arguments am_set {K V}. Arguments map_copy {K V}. Arguments per_key_update {K V}.

(** ** A3. governance.go ApproveCandidate / QuitNode / UpdateConfig, method.go registerCandidate:
       num := 0; for _, item := range peerPoolMap.PeerPoolMap { if item.Status == Candidate || ... { num = num + 1 } } *)
Definition count_if {E : Type} (p : E -> bool) (order : list E) : N :=
  range_fold (fun n e => if p e then n + 1 else n) order 0.

(** ** A4. collect, then sort:  auth/utils.go StringsDedupAndSort, neovm map_value.go getMapSortedKey,
       neovm_value.go dump (sort.Strings on the collected keys); governance states.go
       PeerPoolMap.Serialization, header_sync states.go ConsensusPeers.Serialization,
       governance.go GetPeerPoolForVm / GetPeerPoolByAddress, method.go executeSplit (sort.SliceStable by a
       key that is unique per map entry).  Insertion sort stands for any stable sort: on duplicate-free
       keys under a total order every sorting algorithm returns the same list (proved). *)
Section Sort.
  Variable E : Type.
  Variable leb : E -> E -> bool.
  Fixpoint insert_sorted (x : E) (l : list E) : list E :=
    match l with
    | [] => [x]
    | y :: r => if leb x y then x :: y :: r else y :: insert_sorted x r
    end.
  Fixpoint isort (l : list E) : list E :=
    match l with [] => [] | x :: r => insert_sorted x (isort r) end.
  Definition collect_sort {A : Type} (sel : A -> option E) (order : list A) : list E :=
    isort (range_fold (fun acc a => match sel a with Some e => acc ++ [e] | None => acc end) order []).
End Sort.
Arguments insert_sorted {E}. Arguments isort {E}. Arguments collect_sort {E} leb {A}.

(** bytes.Compare <= (sort.Strings compares Go strings byte-wise) *)
Definition bytes_leb (a b : bytes) : bool :=
  match ws_cmp a b with Gt => false | _ => true end.

(** ** A5. smartcontract/storage/statedb.go CommitToCacheDB:
       for addr := range self.Suicided { cacheDB.DelEthAccount(addr); cacheDB.CleanContractStorageData(addr) }
    The state is the key/value list under the cache; both calls delete keys determined by the address
    ([owned a k]: k is the account key of a, or a storage key with prefix a). *)
Definition suicide_clean {A KV : Type} (owned : A -> KV -> bool) (order : list A) (st : list KV) : list KV :=
  range_fold (fun st a => filter (fun kv => negb (owned a kv)) st) order st.

(** ** A6. native/ont/ont.go OntInit:
       for addr, val := range distribute { CacheDB.Put(balanceKey(addr), val); AddTransferNotifications(.. addr, val) }
    State: puts on keys that are distinct per entry; notifications: appended in visiting order. *)
Definition ont_init_notifications {K V : Type} (order : list (K * V)) : list (K * V) :=
  range_fold (fun acc kv => acc ++ [kv]) order [].

(** ** A7. native/ontfs/errors.go Errors.ToString -- the payload of the event pushed by AddErrorsEvent,
       as repaired in 859ea035:
         EncodeVarUint(len); objs := keys collected by `for obj := range ObjectErrors`; sort.Strings(objs);
         for _, obj := range objs { WriteVarBytes(obj); WriteVarBytes(ObjectErrors[obj]) }
    (base64 of the buffer; base64 is injective, omitted).  Lengths < 0xFD use the one-byte varuint.
    ObjectErrors[obj] is the map lookup [am_get] (a missing key would read "", it cannot be missing). *)
Definition var_bytes_small (b : bytes) : bytes := N.of_nat (List.length b) :: b.
Definition ontfs_lookup (order : list (bytes * bytes)) (k : bytes) : bytes :=
  match am_get bytes_eqb k order with Some v => v | None => [] end.
Definition ontfs_errors_to_string (order : list (bytes * bytes)) : bytes :=
  fold_left (fun buf k => buf ++ var_bytes_small k ++ var_bytes_small (ontfs_lookup order k))
            (collect_sort bytes_leb (fun kv => Some (fst kv)) order)
            [N.of_nat (List.length order)].
(** the writer before the repair: entries written in visiting order (kept as the regression witness) *)
Definition ontfs_errors_to_string_unsorted (order : list (bytes * bytes)) : bytes :=
  range_fold (fun buf kv => buf ++ var_bytes_small (fst kv) ++ var_bytes_small (snd kv)) order
             [N.of_nat (List.length order)].

(** ** A8 (FINDING F4, owned by C15). vm/neovm/types/neovm_value.go circularRefAndDepthDetection, map branch:
       for _, v := range mp.Data { return v[1].circularRefAndDepthDetection(visited, depth+1) }
    returns inside the first iteration: only the first VISITED entry is inspected.
    [deep v]: the recursive call on value v reports "too deep / circular". *)
Definition detect_map_first {K V : Type} (deep : V -> bool) (order : list (K * V)) : bool :=
  match order with
  | [] => false
  | kv :: _ => deep (snd kv)
  end.
(** what a detector that visits every entry computes *)
Definition detect_map_all {K V : Type} (deep : V -> bool) (order : list (K * V)) : bool :=
  existsb (fun kv => deep (snd kv)) order.

(** ** A9 (FINDING, latent). governance/method.go executeCommitDpos1 / executeCommitDpos2:
       for _, peerPoolItem := range peerPoolMap.PeerPoolMap { ... if peerPoolItem.Status == BlackStatus { blackQuit(..) } ... }
    blackQuit begins with appCallTransferOnt(governance, governance, peerPoolItem.InitPos): the ONT contract
    appends one transfer notification carrying InitPos per black-listed peer, in visiting order.  (The
    state effects of the loop commute: per-peer records, additive totals.)  Entry = (peer key, InitPos). *)
Definition commit_dpos_black_events {K : Type} (black : K * N -> bool) (order : list (K * N)) : list N :=
  range_fold (fun acc kv => if black kv then acc ++ [snd kv] else acc) order [].

(** * Part B -- the site table *)

Inductive lemma_id :=
| L_witness_membership   (* A1 *)
| L_map_copy             (* A2 *)
| L_per_key_update       (* A2 *)
| L_count                (* A3 *)
| L_collect_sort         (* A4 *)
| L_prefix_delete        (* A5 *)
| L_singleton            (* A6 *)
| L_commute_disjoint.    (* generic: bodies that commute on entries with different keys *)

Inductive order_class :=
| Proved (l : lemma_id)                 (* the loop is mirrored in Part A and the lemma is proved for that mirror *)
| Argued (l : lemma_id) (why : string)  (* the loop has the shape of lemma l inside a larger body; the lemma's
                                           hypotheses (stated in [why]) were established by reading, not in Coq *)
| OffPath (why : string)                (* not reachable from block execution *)
| Finding (cls : string).               (* order-dependent observable: known-finding class of the check *)

(** (file, function, line-independent id, digest of the loop text) *)
Definition site_key := (string * string * string * string)%type.

Definition site_key_eqb (a b : site_key) : bool :=
  let '(f1, g1, i1, d1) := a in let '(f2, g2, i2, d2) := b in
  String.eqb f1 f2 && String.eqb g1 g2 && String.eqb i1 i2 && String.eqb d1 d2.

Definition key_of_generated (s : string * string * string * string * string) : site_key :=
  let '(f, g, i, _, d) := s in (f, g, i, d).

Definition lookup_class (tbl : list (site_key * order_class)) (k : site_key) : option order_class :=
  match find (fun e => site_key_eqb (fst e) k) tbl with Some e => Some (snd e) | None => None end.

Definition all_sites_classified (tbl : list (site_key * order_class))
           (sites : list (string * string * string * string * string)) : bool :=
  forallb (fun s => match lookup_class tbl (key_of_generated s) with Some _ => true | None => false end) sites.

(** sites whose class is a finding (the driver's known-finding classes are generated from this) *)
Definition finding_classes (tbl : list (site_key * order_class)) : list string :=
  flat_map (fun e => match snd e with Finding c => [c] | _ => [] end) tbl.

(** uses of the signer list: (file, function, GetSignatureAddresses | SignedAddr) *)
Inductive use_class :=
| UWitnessMembership   (* consulted only through membership (checkAccountAddress) *)
| UWriter              (* assigns the list (validator, EIP-155 decoder) *)
| UOutOfModel (why : string).

Definition use_key := (string * string * string)%type.
Definition use_key_eqb (a b : use_key) : bool :=
  let '(f1, g1, w1) := a in let '(f2, g2, w2) := b in String.eqb f1 f2 && String.eqb g1 g2 && String.eqb w1 w2.
Definition all_uses_classified (tbl : list (use_key * use_class)) (uses : list use_key) : bool :=
  forallb (fun u => existsb (fun e => use_key_eqb (fst e) u) tbl) uses.

(** ** Process-global state.  A package-level variable written during execution outlives the block and
    is empty (compiled-in value) again in a restarted process.  (package dir, variable, type kind,
    writing sites) as generated; each must be classified. *)
Inductive global_class :=
| GRefreshed (why : string)       (* fully rewritten from chain state before it is read in every block *)
| GConstAfterInit (why : string)  (* written only by set-up code that runs identically in every process *)
| GNotObservable (why : string)   (* recycling / publication: contents never reach results *)
| GOutOfModel (why : string)      (* WASM runtime: outside every model here *)
| GFinding (cls : string).        (* results depend on what the process has seen: known-finding class *)

Definition global_key := (string * string * string * string)%type.
Definition global_key_eqb (a b : global_key) : bool :=
  let '(p1, n1, k1, w1) := a in let '(p2, n2, k2, w2) := b in
  String.eqb p1 p2 && String.eqb n1 n2 && String.eqb k1 k2 && String.eqb w1 w2.
Definition all_globals_classified (tbl : list (global_key * global_class)) (gs : list global_key) : bool :=
  forallb (fun g => existsb (fun e => global_key_eqb (fst e) g) tbl) gs.
Definition global_finding_classes (tbl : list (global_key * global_class)) : list string :=
  flat_map (fun e => match snd e with GFinding c => [c] | _ => [] end) tbl.

(** A10 (FINDING). tx_handler.go refreshGlobalParam on the process-global neovm.GAS_TABLE: for every key,
    `if n != -1 && ps.Value != "" { pu, err := strconv.ParseUint(..); if err == nil { GAS_TABLE.Store(key, pu) } }`
    -- an entry is overwritten only when the on-chain parameter exists and parses; otherwise it keeps
    whatever THIS PROCESS stored earlier (or the compiled-in default).  One key: [cur] the table entry,
    [p] the on-chain value at this block (None: absent, empty or not a number). *)
Definition refresh_entry (cur : N) (p : option N) : N := match p with Some v => v | None => cur end.
(** the entry in a process that started with the compiled-in default [d] and has executed blocks under
    the successive on-chain values [seen] *)
Definition table_after (d : N) (seen : list (option N)) : N := fold_left refresh_entry seen d.
(** the repair: fall back to the default, not to the previous content *)
Definition refresh_entry_repaired (d : N) (_cur : N) (p : option N) : N := match p with Some v => v | None => d end.
Definition table_after_repaired (d : N) (seen : list (option N)) : N := fold_left (refresh_entry_repaired d) seen d.

(** * Part C -- block execution by the two node roles *)

(** One signature set of a transaction, as far as addresses are concerned.
    [sg_script_addr] = common.AddressFromVmCode(RawSig.Verify): hash of the raw verification script;
    [sg_key_addr]    = types.AddressFromPubKey / AddressFromMultiPubKeys of the keys PARSED from the script
                       (what checkTransactionSignatures inserts into its `address` map);
    [sg_ok]          = GetSig succeeded, the m/n/sig-count guard passed and the signatures verified
                       (C16 models these; here a boolean).
    The two addresses are independent data: whether they can differ for an accepted transaction is C17's
    question ([signers_agree]); on the current tree they can (F2). *)
Record sigm := mk_sig { sg_script_addr : bytes; sg_key_addr : bytes; sg_ok : bool }.

Section Exec.
  Variable payload : Type.

  Record tx := mk_tx {
    tx_eip : option bytes;     (* Some from: EIP-155 transaction, sender recovered when decoding *)
    tx_payer : bytes;
    tx_sigs : list sigm;
    tx_body : payload }.

  (** Transaction.SignedAddr after decoding (transaction.go Deserialization / decodeEip155):
      TransactionFromEIP155 sets [from]; an Ontology transaction starts with the field empty. *)
  Definition decoded_signed_addr (t : tx) : list bytes :=
    match tx_eip t with Some a => [a] | None => [] end.

  Fixpoint dedup (l : list bytes) : list bytes :=
    match l with
    | [] => []
    | a :: r => if existsb (fun v => bytes_eqb v a) r then dedup r else a :: dedup r
    end.

  (** keys of the Go map `address` built by checkTransactionSignatures (a set; listed here without
      duplicates in some fixed order -- the order the code sees is [order] below) *)
  Definition validator_set (t : tx) : list bytes := dedup (map sg_key_addr (tx_sigs t)).

  (** checkTransactionSignatures: None = rejected; Some l = the value of tx.SignedAddr afterwards.
      [order]: the order in which `for addr := range address` visited the map. *)
  Definition validate (order : list bytes) (t : tx) : option (list bytes) :=
    match tx_eip t with
    | Some a => Some (decoded_signed_addr t)          (* "the signature already checked on decode tx" *)
    | None =>
        if forallb sg_ok (tx_sigs t) && check_witness (validator_set t) (tx_payer t)
        then Some (collect_keys (map (fun a => (a, true)) order))
        else None
    end.

  (** Transaction.GetSignatureAddresses: the fallback runs only while SignedAddr is empty *)
  Definition get_signature_addresses (signed : list bytes) (t : tx) : list bytes :=
    match signed with
    | [] => map sg_script_addr (tx_sigs t)
    | _ => signed
    end.

  Inductive role :=
  | Member (order : tx -> list bytes)   (* ran VerifyTransaction; order t = map order its validator happened to use *)
  | Syncer.                             (* received the block sealed: BlockFromRawBytes + AddBlock *)

  (** the signer list the smart-contract layer sees for t on a node of the given role;
      None: a member never executes a transaction its validator rejected *)
  Definition signers (r : role) (t : tx) : option (list bytes) :=
    match r with
    | Member order =>
        match validate (order t) t with
        | Some signed => Some (get_signature_addresses signed t)
        | None => None
        end
    | Syncer => Some (get_signature_addresses (decoded_signed_addr t) t)
    end.

  (** ** executeBlock *)
  Variable H : bytes -> bytes.               (* sha256 *)
  Variable hc : bytes -> bytes -> bytes.     (* merkle.TreeHasher.hash_children *)
  Variables store notify blockctx : Type.
  (** handleTransaction for one transaction: fee envelope, interpreter, native contracts.  It sees the
      committed store, the block overlay so far, block header fields, the transaction, and reaches the
      signer list only through SmartContract.CheckWitness = [check_witness signers] (tie: the generated
      [signer_uses] table).  Returns the new overlay and the ExecuteNotify. *)
  Variable handle : (bytes -> bool) -> store -> blockctx -> overlay -> tx -> overlay * notify.

  Record exec_result := mk_res {
    r_hash : bytes;                 (* ExecuteResult.Hash = overlay.ChangeHash() *)
    r_root : option bytes;          (* ExecuteResult.MerkleRoot = deltaMerkleTree.GetRootWithNewLeaf(Hash) *)
    r_writeset : list kv;           (* ExecuteResult.WriteSet *)
    r_notify : list notify }.       (* ExecuteResult.Notify, one per transaction, in block order *)

  Fixpoint exec_txs (r : role) (st : store) (ctx : blockctx) (ov : overlay) (acc : list notify)
           (txs : list tx) : option (overlay * list notify) :=
    match txs with
    | [] => Some (ov, acc)
    | t :: rest =>
        match signers r t with
        | None => None
        | Some sg =>
            let '(ov', n) := handle (check_witness sg) st ctx ov t in
            exec_txs r st ctx ov' (acc ++ [n]) rest
        end
    end.

  (** executeBlock above stateHashCheckHeight *)
  Definition exec_block (r : role) (st : store) (tree : ctree bytes) (ctx : blockctx) (txs : list tx)
    : option exec_result :=
    match exec_txs r st ctx ov_new [] txs with
    | None => None
    | Some (ov, ns) =>
        let h := ov_change_hash H ov in
        Some (mk_res h (root_with_new_leaf bytes hc tree h) (ov_write_set ov) ns)
    end.

  (** submitBlock as far as the next block's execution can observe it: the write set is committed to
      the state store and the change hash appended to the state merkle tree *)
  Variable commit : store -> list kv -> store.

  Fixpoint run_chain (r : role) (st : store) (tree : ctree bytes) (blocks : list (blockctx * list tx))
    : option (list exec_result) :=
    match blocks with
    | [] => Some []
    | (ctx, txs) :: rest =>
        match exec_block r st tree ctx txs with
        | None => None
        | Some res =>
            match append_hash bytes hc tree (r_hash res) with
            | None => None
            | Some (tree', _) =>
                match run_chain r (commit st (r_writeset res)) tree' rest with
                | None => None
                | Some l => Some (res :: l)
                end
            end
        end
    end.
End Exec.

Arguments mk_tx {payload}. Arguments tx_eip {payload}. Arguments tx_payer {payload}.
Arguments tx_sigs {payload}. Arguments tx_body {payload}.
Arguments validator_set {payload}. Arguments validate {payload}. Arguments decoded_signed_addr {payload}.
Arguments get_signature_addresses {payload}. Arguments signers {payload}.
Arguments Member {payload}. Arguments Syncer {payload}.
