(** Model for property C15 (contract results do not depend on Go map iteration order), part 1:
    the places of vm/neovm/types where a Go map is ranged over, with the iteration order as an
    explicit argument.
      vm/neovm/types/map_value.go     getMapSortedKey, GetMapSortedKey, GetValues
      vm/neovm/types/neovm_value.go   circularRefAndDepthDetection (map branch), Serialize (map
                                      branch), Stringify/stringify, dump (its own key loop)
    Builds on the heap-graph value model of C14 (Model/VmValue.v): a MapValue is [OMap m] with [m] a
    list of entries in NO meaningful order. Executable definitions only; proofs in Proofs/VmMapOrder*.v.

    How iteration order is modelled. A Go `for .. range m` produces the entries of m in an order chosen
    by the runtime, afresh at every range statement. Here every executed range statement over a map
    consumes one [perm_code] from a schedule ([sched], the list of the runtime's choices in execution
    order) and iterates over [reorder p entries]. [reorder] is total (any code gives a permutation) and
    onto (every permutation has a code) - Proofs/VmMapOrder.v: reorder_perm, reorder_complete - so
    "for all schedules" is "for all iteration orders Go may choose". *)
From Coq Require Import String Ascii.
From Coq Require Import List Bool Arith NArith ZArith.
Import ListNotations.
From Ont Require Import Lib.Bytes Model.NeoInt Gen.VmValueConsts Model.VmValue.
Local Open Scope N_scope.
Open Scope bool_scope.

(** * Iteration orders *)
Definition perm_code := list nat.
Definition sched := list perm_code.

(** the order chosen for the next executed `range` over a map (an exhausted schedule keeps giving
    the identity order) *)
Definition next_ord (sch : sched) : perm_code * sched :=
  match sch with [] => ([], []) | p :: r => (p, r) end.

Fixpoint remove_nth {A : Type} (i : nat) (l : list A) : list A :=
  match l, i with
  | [], _ => []
  | _ :: r, O => r
  | x :: r, S i' => x :: remove_nth i' r
  end.

(** [reorder p l]: repeatedly take element number (c mod remaining length) out of what remains *)
Fixpoint reorder {A : Type} (p : perm_code) (l : list A) {struct p} : list A :=
  match p with
  | [] => l
  | c :: p' =>
    match l with
    | [] => []
    | d :: _ => let i := (c mod length l)%nat in nth i l d :: reorder p' (remove_nth i l)
    end
  end.

(** * Site 1: MapValue.getMapSortedKey (and the identical loop inside dump)
    [for k := range this.Data { unsortKey = append(unsortKey, k) }; sort.Strings(unsortKey)] *)
Definition key_image {V : Type} (e : prim * V) : bytes := prim_bytes (fst e).

(** sort.Strings: insertion sort by the bytewise order (the result of sorting is unique, whatever
    algorithm the library uses, because the order is total and equal strings are identical) *)
Fixpoint str_insert (k : bytes) (l : list bytes) : list bytes :=
  match l with
  | [] => [k]
  | x :: r => if bytes_ltb x k then x :: str_insert k r else k :: l
  end.
Definition str_sort (l : list bytes) : list bytes := fold_right str_insert [] l.

(** [ord] = the entries in the order the range statement produced them *)
Definition get_map_sorted_key {V : Type} (ord : list (prim * V)) : list bytes :=
  str_sort (map key_image ord).

(** Data[k] *)
Definition data_get {V : Type} (m : list (prim * V)) (k : bytes) : option (prim * V) :=
  find (fun e => bytes_eqb (key_image e) k) m.

(** the lookups [this.Data[k]] for a list of key strings *)
Definition lookup_all {V : Type} (m : list (prim * V)) (ks : list bytes) : list (prim * V) :=
  flat_map (fun k => match data_get m k with Some e => [e] | None => [] end) ks.

(** GetMapSortedKey / GetValues / the map loops of Serialize and stringify: the entries in sorted
    key order, when the range inside getMapSortedKey ran in order [p] *)
Definition map_sorted_entries {V : Type} (p : perm_code) (m : list (prim * V)) : list (prim * V) :=
  lookup_all m (get_map_sorted_key (reorder p m)).

(** MapValue.GetMapSortedKey (KEYS) and MapValue.GetValues (VALUES) *)
Definition map_keys (p : perm_code) (m : list (prim * hval)) : list hval :=
  map (fun e => HPrim (fst e)) (map_sorted_entries p m).
Definition map_values (p : perm_code) (m : list (prim * hval)) : list hval :=
  map snd (map_sorted_entries p m).

(** * Site 2: the map branch of circularRefAndDepthDetection
    [for _, v := range mp.Data { return v[1].circularRefAndDepthDetection(visited, depth+1) }]
    Same conventions as [VmValue.detect] ([rem] = MAX_STRUCT_DEPTH + 1 - depth); the answer is the
    boolean the Go function returns. Only the head of the iteration order is ever looked at. *)
Fixpoint detect_s (h : heap) (rem : nat) (visited : list vkey) (v : hval) (sch : sched) : bool * sched :=
  match rem with
  | O => (true, sch)
  | S rem' =>
    match v with
    | HArr a | HStruct a =>
      match get_list h a with
      | [] => (false, sch)
      | x :: _ => if mem_addr (false, a) visited then (true, sch) else detect_s h rem' ((false, a) :: visited) x sch
      end
    | HMap a =>
      if mem_addr (true, a) visited then (true, sch) else
      let (p, sch') := next_ord sch in
      match reorder p (get_map h a) with
      | [] => (false, sch')
      | e :: _ => detect_s h rem' ((true, a) :: visited) (snd e) sch'
      end
    | _ => (false, sch)
    end
  end.

Definition detect_top_s (h : heap) (v : hval) (sch : sched) : bool * sched :=
  detect_s h (S max_struct_depth) [] v sch.

(** * Serialize under a schedule
    One result (not a set): what this run returns. The structure follows [VmValue.h_serialize]. *)
Inductive sres := SOk (s : bytes) | SErr (e : serr) | SOof.

Definition sbind (a : sres * sched) (k : bytes -> sched -> sres * sched) : sres * sched :=
  match a with
  | (SOk s, sch) => k s sch
  | (r, sch) => (r, sch)
  end.

Definition check_size_s (base : N) (s : bytes) (sch : sched) : sres * sched :=
  (if max_ser_size <? base + N.of_nat (length s) then SErr ESize else SOk s, sch).

Fixpoint ser_list_s (rec : hval -> bytes -> sched -> sres * sched) (l : list hval) (s : bytes) (sch : sched)
  : sres * sched :=
  match l with
  | [] => (SOk s, sch)
  | x :: r => sbind (rec x s sch) (ser_list_s rec r)
  end.

Fixpoint ser_entries_s (rec : hval -> bytes -> sched -> sres * sched) (l : list (prim * hval)) (s : bytes)
  (sch : sched) : sres * sched :=
  match l with
  | [] => (SOk s, sch)
  | e :: r => sbind (rec (HPrim (fst e)) s sch) (fun s1 sch1 => sbind (rec (snd e) s1 sch1) (ser_entries_s rec r))
  end.

Definition ser_body_s (h : heap) (base : N) (rec : hval -> bytes -> sched -> sres * sched) (v : hval) (s : bytes)
  (sch : sched) : sres * sched :=
  match v with
  | HPrim p => check_size_s base (s ++ enc_prim p) sch
  | HArr a =>
    let l := get_list h a in
    sbind (ser_list_s rec l (s ++ T_ARRAY :: nv_write_varuint (N.of_nat (length l))) sch) (check_size_s base)
  | HStruct a =>
    let l := get_list h a in
    sbind (ser_list_s rec l (s ++ T_STRUCT :: nv_write_varuint (N.of_nat (length l))) sch) (check_size_s base)
  | HMap a =>
    let m := get_map h a in
    let (p, sch1) := next_ord sch in            (* keys := self.mapval.getMapSortedKey() *)
    sbind (ser_entries_s rec (map_sorted_entries p m) (s ++ T_MAP :: nv_write_varuint (N.of_nat (length m))) sch1)
          (check_size_s base)
  | HInterop => (SErr EInterop, sch)
  end.

Fixpoint h_serialize_s (h : heap) (base : N) (fuel : nat) (v : hval) (s : bytes) (sch : sched) : sres * sched :=
  match fuel with
  | O => (SOof, sch)
  | S f =>
    let (b, sch1) := detect_top_s h v sch in
    if b then (SErr ECircular, sch1) else ser_body_s h base (h_serialize_s h base f) v s sch1
  end.

(** * Stringify under a schedule ("only for debug/testing"; not reachable from a contract)
    Strings are byte lists (ASCII). *)
Definition str (s : string) : bytes := map (fun a => N_of_ascii a) (list_ascii_of_string s).
Arguments str _%string_scope.

Definition hex_digit (d : N) : N := if d <? 10 then 48 + d else 87 + d.      (* '0'.. / 'a'.. *)
Definition hex_of_bytes (b : bytes) : bytes := flat_map (fun x => [hex_digit (x / 16); hex_digit (x mod 16)]) b.

(** %d of a length *)
Fixpoint dec_digits (fuel : nat) (n : N) (acc : bytes) : bytes :=
  match fuel with
  | O => acc
  | S f => let acc' := (48 + n mod 10) :: acc in if n <? 10 then acc' else dec_digits f (n / 10) acc'
  end.
Definition dec_of_nat (n : nat) : bytes := dec_digits 20 (N.of_nat n) [].

Inductive strres := StrOk (s : bytes) | StrCircular | StrOof.

(** the element loop of stringify (arrays, structs): [data += v.stringify() + ", "] *)
Fixpoint str_list (rec : hval -> sched -> option bytes * sched) (l : list hval) (acc : bytes) (sch : sched)
  : option bytes * sched :=
  match l with
  | [] => (Some acc, sch)
  | x :: r => match rec x sch with
              | (Some t, sch') => str_list rec r (acc ++ t ++ str ", ") sch'
              | (None, sch') => (None, sch')
              end
  end.

(** the entry loop over the sorted keys: [data += fmt.Sprintf("%x: %s,", key, v.stringify())] *)
Fixpoint str_entries (rec : hval -> sched -> option bytes * sched) (l : list (prim * hval)) (acc : bytes)
  (sch : sched) : option bytes * sched :=
  match l with
  | [] => (Some acc, sch)
  | e :: r => match rec (snd e) sch with
              | (Some t, sch') => str_entries rec r (acc ++ hex_of_bytes (key_image e) ++ str ": " ++ t ++ str ",") sch'
              | (None, sch') => (None, sch')
              end
  end.

Definition wrap (pre : bytes) (n : nat) (r : option bytes * sched) : option bytes * sched :=
  match r with
  | (Some d, sch') => (Some (pre ++ dec_of_nat n ++ str "]{" ++ d ++ str "}"), sch')
  | (None, sch') => (None, sch')
  end.

(** stringify(): no detector inside the recursion; [fuel] bounds the nesting (None = deeper) *)
Fixpoint stringify_s (h : heap) (fuel : nat) (v : hval) (sch : sched) : option bytes * sched :=
  match fuel with
  | O => (None, sch)
  | S f =>
    match v with
    | HPrim p =>
      let bs := match prim_bytes p with [] => [0] | b => b end in
      (Some (str "bytes(hex:" ++ hex_of_bytes bs ++ str ")"), sch)
    | HArr a => let l := get_list h a in wrap (str "array[") (length l) (str_list (stringify_s h f) l [] sch)
    | HStruct a => let l := get_list h a in wrap (str "struct[") (length l) (str_list (stringify_s h f) l [] sch)
    | HMap a =>
      let m := get_map h a in
      let (p, sch1) := next_ord sch in             (* keys := self.mapval.getMapSortedKey() *)
      wrap (str "map[") (length m) (str_entries (stringify_s h f) (map_sorted_entries p m) [] sch1)
    | HInterop => (Some (str "interop{type:?}"), sch)       (* reflect type name: not modelled *)
    end
  end.

(** Stringify(): the detector once, then stringify() *)
Definition h_stringify_s (h : heap) (fuel : nat) (v : hval) (sch : sched) : strres * sched :=
  let (b, sch1) := detect_top_s h v sch in
  if b then (StrCircular, sch1) else
  match stringify_s h fuel v sch1 with
  | (Some s, sch2) => (StrOk s, sch2)
  | (None, sch2) => (StrOof, sch2)
  end.

(** * The unique element of an outcome set of [VmValue.h_serialize], when it is a singleton *)
Definition serr_eqb (a b : serr) : bool :=
  match a, b with
  | ECircular, ECircular | ESize, ESize | EInterop, EInterop | EBadType, EBadType => true
  | _, _ => false
  end.

Definition rs_single (r : rs) : option sres :=
  match r_ok r, r_errs r, r_oof r with
  | Some s, [], false => Some (SOk s)
  | None, e :: es, false => if forallb (serr_eqb e) es then Some (SErr e) else None
  | None, [], true => Some SOof
  | _, _, _ => None
  end.

(** membership of one result in an outcome set *)
Definition in_rs (x : sres) (r : rs) : Prop :=
  match x with
  | SOk s => r_ok r = Some s
  | SErr e => In e (r_errs r)
  | SOof => r_oof r = true
  end.

(** * Heap invariant: MapValue.Data is keyed by GetMapKey of the stored key (only Set inserts), so
    the key images of one map are pairwise distinct. *)
Definition obj_wf (o : hobj) : Prop :=
  match o with
  | OList _ => True
  | OMap m => NoDup (map key_image m)
  end.
Definition maps_wf (h : heap) : Prop := Forall obj_wf h.

(** * The enumerated range-over-map sites (Gen/VmMapRanges.v) and what covers each *)
Inductive site_cover :=
| CoverSortedKeys      (* shape collect-keys-sort: covered by Proofs.VmMapOrder.sorted_key_perm *)
| CoverFinding.        (* the detector's map branch: known finding maporder:cycle-detector-first-entry *)

Local Open Scope string_scope.
(** (file, function, id, shape the translator must report, cover) *)
Definition classified_sites : list (string * string * string * string * site_cover) := [
  ("vm/neovm/types/map_value.go", "(*MapValue).getMapSortedKey", "range this.Data#0", "collect-keys-sort", CoverSortedKeys);
  ("vm/neovm/types/neovm_value.go", "(*VmValue).dump", "range self.mapval.Data#0", "collect-keys-sort", CoverSortedKeys);
  ("vm/neovm/types/neovm_value.go", "(*VmValue).circularRefAndDepthDetection", "range mp.Data#0", "return-first", CoverFinding)
].

Definition site_matches (s : string * string * string * string * string)
  (c : string * string * string * string * site_cover) : bool :=
  let '(f, fn, id, kind, shape) := s in
  let '(f', fn', id', shape', _) := c in
  String.eqb f f' && String.eqb fn fn' && String.eqb id id' && String.eqb kind "map" && String.eqb shape shape'.

Definition site_classified (s : string * string * string * string * string) : bool :=
  existsb (site_matches s) classified_sites.

(** the finding class is exactly one site *)
Definition finding_sites : list (string * string * string * string * site_cover) :=
  filter (fun c => match snd c with CoverFinding => true | _ => false end) classified_sites.
