(** Model of core/types/header.go (Header.Serialization / Deserialization / Hash),
    core/types/block.go (Block.Serialization / Deserialization) and
    common/merkle_tree.go (ComputeMerkleRoot). Executable definitions only; proofs are in
    Proofs/BlockCodec.v and Proofs/BlockMerkle.v.

    The unsigned header layout (writer, reader, hash preimage) is not written here: it is
    Gen/BlockLayout.v, printed from header.go on every run.

    External functions are Section variables:
    - [H]         : the hash applied to byte strings (sha256 applied twice in the code);
    - [pk_parse]  : keypair.DeserializePublicKey followed by keypair.SerializePublicKey, i.e. the
                    bytes a parsed key is written back as, or None when the parser rejects;
    - [tx_decode] : Transaction.Deserialization on the remaining bytes followed by Hash():
                    transaction hash and number of bytes consumed, or an error code. *)
From Coq Require Import List Bool Arith NArith.
Import ListNotations.
From Ont Require Import Lib.Bytes Gen.CodecConsts Model.Codec Model.BlockCodecTypes Gen.BlockLayout.
Local Open Scope N_scope.
Open Scope bool_scope.

Inductive txres := TxOk (id : bytes) (n : nat) | TxErr (e : N).

(** Full header. [h_bookkeepers] holds, for each key, the bytes SerializePublicKey gives for the
    parsed key (the Go struct holds the parsed key; only its serialization is observable). *)
Record header := mkHdr { h_u : uhdr; h_bookkeepers : list bytes; h_sigdata : list bytes }.

(** What the decoder saw but the Go struct does not keep: the two counts as read, and the key
    encodings as they appear in the input. Used to state the round-trip hypotheses. *)
Record hdr_aux := mkAux { a_nkeys : N; a_rawkeys : list bytes; a_nsigs : N }.

Record block := mkBlk { b_hdr : header; b_txs : list (bytes * bytes) (* hash, raw bytes *) }.

(** [for i := 0; i < int(n); i++]: n is a uint64; int(n) is negative from 2^(GO_INT_BITS-1) on and
    the loop body then never runs. *)
Definition loop_count (n : N) : N := if n <? 2 ^ (GO_INT_BITS - 1) then n else 0.

(** Every loop iteration that does not fail consumes at least one byte, so the number of
    remaining bytes plus one bounds the iterations. *)
Definition fuel_of (s : source) : nat := S (length (buf s) - off s).

Definition zero_hash : bytes := repeat 0 HASH_SIZE.

Section BlockCodec.
Variable H : bytes -> bytes.
Variable pk_parse : bytes -> option bytes.
Variable tx_decode : bytes -> txres.

(** * Header *)

(** Bookkeeper loop: NextVarBytes, eof tested before irregular, then the key parser. Returns the
    (raw encoding, re-serialization) pairs. *)
Fixpoint read_keys (fuel : nat) (cnt : N) (s : source) : (list (bytes * bytes) * source) + derr :=
  if cnt =? 0 then inl ([], s) else
  match fuel with
  | O => inr DFuel
  | S f =>
    let '(d, _, irr, eof, s') := next_varbytes s in
    if eof then inr DEof else if irr then inr DIrregular else
    match pk_parse d with
    | None => inr DKey
    | Some k =>
      match read_keys f (cnt - 1) s' with
      | inl (ks, s'') => inl ((d, k) :: ks, s'')
      | inr e => inr e
      end
    end
  end.

Fixpoint read_sigs (fuel : nat) (cnt : N) (s : source) : (list bytes * source) + derr :=
  if cnt =? 0 then inl ([], s) else
  match fuel with
  | O => inr DFuel
  | S f =>
    let '(d, _, irr, eof, s') := next_varbytes s in
    if eof then inr DEof else if irr then inr DIrregular else
    match read_sigs f (cnt - 1) s' with
    | inl (l, s'') => inl (d :: l, s'')
    | inr e => inr e
    end
  end.

(** Header.Deserialization *)
Definition header_decode (s : source) : (header * hdr_aux * source) + derr :=
  match gen_hdr_deserializationUnsigned s with
  | inr e => inr e
  | inl (u, s1) =>
    let '(n, _, irr, eof, s2) := next_varuint s1 in
    if eof then inr DEof else if irr then inr DIrregular else
    match read_keys (fuel_of s2) (loop_count n) s2 with
    | inr e => inr e
    | inl (ks, s3) =>
      let '(m, _, irr', eof', s4) := next_varuint s3 in
      if eof' then inr DEof else if irr' then inr DIrregular else
      match read_sigs (fuel_of s4) (loop_count m) s4 with
      | inr e => inr e
      | inl (sigs, s5) => inl (mkHdr u (map snd ks) sigs, mkAux n (map fst ks) m, s5)
      end
    end
  end.

(** Header.Serialization *)
Definition header_encode (h : header) : bytes :=
  gen_hdr_serializationUnsigned (h_u h) ++
  write_varuint (N.of_nat (length (h_bookkeepers h))) ++ flat_map write_varbytes (h_bookkeepers h) ++
  write_varuint (N.of_nat (length (h_sigdata h))) ++ flat_map write_varbytes (h_sigdata h).

(** Header.Hash: [H] stands for gen_hdr_hash_rounds applications of SHA-256. *)
Definition header_hash (h : header) : bytes := H (gen_hdr_hash_preimage (h_u h)).

(** * ComputeMerkleRoot *)

(** One pass of the inner loops: adjacent pairs are hashed, an odd last element is paired with
    itself. (The Go code works in place; entry i is written after entries 2i and 2i+1 were read and
    no later iteration reads an index <= i, so the pass is this function.) *)
Fixpoint pair_level (l : list bytes) : list bytes :=
  match l with
  | [] => []
  | [x] => [H (x ++ x)]
  | x :: y :: r => H (x ++ y) :: pair_level r
  end.

(** [for len(hashes) != 1]: fuel = the length is always enough (Proofs/BlockMerkle.v); [[]] (not a
    32-byte value) is returned if it ran out. *)
Fixpoint merkle_fuel (fuel : nat) (l : list bytes) : bytes :=
  match l with
  | [] => zero_hash
  | [x] => x
  | _ => match fuel with O => [] | S f => merkle_fuel f (pair_level l) end
  end.

Definition merkle_root (l : list bytes) : bytes := merkle_fuel (length l) l.

(** * Block *)

(** Transaction loop of Block.Deserialization: decode, hash, duplicate test against the hashes
    seen so far, append. The transaction keeps the bytes it was decoded from as its Raw form
    (tx.Raw is the consumed slice of the source; for EIP-155 payloads see the C20 notes). *)
Fixpoint read_txs (fuel : nat) (cnt : N) (s : source) (seen : list bytes)
  : (list (bytes * bytes) * source) + derr :=
  if cnt =? 0 then inl ([], s) else
  match fuel with
  | O => inr DFuel
  | S f =>
    match tx_decode (skipn (off s) (buf s)) with
    | TxErr e => inr (DTx e)
    | TxOk id n =>
      if existsb (bytes_eqb id) seen then inr DDup else
      let raw := slice (buf s) (off s) n in
      match read_txs f (cnt - 1) (mkSrc (buf s) (off s + n)) (id :: seen) with
      | inl (l, s'') => inl ((id, raw) :: l, s'')
      | inr e => inr e
      end
    end
  end.

(** Block.Deserialization on a source *)
Definition block_decode_src (s : source) : (block * hdr_aux * source) + derr :=
  match header_decode s with
  | inr e => inr e
  | inl (h, aux, s1) =>
    let '(len, eof, s2) := next_uint32 s1 in
    if eof then inr DEof else
    match read_txs (fuel_of s2) len s2 [] with
    | inr e => inr e
    | inl (txs, s3) =>
      if bytes_eqb (hTransactionsRoot (h_u h)) (merkle_root (map fst txs))
      then inl (mkBlk h txs, aux, s3) else inr DRoot
    end
  end.

(** BlockFromRawBytes (bytes after the block are not looked at). *)
Definition block_decode (b : bytes) : (block * hdr_aux * source) + derr := block_decode_src (src_new b).

(** Block.Serialization *)
Definition block_encode (b : block) : bytes :=
  header_encode (b_hdr b) ++ write_uint32 (N.of_nat (length (b_txs b)) mod two32) ++
  concat (map snd (b_txs b)).

Definition block_hash (b : block) : bytes := header_hash (b_hdr b).
End BlockCodec.
