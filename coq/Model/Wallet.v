(** Executable model of the wallet client: account/client.go (ClientImpl) and account/file_store.go
    (WalletData, AccountData, Save/Load).

    What is mirrored, line by line where it matters:
      - ClientImpl's five pieces of state: walletData.Accounts (a slice of POINTERS to AccountData),
        accAddrs and accLabels (Go maps from address / label to the same pointers), defaultAcc (a
        pointer), walletData.Scrypt.  Pointers are modelled by a heap: objects are numbered in
        allocation order ([w_heap], append-only, updated in place), the slice and the maps hold
        numbers.  This matters: the maps may point to an object that is no longer (or twice) in
        the slice, and the code then behaves differently before and after a reload.
      - NewAccount, ImportAccount (+ the "_1" rename), addAccountData (signature-scheme check,
        duplicate-label check, duplicate-address check, first account becomes default), DeleteAccount (refuses the default
        account, needs the password, WalletData.DelAccount removes the FIRST slice entry with that
        address), SetDefaultAccount, SetLabel, ChangePassword, ChangeSigScheme, the getters by
        address / label / index / default, getAccount (decrypt, then signature.GetScheme).
      - every mutating operation saves before it returns and failing operations return before
        they mutate: the wallet file always holds (Scrypt, Accounts) of the current state, so
        "save" is [save] below and re-opening the file is [load (save w)] = [reload w].
        load = NewClientImpl on an existing file: it rebuilds the maps from the slice, later
        entries overriding earlier ones, and skips empty labels.
    The cipher (scrypt + AES-256-GCM with the address as additional data) is a pair of section
    functions [enc]/[dec]; the explicit empty-password test of DecryptWithCustomScrypt is modelled.
    Which scrypt parameters each call site passes is read from the source (Gen/WalletConsts.v).

    save() failing is a flag on the step ([step_sf]); the roll-back code is abstracted to the identity.
    Not modelled: identities, Lock,
    UnLockAccount/LockAccount/GetUnlockAccount (time dependent, not persisted), the legacy
    aes-256-ctr format, key generation failing, labels that are not valid UTF-8 (encoding/json
    replaces such bytes), the RWMutex (every method holds it for its whole body).

    Definitions only; proofs are in Proofs/C38.v. *)
From Coq Require Import List Bool String NArith ZArith Arith.
Import ListNotations.
From Ont Require Export Gen.WalletConsts.
Local Open Scope string_scope.

(** keypair.ScryptParam as (N, R, P, DKLen) *)
Definition scrypt := (N * N * N * N)%type.
(** Everything besides the password that the cipher depends on: the scrypt parameters and the
    address (AES-GCM additional authenticated data). *)
Definition ectx := (scrypt * string)%type.

(** ** Go maps with string keys: assignment overrides, delete removes. *)
Section Maps.
  Context {V : Type}.
  Definition smap := list (string * V).
  Fixpoint mget (k : string) (m : smap) : option V :=
    match m with
    | [] => None
    | (k', v) :: r => if String.eqb k k' then Some v else mget k r
    end.
  Definition mdel (k : string) (m : smap) : smap :=
    filter (fun kv => negb (String.eqb k (fst kv))) m.
  Definition mset (k : string) (v : V) (m : smap) : smap := (k, v) :: mdel k m.
  Definition mmem (k : string) (m : smap) : bool :=
    match mget k m with Some _ => true | None => false end.
End Maps.
Arguments smap : clear implicits.

(** filter-map *)
Definition omap {A B : Type} (f : A -> option B) (l : list A) : list B :=
  flat_map (fun x => match f x with Some y => [y] | None => [] end) l.

(** ClientImpl.checkSigScheme and signature.GetScheme, as tables evaluated from the code.
    Key types: 0 ECDSA, 1 SM2, 2 Ed25519, 3 anything else.  Schemes: the SignatureScheme value;
    11 stands for a name GetScheme does not know. *)
Definition check_sig_scheme (alg sch : N) : bool :=
  match find (fun r => N.eqb (fst r) alg) check_sig_scheme_table with
  | Some r => existsb (N.eqb sch) (snd r)
  | None => false
  end.
Definition scheme_known (sch : N) : bool := existsb (N.eqb sch) scheme_known_table.

Definition scrypt_eqb (a b : scrypt) : bool :=
  let '(n1, r1, p1, d1) := a in let '(n2, r2, p2, d2) := b in
  N.eqb n1 n2 && N.eqb r1 r2 && N.eqb p1 p2 && N.eqb d1 d2.

Section Wallet.
  Variables key blob : Type.
  (** keypair.EncryptWithCustomScrypt / DecryptWithCustomScrypt (without the empty-password test) *)
  Variable enc : ectx -> string -> key -> blob.
  Variable dec : ectx -> string -> blob -> option key.

  (** AccountData (the fields AccountMetadata shows; Key+Salt are [a_blob]) *)
  Record acct := {
    a_addr : string; a_label : string; a_pub : string; a_sch : N; a_alg : N; a_curve : string;
    a_hash : string;   (* ProtectedKey.Hash: carried along, never interpreted *)
    a_default : bool; a_blob : blob }.

  Definition with_label (x : acct) (l : string) : acct :=
    {| a_addr := a_addr x; a_label := l; a_pub := a_pub x; a_sch := a_sch x; a_alg := a_alg x;
       a_curve := a_curve x; a_hash := a_hash x; a_default := a_default x; a_blob := a_blob x |}.
  Definition with_default (x : acct) (d : bool) : acct :=
    {| a_addr := a_addr x; a_label := a_label x; a_pub := a_pub x; a_sch := a_sch x; a_alg := a_alg x;
       a_curve := a_curve x; a_hash := a_hash x; a_default := d; a_blob := a_blob x |}.
  Definition with_sch (x : acct) (s : N) : acct :=
    {| a_addr := a_addr x; a_label := a_label x; a_pub := a_pub x; a_sch := s; a_alg := a_alg x;
       a_curve := a_curve x; a_hash := a_hash x; a_default := a_default x; a_blob := a_blob x |}.
  (** AccountData.SetKeyPair with a key ChangePassword has just re-encrypted: the new ProtectedKey
      has no Hash (EncryptWithCustomScrypt does not set one) *)
  Definition with_blob (x : acct) (b : blob) : acct :=
    {| a_addr := a_addr x; a_label := a_label x; a_pub := a_pub x; a_sch := a_sch x; a_alg := a_alg x;
       a_curve := a_curve x; a_hash := ""; a_default := a_default x; a_blob := b |}.

  (** ClientImpl *)
  Record wallet := {
    w_params : scrypt;           (* walletData.Scrypt *)
    w_heap : list acct;          (* every AccountData object ever allocated by this client *)
    w_list : list nat;           (* walletData.Accounts *)
    w_addrs : smap nat;          (* accAddrs *)
    w_labels : smap nat;         (* accLabels *)
    w_default : option nat       (* defaultAcc *)
  }.

  Definition deref (w : wallet) (id : nat) : option acct := nth_error (w_heap w) id.

  Fixpoint upd (h : list acct) (id : nat) (f : acct -> acct) : list acct :=
    match h, id with
    | [], _ => []
    | x :: r, O => f x :: r
    | x :: r, S n => x :: upd r n f
    end.

  Definition set_heap (w : wallet) (h : list acct) : wallet :=
    {| w_params := w_params w; w_heap := h; w_list := w_list w; w_addrs := w_addrs w;
       w_labels := w_labels w; w_default := w_default w |}.

  (** which scrypt parameters a call site passes (Gen/WalletConsts.v reads the three sites) *)
  Definition site_params (uses_wallet : bool) (w : wallet) : scrypt :=
    if uses_wallet then w_params w else default_scrypt.
  Definition newacct_params := site_params newaccount_uses_wallet_scrypt.
  Definition chpwd_params := site_params changepassword_uses_wallet_scrypt.
  Definition open_params := site_params getaccount_uses_wallet_scrypt.

  Inductive res :=
  | ROk | RKey (k : key) | RNil
  | EEmptyPwd | ESigScheme | EDupLabel | EDupAddr | ENotFound | EDeleteDefault | EDecrypt | ESchemeName | ENoDefault
  | ESave.   (* save() failed: the operation rolled back *)

  (** keypair.DecryptWithCustomScrypt: `len(pwd) == 0` is refused before anything else *)
  Definition decrypt (prm : scrypt) (x : acct) (pwd : string) : option key :=
    if String.eqb pwd "" then None else dec (prm, a_addr x) pwd (a_blob x).

  (** ClientImpl.getAccount *)
  Definition get_account (w : wallet) (x : acct) (pwd : string) : res :=
    match decrypt (open_params w) x pwd with
    | None => EDecrypt
    | Some k => if scheme_known (a_sch x) then RKey k else ESchemeName
    end.

  (** *** getters *)
  Definition get_meta_by_address (w : wallet) (a : string) : option acct :=
    match mget a (w_addrs w) with Some id => deref w id | None => None end.
  Definition get_meta_by_label (w : wallet) (l : string) : option acct :=
    if String.eqb l "" then None
    else match mget l (w_labels w) with Some id => deref w id | None => None end.
  (** index starts from 1; WalletData.GetAccountByIndex(index-1) *)
  Definition get_meta_by_index (w : wallet) (i : Z) : option acct :=
    if (i <? 1)%Z then None
    else match nth_error (w_list w) (Z.to_nat (i - 1)) with Some id => deref w id | None => None end.
  Definition get_default_meta (w : wallet) : option acct :=
    match w_default w with Some id => deref w id | None => None end.
  (** GetAccountNum = len(accAddrs) *)
  Definition account_num (w : wallet) : nat := List.length (w_addrs w).

  Definition open_meta (w : wallet) (m : option acct) (pwd : string) : res :=
    match m with None => RNil | Some x => get_account w x pwd end.
  Definition get_account_by_address w a pwd := open_meta w (get_meta_by_address w a) pwd.
  Definition get_account_by_label w l pwd := open_meta w (get_meta_by_label w l) pwd.
  Definition get_account_by_index w i pwd := open_meta w (get_meta_by_index w i) pwd.
  Definition get_default_account (w : wallet) (pwd : string) : res :=
    match get_default_meta w with None => ENoDefault | Some x => get_account w x pwd end.

  (** *** operations *)
  (** the outcome of keypair.GenerateKeyPair: the private key and what is derived from it *)
  Record keyinfo := { ki_key : key; ki_addr : string; ki_pub : string; ki_alg : N; ki_curve : string }.

  Definition add_account_data (w : wallet) (x : acct) : wallet * res :=
    if negb (check_sig_scheme (a_alg x) (a_sch x)) then (w, ESigScheme)
    else if negb (String.eqb (a_label x) "") && mmem (a_label x) (w_labels w) then (w, EDupLabel)
    else if addaccount_refuses_held_address && mmem (a_addr x) (w_addrs w) then (w, EDupAddr)
    else
      let x' := if Nat.eqb (List.length (w_list w)) 0 then with_default x true else x in
      let id := List.length (w_heap w) in
      ({| w_params := w_params w;
          w_heap := w_heap w ++ [x'];
          w_list := w_list w ++ [id];
          w_addrs := mset (a_addr x') id (w_addrs w);
          w_labels := if String.eqb (a_label x') "" then w_labels w else mset (a_label x') id (w_labels w);
          w_default := if a_default x' then Some id else w_default w |}, ROk).

  Definition new_account (w : wallet) (label : string) (sch : N) (pwd : string) (ki : keyinfo) : wallet * res :=
    if String.eqb pwd "" then (w, EEmptyPwd)
    else
      let x := {| a_addr := ki_addr ki; a_label := label; a_pub := ki_pub ki; a_sch := sch;
                  a_alg := ki_alg ki; a_curve := ki_curve ki; a_hash := ""; a_default := false;
                  a_blob := enc (newacct_params w, ki_addr ki) pwd (ki_key ki) |} in
      match add_account_data w x with
      | (w', ROk) => (w', RKey (ki_key ki))
      | r => r
      end.

  (** ImportAccount: the caller hands over an already encrypted key; the model records how it was
      made (parameters, password, key) so that the blob is [enc (prm, addr) pwd k]. *)
  Definition import_account (w : wallet) (label addr pub : string) (sch alg : N) (curve hash : string)
             (isdef : bool)   (* AccountMetadata.IsDefault of the caller's record: NOT carried over *)
             (prm : scrypt) (pwd : string) (k : key) : wallet * res :=
    let label' := match get_meta_by_label w label with Some _ => label ++ "_1" | None => label end in
    add_account_data w {| a_addr := addr; a_label := label'; a_pub := pub; a_sch := sch; a_alg := alg;
                          a_curve := curve; a_hash := hash; a_default := false;
                          a_blob := enc (prm, addr) pwd k |}.

  Definition addr_is (h : list acct) (a : string) (id : nat) : bool :=
    match nth_error h id with Some x => String.eqb (a_addr x) a | None => false end.
  (** WalletData.DelAccount: drop the first entry with that address *)
  Fixpoint del_first (h : list acct) (a : string) (l : list nat) : list nat :=
    match l with
    | [] => []
    | id :: r => if addr_is h a id then r else id :: del_first h a r
    end.

  Definition delete_account (w : wallet) (addr pwd : string) : wallet * res :=
    match mget addr (w_addrs w) with
    | None => (w, RNil)
    | Some id =>
      match deref w id with
      | None => (w, RNil)   (* unreachable: map values are allocated objects *)
      | Some x =>
        if a_default x then (w, EDeleteDefault)
        else match get_account w x pwd with
             | RKey k =>
               ({| w_params := w_params w; w_heap := w_heap w;
                   w_list := del_first (w_heap w) addr (w_list w);
                   w_addrs := mdel addr (w_addrs w);
                   w_labels := if String.eqb (a_label x) "" then w_labels w else mdel (a_label x) (w_labels w);
                   w_default := w_default w |}, RKey k)
             | e => (w, e)
             end
      end
    end.

  Definition set_default_account (w : wallet) (addr : string) : wallet * res :=
    let same := match get_default_meta w with Some d => String.eqb (a_addr d) addr | None => false end in
    if same then (w, ROk)
    else match mget addr (w_addrs w) with
         | None => (w, ENotFound)
         | Some id =>
           let h1 := match w_default w with Some d => upd (w_heap w) d (fun x => with_default x false) | None => w_heap w end in
           let h2 := upd h1 id (fun x => with_default x true) in
           ({| w_params := w_params w; w_heap := h2; w_list := w_list w; w_addrs := w_addrs w;
               w_labels := w_labels w; w_default := Some id |}, ROk)
         end.

  Definition set_label (w : wallet) (addr label : string) : wallet * res :=
    if mmem label (w_labels w) then (w, EDupLabel)
    else match mget addr (w_addrs w) with
         | None => (w, ENotFound)
         | Some id =>
           match deref w id with
           | None => (w, ENotFound)   (* unreachable *)
           | Some x =>
             if String.eqb (a_label x) label then (w, ROk)
             else
               ({| w_params := w_params w; w_heap := upd (w_heap w) id (fun y => with_label y label);
                   w_list := w_list w; w_addrs := w_addrs w;
                   w_labels := mset label id (mdel (a_label x) (w_labels w));
                   w_default := w_default w |}, ROk)
           end
         end.

  Definition change_password (w : wallet) (addr old new : string) : wallet * res :=
    if changepassword_refuses_empty && String.eqb new "" then (w, EEmptyPwd)
    else if String.eqb old new then (w, ROk)
    else match mget addr (w_addrs w) with
         | None => (w, ENotFound)
         | Some id =>
           match deref w id with
           | None => (w, ENotFound)   (* unreachable *)
           | Some x =>
             match decrypt (chpwd_params w) x old with
             | None => (w, EDecrypt)
             | Some k =>
               (set_heap w (upd (w_heap w) id (fun y => with_blob y (enc (chpwd_params w, a_addr x) new k))), ROk)
             end
           end
         end.

  Definition change_sig_scheme (w : wallet) (addr : string) (sch : N) : wallet * res :=
    match mget addr (w_addrs w) with
    | None => (w, ENotFound)
    | Some id =>
      match deref w id with
      | None => (w, ENotFound)   (* unreachable *)
      | Some x =>
        if negb (check_sig_scheme (a_alg x) sch) then (w, ESigScheme)
        else (set_heap w (upd (w_heap w) id (fun y => with_sch y sch)), ROk)
      end
    end.

  (** *** the wallet file *)
  Definition accts (w : wallet) : list acct := omap (deref w) (w_list w).
  Definition file := (scrypt * list acct)%type.
  (** WalletData.Save: json.Marshal of (Scrypt, Accounts) *)
  Definition save (w : wallet) : file := (w_params w, accts w).

  Definition load_one (w : wallet) (ia : nat * acct) : wallet :=
    let (i, x) := ia in
    {| w_params := w_params w; w_heap := w_heap w; w_list := w_list w;
       w_addrs := mset (a_addr x) i (w_addrs w);
       w_labels := if String.eqb (a_label x) "" then w_labels w else mset (a_label x) i (w_labels w);
       w_default := if a_default x then Some i else w_default w |}.
  (** NewClientImpl + load *)
  Definition load (f : file) : wallet :=
    let l := snd f in
    fold_left load_one (combine (seq 0 (List.length l)) l)
      {| w_params := fst f; w_heap := l; w_list := seq 0 (List.length l); w_addrs := []; w_labels := []; w_default := None |}.
  Definition reload (w : wallet) : wallet := load (save w).

  (** NewClientImpl on a wallet file without accounts (or no file when prm is the default) *)
  Definition init (prm : scrypt) : wallet :=
    {| w_params := prm; w_heap := []; w_list := []; w_addrs := []; w_labels := []; w_default := None |}.

  Inductive op :=
  | ONew (label : string) (sch : N) (pwd : string) (ki : keyinfo)
  | OImport (label addr pub : string) (sch alg : N) (curve hash : string) (isdef : bool) (prm : scrypt) (pwd : string) (k : key)
  | ODelete (addr pwd : string)
  | OSetDefault (addr : string)
  | OSetLabel (addr label : string)
  | OChangePwd (addr old new : string)
  | OChangeSch (addr : string) (sch : N)
  | OReload.   (* close and re-open the wallet file *)

  Definition step (w : wallet) (o : op) : wallet * res :=
    match o with
    | ONew label sch pwd ki => new_account w label sch pwd ki
    | OImport label addr pub sch alg curve hash isdef prm pwd k =>
        import_account w label addr pub sch alg curve hash isdef prm pwd k
    | ODelete addr pwd => delete_account w addr pwd
    | OSetDefault addr => set_default_account w addr
    | OSetLabel addr label => set_label w addr label
    | OChangePwd addr old new => change_password w addr old new
    | OChangeSch addr sch => change_sig_scheme w addr sch
    | OReload => (reload w, ROk)
    end.

  (** *** save() failing (the wallet file cannot be written).
      Every mutating method calls save() after it has changed the client and, when save() returns an
      error, puts everything back (DelAccount of the added entry, the copied account list, the old
      flag / label / key / scheme) and returns the error. [reaches_save w o]: does operation [o] in
      state [w] get as far as save()?  That is: it would succeed, and it is not one of the
      shortcuts that return nil without saving (SetDefaultAccount of the current default,
      SetLabel with the label the account has, ChangePassword with old = new). Re-opening the
      file does not save. *)
  Definition is_success (r : res) : bool := match r with ROk | RKey _ => true | _ => false end.
  Definition reaches_save (w : wallet) (o : op) : bool :=
    is_success (snd (step w o)) &&
    match o with
    | OSetDefault addr =>
        negb (match get_default_meta w with Some d => String.eqb (a_addr d) addr | None => false end)
    | OSetLabel addr label =>
        negb (match get_meta_by_address w addr with Some x => String.eqb (a_label x) label | None => false end)
    | OChangePwd _ old new => negb (String.eqb old new)
    | OReload => false
    | _ => true
    end.
  (** one step with the file writable ([save_fails = false]) or not *)
  Definition step_sf (save_fails : bool) (w : wallet) (o : op) : wallet * res :=
    if save_fails && reaches_save w o then (w, ESave) else step w o.

  (** *** specification state: for each address, the key and the CURRENT password, as a user of the
      API knows them: set by a successful create/import, replaced by a successful password
      change (ChangePassword with old = new returns nil without looking at anything), removed by a
      successful delete. *)
  Definition ghost := smap (key * string).
  Definition gstep (g : ghost) (o : op) (r : res) : ghost :=
    match o, r with
    | ONew _ _ pwd ki, RKey _ => mset (ki_addr ki) (ki_key ki, pwd) g
    | OImport _ addr _ _ _ _ _ _ _ pwd k, ROk => mset addr (k, pwd) g
    | ODelete addr _, RKey _ => mdel addr g
    | OChangePwd addr old new, ROk =>
      if String.eqb old new then g
      else match mget addr g with Some (k, _) => mset addr (k, new) g | None => g end
    | _, _ => g
    end.

  Fixpoint run (w : wallet) (g : ghost) (ops : list op) : wallet * ghost * list res :=
    match ops with
    | [] => (w, g, [])
    | o :: r =>
      let (w', e) := step w o in
      let '(w'', g'', es) := run w' (gstep g o e) r in
      (w'', g'', e :: es)
    end.

  (** *** the caller's obligation.
      [op_caller_ok w o]: what the property takes for granted about the caller of operation [o]
      issued in state [w]: an imported key was encrypted with the parameters this wallet opens
      keys with and with a non-empty password (AccountMetadata cannot carry parameters;
      DecryptWithCustomScrypt refuses the empty password). Nothing is assumed about the other
      operations (a generated key that collides with a held address is refused by the code). *)
  Definition op_caller_ok (w : wallet) (o : op) : Prop :=
    match o with
    | OImport _ _ _ _ _ _ _ _ prm pwd _ => prm = open_params w /\ pwd <> ""
    | _ => True
    end.
  Fixpoint caller_ok (w : wallet) (ops : list op) : Prop :=
    match ops with
    | [] => True
    | o :: r => op_caller_ok w o /\ caller_ok (fst (step w o)) r
    end.

  (** histories in which each operation is issued with the file writable or not *)
  Fixpoint run_sf (w : wallet) (g : ghost) (ops : list (bool * op)) : wallet * ghost * list res :=
    match ops with
    | [] => (w, g, [])
    | (b, o) :: r =>
      let (w', e) := step_sf b w o in
      let '(w'', g'', es) := run_sf w' (gstep g o e) r in
      (w'', g'', e :: es)
    end.
  Fixpoint caller_ok_sf (w : wallet) (ops : list (bool * op)) : Prop :=
    match ops with
    | [] => True
    | (b, o) :: r => op_caller_ok w o /\ caller_ok_sf (fst (step_sf b w o)) r
    end.

  (** *** several wallets open in one process.
      Each ClientImpl owns its WalletData, and NewWalletData gives each WalletData its OWN
      ScryptParam object (keypair.GetScryptParameters() allocates; Load decodes the file's "scrypt"
      block into that object): nothing is shared between clients, so the process is a list of
      independent (wallet, specification state) pairs, numbered in the order they were opened. *)
  Definition system := list (wallet * ghost).
  Inductive mop :=
  | MOpen (prm : scrypt)        (* open a wallet file that has no accounts and carries these parameters *)
  | MOp (i : nat) (o : op).     (* operation [o] on the i-th open wallet *)

  Fixpoint set_nth {A : Type} (l : list A) (i : nat) (x : A) : list A :=
    match l, i with
    | [], _ => []
    | _ :: r, O => x :: r
    | y :: r, S n => y :: set_nth r n x
    end.

  Definition mstep (s : system) (m : mop) : system * res :=
    match m with
    | MOpen prm => ((s ++ [(init prm, [])])%list, ROk)
    | MOp i o =>
      match nth_error s i with
      | None => (s, RNil)     (* no such wallet: the driver never does this *)
      | Some (w, g) => let (w', e) := step w o in (set_nth s i (w', gstep g o e), e)
      end
    end.

  Fixpoint mrun (s : system) (ms : list mop) : system * list res :=
    match ms with
    | [] => (s, [])
    | m :: r => let (s', e) := mstep s m in let (s'', es) := mrun s' r in (s'', e :: es)
    end.

  Definition mop_caller_ok (s : system) (m : mop) : Prop :=
    match m with
    | MOpen _ => True
    | MOp i o => match nth_error s i with Some (w, _) => op_caller_ok w o | None => True end
    end.
  Fixpoint mcaller_ok (s : system) (ms : list mop) : Prop :=
    match ms with
    | [] => True
    | m :: r => mop_caller_ok s m /\ mcaller_ok (fst (mstep s m)) r
    end.
  (** the parameters the wallets were opened with, in order *)
  Fixpoint opened (ms : list mop) : list scrypt :=
    match ms with
    | [] => []
    | MOpen prm :: r => prm :: opened r
    | MOp _ _ :: r => opened r
    end.

  (** *** what a client can see *)
  (** the wallet shows the same thing through every getter *)
  Definition same_view (w w' : wallet) : Prop :=
    w_params w' = w_params w /\
    account_num w' = account_num w /\
    (forall i, get_meta_by_index w' i = get_meta_by_index w i) /\
    (forall a, get_meta_by_address w' a = get_meta_by_address w a) /\
    (forall l, get_meta_by_label w' l = get_meta_by_label w l) /\
    get_default_meta w' = get_default_meta w.

  Definition opens_only_with (w : wallet) (a : string) (k : key) (p : string) : Prop :=
    get_account_by_address w a p = RKey k /\
    forall p', p' <> p -> get_account_by_address w a p' = EDecrypt.

  Definition listed (w : wallet) (a : string) : Prop := exists x, In x (accts w) /\ a_addr x = a.

  (** The property, for a wallet state [w] reached by a history and the specification state [g]
      (address -> key and current password) of that history: after re-opening the wallet file
        1. every getter shows what it showed before;
        2. the listed accounts are exactly the ones the specification state knows;
        3. each of them opens with its current password, to its key, and with no other password. *)
  Definition wallet_property (w : wallet) (g : ghost) : Prop :=
    let w' := reload w in
    same_view w w' /\
    (forall a, listed w' a <-> exists v, mget a g = Some v) /\
    (forall a k p, mget a g = Some (k, p) -> opens_only_with w' a k p).

End Wallet.

Arguments ROk {key}.
Arguments RKey {key} k.
Arguments RNil {key}.
Arguments EEmptyPwd {key}.
Arguments ESigScheme {key}.
Arguments EDupLabel {key}.
Arguments EDupAddr {key}.
Arguments ENotFound {key}.
Arguments EDeleteDefault {key}.
Arguments EDecrypt {key}.
Arguments ESchemeName {key}.
Arguments ENoDefault {key}.
Arguments ESave {key}.

(** ** The ideal cipher: the hypothesis on scrypt + AES-256-GCM under which the property is proved.
    Decryption under exactly the context and password of the encryption returns the key; under
    any other (parameters, address, password) it fails. *)
Definition ideal_cipher {key blob : Type} (enc : ectx -> string -> key -> blob)
           (dec : ectx -> string -> blob -> option key) : Prop :=
  (forall c p k, dec c p (enc c p k) = Some k) /\
  (forall c p k c' p', (c', p') <> (c, p) -> dec c' p' (enc c p k) = None).

(** An executable instance (used by the correspondence and by the witnesses): the blob is the
    triple itself. *)
Definition ectx_eqb (a b : ectx) : bool := scrypt_eqb (fst a) (fst b) && String.eqb (snd a) (snd b).
Definition iblob := (ectx * string * N)%type.
Definition ienc (c : ectx) (p : string) (k : N) : iblob := (c, p, k).
Definition idec (c : ectx) (p : string) (b : iblob) : option N :=
  let '(c0, p0, k) := b in if ectx_eqb c c0 && String.eqb p p0 then Some k else None.
