(** Model/MapSites.v -- the COMMITTED classification of every runtime-ordered iteration site on the
    block-execution path (C02, obligation "map iteration order").  Data only.

    Key = (file, function, line-independent id, digest).  The digest (harness/drivers/c02/mapscan/slice.go)
    covers what the classification depends on inside the enclosing function: the loop with its body (the
    outermost enclosing loop / the statement holding the function literal when nested), the conditions it
    runs under, the earlier statements that define or alias the variables it mentions, and the forward
    slice of the statements after it (a statement mentioning a tainted variable is included and taints
    what it mentions) -- e.g. the sort after a collect loop, the comparison that consumes a counter.  A
    repair elsewhere in the function does not change it.  Functions with named results, defer, go or
    labels are digested whole.  The translator regenerates Gen/MapRanges.v from the current source on
    every run; the theorem [all_map_ranges_classified] (Props/C02.v) re-checks by computation that every
    generated site has an entry here: a new `range` over a map, a new sync.Map.Range call, or an edit
    inside a listed site's slice makes it fail until the site is looked at again and this table updated.
    (To refresh digests after a reviewed edit: copy them from Gen/MapRanges.v; VERIF_C02_SLICEDUMP=<file>
    makes `harness gen` write the slice texts for review.)

    Classes (Model/Determinism.v): Proved l -- the loop is mirrored in Part A of the model and lemma l is
    proved for the mirror; Argued l why -- same loop shape inside a larger body, hypotheses of l argued by
    reading (stated); OffPath -- not reachable from block execution; Finding cls -- the observable does
    depend on the order (known-finding class cls of this check). *)
From Coq Require Import List String.
Import ListNotations.
From Ont Require Import Model.Determinism.
Open Scope string_scope.

Definition gov := "smartcontract/service/native/governance/".

Definition classification : list (site_key * order_class) := [
  (* --- ledger store --- *)
  (("core/store/ledgerstore/ledger_store.go", "(*LedgerStoreImp).executeBlock", "syncmap neovm.GAS_TABLE#0", "617d6e215411"),
   Proved L_map_copy);
  (("core/store/ledgerstore/ledger_store.go", "(*LedgerStoreImp).PreExecuteContractWithParam", "syncmap neovm.GAS_TABLE#0", "3b576e9e9e9e"),
   OffPath "pre-execution (RPC), never part of a block; the body is a map copy with one key overridden by a parameter");
  (("core/store/ledgerstore/tx_handler.go", "refreshGlobalParam", "syncmap neovm.GAS_TABLE#0", "d3821f94a1ff"),
   Proved L_per_key_update);
  (* --- validator --- *)
  (("core/validation/transaction_validator.go", "checkTransactionSignatures", "range address#0", "479373f4bdc6"),
   Proved L_witness_membership);
  (* --- native contracts --- *)
  (("smartcontract/service/native/auth/utils.go", "StringsDedupAndSort", "range smap#0", "83ba40911b75"),
   Proved L_collect_sort);
  (("smartcontract/service/native/cross_chain/header_sync/states.go", "(*ConsensusPeers).Serialization", "range this.PeerMap#0", "7264368c530f"),
   Argued L_collect_sort "values collected then sort.SliceStable by PeerPubkey; PeerMap is keyed by PeerPubkey (Deserialization inserts PeerMap[peer.PeerPubkey]), so sort keys are unique");
  ((gov ++ "governance.go", "ApproveCandidate", "range peerPoolMap.PeerPoolMap#0", "d2e088f941fd"), Proved L_count);
  ((gov ++ "governance.go", "QuitNode", "range peerPoolMap.PeerPoolMap#0", "db2098e7ef70"), Proved L_count);
  ((gov ++ "method.go", "registerCandidate", "range peerPoolMap.PeerPoolMap#0", "b816ac58650b"), Proved L_count);
  ((gov ++ "governance.go", "UpdateConfig", "range peerPoolMap.PeerPoolMap#0", "f37261fb3673"), Proved L_count);
  ((gov ++ "governance.go", "GetPeerPoolByAddress", "range peerPoolMap.PeerPoolMap#0", "8d32854211c7"),
   Argued L_map_copy "copies the entries with v.Address == address into a fresh map: map_copy of the filtered entries (filter maps permutations to permutations)");
  ((gov ++ "governance.go", "GetPeerPoolByAddress", "range subPeerPool#0", "d9c955d55b5e"),
   Argued L_collect_sort "items built per entry, then sort.SliceStable by PeerAddress hex (address of the unique PeerPubkey); the early error returns abort the call whatever entry raised them, the error text is not recorded in state or events");
  ((gov ++ "governance.go", "GetPeerPoolForVm", "range peerPoolMap.PeerPoolMap#0", "6ff9da7e58bd"),
   Argued L_collect_sort "as GetPeerPoolByAddress: collect, then sort by PeerAddress hex");
  ((gov ++ "method.go", "executeSplit", "range peerPoolMap.PeerPoolMap#0", "702f82f855de"),
   Argued L_collect_sort "candidates collected, then sort.SliceStable by (Stake desc, PeerPubkey desc): total and strict because PeerPubkey is unique per entry");
  ((gov ++ "method.go", "executeSplit2", "range peerPoolMap.PeerPoolMap#0", "bef26f144c28"),
   Argued L_collect_sort "same loop text as executeSplit");
  ((gov ++ "method.go", "executeCommitDpos1", "range peerPoolMap.PeerPoolMap#0", "18bf1eff116e"),
   (* STATE: per entry normalQuit/blackQuit write only keys prefixed AUTHORIZE_INFO_POOL+pubkey / this peer's own
      records (pubkeys have one fixed length, so prefixes are disjoint) and additive totals (withdrawTotalStake,
      depositPenaltyStake), delete or re-store the entry's own map key (Go allows that during range and never
      re-visits it); the collected stakes are sorted afterwards by (Stake, PeerPubkey): commutes, by reading
      (L_commute_disjoint).  EVENTS: blackQuit's ONT transfer notifications (value InitPos) are appended in map
      order: model A9, refuted for two black-listed peers with different InitPos. *)
   Finding "maporder:governance-blackquit-events");
  ((gov ++ "method.go", "executeCommitDpos2", "range peerPoolMap.PeerPoolMap#0", "5a4c4c6c4768"),
   (* as executeCommitDpos1, plus putPeerAttributes keyed by the entry's pubkey *)
   Finding "maporder:governance-blackquit-events");
  ((gov ++ "states.go", "(*PeerPoolMap).Serialization", "range this.PeerPoolMap#0", "db1837f4bd15"),
   Argued L_collect_sort "values collected then sort.SliceStable by PeerPubkey = map key (unique)");
  (("smartcontract/service/native/ont/ont.go", "OntInit", "range distribute#0", "7927364f57c6"),
   Argued L_singleton "puts go to one balance key per address (commute); the transfer notifications ARE appended in visiting order, but OntInit only succeeds in the genesis block (total supply must still be zero) and genesis.newGoverningInit builds exactly one (address, ONT_TOTAL_SUPPLY) entry");
  (("smartcontract/service/native/ontfs/errors.go", "(*Errors).ToString", "range this.ObjectErrors#0", "ed6a5062fadd"),
   (* repaired in /repo 859ea035: the loop only collects the keys, sort.Strings follows, entries are written
      in key order (model A7, c02_ontfs_errors_event_order_free); before the repair the entries were written in
      visiting order: finding maporder:ontfs-errors-event of this check *)
   Proved L_collect_sort);
  (("smartcontract/service/native/ontfs/errors.go", "(*Errors).PrintErrors", "range this.ObjectErrors#0", "f74f4f1bb7b8"),
   OffPath "prints to stdout, no caller");
  (* --- EVM state --- *)
  (("smartcontract/storage/statedb.go", "(*StateDB).CommitToCacheDB", "range self.Suicided#0", "c19315a54a68"),
   Proved L_prefix_delete);
  (("smartcontract/storage/statedb.go", "(*StateDB).Snapshot", "range self.Suicided#0", "6803895f9309"),
   Proved L_map_copy);
  (("vm/evm/contracts.go", "init", "range PrecompiledContractsHomestead#0", "29c5a190a802"),
   OffPath "fills PrecompiledAddresses*, read only by EVM.ActivePrecompiles, whose single caller (access-list set-up in state_processor.go) is commented out");
  (("vm/evm/contracts.go", "init", "range PrecompiledContractsByzantium#0", "246c601d6a96"), OffPath "as Homestead");
  (("vm/evm/contracts.go", "init", "range PrecompiledContractsIstanbul#0", "16415027750d"), OffPath "as Homestead");
  (("vm/evm/contracts.go", "init", "range PrecompiledContractsYoloV2#0", "ec24f4e72c0a"), OffPath "as Homestead");
  (("vm/evm/logger.go", "(Storage).Copy", "range s#0", "7c0f90ae9af4"),
   OffPath "StructLogger (tracer): HandleEIP155Transaction runs with evm.Config{} (no tracer); the body is a map copy");
  (("vm/evm/logger.go", "WriteTrace", "range log.Storage#0", "0870ec0547c4"), OffPath "debug printer of the tracer");
  (("vm/evm/logger.go", "WriteLogs", "range log.Topics#0", "5b7dbe51710c"),
   OffPath "debug printer; operand is a go-ethereum []common.Hash (a slice), untyped only because third-party packages are not loaded");
  (* --- NeoVM values --- *)
  (("vm/neovm/types/map_value.go", "(*MapValue).getMapSortedKey", "range this.Data#0", "3572b6381243"),
   Proved L_collect_sort);
  (("vm/neovm/types/neovm_value.go", "(*VmValue).dump", "range self.mapval.Data#0", "d78086aadce5"),
   Proved L_collect_sort);
  (("vm/neovm/types/neovm_value.go", "(*VmValue).circularRefAndDepthDetection", "range mp.Data#0", "0036efde55b1"),
   Finding "maporder:cycle-detector-first-entry")
].

(** uses of Transaction.SignedAddr / GetSignatureAddresses *)
Definition signer_use_table : list (use_key * use_class) := [
  (("core/types/transaction.go", "TransactionFromEIP155", "SignedAddr"), UWriter);
  (("core/validation/transaction_validator.go", "checkTransactionSignatures", "SignedAddr"), UWriter);
  (("smartcontract/smart_contract.go", "(*SmartContract).checkAccountAddress", "GetSignatureAddresses"), UWitnessMembership);
  (("smartcontract/service/wasmvm/wasmjit_runtime.go", "invokeJit", "GetSignatureAddresses"),
   UOutOfModel "WASM JIT: hands the list to the wasm runtime; WASM execution is outside every model here (the verif build links an error stub)")
].

(** * Process-global state written during execution (Gen/MapRanges.v [process_globals]).
    Key = (package dir, variable, type kind, the ";"-joined writing sites): a NEW package-level variable
    written from a function of the scanned packages, or a new writer of a listed one, is not in this
    table and [all_process_globals_classified] fails. *)
Definition nat_ := "smartcontract/service/native/".
Definition globals_table : list (global_key * global_class) := [
  (("common/constants", "ONG_TOTAL_SUPPLY_V2", "basic",
    nat_ ++ "ong.OngTotalSupplyV2:method:BigInt;" ++ nat_ ++ "ong.doApprove:method:LessThan;" ++ nat_ ++ "ong.doTransfer:method:LessThan;" ++ nat_ ++ "ong.doTransferFrom:method:LessThan"),
   GConstAfterInit "a bigint.Int VALUE (third-party type, so the scanner cannot see that BigInt/LessThan have value receivers): read only");
  (("events", "DefActorPublisher", "pointer",
    "core/store/ledgerstore.(*LedgerStoreImp).submitBlock:method:Publish;smartcontract/event.PushChainEvent:method:Publish;smartcontract/event.PushEthSmartCodeEvent:method:Publish;smartcontract/event.PushSmartCodeEvent:method:Publish"),
   GNotObservable "publishes finished results to subscribers (RPC/websocket); nil in the harness; nothing is read back into execution");
  (("smartcontract/service/native", "Contracts", "map",
    nat_ ++ "auth.Init:index;" ++ nat_ ++ "cross_chain/cross_chain_manager.InitCrossChain:index;" ++ nat_ ++ "cross_chain/header_sync.InitHeaderSync:index;" ++ nat_ ++ "cross_chain/lock_proxy.InitLockProxy:index;" ++ nat_ ++ "global_params.InitGlobalParams:index;" ++ nat_ ++ "governance.InitGovernance:index;" ++ nat_ ++ "ong.InitOng:index;" ++ nat_ ++ "ont.InitOnt:index;" ++ nat_ ++ "ontfs.InitFs:index;" ++ nat_ ++ "ontid.Init:index;" ++ nat_ ++ "system.InitSystem:index"),
   GConstAfterInit "the registry of native contracts: each Init* is called once from native/init's init(), with constant keys, in every process");
  (("smartcontract/service/neovm", "GAS_TABLE", "sync.Map",
    "core/store/ledgerstore.refreshGlobalParam:method:Store"),
   (* refreshed from chain state at the start of every executeBlock -- but only the entries whose on-chain
      value exists and parses; the others keep what this process stored before: model A10 *)
   GFinding "procstate:gas-table-keeps-unparsable-param");
  (("smartcontract/service/wasmvm", "CodeCache", "pointer",
    "smartcontract/service/wasmvm.invokeInterpreter:method:Add;smartcontract/service/wasmvm.invokeInterpreter:method:Get"),
   GOutOfModel "LRU of compiled WASM modules keyed by contract address");
  (("smartcontract/service/wasmvm", "nextServiceDataIdx", "basic",
    "smartcontract/service/wasmvm.registerWasmVmService:incdec"),
   GOutOfModel "handle counter of the WASM JIT bridge");
  (("smartcontract/service/wasmvm", "serviceData", "map",
    "smartcontract/service/wasmvm.registerWasmVmService:index;smartcontract/service/wasmvm.unregisterWasmVmService:delete"),
   GOutOfModel "live WASM JIT services by handle; entries removed when the call returns");
  (("vm/evm", "rStackPool", "struct", "vm/evm.returnRStack:method:Put"),
   GNotObservable "sync.Pool of return stacks: returnRStack truncates to length 0 before Put, newReturnStack users only append");
  (("vm/evm", "stackPool", "struct", "vm/evm.returnStack:method:Put"),
   GNotObservable "sync.Pool of EVM stacks: returnStack truncates to length 0 before Put")
].
