(** Executable model of ONG issuance:
      smartcontract/service/native/utils/unbind_ong.go : CalcUnbindOng, CalcGovernanceUnbindOng
      common/config/config.go : GetOntHolderUnboundDeadline, GetGovUnboundDeadline
    Go's uint32 / uint64 arithmetic is written with explicit wrap (mod 2^32 / mod 2^64) at every
    operation that can wrap; slice/array index out of range and division by zero are [Panic];
    the `for ustart < uend` loop runs on fuel and fuel exhaustion is the distinct value
    [OutOfFuel]. Tables, interval, supplies and the per-network holder deadlines are the
    generated values of Gen/Unbind.v. Definitions only; proofs are in Proofs/Unbind.v. *)
From Coq Require Import List NArith Bool PeanoNat.
Import ListNotations.
From Ont Require Export Gen.Unbind.
Local Open Scope N_scope.

Inductive res (A : Type) : Type :=
| Ok (a : A)
| Panic
| OutOfFuel.
Arguments Ok {A} a.
Arguments Panic {A}.
Arguments OutOfFuel {A}.

Definition w32 : N := 4294967296.
Definition w64 : N := 18446744073709551616.
Definition u32 (x : N) : N := x mod w32.
Definition u64 (x : N) : N := x mod w64.
Definition add32 (a b : N) : N := (a + b) mod w32.
Definition sub32 (a b : N) : N := (a + w32 - b mod w32) mod w32.
Definition mul32 (a b : N) : N := (a * b) mod w32.
Definition add64 (a b : N) : N := (a + b) mod w64.
Definition sub64 (a b : N) : N := (a + w64 - b mod w64) mod w64.
Definition mul64 (a b : N) : N := (a * b) mod w64.

(** [config.GetOntHolderUnboundDeadline]: `switch DefConfig.P2PNode.NetworkId`; the case labels
    and values are read from the source / the linked package into Gen/Unbind.v. *)
Definition holder_deadline (net : N) : N :=
  match find (fun p => fst p =? net) holder_deadline_cases with
  | Some p => snd p
  | None => holder_deadline_default
  end.

(** for ustart < uend { amount += uint64(TIME_INTERVAL-istart) * TABLE[ustart]; ustart++; istart = 0 } *)
Fixpoint unbind_loop (fuel : nat) (tbl : list N) (ti uend ustart istart amount : N) : res (N * N * N) :=
  if ustart <? uend then
    match fuel with
    | O => OutOfFuel
    | S f =>
        match nth_error tbl (N.to_nat ustart) with
        | None => Panic
        | Some r => unbind_loop f tbl ti uend (add32 ustart 1) 0 (add64 amount (mul64 (sub32 ti istart) r))
        end
    end
  else Ok (ustart, istart, amount).

(** The block shared by both functions, from `ustart := startOffset / TIME_INTERVAL` to the last
    `amount += uint64(iend-istart) * TABLE[ustart]` (amount starts at 0). *)
Definition segment (tbl : list N) (ti s e : N) : res N :=
  if ti =? 0 then Panic else
  let ustart := s / ti in
  let istart := s mod ti in
  let uend := e / ti in
  let iend := e mod ti in
  match unbind_loop (S (length tbl)) tbl ti uend ustart istart 0 with
  | Ok (us, is_, amt) =>
      match nth_error tbl (N.to_nat us) with
      | None => Panic
      | Some r => Ok (add64 amt (mul64 (sub32 iend is_) r))
      end
  | Panic => Panic
  | OutOfFuel => OutOfFuel
  end.

(** [CalcUnbindOng(balance, startOffset, endOffset)] when GetOntHolderUnboundDeadline() = d. *)
Definition calc_unbind_ong_at (d balance s e : N) : res N :=
  if e <=? s then Ok 0 else
  if s <? d then
    let e' := if d <=? e then d else e in
    match segment generation_amount time_interval s e' with
    | Ok amt => Ok (mul64 amt balance)
    | Panic => Panic
    | OutOfFuel => OutOfFuel
    end
  else Ok (mul64 0 balance).

(** ... under network id [net]. *)
Definition calc_unbind_ong (net balance s e : N) : res N :=
  calc_unbind_ong_at (holder_deadline net) balance s e.

(** [config.GetGovUnboundDeadline] when GetOntHolderUnboundDeadline() = d: (deadline, gap) or the
    panic ("incompatible constants setting", or an index out of range). *)
Definition gov_unbound_deadline_at (d : N) : res (N * N) :=
  let ti := cfg_time_interval in
  if ti =? 0 then Panic else
  let index := N.to_nat (d / ti) in
  if (length cfg_generation_amount <? index)%nat then Panic else
  let count := fold_left (fun c r => add64 c (mul64 r ti)) (firstn index cfg_generation_amount) 0 in
  let gap := sub64 d (mul64 (d / ti) ti) in
  match nth_error cfg_generation_amount index, nth_error cfg_new_generation_amount index with
  | Some ro, Some rn =>
      let count := add64 count (add64 (mul64 ro gap) (mul64 rn (sub64 ti gap))) in
      let count := fold_left (fun c r => add64 c (mul64 r ti)) (skipn (S index) cfg_new_generation_amount) count in
      let num_interval := length cfg_new_generation_amount in
      match nth_error cfg_new_generation_amount (num_interval - 1) with
      | None => Panic
      | Some rl =>
          if negb (rl =? 3) || negb ((sub64 count (mul64 3 ti) <? ont_total_supply) && (ont_total_supply <=? count))
          then Panic
          else Ok (sub32 (sub32 (mul32 ti (u32 (N.of_nat num_interval))) (u32 (sub64 count ont_total_supply) / 3)) 1,
                   sub64 3 (sub64 count ont_total_supply mod 3))
      end
  | _, _ => Panic
  end.

Definition get_gov_unbound_deadline (net : N) : res (N * N) :=
  gov_unbound_deadline_at (holder_deadline net).

(** [CalcGovernanceUnbindOng(startOffset, endOffset)] when GetOntHolderUnboundDeadline() = d
    (as repaired by 469265b4: `startOffset <= deadline`). *)
Definition calc_governance_unbind_ong_at (d s e : N) : res N :=
  if e <? d then Ok 0 else
  let s := if s <? d then d else s in
  if e <=? s then Ok 0 else
  match gov_unbound_deadline_at d with
  | Ok (deadline, g) =>
      if s <=? deadline then
        let e' := if deadline <? e then deadline else e in
        let gap := if deadline <? e then g else 0 in
        match segment new_generation_amount time_interval s e' with
        | Ok amt => Ok (mul64 (add64 amt gap) ont_total_supply)
        | Panic => Panic
        | OutOfFuel => OutOfFuel
        end
      else Ok (mul64 0 ont_total_supply)
  | Panic => Panic
  | OutOfFuel => OutOfFuel
  end.

Definition calc_governance_unbind_ong (net s e : N) : res N :=
  calc_governance_unbind_ong_at (holder_deadline net) s e.

(** * Specification side: cumulative release functions and per-second rates. *)

Fixpoint sumN (l : list N) : N := match l with [] => 0 | x :: r => x + sumN r end.

(** Rate of table [tbl] in the second starting at offset [t]. *)
Definition tbl_rate (tbl : list N) (ti t : N) : N := nth (N.to_nat (t / ti)) tbl 0.

(** Units released per unit of balance over [0, x) by table [tbl]. *)
Definition cum (tbl : list N) (ti x : N) : N :=
  ti * sumN (firstn (N.to_nat (x / ti)) tbl) + (x mod ti) * tbl_rate tbl ti x.

(** Sum of f over [x, x+n). *)
Definition rsum (f : N -> N) (x n : N) : N :=
  N.peano_rect (fun _ => N) 0 (fun k acc => acc + f (x + k)) n.

(** A network configuration as seen by the two functions: holder deadline, governance deadline, gap. *)
Record cfg := { c_hd : N; c_gd : N; c_gap : N }.

(** Holder side: released per unit of ONT balance over [0, x). *)
Definition Hh (c : cfg) (x : N) : N := cum generation_amount time_interval (N.min x (c_hd c)).
Definition rate_h (c : cfg) (t : N) : N :=
  if t <? c_hd c then tbl_rate generation_amount time_interval t else 0.

(** Governance side: released per unit of ONT total supply over [0, x). *)
Definition Hg (c : cfg) (x : N) : N :=
  cum new_generation_amount time_interval (N.min (N.max x (c_hd c)) (c_gd c))
  - cum new_generation_amount time_interval (c_hd c)
  + (if c_gd c <? x then c_gap c else 0).
Definition rate_g (c : cfg) (t : N) : N :=
  if t <? c_hd c then 0
  else if t <? c_gd c then tbl_rate new_generation_amount time_interval t
  else if t =? c_gd c then c_gap c else 0.

(** The configuration the code computes for holder deadline [d] / network id [net]
    (None when GetGovUnboundDeadline panics). *)
Definition cfg_at (d : N) : option cfg :=
  match gov_unbound_deadline_at d with
  | Ok (gd, gap) => Some {| c_hd := d; c_gd := gd; c_gap := gap |}
  | _ => None
  end.
Definition cfg_of_net (net : N) : option cfg := cfg_at (holder_deadline net).

(** Side conditions on a configuration under which the closed forms hold (all decidable; checked
    by computation for every configuration of the generated network table). *)
Definition cfg_ok (c : cfg) : bool :=
  (0 <? time_interval) && (time_interval <? w32)
  && (c_hd c <=? c_gd c) && (c_gd c <? w32)
  && (N.to_nat (c_hd c / time_interval) <? length generation_amount)%nat
  && (N.to_nat (c_gd c / time_interval) <? length new_generation_amount)%nat
  && (ont_total_supply * cum generation_amount time_interval (c_hd c) <? w64)
  && (ont_total_supply * (cum new_generation_amount time_interval (c_gd c) + c_gap c) <? w64).

(** Whole-schedule total of a configuration. *)
Definition cfg_total (c : cfg) : N :=
  ont_total_supply * cum generation_amount time_interval (c_hd c)
  + ont_total_supply * (cum new_generation_amount time_interval (c_gd c)
                        - cum new_generation_amount time_interval (c_hd c) + c_gap c).

(** Every network id has one of these holder deadlines: the default branch and the switch cases. *)
Definition all_holder_deadlines : list N := holder_deadline_default :: map snd holder_deadline_cases.

Definition hd_ok (d : N) : bool :=
  match cfg_at d with
  | Some c => cfg_ok c && (cfg_total c =? ong_total_supply)
  | None => false
  end.

(** The values GetGovUnboundDeadline returned in the linked package (Gen) against the model. *)
Definition gov_deadline_gen (net : N) : option (N * N) :=
  match find (fun p => fst p =? net) gov_deadline_cases with
  | Some p => snd p
  | None => gov_deadline_default
  end.
Definition gov_deadline_probe_ids : list N := map fst gov_deadline_cases ++ default_probe_ids.
Definition gov_deadline_agrees (net : N) : bool :=
  match get_gov_unbound_deadline net, gov_deadline_gen net with
  | Ok (d, g), Some (d', g') => (d =? d') && (g =? g')
  | Panic, None => true
  | _, _ => false
  end.
