(** Model/VbftSpec.v — the vocabulary of property C34 over Model/Vbft.v (definitions only): the
    agreement statement and the decidable side conditions under which it is proved. The same
    boolean predicates classify the driver's failing schedules (Corr/C34.v evaluates them on the
    recorded runs), so the finding classes and the theorem's hypotheses cannot drift apart. *)
From Coq Require Import List Bool NArith ZArith.
Import ListNotations.
From Ont Require Import Model.VbftPool Model.VbftPoolSpec Model.Vbft.
Local Open Scope N_scope.

(** N peers, duplicate-free, N >= 3C+1, at most C of them faulty. *)
Definition wf_params (P : params) : Prop :=
  wf_config (P_peers P) (P_n P) (P_c P) /\ N.of_nat (length (P_byz P)) <= P_c P.

(** No two honest nodes have sealed different blocks. *)
Definition agreement (P : params) (cfg : config) : Prop :=
  forall a b x y, honestb P a = true -> honestb P b = true ->
    n_sealed (node_of cfg a) = Some x -> n_sealed (node_of cfg b) = Some y -> x = y.

(** The statement scheme: in every reachable configuration satisfying [extra]. *)
Definition safety_statement (extra : params -> config -> bool) : Prop :=
  forall P cfg, wf_params P -> reachable P cfg -> extra P cfg = true -> agreement P cfg.

(** C34, full strength: every schedule, every behaviour of the faulty peers. *)
Definition safety : Prop := safety_statement (fun _ _ => true).

Definition for_honest (P : params) (cfg : config) (f : node -> bool) : bool :=
  forallb (fun a => negb (honestb P a) || f (node_of cfg a)) (P_peers P).

(** (V) intake counted only verified signatures: every message an honest node's pool was given
    carries only signatures of the consensus peers it names, over the hash it carries, and that
    hash is a block of the proposer it names (C31's [counted_verified]). *)
Definition verified_intakeb (P : params) (cfg : config) : bool :=
  for_honest P cfg (fun nd => forallb (fun o => negb (passes (op_ok o)) || op_verifiedb (P_peers P) o) (n_ops nd)).

(** (D) no commit message names its proposer among its signers (C31's [no_double_count]). *)
Definition no_doubleb (P : params) (cfg : config) : bool :=
  for_honest P cfg (fun nd => forallb (fun o => negb (passes (op_ok o)) || op_no_doubleb o) (n_ops nd)).

(** (E) no endorsement or commitment for an empty block reached an honest pool. *)
Definition empty_freeb (P : params) (cfg : config) : bool :=
  for_honest P cfg (fun nd => forallb op_nonemptyb (n_ops nd)).

(** (U) every honest key signed for at most one proposal at the height (own proposal,
    endorsements and commitment together). *)
Definition single_votesb (P : params) (cfg : config) : bool := for_honest P cfg single_voteb.

(** (Q) no proposer has blocks of two different proposals signed by anybody. *)
Definition hyp_allb (P : params) (cfg : config) : bool :=
  verified_intakeb P cfg && no_doubleb P cfg && empty_freeb P cfg && single_votesb P cfg
  && no_equivocationb P cfg.

(** * The local rules (the mechanisms the property names), over the ghost log of signed blocks *)
Definition commitments (nd : node) : list (skind * blk) :=
  filter (fun x => match fst x with SCommit => true | _ => false end) (n_signed nd).
Definition endorsements (e : bool) (nd : node) : list (skind * blk) :=
  filter (fun x => match fst x with SEndorse => eqb (b_empty (snd x)) e | _ => false end) (n_signed nd).
