(** How the validator reads a decoded transaction: the projection of Model/TxCodec.v's [tx]
    (core/types.Transaction as the decoder fills it) to Model/Sig.v's [vtx].
    IsEipTx() is `tx.TxType == EIP155`; Hash() returns tx.hash; Payer and Sigs are fields. *)
From Coq Require Import List NArith.
Import ListNotations.
From Ont Require Import Lib.Bytes Gen.SigConsts Model.TxCodec Model.Sig.
Local Open Scope N_scope.

Definition rawsig_of (g : TxCodec.rawsig) : Sig.rawsig := mkRawSig (sg_invoke g) (sg_verify g).

Definition vtx_of_tx {etx : Type} (t : tx etx) : vtx :=
  mkVtx (t_type t =? SIG_TX_EIP155) (t_hash t) (t_payer t) (map rawsig_of (t_sigs t)).
