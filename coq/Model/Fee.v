(** Model of transaction fee charging (property C05). Definitions only; proofs in Proofs/Fee.v.

    Mirrors
      core/store/ledgerstore/tx_handler.go   HandleInvokeTransaction, tuneGasFeeByHeight,
                                              calcGasByCodeLen, getBalanceFromNative, chargeCostGas,
                                              costInvalidGas
      core/store/ledgerstore/ledger_store.go executeBlock (the transaction loop: one CacheDB on the
                                              block overlay, Reset before every transaction),
                                              handleTransaction (State defaults to FAIL)
      smartcontract/service/native/ong       OngTransfer -> doTransfer (zero amounts skipped, supply
                                              bound), ont.Transfer (CheckWitness, reduceFromBalance,
                                              increaseToBalance), OngBalanceOf
    on top of
      Model/KV.v      (C04) CacheDB over OverlayDB over the store, Commit / Reset
      Model/NeoInt.v  (C21) the stored form of a native token balance (StorageItem, both versions)

    Every uint64 expression and comparison of the fee logic is taken from Gen/FeeFormulas.v, which
    the harness regenerates from the current source on every run (wrap explicit, Lib/U64.v).

    The interpreter is a parameter: [interp] maps (state at the start of the execution, gas handed
    to the engine) to what the engine did — the content of the transaction cache afterwards (every
    write of the execution goes through that CacheDB; this is the part of the property that is
    checked by observation and not proved), whether Invoke returned an error, whether the error was
    internal (IsInternalErr), the gas left in sc.Gas, and the number of notifications.

    Go panics are explicit results: [StPanic] is MustToStorageItem's "too large token balance"
    (the division by zero in tuneGasFeeByHeight for GasPrice*MIN_TRANSACTION_GAS = 0 was repaired
    in /repo 96f31c72; the zero-unit test is now one of the generated conditions). *)
From Coq Require Import List Bool NArith ZArith.
Import ListNotations.
From Ont Require Import Lib.Bytes Lib.U64 Model.KV Model.NeoInt Gen.FeeConsts Gen.FeeFormulas.
Local Open Scope N_scope.
Open Scope bool_scope.

(** * ONG balances in contract storage *)

(** ont.GenBalanceKey(OngContractAddress, addr); CacheDB.Get/Put/Delete add the ST_STORAGE byte *)
Definition ong_key (a : bytes) : bytes := FEE_ONG_ADDR ++ a.
Definition gov_key : bytes := ong_key FEE_GOV_ADDR.
Definition pfx : N := FEE_ST_STORAGE.

(** utils.GetNativeTokenBalance on the raw stored bytes: nil reads as the zero balance;
    [None] = the stored item does not decode (the call returns an error). Unit: 10^-18 ONG. *)
Definition read_balance (raw : bytes) : option Z :=
  match raw with
  | [] => Some 0%Z
  | _ => match balance_of_bytes raw with inl b => Some b | inr _ => None end
  end.

Definition balance_at (s : state) (a : bytes) : option Z := read_balance (cache_get pfx s (ong_key a)).

(** getBalanceFromNative: OngBalanceOf returns the integer part (10^-9 ONG) as NeoVM bytes;
    common.BigIntFromNeoBytes(result).Uint64() keeps the low 64 bits. *)
Definition get_balance (s : state) (a : bytes) : option N :=
  match balance_at s a with
  | Some b => Some (u64 (Z.to_N (b / ScaleFactor)))
  | None => None
  end.

(** * The ONG transfer payer -> governance made by chargeCostGas *)
Inductive xerr := XOverSupply | XWitness | XUnreadable | XInsufficient | XPanic.

(** [amount] in 10^-9 ONG (genNativeTransferCode writes a V1 TransferStates; ToV2 scales it).
    An error can leave the writes made so far in the cache it was given. *)
Definition ong_transfer (signed : bool) (from to : bytes) (amount : N) (s : state) : state * option xerr :=
  if amount =? 0 then (s, None)                                   (* v.Value.IsZero(): continue *)
  else
    let v := (Z.of_N amount * ScaleFactor)%Z in
    if (FEE_ONG_TOTAL_SUPPLY_V2 <? v)%Z then (s, Some XOverSupply)
    else if negb signed then (s, Some XWitness)                   (* CheckWitness(from) *)
    else
      match balance_at s from with
      | None => (s, Some XUnreadable)
      | Some fb =>
          if (fb <? v)%Z then (s, Some XInsufficient)              (* NativeTokenBalance.Sub underflow *)
          else
            let nf := (fb - v)%Z in
            let s1 := if (nf =? 0)%Z then Some (cache_delete pfx (ong_key from) s)
                      else match balance_to_bytes nf with
                           | Some raw => Some (cache_put pfx (ong_key from) raw s)
                           | None => None                          (* MustToStorageItem panics *)
                           end in
            match s1 with
            | None => (s, Some XPanic)
            | Some s1 =>
                match balance_at s1 to with
                | None => (s1, Some XUnreadable)
                | Some tb =>
                    match balance_to_bytes (tb + v)%Z with
                    | Some raw => (cache_put pfx (ong_key to) raw s1, None)
                    | None => (s1, Some XPanic)
                    end
                end
            end
      end.

(** * Transactions, environment, interpreter *)
Record txp := mkTx {
  t_payer : bytes;          (* tx.Payer, 20 bytes *)
  t_signed : bool;          (* tx.Payer is one of tx.GetSignatureAddresses() *)
  t_price : N;              (* tx.GasPrice *)
  t_limit : N;              (* tx.GasLimit *)
  t_codelen : N;            (* len(invoke.Code) *)
  t_sys : bool              (* code == COMMIT_DPOS_BYTES || block height == 0 *)
}.

Record envp := mkEnv {
  e_height : N;             (* block.Header.Height *)
  e_tune : N;               (* config.GetGasRoundTuneHeight(network id) *)
  e_codegas : option N      (* gasTable[UINT_INVOKE_CODE_LEN_NAME]; None = key missing *)
}.

Record outcome := mkOut {
  o_cache : memdb;          (* the transaction CacheDB's memdb after engine.Invoke() *)
  o_ok : bool;              (* err == nil *)
  o_internal : bool;        (* sc.IsInternalErr() *)
  o_left : N;               (* sc.Gas *)
  o_events : N              (* len(sc.Notifications) *)
}.

(** None: the (recorded) interpreter has no answer for this gas — used by the correspondence when
    the model asks for an execution the driver did not probe; never the code. *)
Definition interp := state -> N -> option outcome.

Inductive status := StSuccess | StFail | StBlockError | StPanic | StNoProbe.

Record result := mkRes {
  r_state : state;
  r_status : status;        (* notify.State, or why there is no notify *)
  r_gas : N;                (* notify.GasConsumed *)
  r_fee_events : list N;    (* amounts of the payer -> governance transfer events appended by the charge *)
  r_events : N;             (* len(notify.Notify) *)
  r_req : option N          (* specification only: the amount handed to the charge's ONG transfer, if one was attempted
                               (for StNoProbe: the gas the engine was to be run with) *)
}.

(** * common.SafeMul: (x * y wrapped, overflowed?) *)
Definition safe_mul (x y : N) : N * bool :=
  if safemul_zero x y then (safemul_zero_val, safemul_zero_ovf) else (safemul_val x y, safemul_ovf x y).

(** * tuneGasFeeByHeight (total since /repo 96f31c72: a zero rounding unit returns the balance) *)
Definition tune_fee (height tuneHeight gas round cur : N) : N :=
  if tune_active height tuneHeight then
    if tune_round_zero round then tune_zero_ret gas cur
    else
      let t := tune_t gas round in                 (* round <> 0: the division is defined *)
      if tune_overflow gas round then cur
      else
        let newGas := tune_new round t in
        if tune_over_cap newGas cur then cur else newGas
  else gas.

(** * costInvalidGas: the fee goes through a FRESH CacheDB on the block overlay and is committed;
    the transaction's own cache (still holding the execution's writes) is left as it is — it is
    emptied by the Reset at the start of the next transaction and never committed. *)
Definition fail_nocharge (s : state) : result := mkRes s StFail 0 [] 0 None.

Definition fresh (s : state) : state := mkState [] (st_overlay s) (st_store s).

Definition fee_events (g : N) : list N := if g =? 0 then [] else [g].

(** the charge returned an error: nothing of it is committed and GasConsumed stays 0
    ([XPanic]: MustToStorageItem's "too large token balance" panic, not an error return) *)
Definition charge_failed (e : xerr) (s : state) (g : N) : result :=
  match e with
  | XPanic => mkRes s StPanic 0 [] 0 (Some g)
  | _ => mkRes s StFail 0 [] 0 (Some g)
  end.

Definition cost_invalid (tx : txp) (s : state) (g : N) : result :=
  match ong_transfer (t_signed tx) (t_payer tx) FEE_GOV_ADDR g (fresh s) with
  | (_, Some e) => charge_failed e s g                          (* the fresh cache is dropped *)
  | (f, None) =>
      let c := cache_commit f in
      mkRes (mkState (st_cache s) (st_overlay c) (st_store s)) StFail g (fee_events g) (N.of_nat (length (fee_events g))) (Some g)
  end.

Definition tuned_cost_invalid (env : envp) (tx : txp) (s : state) (gas round cap : N) : result :=
  cost_invalid tx s (tune_fee (e_height env) (e_tune env) gas round cap).

(** * HandleInvokeTransaction from `sc := smartcontract.SmartContract{...}` on *)
Definition exec_part (env : envp) (tx : txp) (ip : interp) (s : state) (is_charge : bool) (avail clg old : N) : result :=
  match ip s (fee_exec_gas avail clg) with
  | None => mkRes s StNoProbe 0 [] 0 (Some (fee_exec_gas avail clg))   (* [r_req] here: the gas handed to the engine *)
  | Some o =>
      let s1 := mkState (o_cache o) (st_overlay s) (st_store s) in
      if o_internal o then mkRes s1 StBlockError 0 [] 0 None            (* overlay.SetError *)
      else
        let cgl0 := fee_cost_limit avail (o_left o) in
        let cgl := if fee_cost_lt_min cgl0 then fee_cost_floor else cgl0 in
        let costGas := fee_cost_gas cgl (t_price tx) in
        if negb (o_ok o) then
          if is_charge then
            tuned_cost_invalid env tx s1 (fee_fail_gas costGas) (fee_fail_round (t_price tx)) (fee_fail_cap old 0)
          else fail_nocharge s1
        else if is_charge then
          match get_balance s1 (t_payer tx) with
          | None => fail_nocharge s1
          | Some new =>
              if fee_lt_new new costGas then
                tuned_cost_invalid env tx s1 (fee_insuf_gas costGas) (fee_insuf_round (t_price tx)) (fee_insuf_cap old new)
              else
                let g := tune_fee (e_height env) (e_tune env) (fee_ok_gas costGas) (fee_ok_round (t_price tx)) (fee_ok_cap old new) in
                match ong_transfer (t_signed tx) (t_payer tx) FEE_GOV_ADDR g s1 with   (* chargeCostGas on sc.CacheDB *)
                | (s2, Some e) => charge_failed e s2 g
                | (s2, None) =>
                    mkRes (cache_commit s2) StSuccess g (fee_events g) (o_events o + N.of_nat (length (fee_events g))) (Some g)
                end
          end
        else mkRes (cache_commit s1) StSuccess costGas [] (o_events o) None
  end.

(** * HandleInvokeTransaction *)
Definition handle_invoke (env : envp) (tx : txp) (ip : interp) (s : state) : result :=
  let is_charge := negb (t_sys tx) && negb (t_price tx =? 0) in
  if is_charge then
    match e_codegas env with
    | None => mkRes s StBlockError 0 [] 0 None                          (* overlay.SetError *)
    | Some codegas =>
        match get_balance s (t_payer tx) with
        | None => fail_nocharge s
        | Some old =>
            let '(minGas, ovf1) := safe_mul (fee_min_a (t_price tx)) (fee_min_b (t_price tx)) in
            if fee_lt_min ovf1 old minGas then cost_invalid tx s (fee_charge_nobal_min old)   (* overflow || oldBalance < minGas *)
            else
              let clg := code_len_gas (t_codelen tx) codegas in
              let '(codeLenGas, ovf2) := safe_mul (fee_code_a clg (t_price tx)) (fee_code_b clg (t_price tx)) in
              if fee_lt_code ovf2 old codeLenGas then cost_invalid tx s (fee_charge_nobal_code old)
              else if fee_lt_limit (t_limit tx) clg then cost_invalid tx s (fee_charge_limit (t_limit tx) (t_price tx))
              else
                let maxAva := fee_max_ava old (t_price tx) in
                let avail := if fee_ava_gt (t_limit tx) maxAva then maxAva else t_limit tx in
                exec_part env tx ip s true avail clg old
        end
    end
  else exec_part env tx ip s false (t_limit tx) 0 0.

(** * executeBlock's transaction loop: cache.Reset(); handleTransaction *)
Definition stops (st : status) : bool :=
  match st with StSuccess | StFail => false | _ => true end.

Fixpoint run_block (env : envp) (txs : list (txp * interp)) (s : state) : state * list result :=
  match txs with
  | [] => (s, [])
  | (tx, ip) :: rest =>
      let r := handle_invoke env tx ip (cache_reset s) in
      if stops (r_status r) then (r_state r, [r])                (* the block is rejected (error / panic) *)
      else let '(s', rs) := run_block env rest (r_state r) in (s', r :: rs)
  end.

(** result.WriteSet = overlay.GetWriteSet(): the block overlay's memdb *)
Definition write_set (s : state) : memdb := st_overlay s.

(** config.GetGasRoundTuneHeight: map lookup, a missing network id reads as 0 *)
Fixpoint tune_height_of (tbl : list (N * N)) (net : N) : N :=
  match tbl with
  | [] => 0
  | (id, h) :: r => if id =? net then h else tune_height_of r net
  end.

(** * HandleDeployTransaction (NeoVM contracts; outside the property's quantifier, modelled for the
    finding deploy:redeploy-destroyed-fee-unreported)

    [d_addr] = deploy.Address(), [d_raw] = the serialized DeployCode that PutContract stores,
    [t_codelen] = len(deploy.GetRawCode()). cache.GetContract is read from the state: destroyed iff
    the ST_DESTROYED record is non-empty, present iff the ST_CONTRACT record is non-empty. *)
Record deptx := mkDep { d_tx : txp; d_addr : bytes; d_raw : bytes }.

(** from `address := deploy.Address()` on; [gas] / [evs] are gasConsumed and the charge's events *)
Definition deploy_store (d : deptx) (s : state) (gas : N) (evs : list N) : result :=
  if negb (is_empty (cache_get FEE_ST_DESTROYED s (d_addr d))) then
    mkRes s StFail 0 [] 0 None              (* "can not redeploy destroyed contract": notify untouched *)
  else
    let s' := if is_empty (cache_get FEE_ST_CONTRACT s (d_addr d))
              then cache_put FEE_ST_CONTRACT (d_addr d) (d_raw d) s else s in
    mkRes (cache_commit s') StSuccess gas evs (N.of_nat (length evs)) None.

Definition handle_deploy (create unit : option N) (d : deptx) (s : state) : result :=
  let tx := d_tx d in
  if t_price tx =? 0 then deploy_store d s 0 []
  else
    match create, unit with
    | Some c, Some u =>
        let gasLimit := dep_gas_limit c (t_codelen tx) u in
        let insufficient :=                                   (* isBalanceSufficient returns (0, err) *)
          match get_balance s (t_payer tx) with
          | None => true
          | Some bal => bal_lt_gas bal (dep_need gasLimit (t_price tx))
          end in
        if insufficient then cost_invalid tx s (dep_charge_nobal 0)
        else if dep_lt_limit (t_limit tx) gasLimit then cost_invalid tx s (dep_charge_limit (t_limit tx) (t_price tx))
        else
          let g := dep_gas_consumed gasLimit (t_price tx) in
          match ong_transfer (t_signed tx) (t_payer tx) FEE_GOV_ADDR g s with     (* chargeCostGas on the tx cache *)
          | (s2, Some e) => charge_failed e s2 g
          | (s2, None) => deploy_store d (cache_commit s2) g (fee_events g)        (* cache.Commit() *)
          end
    | _, _ => mkRes s StBlockError 0 [] 0 None
    end.
