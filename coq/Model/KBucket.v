(** Executable mirror of the Kademlia routing table of ontio/ontology:
      p2pserver/common/id.go            Distance, CommonPrefixLen, zeroPrefixLen
      p2pserver/dht/kbucket/bucket.go   Has, Remove, MoveToFront, PushFront, Len, Split
      p2pserver/dht/kbucket/table.go    NewRoutingTable, Update, Remove, nextBucket, NearestPeers
      p2pserver/dht/kbucket/sorting.go  peerDistanceSorter (bytes.Compare on the XOR distance)
    Definitions only.  The comparison operators of the branch conditions and the id width are not
    written here: they are read from the current source on every run (Gen/KBucketGen.v).

    Representation.  A peer id ([common.PeerId], a 20-byte array) is a byte string, most significant
    byte first; a peer is (id, address) with the address string abstracted to a number (the harness
    numbers the address strings it uses; the table never inspects them).  A bucket
    ([container/list]) is a list, front first.  [rt.Buckets] is a list of buckets, index 0 first.
    [rt.bucketsize] and the [count] argument of NearestPeers are Go [int]s: [Z].
    The recursion of [nextBucket] runs on fuel; running out of fuel is the distinct outcome
    [None] / [UDiverged] (the Go code would not return), excluded by the theorems. *)
From Coq Require Import List Bool Arith NArith ZArith.
Import ListNotations.
From Ont Require Import Lib.Bytes Gen.KBucketGen.
Open Scope bool_scope.

Definition peer_id := bytes.
Definition peer := (peer_id * N)%type.
Definition bucket := list peer.

(** ** id.go *)

(** [PeerId.Distance]: bytewise XOR ([for i := 0; i < len(self.val); i++]). *)
Fixpoint distance (a b : peer_id) : bytes :=
  match a, b with
  | x :: a', y :: b' => N.lxor x y :: distance a' b'
  | _, _ => []
  end.

(** [bits.LeadingZeros8 x = 8 - bits.Len8 x]; [N.size_nat] is the bit length. *)
Definition leading_zeros8 (x : N) : nat := 8 - N.size_nat x.

(** [zeroPrefixLen]: index of the first non-zero byte times 8 plus its leading zeros, or 8*len. *)
Fixpoint zero_prefix_len (d : bytes) : nat :=
  match d with
  | [] => 0
  | b :: r => if (b =? 0)%N then 8 + zero_prefix_len r else leading_zeros8 b
  end.

(** [CommonPrefixLen a b = zeroPrefixLen (a.Distance b)]. *)
Definition cpl (a b : peer_id) : nat := zero_prefix_len (distance a b).

(** ** sorting.go *)

(** [bytes.Compare]: lexicographic comparison of byte strings. *)
Fixpoint bytes_compare (a b : bytes) : comparison :=
  match a, b with
  | [], [] => Eq
  | [], _ :: _ => Lt
  | _ :: _, [] => Gt
  | x :: a', y :: b' =>
      match (x ?= y)%N with
      | Eq => bytes_compare a' b'
      | c => c
      end
  end.

(** [peerDistanceSorter.Less]: [bytes.Compare(da, db) < 0], distances taken from the target
    ([pds.target.Distance(p.ID)]). *)
Definition dist_less (target : peer_id) (p q : peer) : bool :=
  match bytes_compare (distance target (fst p)) (distance target (fst q)) with
  | Lt => true
  | _ => false
  end.

(** [sort.Sort] is modelled by insertion sort.  [sort.Sort] is not stable, so the two can differ
    only on peers at equal distance from the target, i.e. (XOR being injective) on equal ids; the
    table never holds two (theorem [c37_table_valid]). *)
Fixpoint insert_by (less : peer -> peer -> bool) (x : peer) (l : list peer) : list peer :=
  match l with
  | [] => [x]
  | y :: r => if less x y then x :: y :: r else y :: insert_by less x r
  end.

Definition sort_by (less : peer -> peer -> bool) (l : list peer) : list peer :=
  fold_right (insert_by less) [] l.

(** ** bucket.go *)

Definition id_eqb (a b : peer_id) : bool := bytes_eqb a b.

(** [Bucket.Has] *)
Definition has (id : peer_id) (b : bucket) : bool := existsb (fun p => id_eqb (fst p) id) b.

(** [Bucket.Remove]: removes the first entry with that id. *)
Fixpoint remove_first (id : peer_id) (b : bucket) : bucket :=
  match b with
  | [] => []
  | p :: r => if id_eqb (fst p) id then r else p :: remove_first id r
  end.

Fixpoint find_first (id : peer_id) (b : bucket) : option peer :=
  match b with
  | [] => None
  | p :: r => if id_eqb (fst p) id then Some p else find_first id r
  end.

Definition count_id (id : peer_id) (b : bucket) : nat :=
  length (filter (fun p => id_eqb (fst p) id) b).

(** [Bucket.MoveToFront]: the loop calls [list.MoveToFront(e)] on a match and goes on with
    [e.Next()], which after the move is the old front.  With one matching entry the loop runs over
    the remaining (non-matching) entries and ends: the entry is at the front, the others keep
    their order.  With two or more matching entries the two keep overtaking each other and the
    loop never ends: [None]. *)
Definition move_to_front (id : peer_id) (b : bucket) : option bucket :=
  match find_first id b with
  | None => Some b
  | Some p => if (count_id id b <=? 1)%nat then Some (p :: remove_first id b) else None
  end.

(** [Bucket.Split cpl target]: entries with [CommonPrefixLen(id, target) > cpl] leave the bucket
    and are appended, in order, to the new one ([out.PushBack]). *)
Definition split_moves (c : nat) (target : peer_id) (p : peer) : bool :=
  kb_split_moves (Z.of_nat (cpl (fst p) target)) (Z.of_nat c).

Definition split_keep (c : nat) (target : peer_id) (b : bucket) : bucket :=
  filter (fun p => negb (split_moves c target p)) b.
Definition split_out (c : nat) (target : peer_id) (b : bucket) : bucket :=
  filter (split_moves c target) b.

(** ** table.go *)

Record table := mkTable {
  t_local : peer_id;
  t_size : Z;                 (* rt.bucketsize *)
  t_buckets : list bucket     (* rt.Buckets *)
}.

(** [NewRoutingTable]: one empty bucket. *)
Definition new_table (size : Z) (local : peer_id) : table := mkTable local size [[]].

Definition blen (b : bucket) : Z := Z.of_nat (length b).
Definition nbuckets (t : table) : Z := Z.of_nat (length (t_buckets t)).

Fixpoint upd {A : Type} (i : nat) (x : A) (l : list A) : list A :=
  match l, i with
  | [], _ => []
  | _ :: r, O => x :: r
  | y :: r, S i' => y :: upd i' x r
  end.

Definition get_bucket (t : table) (i : nat) : bucket := nth i (t_buckets t) [].
Definition set_bucket (t : table) (i : nat) (b : bucket) : table :=
  mkTable (t_local t) (t_size t) (upd i b (t_buckets t)).

(** [bucketID := cpl; if bucketID >= len(rt.Buckets) { bucketID = len(rt.Buckets) - 1 }] *)
Definition bucket_index (clamp : Z -> Z -> bool) (clamp_to : Z -> Z) (t : table) (c : nat) : nat :=
  if clamp (Z.of_nat c) (nbuckets t) then Z.to_nat (clamp_to (nbuckets t)) else c.

(** [nextBucket]: split the last bucket at its own index, append the new bucket, and do it again
    while the new bucket holds [>= bucketsize] entries. *)
Fixpoint next_bucket (fuel : nat) (t : table) : option table :=
  match fuel with
  | O => None
  | S fuel' =>
      let li := Z.to_nat (kb_unfold_index (nbuckets t)) in
      let b := get_bucket t li in
      let newb := split_out li (t_local t) b in
      let t' := mkTable (t_local t) (t_size t)
                        (upd li (split_keep li (t_local t) b) (t_buckets t) ++ [newb]) in
      if kb_unfold_again (blen newb) (t_size t) then next_bucket fuel' t' else Some t'
  end.

(** Enough fuel for every table whose local id has [KB_ID_LEN] bytes and whose bucket size is
    positive (Proofs.C37.next_bucket_terminates): a common prefix has at most 8*KB_ID_LEN bits. *)
Definition unfold_fuel : nat := S (S (8 * KB_ID_LEN)).

Inductive ures := UMoved | UAdded | URejected | UDiverged.

(** [RouteTable.Update]; [UAdded] is returned exactly when [rt.PeerAdded] is called,
    [URejected] when the result is [ErrPeerRejectedNoCapacity]. *)
Definition update (t : table) (id : peer_id) (addr : N) : table * ures :=
  let c := cpl id (t_local t) in
  let i := bucket_index kb_clamp_update_1 kb_clamp_update_1_to t c in
  let b := get_bucket t i in
  if has id b then
    match move_to_front id b with
    | Some b' => (set_bucket t i b', UMoved)
    | None => (t, UDiverged)
    end
  else if kb_update_has_room (blen b) (t_size t) then
    (set_bucket t i ((id, addr) :: b), UAdded)
  else if kb_update_is_last (Z.of_nat i) (nbuckets t) then
    match next_bucket unfold_fuel t with
    | None => (t, UDiverged)
    | Some t' =>
        let i' := bucket_index kb_clamp_update_2 kb_clamp_update_2_to t' c in
        let b' := get_bucket t' i' in
        if kb_update_still_full (blen b') (t_size t') then (t', URejected)
        else (set_bucket t' i' ((id, addr) :: b'), UAdded)
    end
  else (t, URejected).

(** [RouteTable.Remove]; the boolean says whether [rt.PeerRemoved] is called. *)
Definition remove (t : table) (id : peer_id) : table * bool :=
  let i := bucket_index kb_clamp_remove kb_clamp_remove_to t (cpl id (t_local t)) in
  let b := get_bucket t i in
  if has id b then (set_bucket t i (remove_first id b), true) else (t, false).

(** The two collecting loops of NearestPeers: take whole buckets while [pds.Len() < count]. *)
Fixpoint take_while_short (short : Z -> Z -> bool) (count : Z) (acc : list peer) (bs : list bucket)
  : list peer :=
  match bs with
  | [] => acc
  | b :: r => if short (blen acc) count then take_while_short short count (acc ++ b) r else acc
  end.

Definition wrap_int64 (z : Z) : Z := ((z + 2 ^ 63) mod 2 ^ 64 - 2 ^ 63)%Z.

Inductive nres := NPanic | NOk (out : list peer).

(** [RouteTable.NearestPeers].  [make(.., 0, count+rt.bucketsize)] panics when the (wrapping) sum
    is negative; [pds.peers[:count]] panics for a negative count.  (An absurdly large capacity
    would also make [make] fail; not modelled, the theorems bound [count].  The [make] panic
    happens between [tabLock.RLock()] and [RUnlock()] without a [defer], so after it every
    later Update/Remove blocks; not modelled either: histories keep [count + size >= 0].) *)
Definition nearest_peers (t : table) (target : peer_id) (count : Z) : nres :=
  let c := bucket_index kb_clamp_nearest kb_clamp_nearest_to t (cpl target (t_local t)) in
  if (wrap_int64 (count + t_size t) <? 0)%Z then NPanic else
  let p0 := get_bucket t c in
  let p1 := take_while_short kb_nearest_short_right count p0 (skipn (S c) (t_buckets t)) in
  let p2 := take_while_short kb_nearest_short_left count p1 (rev (firstn c (t_buckets t))) in
  let sorted := sort_by (dist_less target) p2 in
  if kb_nearest_truncate count (blen sorted) then
    (if (count <? 0)%Z then NPanic else NOk (firstn (Z.to_nat count) sorted))
  else NOk sorted.

(** ** Histories *)

Inductive op :=
| OUpdate (id : peer_id) (addr : N)
| ORemove (id : peer_id)
| ONearest (target : peer_id) (count : Z).

Inductive opres :=
| RUpdate (r : ures)
| RRemove (removed : bool)
| RNearest (r : nres).

Definition step (t : table) (o : op) : table * opres :=
  match o with
  | OUpdate id addr => let '(t', r) := update t id addr in (t', RUpdate r)
  | ORemove id => let '(t', r) := remove t id in (t', RRemove r)
  | ONearest target count => (t, RNearest (nearest_peers t target count))
  end.

Definition diverged (r : opres) : bool :=
  match r with RUpdate UDiverged => true | _ => false end.

(** Runs a history; stops at the first call that would not return. *)
Fixpoint run (t : table) (ops : list op) : table * list opres :=
  match ops with
  | [] => (t, [])
  | o :: r =>
      let '(t', res) := step t o in
      if diverged res then (t', [res])
      else let '(t'', rs) := run t' r in (t'', res :: rs)
  end.

(** [Some] final table iff every call of the history returns. *)
Definition exec (t : table) (ops : list op) : option table :=
  let '(t', rs) := run t ops in
  if existsb diverged rs then None else Some t'.
