(** Model of contract records, contract storage migration / destruction and the destroyed-contract
    marker of ontio/ontology (definitions only; proofs are in Proofs/C44Loop.v and Proofs/C44.v).

    Built on Model/KV.v (CacheDB over OverlayDB over LevelDB with the LIVE MemDB iterator and the
    exact JoinIter state machine). Mirrors

      smartcontract/storage/cachedb.go
         GetContract, PutContract, IsContractDestroyed, DeleteContract, SetContractDestroyed,
         UnsetContractDestroyed, MigrateContractStorage, CleanContractStorage,
         CleanContractStorageData, serializeStorageKey
      smartcontract/service/neovm/contract.go   ContractCreate, ContractMigrate, ContractDestory,
                                                ensureContractUndeployed
      smartcontract/service/neovm/storage.go    StoragePut, StorageDelete, checkStorageContext
      smartcontract/service/native/global_params  AddDestroyedContracts / RemoveDestroyedContracts
                                                (their effect on the CacheDB only)
      core/store/ledgerstore/tx_handler.go      HandleDeployTransaction (the part after the gas
                                                charge), HandleInvokeTransaction (commit on success)
      core/store/ledgerstore/ledger_store.go    executeBlock: cache.Reset() before every transaction

    The two loops are modelled as they are: a prefix iterator over the layered store is advanced
    with Next WHILE the loop body writes (Put new key / Delete old key) into the very cache the
    iterator reads.

    Conventions. An address is a byte string of length ADDR_LEN (common.Address is [20]byte; the
    length is a hypothesis of the theorems, the constant comes from the source). A contract record
    is the opaque serialisation of payload.DeployCode (PutContract writes it, GetContract reads
    it back; its Deserialization error branch is not modelled: only PutContract writes under
    ST_CONTRACT). The contract address is given, not computed (it is a hash of the code). Gas is
    not modelled (the transactions of the harness have gas price 0). *)
From Coq Require Import List Bool NArith String.
Import ListNotations.
From Ont Require Import Lib.Bytes Model.KV Gen.ContractConsts.
Local Open Scope N_scope.
Open Scope bool_scope.
Local Notation length := List.length.

Definition ST_STORAGE : N := C44_ST_STORAGE.
Definition ST_CONTRACT : N := C44_ST_CONTRACT.
Definition ST_DESTROYED : N := C44_ST_DESTROYED.
Definition ADDR_LEN : nat := C44_ADDR_LEN.

Definition is_addr (a : bytes) : bool := wf_bytes a && Nat.eqb (length a) ADDR_LEN.

(** * cachedb.go: contract record and destroyed marker *)

(** IsContractDestroyed: len(value) != 0 under ST_DESTROYED|addr *)
Definition is_destroyed (s : state) (a : bytes) : bool := negb (is_empty (cache_get ST_DESTROYED s a)).

(** GetContract: (record, destroyed). A destroyed address has no record, whatever is stored. *)
Definition get_contract (s : state) (a : bytes) : option bytes * bool :=
  if is_destroyed s a then (None, true)
  else let v := cache_get ST_CONTRACT s a in
       if is_empty v then (None, false) else (Some v, false).

(** PutContract (address = contract.Address(), value = the serialised DeployCode) *)
Definition put_contract (a code : bytes) (s : state) : state := cache_put ST_CONTRACT a code s.

(** SetContractDestroyed: the marker value is sink.WriteUint32(height), written only when
    config.GetTrackDestroyedContractHeight() <= height. *)
Definition marker (h : N) : bytes := le_encode C44_MARKER_LEN h.
Definition set_destroyed (track h : N) (a : bytes) (s : state) : state :=
  if track <=? h then cache_put ST_DESTROYED a (marker h) s else s.
Definition unset_destroyed (track h : N) (a : bytes) (s : state) : state :=
  if track <=? h then cache_delete ST_DESTROYED a s else s.

(** DeleteContract *)
Definition delete_contract (track h : N) (a : bytes) (s : state) : state :=
  set_destroyed track h a (cache_delete ST_CONTRACT a s).

(** * The loops: iterate a prefix while writing into the iterated cache *)

(** [live_loop]: `for has := iter.First(); has; has = iter.Next() { body(iter.Key(), iter.Value()) }`
    where the body performs the CacheDB writes [body key value]. [r] is the result of the last
    First/Next. One unit of [n] per iteration; fuel grows with the MemDB (two units per write,
    as in KV.live_drain). Second component: false when the model's fuel or [n] ran out. *)
Fixpoint live_loop (pfx : N) (body : bytes -> bytes -> list wr) (s : state) (fuel : nat) (it : iter) (r : ires)
         (n : nat) : state * bool :=
  match r with
  | RFalse => (s, true)
  | RFuel => (s, false)
  | RTrue =>
      match n with
      | O => (s, false)
      | S n' =>
          let ws := body (cache_iter_key it) (it_value it) in
          let s1 := apply_wrs pfx s ws in
          let fuel1 := (fuel + 2 * length ws)%nat in
          let '(it1, r1) := it_next (env_of s1) fuel1 it in
          live_loop pfx body s1 fuel1 it1 r1 n'
      end
  end.

(** iter := self.NewIterator(prefix); for has := iter.First(); ... *)
Definition iterate_writing (body : bytes -> bytes -> list wr) (prefix : bytes) (s : state) : state * bool :=
  let '(it1, r) := it_first (env_of s) (enough_fuel s) (cache_new_iterator ST_STORAGE s prefix) in
  live_loop ST_STORAGE body s (enough_fuel s) it1 r (S (state_size s)).

(** serializeStorageKey(newAddress, key[20:]) *)
Definition migrate_key (new key : bytes) : bytes := new ++ skipn C44_MIGRATE_KEY_SKIP key.

(** body of MigrateContractStorage: self.Put(newkey, val); self.Delete(key) *)
Definition migrate_body (new : bytes) (key val : bytes) : list wr := [WPut (migrate_key new key) val; WDel key].
(** body of CleanContractStorageData: self.Delete(iter.Key()) *)
Definition clean_body (key val : bytes) : list wr := [WDel key].

Definition migrate_contract_storage (track h : N) (old new : bytes) (s : state) : state * bool :=
  iterate_writing (migrate_body new) old (delete_contract track h old s).

Definition clean_contract_storage_data (a : bytes) (s : state) : state * bool :=
  iterate_writing clean_body a s.

Definition clean_contract_storage (track h : N) (a : bytes) (s : state) : state * bool :=
  clean_contract_storage_data a (delete_contract track h a s).

(** The call sequences of the mirrored functions as read from the source by the translator
    (Gen/ContractConsts.v); [calls_as_modelled] is what this file mirrors. A change of the
    sequence in the source breaks [Props.C44.c44_source_shape]. *)
Definition calls_as_modelled : list (list string) :=
  [ ["DeleteContract"; "NewIterator"; "First"; "Next"; "Key"; "Value"; "serializeStorageKey"; "Put"; "Delete"; "Release"; "Error"];
    ["NewIterator"; "First"; "Next"; "Delete"; "Key"; "Release"; "Error"];
    ["DeleteContract"; "CleanContractStorageData"];
    ["delete"; "SetContractDestroyed"] ]%string.
Definition calls_in_source : list (list string) :=
  [C44_MIGRATE_CALLS; C44_CLEAN_DATA_CALLS; C44_CLEAN_CALLS; C44_DELETE_CONTRACT_CALLS].

(** * NeoVM services and transactions *)

Inductive err := Refused | OutOfFuel.       (* OutOfFuel: the model ran out of fuel (never the code) *)
Inductive res := Ok (s : state) | Err (e : err).

(** states.GenRawStorageItem: StateVersion byte, then WriteVarBytes(value) *)
Definition varuint (n : N) : bytes :=
  if n <? 253 then [n]
  else if n <=? 65535 then 253 :: le_encode 2 n
  else if n <=? 4294967295 then 254 :: le_encode 4 n
  else 255 :: le_encode 8 n.
Definition raw_item (v : bytes) : bytes := C44_ITEM_VERSION :: varuint (N.of_nat (length v)) ++ v.

(** ensureContractUndeployed *)
Definition undeployed (s : state) (a : bytes) : bool :=
  match get_contract s a with (None, false) => true | _ => false end.

(** what checkStorageContext is meant to test: item != nil. AS WRITTEN it returns
    errors.NewDetailErr(err, ...) when `err != nil || item == nil`, and NewDetailErr(nil, ...) is
    nil: a missing or destroyed contract passes. [exec false] is the code as it is, [exec true]
    the code with the test effective (Storage.Put / Storage.Delete only). *)
Definition context_ok (s : state) (a : bytes) : bool :=
  match get_contract s a with (Some _, _) => true | _ => false end.

Definition of_loop (r : state * bool) : res := if snd r then Ok (fst r) else Err OutOfFuel.

(** One service call made by running code. [cur] is the executing contract
    (ContextRef.CurrentContext().ContractAddress): any address — the entry script of an invoke
    transaction runs under the hash of its own code without being deployed. *)
Inductive cop :=
| CCreate (a code : bytes)              (* Contract.Create *)
| CMigrate (cur new code : bytes)       (* Contract.Migrate from [cur] to the contract with address [new] *)
| CDestroy (cur : bytes)                (* Contract.Destroy *)
| CPut (cur k v : bytes)                (* Storage.Put with the context of [cur] *)
| CDelete (cur k : bytes)               (* Storage.Delete *)
| CAddDestroyed (a : bytes)             (* global_params AddDestroyedContracts (operator only) *)
| CRemoveDestroyed (a : bytes)          (* global_params RemoveDestroyedContracts (operator only) *)
| CCall (a : bytes).                    (* APPCALL a: NeoVmService.GetNeoContract(a) must find a record *)

Definition exec (strict : bool) (track h : N) (s : state) (o : cop) : res :=
  match o with
  | CCreate a code =>
      match get_contract s a with
      | (None, false) => Ok (put_contract a code s)
      | _ => Ok s
      end
  | CMigrate cur new code =>
      if undeployed s new then
        of_loop (migrate_contract_storage track h cur new (put_contract new code s))
      else Err Refused
  | CDestroy cur =>
      if context_ok s cur then of_loop (clean_contract_storage track h cur s) else Err Refused
  | CPut cur k v =>
      if negb strict || context_ok s cur then
        if C44_MAX_STORAGE_KEY <? N.of_nat (length k) then Err Refused
        else Ok (cache_put ST_STORAGE (cur ++ k) (raw_item v) s)
      else Err Refused
  | CDelete cur k =>
      if negb strict || context_ok s cur then Ok (cache_delete ST_STORAGE (cur ++ k) s) else Err Refused
  | CAddDestroyed a => Ok (set_destroyed track h a s)
  | CRemoveDestroyed a => Ok (unset_destroyed track h a s)
  | CCall a => if context_ok s a then Ok s else Err Refused
  end.

Fixpoint exec_all (strict : bool) (track h : N) (s : state) (ops : list cop) : res :=
  match ops with
  | [] => Ok s
  | o :: r => match exec strict track h s o with Ok s1 => exec_all strict track h s1 r | e => e end
  end.

Inductive tx :=
| TDeploy (a code : bytes)              (* deploy transaction, gas price 0 *)
| TInvoke (ops : list cop).             (* invoke transaction: the service calls its code makes *)

(** outcome of a transaction: committed, failed (state rolled back) or model fuel exhausted *)
Inductive outcome := Committed | Failed | NoFuel.

(** executeBlock: cache.Reset(); handleTransaction. HandleDeployTransaction: a destroyed address is
    refused; an existing record is kept; Commit. HandleInvokeTransaction: Commit only on success
    (the writes of a failed execution stay in the cache until the next Reset; they are dropped
    here at once, which is the same for every later observation). *)
Definition run_tx (strict : bool) (track h : N) (s : state) (t : tx) : state * outcome :=
  let s0 := cache_reset s in
  match t with
  | TDeploy a code =>
      match get_contract s0 a with
      | (_, true) => (s0, Failed)
      | (None, false) => (cache_commit (put_contract a code s0), Committed)
      | (Some _, false) => (cache_commit s0, Committed)
      end
  | TInvoke ops =>
      match exec_all strict track h s0 ops with
      | Ok s1 => (cache_commit s1, Committed)
      | Err Refused => (s0, Failed)
      | Err OutOfFuel => (s0, NoFuel)
      end
  end.

(** a block: transactions at one height; at the end the overlay is committed to the store
    (OverlayDB.CommitTo + BatchCommit) and the next block starts with a fresh OverlayDB *)
Record block := mkBlock { b_height : N; b_txs : list tx }.

Fixpoint run_txs (strict : bool) (track h : N) (s : state) (ts : list tx) : state * list outcome :=
  match ts with
  | [] => (s, [])
  | t :: r => let '(s1, o) := run_tx strict track h s t in
              let '(s2, os) := run_txs strict track h s1 r in (s2, o :: os)
  end.

Definition run_block (strict : bool) (track : N) (s : state) (b : block) : state * list outcome :=
  let '(s1, os) := run_txs strict track (b_height b) s (b_txs b) in (overlay_reset (overlay_commit (cache_reset s1)), os).

Fixpoint run_chain (strict : bool) (track : N) (s : state) (bs : list block) : state * list (list outcome) :=
  match bs with
  | [] => (s, [])
  | b :: r => let '(s1, o) := run_block strict track s b in
              let '(s2, os) := run_chain strict track s1 r in (s2, o :: os)
  end.

(** * Well-formed inputs (Go type invariants: an address is [20]byte, slices hold bytes, a serialised
    DeployCode is never empty) *)
Definition code_ok (c : bytes) : bool := wf_bytes c && negb (is_empty c).

Definition cop_wf (o : cop) : bool :=
  match o with
  | CCreate a code => is_addr a && code_ok code
  | CMigrate cur new code => is_addr cur && is_addr new && code_ok code
  | CDestroy cur => is_addr cur
  | CPut cur k v => is_addr cur && wf_bytes k && wf_bytes v
  | CDelete cur k => is_addr cur && wf_bytes k
  | CAddDestroyed a => is_addr a
  | CRemoveDestroyed a => is_addr a
  | CCall a => is_addr a
  end.

Definition tx_wf (t : tx) : bool :=
  match t with
  | TDeploy a code => is_addr a && code_ok code
  | TInvoke ops => forallb cop_wf ops
  end.

Definition block_wf (b : block) : bool := forallb tx_wf (b_txs b).

(** the operator-only call that lifts the marker of [a] *)
Definition cop_unsets (a : bytes) (o : cop) : bool :=
  match o with CRemoveDestroyed b => bytes_eqb b a | _ => false end.
Definition tx_unsets (a : bytes) (t : tx) : bool :=
  match t with TInvoke ops => existsb (cop_unsets a) ops | _ => false end.
Definition block_unsets (a : bytes) (b : block) : bool := existsb (tx_unsets a) (b_txs b).

(** service calls that would deploy at [a] or change storage under [a] *)
Definition cop_touches (a : bytes) (o : cop) : bool :=
  match o with
  | CPut c _ _ | CDelete c _ | CDestroy c => bytes_eqb c a
  | CMigrate _ n _ => bytes_eqb n a
  | _ => false
  end.
Definition tx_touches (a : bytes) (t : tx) : bool :=
  match t with
  | TDeploy b _ => bytes_eqb b a
  | TInvoke ops => existsb (cop_touches a) ops
  end.

(** service calls / transactions that need a contract record at [a] or would create one: deploy at
    [a], migrate onto [a], Contract.Destroy by [a], APPCALL of [a] *)
Definition cop_claims (a : bytes) (o : cop) : bool :=
  match o with
  | CDestroy c | CCall c => bytes_eqb c a
  | CMigrate _ n _ => bytes_eqb n a
  | _ => false
  end.
Definition tx_claims (a : bytes) (t : tx) : bool :=
  match t with
  | TDeploy b _ => bytes_eqb b a
  | TInvoke ops => existsb (cop_claims a) ops
  end.

(** observations *)
Definition contract_record (s : state) (a : bytes) : bytes := cache_get ST_CONTRACT s a.
Definition storage_at (s : state) (a sfx : bytes) : bytes := cache_get ST_STORAGE s (a ++ sfx).
