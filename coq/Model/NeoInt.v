(** Numeric encodings of ontio/ontology (property C21 and users of these conversions).

    Mirrors, as executable functions between [Z]/[N] and byte strings:
      - common/bigint.go            BigIntToNeoBytes / BigIntFromNeoBytes        ([neo_of_Z] / [Z_of_neo])
      - common/int128.go            I128FromBigInt, I128.ToBigInt, U128.ToBigInt,
                                    I128FromInt64, I128FromUint64
      - smartcontract/service/native/utils/serialization.go
                                    EncodeVarUint / DecodeVarUint / DecodeVarUintWrapping
                                    (with the part of ZeroCopySource.NextVarUint / NextVarBytes and
                                    ZeroCopySink.WriteVarBytes they use, as functions over the remaining bytes)
      - core/states/native_token_balance.go + storage_item.go + state_base.go
                                    MustToStorageItem / NativeTokenBalanceFromStorageItem,
                                    StorageItem.Serialization / Deserialization

    Self-contained: imports only Lib.Bytes and the standard library. Definitions only; the proofs are
    in Proofs/NeoInt.v. The numeric constants below are literals here; Props/C21.v proves them equal to
    the values regenerated from the source (Gen/NeoIntConsts.v) on every run.

    Conventions: a byte is an [N] below 256, byte strings are little-endian [list N]; a [*big.Int] is a [Z];
    Go's big.Int.Bytes() (big-endian, no leading zero byte) followed by bytesReverse/ToArrayReverse is
    [mag_bytes] (little-endian, no trailing zero byte). *)
From Coq Require Import List Bool Arith NArith ZArith.
Import ListNotations.
From Ont Require Import Lib.Bytes.
Local Open Scope N_scope.
Open Scope bool_scope.

(** * big.Int.Bytes(), reversed *)

(** Number of bytes of the magnitude: 0 for 0, otherwise floor(log2 n / 8) + 1. *)
Definition byte_len (n : N) : nat :=
  if n =? 0 then O else S (N.to_nat (N.log2 n / 8)).

Definition mag_bytes (n : N) : bytes := le_encode (byte_len n) n.

(** * common/bigint.go *)

(** [^b] on a byte. *)
Definition compl (b : N) : N := 255 - b.

(** The carry loop of BigIntToNeoBytes:
      for i := 0; i < len(bs); i++ { if bs[i] == 255 { bs[i] = 0 } else { bs[i] += 1; break } } *)
Fixpoint inc_le (bs : bytes) : bytes :=
  match bs with
  | [] => []
  | b :: r => if b =? 255 then 0 :: inc_le r else (b + 1) :: r
  end.

(** bs[len(bs)-1] *)
Definition last_byte (bs : bytes) : N := last bs 0.

(** BigIntToNeoBytes *)
Definition neo_of_Z (z : Z) : bytes :=
  let bs := mag_bytes (Z.abs_N z) in
  match bs with
  | [] => []                                             (* len(bs) == 0 *)
  | _ =>
    if (z <? 0)%Z then
      let cs := inc_le (map compl bs) in
      if last_byte cs <? 128 then cs ++ [255] else cs
    else
      if 128 <=? last_byte bs then bs ++ [0] else bs
  end.

(** BigIntFromNeoBytes. [bytes[0]>>7 == 1] on the reversed copy is the top bit of the last byte. *)
Definition Z_of_neo (ba : bytes) : Z :=
  match ba with
  | [] => 0%Z
  | _ =>
    if last_byte ba / 128 =? 1
    then (- Z.of_N (le_decode (map compl ba) + 1))%Z     (* -(SetBytes(^bytes) + 1) *)
    else Z.of_N (le_decode ba)
  end.

(** ** Specification-side notions used by the theorems (not in the Go code) *)

(** [z] fits in [n] bytes of two's complement: -2^(8n-1) <= z < 2^(8n-1), written without the
    exponent 8n-1 so that n = 0 means exactly z = 0. *)
Definition neo_fits (n : nat) (z : Z) : Prop :=
  (- 256 ^ Z.of_nat n <= 2 * z < 256 ^ Z.of_nat n)%Z.

(** Two's-complement value of a byte string: unsigned value minus 256^len when the top bit is set. *)
Definition tc_value (b : bytes) : Z :=
  (Z.of_N (le_decode b) - (if (128 <=? last_byte b)%N then 256 ^ Z.of_nat (length b) else 0))%Z.

(** Removing redundant sign bytes, on the big-endian (reversed) list: a leading 0x00 before a byte
    below 128 (or alone), a leading 0xff before a byte of at least 128. *)
Fixpoint trim_be (c : bytes) : bytes :=
  match c with
  | [] => []
  | t :: r =>
    match r with
    | [] => if t =? 0 then [] else [t]
    | u :: _ =>
      if ((t =? 0) && (u <? 128)) || ((t =? 255) && (128 <=? u)) then trim_be r else c
    end
  end.
Definition neo_trim (b : bytes) : bytes := rev (trim_be (rev b)).

(** A byte string is the minimal encoding of its value. *)
Definition neo_canonical (b : bytes) : bool :=
  match rev b with
  | [] => true
  | [t] => negb (t =? 0)
  | t :: u :: _ => negb (((t =? 0) && (u <? 128)) || ((t =? 255) && (128 <=? u)))
  end.

(** * common/int128.go *)

Definition i128_size : nat := 16.                       (* I128_SIZE *)
Definition pow128 : Z := 2 ^ 128.                       (* bigPow(2, 128) *)
Definition maxI128 : Z := 2 ^ 127 - 1.                  (* bigPow(2, 127) - 1 *)
Definition minI128 : Z := - 2 ^ 127.                    (* -bigPow(2, 127) *)

(** copy(u128[:], buf) into a zeroed array of [w] bytes. *)
Definition copy_fixed (w : nat) (buf : bytes) : bytes :=
  firstn w buf ++ repeat 0 (w - length buf).

(** I128FromBigInt; [None] is the error "big int out of i128 range". *)
Definition i128_of_Z (val : Z) : option bytes :=
  if (maxI128 <? val)%Z || (val <? minI128)%Z then None
  else
    let v := if (val <? 0)%Z then (val + pow128)%Z else val in
    Some (copy_fixed i128_size (mag_bytes (Z.to_N v))).

(** U128.ToBigInt: SetBytes(reverse(self ++ [0])) *)
Definition Z_of_u128 (b : bytes) : Z := Z.of_N (le_decode (b ++ [0])).

(** I128.ToBigInt *)
Definition Z_of_i128 (b : bytes) : Z :=
  let v := Z_of_u128 b in
  if (maxI128 <? v)%Z then (v - pow128)%Z else v.

(** I128FromUint64 *)
Definition i128_of_uint64 (v : N) : bytes := le_encode 8 v ++ repeat 0 8.

(** I128FromInt64: oneBits128 when negative, then PutUint64 of uint64(val) over the low 8 bytes. *)
Definition i128_of_int64 (z : Z) : bytes :=
  le_encode 8 (Z.to_N (z mod 2 ^ 64)) ++ repeat (if (z <? 0)%Z then 255 else 0) 8.

(** * ZeroCopySink.WriteVarUint / WriteVarBytes and ZeroCopySource.NextVarUint / NextVarBytes,
      as functions over the remaining bytes (the parts used by the native codec and by StorageItem) *)

Definition nv_write_varuint (v : N) : bytes :=
  if v <? 253 then [v]
  else if v <=? 65535 then 253 :: le_encode 2 v
  else if v <=? 4294967295 then 254 :: le_encode 4 v
  else 255 :: le_encode 8 v.

Definition nv_write_varbytes (d : bytes) : bytes :=
  nv_write_varuint (N.of_nat (length d)) ++ d.

Definition nv_getVarUintSize (v : N) : N :=
  if v <? 253 then 1 else if v <=? 65535 then 3 else if v <=? 4294967295 then 5 else 9.

(** NextBytes(n) when it does not hit the end: (data, rest). *)
Definition nv_take (n : N) (b : bytes) : option (bytes * bytes) :=
  if n <=? N.of_nat (length b)
  then Some (firstn (N.to_nat n) b, skipn (N.to_nat n) b) else None.

(** NextVarUint: [None] = eof, otherwise (data, irregular, rest). *)
Definition nv_next_varuint (b : bytes) : option (N * bool * bytes) :=
  match b with
  | [] => None
  | fb :: r =>
    let fixed (w : nat) (size : N) :=
      match nv_take (N.of_nat w) r with
      | None => None
      | Some (x, r') => let v := le_decode x in Some (v, negb (size =? nv_getVarUintSize v), r')
      end in
    if fb =? 253 then fixed 2%nat 3
    else if fb =? 254 then fixed 4%nat 5
    else if fb =? 255 then fixed 8%nat 9
    else Some (fb, negb (1 =? nv_getVarUintSize fb), r)
  end.

(** NextVarBytes: (data, irregular, eof, rest). When the count passes the end NextBytes returns the
    clamped remainder and eof. *)
Definition nv_next_varbytes (b : bytes) : bytes * bool * bool * bytes :=
  match nv_next_varuint b with
  | None => ([], false, true, [])
  | Some (count, irr, r) =>
    if 0 <? count then
      match nv_take count r with
      | Some (d, r') => (d, irr, false, r')
      | None => (r, irr, true, [])
      end
    else ([], irr, false, r)
  end.

(** * smartcontract/service/native/utils/serialization.go *)

Definition two64Z : Z := 18446744073709551616.          (* 2^64: bound of uint64 / IsUint64 *)

(** EncodeVarUint(sink, value uint64) *)
Definition encode_varuint (v : N) : bytes :=
  nv_write_varbytes (neo_of_Z (Z.of_N v)).

Inductive nverr := NvEof | NvIrregular | NvNotUint64 | NvNegative.

(** DecodeVarUint: eof is tested before irregular. Result: value and remaining bytes. *)
Definition decode_varuint (b : bytes) : (N * bytes) + nverr :=
  let '(value, irr, eof, rest) := nv_next_varbytes b in
  if eof then inr NvEof
  else if irr then inr NvIrregular
  else
    let v := Z_of_neo value in
    if (v <? 0)%Z || negb (v <? two64Z)%Z then inr NvNotUint64
    else inl (Z.to_N v, rest).

(** The payload DecodeVarUint hands to BigIntFromNeoBytes (specification side). *)
Definition varuint_payload (b : bytes) : bytes :=
  let '(value, _, _, _) := nv_next_varbytes b in value.

(** DecodeVarUintWrapping: only negative values are refused; v.Uint64() keeps the low 64 bits. *)
Definition decode_varuint_wrapping (b : bytes) : (N * bytes) + nverr :=
  let '(value, irr, eof, rest) := nv_next_varbytes b in
  if eof then inr NvEof
  else if irr then inr NvIrregular
  else
    let v := Z_of_neo value in
    if (v <? 0)%Z then inr NvNegative
    else inl (Z.to_N (v mod two64Z), rest).

(** * core/states: StorageItem and NativeTokenBalance *)

Definition ScaleFactor : Z := 1000000000.
Definition DefaultVersion : N := 0.
Definition ScaleDecimal9Version : N := 1.

Record storage_item := mkItem { state_version : N; item_value : bytes }.

(** StorageItem.Serialization: WriteByte(StateVersion); WriteVarBytes(Value) *)
Definition item_to_bytes (it : storage_item) : bytes :=
  [state_version it] ++ nv_write_varbytes (item_value it).

Inductive itemerr := ItEofVersion | ItIrregular | ItEof.

(** StorageItem.Deserialization: irregular is tested before eof here. Result: item and remaining bytes. *)
Definition item_of_bytes (b : bytes) : (storage_item * bytes) + itemerr :=
  match b with
  | [] => inr ItEofVersion
  | ver :: r =>
    let '(value, irr, eof, rest) := nv_next_varbytes r in
    if irr then inr ItIrregular
    else if eof then inr ItEof
    else inl (mkItem ver value, rest)
  end.

(** IsFloat: !Balance.Mod(ScaleFactor).IsZero()  (big.Int.Mod is Euclidean; the divisor is positive) *)
Definition balance_is_float (b : Z) : bool := negb ((b mod ScaleFactor) =? 0)%Z.

(** MustToStorageItem; [None] is the panic "too large token balance" of MustToInteger64
    (big.Int.Div is Euclidean: floor for a positive divisor, so a negative multiple also panics). *)
Definition balance_to_item (b : Z) : option storage_item :=
  if balance_is_float b then Some (mkItem ScaleDecimal9Version (neo_of_Z b))
  else
    let val := (b / ScaleFactor)%Z in
    if (0 <=? val)%Z && (val <? two64Z)%Z                    (* val.IsUint64() *)
    then Some (mkItem DefaultVersion (le_encode 8 (Z.to_N val)))
    else None.

Inductive balerr := BalEof | BalNegative.

(** NativeTokenBalanceFromStorageItem: version 0 reads the first 8 bytes (the rest is ignored), any
    other version is read as a NeoVM integer. *)
Definition balance_of_item (it : storage_item) : Z + balerr :=
  if state_version it =? DefaultVersion then
    match nv_take 8 (item_value it) with
    | None => inr BalEof
    | Some (x, _) => inl (Z.of_N (le_decode x) * ScaleFactor)%Z
    end
  else
    let bal := Z_of_neo (item_value it) in
    if (bal <? 0)%Z then inr BalNegative else inl bal.

(** MustToStorageItemBytes *)
Definition balance_to_bytes (b : Z) : option bytes :=
  match balance_to_item b with Some it => Some (item_to_bytes it) | None => None end.

Inductive rawerr := RawItem (e : itemerr) | RawBal (e : balerr).

(** GetStorageItem + NativeTokenBalanceFromStorageItem on raw stored bytes (trailing bytes ignored). *)
Definition balance_of_bytes (raw : bytes) : Z + rawerr :=
  match item_of_bytes raw with
  | inr e => inr (RawItem e)
  | inl (it, _) =>
    match balance_of_item it with
    | inl b => inl b
    | inr e => inr (RawBal e)
    end
  end.

(** Specification side: the items MustToStorageItem can produce (see Proofs/NeoInt.v). *)
Definition balance_item_canonical (it : storage_item) : bool :=
  if state_version it =? DefaultVersion then (length (item_value it) =? 8)%nat
  else (state_version it =? ScaleDecimal9Version) && neo_canonical (item_value it)
       && balance_is_float (Z_of_neo (item_value it)).

(** Well-formed item: version is a byte, value is a byte string. *)
Definition wf_item (it : storage_item) : bool :=
  (state_version it <? 256) && wf_bytes (item_value it).
