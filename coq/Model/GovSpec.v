(** Specification-side definitions for the governance model: the quantities the property
    talks about and the invariants.  Definitions only. *)
From Coq Require Import List NArith Bool.
Import ListNotations.
From Ont Require Import Lib.AList Gen.GovConsts Model.Gov.
Local Open Scope N_scope.

(** ONT (whole units) held by the governance contract address. *)
Definition gov_balance (s : state) : N := nget GOV (s_ont s).
(** sum of all addresses' recorded total stakes *)
Definition sum_stakes (s : state) : N := asum (fun _ v => v) (s_stakes s).
(** sum of all penalty stakes (initPos part + authorize part) *)
Definition sum_pens (s : state) : N := asum (fun _ (v : N * N) => fst v + snd v) (s_pens s).
(** all ONT in the ledger *)
Definition ont_total (s : state) : N := asum (fun _ v => v) (s_ont s).

(** C11, first clause. *)
Definition inv_balance (s : state) : Prop := gov_balance s = sum_stakes s + sum_pens s.
(** The ONT ledger never holds more than the total supply (true of the real ledger: ont.OntInit
    distributes exactly ONT_TOTAL_SUPPLY and transfers conserve the sum). *)
Definition supply_ok (s : state) : Prop := ont_total s <= ONT_TOTAL_SUPPLY.

Definition inv1 (s : state) : Prop := inv_balance s /\ supply_ok s.

(** ** per-address and per-peer accounting *)
Definition all6 (i : infov) : N := i_cons i + i_cand i + i_new i + i_wcons i + i_wcand i + i_wunf i.
Definition act3 (i : infov) : N := i_cons i + i_cand i + i_new i.

(** all position buckets of address [a], over all peers *)
Definition positions_of (a : N) (s : state) : N :=
  asum (fun (k : N * N) i => if snd k =? a then all6 i else 0) (s_infos s).
(** initPos of the pool peers owned by [a] *)
Definition owned_init (a : N) (s : state) : N :=
  asum (fun _ p => if p_owner p =? a then p_init p else 0) (s_pool s).
(** active (Consensus+Candidate+New) positions all authorizers hold on peer [k] *)
Definition active_of (k : N) (s : state) : N :=
  asum (fun (key : N * N) i => if fst key =? k then act3 i else 0) (s_infos s).
Definition total_of (k : N) (s : state) : N :=
  match pget k (s_pool s) with Some p => p_total p | None => 0 end.

(** total stake of every address = its positions + the initPos of the peers it owns *)
Definition inv_address (s : state) : Prop :=
  forall a, nget a (s_stakes s) = positions_of a s + owned_init a s.
(** pool_pos_consistent: TotalPos of every peer = sum of its authorizers' active positions
    (0 for a peer that is not in the pool) *)
Definition pool_pos_consistent (s : state) : Prop :=
  forall k, active_of k s = total_of k s.

(** Parameters the code keeps within these bounds (UpdateGlobalParam / UpdateGlobalParam2 /
    InitConfig check them; this model has no operation that changes them). *)
Definition params_ok (p : params) : Prop :=
  g_penalty p <= 100 /\ 1 <= g_minAuthPos p /\ 1 <= g_posLimit p /\ g_posLimit p < W32.

(** What a transaction cannot do: be signed by the governance contract address (no key exists
    for a contract address), and - for the admin's transferPenalty - we consider destinations
    other than the governance contract itself. *)
Definition op_ok (o : op) : Prop :=
  match o with
  | ORegister sg _ _ _ _ _ | OUnRegister sg _ _ | OApprove sg _ | OReject sg _
  | OAuthorize sg _ _ _ | OUnAuthorize sg _ _ _ | OWithdraw sg _ _ _ | OQuit sg _ _
  | OBlack sg _ | OWhite sg _ | OCommit sg | OMaxAuth sg _ _ _ | OAddInit sg _ _ _
  | OReduceInit sg _ _ _ => sg <> GOV
  | OPenalty sg _ a => sg <> GOV /\ a <> GOV
  end.

(** ONT paid out of governance to [a] by one successful step (ledger difference). *)
Definition paid_to (a : N) (s s' : state) : N := nget a (s_ont s') - nget a (s_ont s).
(** unfrozen positions of [a] on the peers named in a withdraw request *)
Definition unfrozen_of (a : N) (s : state) : N :=
  asum (fun (k : N * N) i => if snd k =? a then i_wunf i else 0) (s_infos s).
