(** Model/Vbft.v — executable model of one VBFT height: the per-node DECISION logic of
    consensus/vbft/service.go (processMsgEvent, the timeout handlers of processTimerEvent,
    endorseBlock, commitBlock, sealBlock, the SealBlock/EndorseBlock actions) on top of the block-pool
    bookkeeping of Model/VbftPool.v (C31), the endorsed/committed/sealed marks of block_pool.go
    (setProposalEndorsed, setProposalCommitted, setBlockSealed), a message pool (msg_pool.go: AddMsg
    with duplicate suppression, GetEndorsementsMsgs, GetProposalMsgs) and a network that may
    delay, drop, duplicate and reorder. Definitions only; proofs are in Proofs/C34.v.

    NOT modelled (property C34 is carried partially, see Props/C34.v): timers (every timeout is an
    event that may fire at any time), p2p transport, heartbeats and peer liveness (all peers count
    as alive and active, so the leader is Proposers[0]), the state manager and the syncer (a node is
    always in state Synced; fastForwardBlock / FastForward / ReBroadcast actions are absent),
    proposal validation in processProposalMsg (prev-hash, VRF, timestamps: every proposal is
    assumed acceptable), transaction selection, the chain store and the ledger.

    Blocks and signatures are abstract. A block hash identifies the block, hence its proposer and
    whether it is the proposal's empty block; [b_variant] stands for the rest of the content (two
    proposals of one proposer differ in it). A signature is the pair (signing key's peer index,
    signed block); a signer index that is no consensus peer stands for bytes that verify under
    no key. *)
From Coq Require Import List Bool NArith ZArith.
Import ListNotations.
From Ont Require Import Gen.Thresholds Gen.VbftIntake Gen.VbftMarks Model.VbftPool.
Local Open Scope N_scope.

(** * Blocks, signatures, messages *)
Record blk := mkBlk { b_proposer : N; b_variant : N; b_empty : bool }.
Definition sg := (N * blk)%type.

Definition blk_eqb (a b : blk) : bool :=
  (b_proposer a =? b_proposer b) && (b_variant a =? b_variant b) && eqb (b_empty a) (b_empty b).
Definition sg_eqb (a b : sg) : bool := (fst a =? fst b) && blk_eqb (snd a) (snd b).

(** An id for the 32 hash bytes (only compared for equality by newBlockCommitment). *)
Definition hash_id (h : blk) : N := (b_proposer h * U32 + b_variant h) * 2 + (if b_empty h then 1 else 0).

(** blockProposalMsg (block and empty block of proposer [p], content [k], header signatures made
    with the key of [signer]); blockEndorseMsg (Endorser, EndorsedProposer, EndorseForEmpty,
    EndorsedBlockHash, EndorserSig); blockCommitMsg (Committer, BlockProposer, CommitForEmpty,
    CommitBlockHash, CommitterSig, EndorsersSig). *)
Inductive msg :=
| MProposal (p k signer : N)
| MEndorse (endorser p : N) (e : bool) (h : blk) (s : sg)
| MCommit (committer p : N) (e : bool) (h : blk) (s : sg) (ends : list (N * sg)).

Fixpoint ends_eqb (a b : list (N * sg)) : bool :=
  match a, b with
  | [], [] => true
  | x :: r, y :: r' => (fst x =? fst y) && sg_eqb (snd x) (snd y) && ends_eqb r r'
  | _, _ => false
  end.

Definition msg_eqb (a b : msg) : bool :=
  match a, b with
  | MProposal p k s, MProposal p' k' s' => (p =? p') && (k =? k') && (s =? s')
  | MEndorse en p e h s, MEndorse en' p' e' h' s' =>
      (en =? en') && (p =? p') && eqb e e' && blk_eqb h h' && sg_eqb s s'
  | MCommit cm p e h s ends, MCommit cm' p' e' h' s' ends' =>
      (cm =? cm') && (p =? p') && eqb e e' && blk_eqb h h' && sg_eqb s s' && ends_eqb ends ends'
  | _, _ => false
  end.

(** Every signature a message carries. *)
Definition sigs_of (m : msg) : list sg :=
  match m with
  | MProposal p k signer => [(signer, mkBlk p k false); (signer, mkBlk p k true)]
  | MEndorse _ _ _ _ s => [s]
  | MCommit _ _ _ _ s ends => s :: map snd ends
  end.

(** msg.Verify(pk) in the receive loop of Server.run: pk is the key of the sending peer, for
    proposals the key of the block's proposer. Only the message's own signature over the hash the
    message carries is checked (Gen/VbftIntake.v re-reads that from the source). *)
Definition verify_ok (from : N) (m : msg) : bool :=
  match m with
  | MProposal p _ signer => signer =? p
  | MEndorse _ _ _ h s => sg_eqb s (from, h)
  | MCommit _ _ _ h s _ => sg_eqb s (from, h)
  end.

(** The ghost validity bit of Model/VbftPool.v: the signature filed under index [who] is a
    signature of [who] over the hash the message carries, and that hash is the hash of a block
    (empty block, by the flag) of the proposer the message names. *)
Definition blk_for (h : blk) (p : N) (e : bool) : bool := (b_proposer h =? p) && eqb (b_empty h) e.
Definition sig_valid (s : sg) (who : N) (h : blk) (p : N) (e : bool) : bool :=
  (fst s =? who) && blk_eqb (snd s) h && blk_for h p e.

(** What processMsgEvent hands to the pool. The message passed the receive check (or is the
    node's own), so the [ok] flag of the pool operation is [true]. *)
Definition to_op (m : msg) : op :=
  match m with
  | MProposal p k signer => OpProposal true (mkPP p k (signer =? p))
  | MEndorse en p e h s => OpEndorse en true (mkEM en p e (sig_valid s en h p e))
  | MCommit cm p e h s ends =>
      OpCommit cm true (mkCM cm p (hash_id h) e (sig_valid s cm h p e)
                          (map (fun x => (fst x, sig_valid (snd x) (fst x) h p e)) ends))
  end.

(** * Static parameters of the height *)
Record params := mkParams {
  P_n : N; P_c : N;
  P_peers : list N;        (* consensus peer indices *)
  P_byz : list N;          (* the faulty ones *)
  P_proposers : list N; P_endorsers : list N; P_committers : list N  (* BlockParticipantConfig *)
}.

Definition honestb (P : params) (i : N) : bool := memN i (P_peers P) && negb (memN i (P_byz P)).
Definition all_active (P : params) (id : N) : bool := memN id (P_peers P).
(** Server.isEndorser / isCommitter / isProposer with every peer alive and active. *)
Definition isE (P : params) (i : N) : bool := is_endorser (P_c P) (all_active P) (P_endorsers P) i.
Definition isC (P : params) (i : N) : bool := is_endorser (P_c P) (all_active P) (P_committers P) i.
Definition is_leader (P : params) (i : N) : bool :=
  match find (all_active P) (P_proposers P) with Some l => i =? l | None => false end.

(** getProposerRankLocked / getHighestRankProposal *)
Fixpoint rank_in (l : list N) (i : N) : nat :=
  match l with [] => 0%nat | x :: r => if x =? i then 0%nat else S (rank_in r i) end.
Fixpoint highest_rank (props : list N) (l : list proposal) (best : option (nat * proposal)) : option proposal :=
  match l with
  | [] => match best with Some (_, p) => Some p | None => None end
  | p :: r =>
      let rk := rank_in props (pp_proposer p) in
      match best with
      | Some (rb, _) => if Nat.ltb rk rb then highest_rank props r (Some (rk, p)) else highest_rank props r best
      | None => highest_rank props r (Some (rk, p))
      end
  end.

(** * Node state *)
Inductive action := ASeal (p k : N) (e : bool) | AEndorse (p k : N) (e : bool).
Inductive skind := SPropose | SEndorse | SCommit.

Record node := mkNode {
  n_ops : list op;                   (* what the pool was given, in order: pool = run_ops n_ops *)
  n_msgs : list msg;                 (* MsgPool round *)
  n_endorsed : option (N * N);       (* CandidateInfo.EndorsedProposal (proposer, content) *)
  n_endorsed_empty : option (N * N); (* EndorsedEmptyProposal *)
  n_committed : option (N * N) * option (N * N); (* (CommittedProposal, CommittedEmptyProposal) *)
  n_commit_done : bool;              (* CandidateInfo.commitDone *)
  n_sealed : option blk;             (* CandidateInfo.SealedBlock; afterwards currentBlockNum moved on *)
  n_q : list msg;                    (* Server.msgC *)
  n_actions : list action;           (* Server.bftActionC (SealBlock, EndorseBlock) *)
  n_signed : list (skind * blk);     (* ghost: every block this node's key signed *)
  n_seen : list msg                  (* ghost: every message ever put into msgC or the MsgPool *)
}.

Definition node0 : node := mkNode [] [] None None (None, None) false None [] [] [] [].

Definition pool (nd : node) : cand := run_ops (n_ops nd) cand_empty.
Definition is_some {A} (o : option A) : bool := match o with Some _ => true | None => false end.

(** candidateBlocks[blkNum] exists once anything was handed to the pool for the height. *)
Definition has_cand (nd : node) : bool := negb (match n_ops nd with [] => true | _ => false end).

Definition endorsed_for_block (nd : node) : bool := is_some (n_endorsed nd) || is_some (n_endorsed_empty nd).
Definition endorsed_for_empty (nd : node) : bool := is_some (n_endorsed_empty nd).
Definition committed_for_block (nd : node) : bool :=
  is_some (fst (n_committed nd)) || is_some (snd (n_committed nd)).

(** field updates *)
Definition upd_ops (nd : node) v := mkNode v (n_msgs nd) (n_endorsed nd) (n_endorsed_empty nd) (n_committed nd)
  (n_commit_done nd) (n_sealed nd) (n_q nd) (n_actions nd) (n_signed nd) (n_seen nd).
Definition upd_msgs (nd : node) v := mkNode (n_ops nd) v (n_endorsed nd) (n_endorsed_empty nd) (n_committed nd)
  (n_commit_done nd) (n_sealed nd) (n_q nd) (n_actions nd) (n_signed nd) (n_seen nd).
Definition upd_endorsed (nd : node) v := mkNode (n_ops nd) (n_msgs nd) v (n_endorsed_empty nd) (n_committed nd)
  (n_commit_done nd) (n_sealed nd) (n_q nd) (n_actions nd) (n_signed nd) (n_seen nd).
Definition upd_endorsed_empty (nd : node) v := mkNode (n_ops nd) (n_msgs nd) (n_endorsed nd) v (n_committed nd)
  (n_commit_done nd) (n_sealed nd) (n_q nd) (n_actions nd) (n_signed nd) (n_seen nd).
Definition upd_committed (nd : node) v := mkNode (n_ops nd) (n_msgs nd) (n_endorsed nd) (n_endorsed_empty nd) v
  (n_commit_done nd) (n_sealed nd) (n_q nd) (n_actions nd) (n_signed nd) (n_seen nd).
Definition upd_commit_done (nd : node) v := mkNode (n_ops nd) (n_msgs nd) (n_endorsed nd) (n_endorsed_empty nd)
  (n_committed nd) v (n_sealed nd) (n_q nd) (n_actions nd) (n_signed nd) (n_seen nd).
Definition upd_sealed (nd : node) v := mkNode (n_ops nd) (n_msgs nd) (n_endorsed nd) (n_endorsed_empty nd)
  (n_committed nd) (n_commit_done nd) v (n_q nd) (n_actions nd) (n_signed nd) (n_seen nd).
Definition upd_q (nd : node) v := mkNode (n_ops nd) (n_msgs nd) (n_endorsed nd) (n_endorsed_empty nd)
  (n_committed nd) (n_commit_done nd) (n_sealed nd) v (n_actions nd) (n_signed nd) (n_seen nd).
Definition upd_actions (nd : node) v := mkNode (n_ops nd) (n_msgs nd) (n_endorsed nd) (n_endorsed_empty nd)
  (n_committed nd) (n_commit_done nd) (n_sealed nd) (n_q nd) v (n_signed nd) (n_seen nd).
Definition upd_signed (nd : node) v := mkNode (n_ops nd) (n_msgs nd) (n_endorsed nd) (n_endorsed_empty nd)
  (n_committed nd) (n_commit_done nd) (n_sealed nd) (n_q nd) (n_actions nd) v (n_seen nd).
Definition upd_seen (nd : node) v := mkNode (n_ops nd) (n_msgs nd) (n_endorsed nd) (n_endorsed_empty nd)
  (n_committed nd) (n_commit_done nd) (n_sealed nd) (n_q nd) (n_actions nd) (n_signed nd) v.

(** * The marks of block_pool.go *)

(** setProposalEndorsed: [None] is the error return. *)
Definition set_proposal_endorsed (nd : node) (p k : N) (forEmpty : bool) : option node :=
  if negb (has_cand nd) then None
  else if negb forEmpty then
    match n_endorsed nd with
    | None => Some (upd_endorsed nd (Some (p, k)))
    | Some (p', _) => if p' =? p then Some nd else None
    end
  else
    match n_endorsed_empty nd with
    | Some _ => None
    | None => Some (upd_endorsed_empty nd (Some (p, k)))
    end.

(** setProposalCommitted, statement by statement. The first test is the only place where "the
    first commit of the height wins" is decided atomically (the function holds the pool's write
    lock; commitBlock's own pre-check is made under a read lock that is released before signing):
    whether the current source still has it is read from the AST (Gen/VbftMarks.v). The per-kind
    tests after it are dead code while it is there. *)
Definition set_proposal_committed (nd : node) (p k : N) (forEmpty : bool) : option node :=
  let '(cb, ce) := n_committed nd in
  if negb (has_cand nd) then None
  else if set_committed_cross_kind_guard && (is_some cb || is_some ce) then None
  else if forEmpty then
    match ce with
    | Some (p', _) => if negb (p' =? p) then None else Some (upd_committed nd (cb, Some (p, k)))
    | None => Some (upd_committed nd (cb, Some (p, k)))
    end
  else
    match cb with
    | Some (p', _) => if negb (p' =? p) then None else Some (upd_committed nd (Some (p, k), ce))
    | None => Some (upd_committed nd (Some (p, k), ce))
    end.

(** setBlockSealed: single seal per height (a second seal of the same proposer is a silent no-op,
    of another proposer an error). *)
Definition set_block_sealed (nd : node) (p k : N) (forEmpty : bool) : option node :=
  match n_sealed nd with
  | Some b => if b_proposer b =? p then Some nd else None
  | None => Some (upd_sealed nd (Some (mkBlk p k forEmpty)))
  end.

(** * BlockPool.endorseFailed (the result does not depend on the map iteration order: the early
    return inside the loop fires iff the final count exceeds C+1). uint32 arithmetic. *)
Definition ef_counts (es : list (N * list esig)) : list (N * N) * N :=
  fold_left (fun acc kv =>
    fold_left (fun a s => if es_empty s then (fst a, snd a + 1) else (nincr (es_proposer s) (fst a), snd a))
              (snd kv) acc) es ([], 0).

Definition endorse_failed (st : cand) (c : N) : bool :=
  let es := c_esigs st in
  if N.of_nat (length es) <? (c + 1) mod U32 then false
  else
    let '(pc, emptyCnt) := ef_counts es in
    if existsb (fun kv => (c + 1) mod U32 <? snd kv) pc then false
    else if (c + 1) mod U32 <? N.of_nat (length pc) then true
    else if c <? emptyCnt then true
    else
      let l := ((2 * c + 1) mod U32 + U32 - N.of_nat (length es) mod U32) mod U32 in
      negb (existsb (fun kv => c <? (snd kv + l) mod U32) pc).

(** * MsgPool *)
Definition has_msg (m : msg) (l : list msg) : bool := existsb (msg_eqb m) l.
Definition add_msg (m : msg) (l : list msg) : list msg := if has_msg m l then l else l ++ [m].

(** Server.findBlockProposal: the pool's proposals first, then the MsgPool's. *)
Definition find_proposal (nd : node) (p : N) : option N :=
  match find (fun q => pp_proposer q =? p) (c_proposals (pool nd)) with
  | Some q => Some (pp_sig q)
  | None =>
      match find (fun m => match m with MProposal p' _ _ => p' =? p | _ => false end) (n_msgs nd) with
      | Some (MProposal _ k _) => Some k
      | _ => None
      end
  end.

(** * endorseBlock, commitBlock (service.go) *)

(** The state change both share: the node's own new message [m], whose own signature is over [h],
    goes to msgC (processConsensusMsg) and, when it is broadcast, to the MsgPool. *)
Definition emit (nd : node) (kd : skind) (h : blk) (m : msg) (bc : bool) : node :=
  let nd2 := upd_seen (upd_signed (upd_q nd (n_q nd ++ [m])) (n_signed nd ++ [(kd, h)])) (n_seen nd ++ [m]) in
  if bc then upd_msgs nd2 (add_msg m (n_msgs nd2)) else nd2.

Definition endorse_block (P : params) (self : N) (nd : node) (p k : N) (forEmpty : bool) : node * list msg :=
  if p =? self then (nd, [])
  else if (negb forEmpty && endorsed_for_block nd) || (forEmpty && endorsed_for_empty nd) then (nd, [])
  else
    let fe := if negb forEmpty && endorse_failed (pool nd) (P_c P) then true else forEmpty in
    let h := mkBlk p k fe in
    let m := MEndorse self p fe h (self, h) in
    match set_proposal_endorsed nd p k fe with
    | None => (nd, [])
    | Some nd1 => let bc := fe || isE P self in (emit nd1 SEndorse h m bc, if bc then [m] else [])
    end.

(** EndorsersSig of the commit message: the endorsements in the MsgPool for the same hash and flag,
    keyed by Endorser (a later one replaces an earlier one). *)
Definition collect_ends (msgs : list msg) (h : blk) (forEmpty : bool) : list (N * sg) :=
  fold_left (fun acc m =>
    match m with
    | MEndorse en _ e h' s => if blk_eqb h' h && eqb e forEmpty then aset en s acc else acc
    | _ => acc
    end) msgs [].

(** commitBlock after its pre-check: collect the endorsements, sign, setProposalCommitted, msgC,
    broadcast. *)
Definition commit_tail (P : params) (self : N) (nd : node) (p k : N) (forEmpty : bool) : node * list msg :=
  let h := mkBlk p k forEmpty in
  let m := MCommit self p forEmpty h (self, h) (collect_ends (n_msgs nd) h forEmpty) in
  match set_proposal_committed nd p k forEmpty with
  | None => (nd, [])
  | Some nd1 => let bc := forEmpty || isC P self in (emit nd1 SCommit h m bc, if bc then [m] else [])
  end.

Definition commit_block (P : params) (self : N) (nd : node) (p k : N) (forEmpty : bool) : node * list msg :=
  if p =? self then (nd, [])
  else if committed_for_block nd then (nd, [])     (* the pre-check, under a read lock *)
  else commit_tail P self nd p k forEmpty.

(** commitBlock is reached from the message loop, the timer loop and the action loop, and its
    pre-check is not atomic with the rest: a loop that made its decision and passed the pre-check
    earlier may run the rest now (whatever another loop did in between). *)
Definition commit_late (P : params) (self : N) (nd : node) (p : N) (forEmpty : bool) : node * list msg :=
  if p =? self then (nd, [])
  else match find_proposal nd p with
       | Some k => commit_tail P self nd p k forEmpty
       | None => (nd, [])
       end.

(** * processMsgEvent: one message taken from msgC. [ord] is the iteration order of the
    EndorseSigs map used by endorseDone / commitDone in this call. *)
Definition process_msg (P : params) (self : N) (ord : list N) (nd : node) (m : msg) : node * list msg :=
  if is_some (n_sealed nd) then (nd, [])   (* msg.GetBlockNum() != currentBlockNum *)
  else
    let nd1 := upd_ops nd (n_ops nd ++ [to_op m]) in
    match m with
    | MProposal p k _ =>
        match snd (receive (to_op m) (pool nd)) with
        | DupErr => (nd1, [])
        | _ =>
            if is_leader P p then
              if isE P self then endorse_block P self nd1 p k false else (nd1, [])
            else (nd1, [])    (* a proposer re-broadcasts its own proposal; nothing changes *)
        end
    | MEndorse en _ _ _ _ =>
        if committed_for_block nd1 then (nd1, [])
        else if isE P en then
          match endorse_done ord (pool nd1) (P_c P) with
          | (pr, fe, true) =>
              match find_proposal nd1 pr with
              | None => (nd1, [])
              | Some k' => if isC P self then commit_block P self nd1 pr k' fe else (nd1, [])
              end
          | _ => (nd1, [])
          end
        else (nd1, [])
    | MCommit _ _ _ _ _ _ =>
        match snd (receive (to_op m) (pool nd)) with
        | DupErr => (nd1, [])
        | _ =>
            match commit_done (isE P) ord (pool nd1) (P_c P) (P_n P) with
            | (pr, fe, true) =>
                let nd2 := upd_commit_done nd1 true in
                match find_proposal nd2 pr with
                | None => (nd2, [])
                | Some k' =>
                    let '(nd3, outs) := if isC P self then commit_block P self nd2 pr k' fe else (nd2, []) in
                    (upd_actions nd3 (n_actions nd3 ++ [ASeal pr k' fe]), outs)   (* makeSealed *)
                end
            | _ => (nd1, [])
            end
        end
    end.

(** * onConsensusMsg for a message of the current height that arrived from peer [from] and
    passed the receive check: duplicate suppression (not for commits), MsgPool.AddMsg, msgC.
    Duplicates are recognised by the hash of the message BYTES; two messages with the same content
    may differ in their (randomized) signature bytes, which the abstract signatures do not show:
    [fresh] says that the bytes were not seen before although the content was. *)
Definition deliver (nd : node) (from : N) (m : msg) (fresh : bool) : node :=
  if is_some (n_sealed nd) then nd
  else if negb (passes (verify_ok from m)) then nd
  else if has_msg m (n_msgs nd) && negb fresh
          && negb (match m with MCommit _ _ _ _ _ _ => true | _ => false end) then nd
  else upd_seen (upd_q (upd_msgs nd (add_msg m (n_msgs nd))) (n_q nd ++ [m])) (n_seen nd ++ [m]).

(** * Actions (actionLoop: SealBlock -> sealProposal/sealBlock, EndorseBlock -> endorseBlock) *)
Definition do_action (P : params) (self : N) (nd : node) (a : action) : node * list msg :=
  match a with
  | ASeal p k e =>
      if is_some (n_sealed nd) then (nd, [])
      else match set_block_sealed nd p k e with Some nd' => (nd', []) | None => (nd, []) end
  | AEndorse p k e => if is_some (n_sealed nd) then (nd, []) else endorse_block P self nd p k e
  end.

(** * Timeouts (processTimerEvent / handleProposalTimeout) *)
Inductive timer := TPropose | TEndorse | TEndorseEmpty | TCommit.

Definition on_timer (P : params) (self : N) (ord : list N) (nd : node) (t : timer) : node * list msg :=
  if is_some (n_sealed nd) then (nd, [])
  else
    match t with
    | TPropose =>          (* EventProposeBlockTimeout, EventPropose2ndBlockTimeout *)
        if endorsed_for_block nd then (nd, [])
        else match highest_rank (P_proposers P) (c_proposals (pool nd)) None with
             | None => (nd, [])
             | Some q =>
                 if is_leader P (pp_proposer q) then (nd, [])
                 else (upd_actions nd (n_actions nd ++ [AEndorse (pp_proposer q) (pp_sig q) false]), [])
             end
    | TEndorse =>          (* EventEndorseBlockTimeout *)
        if committed_for_block nd then (nd, [])
        else match endorse_done ord (pool nd) (P_c P) with
             | (pr, fe, true) =>
                 match find_proposal nd pr with
                 | None => (nd, [])
                 | Some k' => commit_block P self nd pr k' fe
                 end
             | _ =>
                 if endorsed_for_empty nd then (nd, [])
                 else match highest_rank (P_proposers P) (c_proposals (pool nd)) None with
                      | None => (nd, [])
                      | Some q => endorse_block P self nd (pp_proposer q) (pp_sig q) true
                      end
             end
    | TEndorseEmpty =>     (* EventEndorseEmptyBlockTimeout *)
        if committed_for_block nd then (nd, [])
        else match endorse_done ord (pool nd) (P_c P) with
             | (pr, fe, true) =>
                 match find_proposal nd pr with
                 | None => (nd, [])
                 | Some k' => commit_block P self nd pr k' fe
                 end
             | _ => (nd, [])
             end
    | TCommit =>           (* EventCommitBlockTimeout *)
        if n_commit_done nd then (nd, [])
        else match commit_done (isE P) ord (pool nd) (P_c P) (P_n P) with
             | (pr, fe, true) =>
                 let nd2 := upd_commit_done nd true in
                 match find_proposal nd2 pr with
                 | None => (nd2, [])
                 | Some k' => (upd_actions nd2 (n_actions nd2 ++ [ASeal pr k' fe]), [])
                 end
             | _ => (nd, [])
             end
    end.

(** * makeProposal: an honest node proposes once per height (content 0). *)
Definition own_proposal (self : N) : msg := MProposal self 0 self.
Definition propose (self : N) (nd : node) : node * list msg :=
  if is_some (n_sealed nd) then (nd, [])
  else if existsb (fun m => match m with MProposal p _ _ => p =? self | _ => false end) (n_msgs nd) then (nd, [])
  else
    let m := own_proposal self in
    (upd_seen (upd_signed (upd_q (upd_msgs nd (add_msg m (n_msgs nd))) (n_q nd ++ [m]))
                          (n_signed nd ++ [(SPropose, mkBlk self 0 false); (SPropose, mkBlk self 0 true)]))
              (n_seen nd ++ [m]), [m]).

(** * Local events of one node *)
Inductive levent :=
| LNet (from : N) (m : msg) (fresh : bool)  (* a message from the network reaches onConsensusMsg *)
| LProc (ord : list N)            (* processMsgEvent takes the head of msgC *)
| LAct                            (* actionLoop takes the head of bftActionC *)
| LTimer (t : timer) (ord : list N)
| LPropose
| LCommitLate (p : N) (e : bool). (* the rest of a commitBlock whose pre-check passed earlier *)

Definition local_step (P : params) (self : N) (nd : node) (ev : levent) : node * list msg :=
  match ev with
  | LNet from m fresh => (deliver nd from m fresh, [])
  | LProc ord =>
      match n_q nd with
      | [] => (nd, [])
      | m :: r => process_msg P self ord (upd_q nd r) m
      end
  | LAct =>
      match n_actions nd with
      | [] => (nd, [])
      | a :: r => do_action P self (upd_actions nd r) a
      end
  | LTimer t ord => on_timer P self ord nd t
  | LPropose => propose self nd
  | LCommitLate p e => commit_late P self nd p e
  end.

(** * The network and the global configuration *)
Record packet := mkPkt { pk_from : N; pk_msg : msg }.
Definition pkt_eqb (a b : packet) : bool := (pk_from a =? pk_from b) && msg_eqb (pk_msg a) (pk_msg b).

Record config := mkCfg { c_nodes : list (N * node); c_net : list packet }.

Definition node_of (cfg : config) (a : N) : node :=
  match aget a (c_nodes cfg) with Some nd => nd | None => node0 end.

Definition cfg0 : config := mkCfg [] [].

Definition allsigs (net : list packet) : list sg := flat_map (fun pk => sigs_of (pk_msg pk)) net.

Fixpoint nodupb (l : list N) : bool :=
  match l with [] => true | x :: r => negb (memN x r) && nodupb r end.

(** A faulty peer sends under its own transport identity; every signature in the message is made
    with a faulty peer's key, or verifies under no consensus key, or was already sent by someone
    (replay of observed signatures). Anything else about the message is arbitrary. *)
Definition byz_ok (P : params) (net : list packet) (pk : packet) : bool :=
  memN (pk_from pk) (P_byz P)
  && forallb (fun s => memN (fst s) (P_byz P) || negb (memN (fst s) (P_peers P)) || existsb (sg_eqb s) (allsigs net))
             (sigs_of (pk_msg pk)).

Inductive event :=
| EvLocal (a : N) (ev : levent)   (* an honest node's event; for LNet the packet must be in the network *)
| EvByz (pk : packet).

Definition lev_ok (net : list packet) (ev : levent) : bool :=
  match ev with
  | LNet from m _ => existsb (pkt_eqb (mkPkt from m)) net
  | LProc ord => nodupb ord
  | LTimer _ ord => nodupb ord
  | _ => true
  end.

Definition step (P : params) (cfg : config) (e : event) : option config :=
  match e with
  | EvLocal a ev =>
      if honestb P a && lev_ok (c_net cfg) ev then
        let '(nd', outs) := local_step P a (node_of cfg a) ev in
        Some (mkCfg (aset a nd' (c_nodes cfg)) (c_net cfg ++ map (mkPkt a) outs))
      else None
  | EvByz pk =>
      if byz_ok P (c_net cfg) pk then Some (mkCfg (c_nodes cfg) (c_net cfg ++ [pk])) else None
  end.

Fixpoint run (P : params) (cfg : config) (es : list event) : option config :=
  match es with
  | [] => Some cfg
  | e :: r => match step P cfg e with Some cfg' => run P cfg' r | None => None end
  end.

Inductive reachable (P : params) : config -> Prop :=
| reach_init : reachable P cfg0
| reach_step cfg e cfg' : reachable P cfg -> step P cfg e = Some cfg' -> reachable P cfg'.

(** * Hypotheses of the partial safety theorem, as decidable predicates on a configuration *)

(** the operations an honest node's pool was given *)
Definition ops_of (cfg : config) (a : N) : list op := n_ops (node_of cfg a).

(** no empty-block endorsement or commitment reached the pool *)
Definition op_nonemptyb (o : op) : bool :=
  match o with
  | OpProposal _ _ => true
  | OpEndorse _ _ m => negb (em_empty m)
  | OpCommit _ _ m => negb (cm_empty m)
  end.

Definition target (b : blk) : N * N := (b_proposer b, b_variant b).
Definition target_eqb (a b : blk) : bool := (b_proposer a =? b_proposer b) && (b_variant a =? b_variant b).

(** every block the node's key signed at this height belongs to one proposal *)
Definition single_voteb (nd : node) : bool :=
  forallb (fun x => forallb (fun y => target_eqb (snd x) (snd y)) (n_signed nd)) (n_signed nd).

(** every signed block: by honest keys (their ghost logs) and in the network *)
Definition all_signed (P : params) (cfg : config) : list blk :=
  flat_map (fun a => if honestb P a then map snd (n_signed (node_of cfg a)) else []) (P_peers P)
  ++ map snd (allsigs (c_net cfg)).

(** no proposer has two different proposals signed by anybody *)
Definition no_equiv_blocks (l : list blk) : bool :=
  forallb (fun x => forallb (fun y => negb (b_proposer x =? b_proposer y) || (b_variant x =? b_variant y)) l) l.
Definition no_equivocationb (P : params) (cfg : config) : bool := no_equiv_blocks (all_signed P cfg).

(** * The marks alone (block_pool.go): sequences of calls on one candidate *)
Inductive mark_op :=
| MkAdd (p k : N)                 (* newBlockProposal: the candidate exists afterwards *)
| MkEndorse (p k : N) (e : bool)  (* setProposalEndorsed *)
| MkCommit (p k : N) (e : bool).  (* setProposalCommitted *)

Definition apply_mark (nd : node) (o : mark_op) : node * bool :=
  match o with
  | MkAdd p k => (upd_ops nd (n_ops nd ++ [OpProposal true (mkPP p k true)]), true)
  | MkEndorse p k e => match set_proposal_endorsed nd p k e with Some nd' => (nd', true) | None => (nd, false) end
  | MkCommit p k e => match set_proposal_committed nd p k e with Some nd' => (nd', true) | None => (nd, false) end
  end.

Fixpoint run_marks (nd : node) (ops : list mark_op) : node * list bool :=
  match ops with
  | [] => (nd, [])
  | o :: r => let '(nd1, ok) := apply_mark nd o in let '(nd2, oks) := run_marks nd1 r in (nd2, ok :: oks)
  end.

(** at most one of CommittedProposal / CommittedEmptyProposal is set *)
Definition one_commit_mark (nd : node) : bool :=
  negb (is_some (fst (n_committed nd)) && is_some (snd (n_committed nd))).
