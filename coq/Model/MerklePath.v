(** Model of the cross-chain merkle path code of merkle/merkle_hasher.go:
      HashLeaf / HashChildren, MerkleHashes (level-by-level tree), depth (float ceil-log2),
      getIndex, MerkleLeafPath, MerkleProve, and TreeHasher.HashFullTreeWithLeafHash (the
      RFC-6962 root that the ledger stores as CrossStatesRoot and that headers carry as
      CrossStateRoot).

    Executable definitions only; proofs are in Proofs/MerklePath.v and Proofs/MerklePathDepth.v.
    The hash function is a parameter [H] (SHA-256 in the code: [Lib.Sha256.sha256] instantiates
    it for execution).  Prefix bytes, LEFT/RIGHT, MAX_SIZE and the integer formulas come from
    Gen/MerklePathConsts.v and Gen/MerklePathFormulas.v, regenerated from the source on every run.

    Self-contained: does not use Model/Merkle.v (the compact tree of C26). *)
From Coq Require Import List Bool Arith NArith ZArith Floats.
Import ListNotations.
From Ont Require Import Lib.Bytes Lib.F64 Gen.CodecConsts Gen.MerklePathConsts Gen.MerklePathFormulas Model.Codec.
Open Scope bool_scope.

(** * Hashing and the level-by-level tree *)
Section WithHash.
Variable H : bytes -> bytes.

(** HashLeaf: sha256(append([]byte{0}, data...)) *)
Definition hash_leaf (data : bytes) : bytes := H (MP_LEAF_PREFIX :: data).
(** HashChildren: sha256(append(append([]byte{1}, left[:]...), right[:]...)) *)
Definition hash_children (l r : bytes) : bytes := H (MP_NODE_PREFIX :: l ++ r).
(** TreeHasher.hash_empty: sha256(nil) *)
Definition hash_empty : bytes := H [].

(** One iteration of the outer loop of MerkleHashes: pairs are hashed, an odd last element is
    copied up unchanged.  (The Go code allocates [levelLen/2 + levelLen%2] slots =
    [next_level_len]; lemma [next_level_length] ties the two.) *)
Fixpoint next_level (l : list bytes) : list bytes :=
  match l with
  | a :: b :: r => hash_children a b :: next_level r
  | [a] => [a]
  | [] => []
  end.

(** MerkleHashes(preLeaves, depth): [levels[depth] = preLeaves], [levels[i-1] = next(levels[i])];
    the result is the list [levels[0]; ...; levels[depth]]. *)
Fixpoint levels_up (d : nat) (l : list bytes) (acc : list (list bytes)) : list (list bytes) :=
  match d with
  | O => l :: acc
  | S d' => levels_up d' (next_level l) (l :: acc)
  end.
Definition merkle_hashes (hs : list bytes) (depth : nat) : list (list bytes) := levels_up depth hs [].

(** The root the path code works against: [MerkleHashes(hs, d)[0][0]]. *)
Definition zero_hash : bytes := repeat 0%N MP_HASH_SIZE.
Definition level_root (hs : list bytes) (d : nat) : bytes :=
  nth 0 (nth 0 (merkle_hashes hs d) []) zero_hash.

(** getIndex: first position whose 32 bytes equal the leaf hash. *)
Fixpoint get_index (leaf : bytes) (hs : list bytes) : option nat :=
  match hs with
  | [] => None
  | v :: r => if bytes_eqb v leaf then Some 0%nat
              else match get_index leaf r with Some i => Some (S i) | None => None end
  end.

(** The loop of MerkleLeafPath: [i] runs from [d] down to 1 over [merkleTree[i]]; [None] is an
    index-out-of-range panic (excluded by theorem [path_loop_no_panic]). *)
Definition parent_index (index : nat) : nat := Z.to_nat (path_parent_index (Z.of_nat index)).

Fixpoint path_loop (i : nat) (tree : list (list bytes)) (index : nat) : option bytes :=
  match i with
  | O => Some []
  | S i' =>
    let subTree := nth i tree [] in
    let subLen := length subTree in
    let nIndex := parent_index index in
    if (Z.of_nat index =? Z.of_nat subLen - 1)%Z && negb (subLen mod 2 =? 0)%nat then path_loop i' tree nIndex
    else if negb (index mod 2 =? 0)%nat then
      match nth_error subTree (index - 1) with
      | None => None
      | Some sib => match path_loop i' tree nIndex with
                    | Some rest => Some (MP_LEFT :: sib ++ rest) | None => None end
      end
    else
      match nth_error subTree (index + 1) with
      | None => None
      | Some sib => match path_loop i' tree nIndex with
                    | Some rest => Some (MP_RIGHT :: sib ++ rest) | None => None end
      end
  end.

Inductive lerr := ETooLarge | ENotFound | EPanic.

(** MerkleLeafPath(data, hashes), with the depth function as a parameter:
    [depthf n = None] stands for a depth the Go code cannot use (negative make length: panic). *)
Definition merkle_leaf_path_gen (depthf : nat -> option nat) (data : bytes) (hs : list bytes) : lerr + bytes :=
  let size := leaf_path_size (Z.of_nat (length hs)) (Z.of_nat (length data)) (Z.of_nat UINT256_SIZE) in
  if (MP_MAX_SIZE <? size)%Z then inl ETooLarge else
  match get_index (hash_leaf data) hs with
  | None => inl ENotFound
  | Some index =>
    match depthf (length hs) with
    | None => inl EPanic
    | Some d =>
      match path_loop d (merkle_hashes hs d) index with
      | None => inl EPanic
      | Some p => inr (write_varbytes data ++ p)
      end
    end
  end.

(** * MerkleProve *)
Inductive verr := EReadBytes | EReadByte | EReadHash | ERootMismatch.

(** The [for i := 0; i < size; i++] loop; [fuel] = size. *)
Fixpoint prove_loop (fuel : nat) (s : source) (hash : bytes) : verr + bytes :=
  match fuel with
  | O => inr hash
  | S k =>
    let '(f, eof, s1) := next_byte s in
    if eof then inl EReadByte else
    let '(v, eof2, s2) := next_hash s1 in
    if eof2 then inl EReadHash else
    prove_loop k s2 (if (f =? MP_LEFT)%N then hash_children v hash else hash_children hash v)
  end.

Definition merkle_prove (path root : bytes) : verr + bytes :=
  let '(value, _, irr, eof, s1) := next_varbytes (src_new path) in
  if eof || irr then inl EReadBytes else
  let rem := (Z.of_nat (length path) - Z.of_N (src_pos s1))%Z in
  let size := Z.to_nat (prove_steps rem (Z.of_nat UINT256_SIZE)) in
  match prove_loop size s1 (hash_leaf value) with
  | inl e => inl e
  | inr hash => if bytes_eqb hash root then inr value else inl ERootMismatch
  end.

(** * TreeHasher.HashFullTreeWithLeafHash (root only)
    [_hash_full] splits [width >= 2] leaves at [1 << (highBit(width-1) - 1)], the largest power of
    two strictly below [width] ([highBit x] is the bit length, so [highBit x - 1 = log2 x]).
    The auxiliary [hashes] result of [_hash_full] only feeds two consistency panics and is not
    modelled here (it belongs to C26's compact tree). *)
Definition split_width (width : N) : N := N.shiftl 1 (N.size (width - 1) - 1).

Fixpoint rfc_root_fuel (fuel : nat) (l : list bytes) : bytes :=
  match fuel with
  | O => hash_empty
  | S f =>
    match l with
    | [] => hash_empty
    | [x] => x
    | _ => let k := N.to_nat (split_width (N.of_nat (length l))) in
           hash_children (rfc_root_fuel f (firstn k l)) (rfc_root_fuel f (skipn k l))
    end
  end.
Definition rfc_root (l : list bytes) : bytes := rfc_root_fuel (length l) l.

End WithHash.

(** * depth *)
(** The integer ceil-log2 (what [depth] is meant to be). *)
Definition depth_int (n : nat) : nat := N.to_nat (N.log2_up (N.of_nat n)).

(** [depth(n) = int(math.Ceil(math.Log2(float64(n))))] on IEEE binary64, following Go's
    math.log2 and math.log (pure-Go algorithm; the amd64 assembly performs the same operations in
    the same order, each correctly rounded, no fused multiply-add). *)
Definition f64_of_Z (z : Z) : float :=
  if (z <? 0)%Z then PrimFloat.opp (PrimFloat.of_uint63 (Uint63.of_Z (- z)))
  else PrimFloat.of_uint63 (Uint63.of_Z z).

Local Open Scope float_scope.

Definition go_frexp (x : float) : float * Z :=
  if PrimFloat.eqb x 0 || PrimFloat.is_nan x || PrimFloat.is_infinity x then (x, 0%Z)
  else FloatOps.Z.frexp x.

Definition go_log (x : float) : float :=
  let Ln2Hi := 0x1.62e42feep-1%float in
  let Ln2Lo := 0x1.a39ef35793c76p-33%float in
  let L1 := 0x1.5555555555593p-1%float in
  let L2 := 0x1.999999997fa04p-2%float in
  let L3 := 0x1.2492494229359p-2%float in
  let L4 := 0x1.c71c51d8e78afp-3%float in
  let L5 := 0x1.7466496cb03dep-3%float in
  let L6 := 0x1.39a09d078c69fp-3%float in
  let L7 := 0x1.2f112df3e5244p-3%float in
  let HalfSqrt2 := 0x1.6a09e667f3bcdp-1%float in
  if PrimFloat.is_nan x || (PrimFloat.is_infinity x && PrimFloat.ltb 0 x) then x
  else if PrimFloat.ltb x 0 then PrimFloat.nan
  else if PrimFloat.eqb x 0 then PrimFloat.neg_infinity
  else
    let '(f1, ki) := go_frexp x in
    let '(f1, ki) := if PrimFloat.ltb f1 HalfSqrt2 then (f1 * 2, (ki - 1)%Z) else (f1, ki) in
    let f := f1 - 1 in
    let k := f64_of_Z ki in
    let s := f / (2 + f) in
    let s2 := s * s in
    let s4 := s2 * s2 in
    let t1 := s2 * (L1 + s4 * (L3 + s4 * (L5 + s4 * L7))) in
    let t2 := s4 * (L2 + s4 * (L4 + s4 * L6)) in
    let R := t1 + t2 in
    let hfsq := 0.5 * f * f in
    k * Ln2Hi - ((hfsq - (s * (hfsq + R) + k * Ln2Lo)) - f).

Definition go_log2 (x : float) : float :=
  let '(frac, exp) := go_frexp x in
  if PrimFloat.eqb frac 0.5 then f64_of_Z (exp - 1)
  else go_log frac * 0x1.71547652b82fep+0 + f64_of_Z exp.

Local Close Scope float_scope.

(** [None]: the float is not finite or the ceiling is negative (Go: implementation-defined
    conversion, then [make] with a negative length panics). *)
Definition depth_f64_N (n : N) : option nat :=
  match f64_ceil (go_log2 (f64_of_Z (Z.of_N n))) with
  | Some z => if (0 <=? z)%Z then Some (Z.to_nat z) else None
  | None => None
  end.
Definition depth_f64 (n : nat) : option nat := depth_f64_N (N.of_nat n).

(** The two instances of MerkleLeafPath: as the code computes the depth, and with the integer
    ceil-log2 (theorem [leaf_path_f64_eq] shows they coincide). *)
Definition merkle_leaf_path_f64 (H : bytes -> bytes) := merkle_leaf_path_gen H depth_f64.
Definition merkle_leaf_path (H : bytes -> bytes) := merkle_leaf_path_gen H (fun n => Some (depth_int n)).

(** Root of the level-by-level tree of a list, as MerkleLeafPath builds it. *)
Definition path_root (H : bytes -> bytes) (hs : list bytes) : bytes := level_root H hs (depth_int (length hs)).
