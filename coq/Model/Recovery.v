(** C01 — executable protocol model of the ledger store's block commit and crash recovery.

    Mirrors (ontio/ontology):
      core/store/ledgerstore/ledger_store.go  AddBlock, saveBlock, submitBlock, saveBlockToBlockStore,
                                              saveBlockToStateStore, saveBlockToEventStore, init,
                                              loadCurrentBlock, recoverStore, GetBlockRootWithNewTxRoots
      core/store/ledgerstore/state_store.go   NewStateStore, init, AddStateMerkleTreeRoot,
                                              AddBlockMerkleTreeRoot, SaveCurrentBlock, SaveCrossStates
      merkle/merkle_tree.go                   NewTree/_update, AppendHash, Root, GetRootWithNewLeaf(s),
                                              getSubTreeSize
      merkle/file_hash_store.go               NewFileHashStore, checkConsistence, getStoredHashNum, Append
      core/store/leveldbstore                 NewBatch / BatchPut / BatchDelete / BatchCommit

    The three LevelDB stores are finite maps with typed keys whose batch commit is atomic; the hash
    file is a byte list written at a seek offset (an append can be cut at any byte by a crash).
    The order of the steps of [submitBlock] and of the loop body of [recoverStore], the loop bounds
    and the height passed to [GetBlockHash] come from [Gen/Recover.v] (regenerated from the source).
    Block execution, the header check and the node hash are section variables.
    Definitions only; proofs are in Proofs/Recovery*.v. *)
From Coq Require Import List Bool NArith ZArith.
Import ListNotations.
From Ont Require Import Lib.Bytes Model.RecoverTypes Gen.Recover.
Local Open Scope N_scope.

(** * Finite maps with atomic batch commit (leveldbstore) *)
Section KV.
  Context {K V : Type}.
  Variable keqb : K -> K -> bool.

  Definition kv := list (K * V).

  Fixpoint kv_get (s : kv) (k : K) : option V :=
    match s with
    | [] => None
    | (k', v) :: r => if keqb k k' then Some v else kv_get r k
    end.

  Fixpoint kv_put (s : kv) (k : K) (v : V) : kv :=
    match s with
    | [] => [(k, v)]
    | (k', v') :: r => if keqb k k' then (k, v) :: r else (k', v') :: kv_put r k v
    end.

  Fixpoint kv_del (s : kv) (k : K) : kv :=
    match s with
    | [] => []
    | (k', v') :: r => if keqb k k' then kv_del r k else (k', v') :: kv_del r k
    end.

  Inductive kvop := Put (k : K) (v : V) | Del (k : K).

  Definition kv_apply (s : kv) (o : kvop) : kv :=
    match o with Put k v => kv_put s k v | Del k => kv_del s k end.

  (** BatchCommit: the whole batch or nothing. *)
  Definition kv_commit (s : kv) (b : list kvop) : kv := fold_left kv_apply b s.
End KV.
Arguments kvop : clear implicits.
Arguments kv : clear implicits.

(** * Data *)
Definition hash := bytes.

Definition u32 (x : N) : N := x mod 4294967296.

(** A block as handed to [AddBlock]: header fields the protocol looks at, the transaction hashes,
    and the state merkle root that accompanies the block. *)
Record blk := mkBlk {
  b_height : N; b_hash : hash; b_prev : hash; b_txroot : hash; b_blockroot : hash;
  b_txs : list hash; b_sroot : hash }.

(** store.ExecuteResult: write set (empty value = delete), change hash, cross states, notifies. *)
Record xres := mkXres {
  x_ws : list (bytes * bytes); x_hash : hash; x_cross : list hash; x_notify : list (hash * bytes) }.

Inductive bkey := BKVersion | BKCur | BKHash (h : N) | BKBlock (hs : hash).
Inductive bval := BVVersion (v : N) | BVCur (hs : hash) (h : N) | BVHash (hs : hash) | BVBlock (b : blk).

Inductive ekey := EKCur | EKBlock (h : N) | EKTx (tx : hash).
Inductive eval := EVCur (hs : hash) (h : N) | EVTxs (txs : list hash) | EVNotify (n : bytes).

Inductive skey := SKCur | SKBlockTree | SKStateTree | SKStateRoot (h : N) | SKCross (h : N)
                | SKBookkeeper | SKRaw (k : bytes).
Inductive sval := SVCur (hs : hash) (h : N) | SVTree (size : N) (hs : list hash)
                | SVRoot (wsh root : hash) | SVHashes (l : list hash) | SVRaw (v : bytes).

Definition bkey_eqb (a b : bkey) : bool :=
  match a, b with
  | BKVersion, BKVersion => true | BKCur, BKCur => true
  | BKHash x, BKHash y => x =? y | BKBlock x, BKBlock y => bytes_eqb x y
  | _, _ => false
  end.
Definition ekey_eqb (a b : ekey) : bool :=
  match a, b with
  | EKCur, EKCur => true | EKBlock x, EKBlock y => x =? y | EKTx x, EKTx y => bytes_eqb x y
  | _, _ => false
  end.
Definition skey_eqb (a b : skey) : bool :=
  match a, b with
  | SKCur, SKCur => true | SKBlockTree, SKBlockTree => true | SKStateTree, SKStateTree => true
  | SKStateRoot x, SKStateRoot y => x =? y | SKCross x, SKCross y => x =? y
  | SKBookkeeper, SKBookkeeper => true | SKRaw x, SKRaw y => bytes_eqb x y
  | _, _ => false
  end.

Definition bstore := kv bkey bval.
Definition estore := kv ekey eval.
Definition sstore := kv skey sval.
Definition bop := kvop bkey bval.
Definition eop := kvop ekey eval.
Definition sop := kvop skey sval.

(** The data directory. *)
Record disk := mkDisk { d_block : bstore; d_event : estore; d_state : sstore; d_file : bytes }.

(** CompactMerkleTree (size, hashes). *)
Record ctree := mkTree { t_size : N; t_hashes : list hash }.
Definition empty_tree : ctree := mkTree 0 [].

(** The opened ledger's volatile state: LedgerStoreImp.currBlockHeight/currBlockHash, the two
    compact trees of the state store and the hash file's write offset ([None]: the file was found
    shorter than the committed tree needs, "persistence will be disabled"). *)
Record mem := mkMem { m_h : N; m_hash : hash; m_btree : ctree; m_stree : ctree; m_fpos : option N }.

Record ledger := mkLedger { l_disk : disk; l_mem : mem }.

(** Pending batches of the three stores ([None]: no batch, i.e. the Go field is nil). *)
Record pend := mkPend { p_block : option (list bop); p_event : option (list eop); p_state : option (list sop) }.
Definition no_pend : pend := mkPend None None None.

Record pstate := mkPs { ps_disk : disk; ps_mem : mem; ps_pend : pend; ps_res : option xres }.

Inductive err := EFuel | EPanic | EExec | ENotFound | EDecode | EInconsistent | ENotInit.
Inductive res (A : Type) := Ok (a : A) | Err (e : err).
Arguments Ok {A} a.
Arguments Err {A} e.

Inductive outcome :=
| OAccepted | OIgnored | OErrHeight | OErrHeader | OErrExec | OErrStateRoot | OErrBlockRoot | OFail (e : err).

(** * merkle: tree-size arithmetic *)

(** bits.OnesCount32 *)
Fixpoint pop_pos (p : positive) : nat :=
  match p with xH => 1%nat | xO q => pop_pos q | xI q => S (pop_pos q) end.
Definition count_bit (n : N) : nat := match n with 0 => O | Npos p => pop_pos p end.

(** getStoredHashNum = sum of getSubTreeSize: every set bit i of the tree size contributes
    2^(i+1)-1 stored hashes; [id] is the loop variable after its doubling. *)
Fixpoint shn_pos (p : positive) (id : N) : N :=
  match p with
  | xH => id - 1
  | xO q => shn_pos q (2 * id)
  | xI q => (id - 1) + shn_pos q (2 * id)
  end.
Definition stored_hash_num (n : N) : N := match n with 0 => 0 | Npos p => shn_pos p 2 end.

(** Number of trailing one bits (iterations of AppendHash's loop). *)
Fixpoint tones_pos (p : positive) : nat :=
  match p with xH => 1%nat | xO _ => O | xI q => S (tones_pos q) end.
Definition trailing_ones (n : N) : nat := match n with 0 => O | Npos p => tones_pos p end.

Definition hash_size : N := Z.to_N UINT256_SIZE.

(** Write [data] at byte offset [pos] of the file (os.File.Write after Seek): bytes before the
    offset and beyond the written range are kept; a gap is zero-filled. *)
Definition file_write (f : bytes) (pos : N) (data : bytes) : bytes :=
  let p := N.to_nat pos in
  firstn p f ++ repeat 0 (p - length f) ++ data ++ skipn (p + length data) f.

Section Model.
  (** TreeHasher.hash_children, TreeHasher.hash_empty *)
  Variable hc : hash -> hash -> hash.
  Variable hempty : hash.
  (** stateHashCheckHeight *)
  Variable shh : N.
  (** executeBlock as a function of the persisted state and the block *)
  Variable exec : sstore -> blk -> option xres.
  (** verifyHeader, given the header found under PrevBlockHash *)
  Variable hdr_ok : blk -> blk -> bool.

  (** ** CompactMerkleTree *)

  (** TreeHasher._hash_fold (callers never pass the empty list) *)
  Fixpoint hash_fold (l : list hash) : hash :=
    match l with
    | [] => []
    | h :: r => match r with [] => h | _ => hc h (hash_fold r) end
    end.

  Definition tree_root (t : ctree) : hash :=
    match t_hashes t with [] => hempty | _ => hash_fold (t_hashes t) end.

  (** NewTree/_update: panics unless len(hashes) = countBit(size). *)
  Definition new_tree (size : N) (hs : list hash) : res ctree :=
    if Nat.eqb (length hs) (count_bit size) then Ok (mkTree size hs) else Err EPanic.

  (** AppendHash's loop over the trailing one bits of the size; [rhs] is the hash list reversed
      (self.hashes[size-1] is its head); [None]: index out of range. *)
  Fixpoint append_pos (p : positive) (rhs : list hash) (leaf : hash) (stored : list hash)
    : option (list hash * hash * list hash) :=
    match p with
    | xO _ => Some (rhs, leaf, stored)
    | xH => match rhs with
            | [] => None
            | h :: r => let l' := hc h leaf in Some (r, l', stored ++ [l'])
            end
    | xI q => match rhs with
              | [] => None
              | h :: r => let l' := hc h leaf in append_pos q r l' (stored ++ [l'])
              end
    end.

  (** AppendHash: new tree and the hashes handed to hashStore.Append. *)
  Definition tree_append (t : ctree) (leaf : hash) : option (ctree * list hash) :=
    match (match t_size t with
           | 0 => Some (rev (t_hashes t), leaf, [leaf])
           | Npos p => append_pos p (rev (t_hashes t)) leaf [leaf]
           end) with
    | Some (r, l', stored) => Some (mkTree (u32 (t_size t + 1)) (rev r ++ [l']), stored)
    | None => None
    end.

  Definition root_with_new_leaf (t : ctree) (leaf : hash) : hash :=
    hash_fold (t_hashes t ++ [leaf]).

  Fixpoint append_all (t : ctree) (leaves : list hash) : option ctree :=
    match leaves with
    | [] => Some t
    | l :: r => match tree_append t l with Some (t', _) => append_all t' r | None => None end
    end.

  (** GetRootWithNewLeaves (clone without hash store, append, Root) *)
  Definition root_with_new_leaves (t : ctree) (leaves : list hash) : option hash :=
    match append_all t leaves with Some t' => Some (tree_root t') | None => None end.

  Definition empty_hash : hash := repeat 0 (N.to_nat hash_size).

  (** LedgerStoreImp.GetBlockRootWithNewTxRoots; [None]: log.Fatalf / slice panic *)
  Definition block_root_with_new_tx_roots (m : mem) (start : N) (roots : list hash) : option hash :=
    if u32 (u32 (start + u32 (N.of_nat (length roots))) + 4294967295) <? m_h m then Some empty_hash
    else if u32 (m_h m + 1) <? start then None
    else
      let k := N.to_nat (u32 (u32 (m_h m + 1) + (4294967296 - start))) in
      if (length roots <? k)%nat then None else root_with_new_leaves (m_btree m) (skipn k roots).

  (** ** saveBlockToStateStore: everything it computes from the volatile trees *)
  Record plan := mkPlan {
    pl_eops : list eop;        (* SaveNotify *)
    pl_sops : list sop;        (* state batch, in BatchPut order *)
    pl_fdata : bytes;          (* bytes handed to the hash file *)
    pl_btree : ctree; pl_stree : ctree }.

  Definition ws_op (kvp : bytes * bytes) : sop :=
    match snd kvp with [] => Del (SKRaw (fst kvp)) | _ => Put (SKRaw (fst kvp)) (SVRaw (snd kvp)) end.

  (** AddStateMerkleTreeRoot *)
  Definition state_tree_step (stree : ctree) (h : N) (wsh : hash) : option (ctree * list sop) :=
    if h <? shh then Some (stree, [])
    else
      let t0 := if h =? shh then empty_tree else stree in
      match tree_append t0 wsh with
      | None => None
      | Some (t', _) =>
          Some (t', [Put SKStateTree (SVTree (t_size t') (t_hashes t'));
                     Put (SKStateRoot h) (SVRoot wsh (tree_root t'))])
      end.

  (** SaveCrossStates: nothing is written for an empty list *)
  Definition cross_ops (h : N) (cs : list hash) : list sop :=
    match cs with [] => [] | _ :: _ => [Put (SKCross h) (SVHashes cs)] end.

  Definition save_state_plan (btree stree : ctree) (b : blk) (r : xres) : option plan :=
    match state_tree_step stree (b_height b) (x_hash r) with
    | None => None
    | Some (st', sops1) =>
        match tree_append btree (b_txroot b) with
        | None => None
        | Some (bt', stored) =>
            Some (mkPlan
              (map (fun tn => Put (EKTx (fst tn)) (EVNotify (snd tn))) (x_notify r))
              (sops1
               ++ [Put SKBlockTree (SVTree (t_size bt') (t_hashes bt'))]
               ++ [Put SKCur (SVCur (b_hash b) (b_height b))]
               ++ cross_ops (b_height b) (x_cross r)
               ++ map ws_op (x_ws r))
              (concat stored) bt' st')
        end
    end.

  Definition block_ops (b : blk) : list bop :=
    [Put BKCur (BVCur (b_hash b) (b_height b));
     Put (BKHash (b_height b)) (BVHash (b_hash b));
     Put (BKBlock (b_hash b)) (BVBlock b)].

  Definition event_ops (b : blk) : list eop :=
    (match b_txs b with [] => [] | txs => [Put (EKBlock (b_height b)) (EVTxs txs)] end)
    ++ [Put EKCur (EVCur (b_hash b) (b_height b))].

  (** ** One step of submitBlock / of the loop body of recoverStore *)
  Definition set_pend (p : pend) (s : store_id) (v : bool) : pend :=
    match s with
    | SBlock => mkPend (if v then Some [] else None) (p_event p) (p_state p)
    | SEvent => mkPend (p_block p) (if v then Some [] else None) (p_state p)
    | SState => mkPend (p_block p) (p_event p) (if v then Some [] else None)
    end.

  Definition commit_store (d : disk) (p : pend) (s : store_id) : disk :=
    match s with
    | SBlock => match p_block p with
                | Some ops => mkDisk (kv_commit bkey_eqb (d_block d) ops) (d_event d) (d_state d) (d_file d)
                | None => d end
    | SEvent => match p_event p with
                | Some ops => mkDisk (d_block d) (kv_commit ekey_eqb (d_event d) ops) (d_state d) (d_file d)
                | None => d end
    | SState => match p_state p with
                | Some ops => mkDisk (d_block d) (d_event d) (kv_commit skey_eqb (d_state d) ops) (d_file d)
                | None => d end
    end.

  Definition with_file (d : disk) (f : bytes) : disk := mkDisk (d_block d) (d_event d) (d_state d) f.

  Definition run_step (b : blk) (ps : pstate) (st : step) : res pstate :=
    let d := ps_disk ps in let m := ps_mem ps in let p := ps_pend ps in
    match st with
    | StNewBatch s => Ok (mkPs d m (set_pend p s true) (ps_res ps))
    | StSaveBlock =>
        match p_block p with
        | None => Err EPanic
        | Some ops => Ok (mkPs d m (mkPend (Some (ops ++ block_ops b)) (p_event p) (p_state p)) (ps_res ps))
        end
    | StSaveState =>
        match ps_res ps, p_event p, p_state p with
        | Some r, Some eo, Some so =>
            match save_state_plan (m_btree m) (m_stree m) b r with
            | None => Err EPanic
            | Some pl =>
                let '(f', pos') := match m_fpos m with
                                   | Some pos => (file_write (d_file d) pos (pl_fdata pl),
                                                  Some (pos + N.of_nat (length (pl_fdata pl))))
                                   | None => (d_file d, None)
                                   end in
                Ok (mkPs (with_file d f')
                         (mkMem (m_h m) (m_hash m) (pl_btree pl) (pl_stree pl) pos')
                         (mkPend (p_block p) (Some (eo ++ pl_eops pl)) (Some (so ++ pl_sops pl)))
                         (ps_res ps))
            end
        | _, _, _ => Err EPanic
        end
    | StSaveEvent =>
        match p_event p with
        | None => Err EPanic
        | Some eo => Ok (mkPs d m (mkPend (p_block p) (Some (eo ++ event_ops b)) (p_state p)) (ps_res ps))
        end
    | StCommit s => Ok (mkPs (commit_store d p s) m (set_pend p s false) (ps_res ps))
    | StExec =>
        match exec (d_state d) b with
        | None => Err EExec
        | Some r => Ok (mkPs d m p (Some r))
        end
    | StSetCurrent => Ok (mkPs d (mkMem (b_height b) (b_hash b) (m_btree m) (m_stree m) (m_fpos m)) p (ps_res ps))
    end.

  Fixpoint run_steps (steps : list step) (b : blk) (ps : pstate) : res pstate :=
    match steps with
    | [] => Ok ps
    | st :: r => match run_step b ps st with Ok ps' => run_steps r b ps' | Err e => Err e end
    end.

  (** ** Crash: the process dies after [c] complete steps; when the next step is the one that
      appends to the hash file, [j] bytes of that append have reached the file. What survives is
      the data directory. *)
  Definition torn_save_state (b : blk) (ps : pstate) (j : nat) : disk :=
    let d := ps_disk ps in let m := ps_mem ps in
    match ps_res ps, m_fpos m with
    | Some r, Some pos =>
        match save_state_plan (m_btree m) (m_stree m) b r with
        | Some pl => with_file d (file_write (d_file d) pos (firstn j (pl_fdata pl)))
        | None => d
        end
    | _, _ => d
    end.

  Definition crash_steps (steps : list step) (c j : nat) (b : blk) (ps : pstate) : res disk :=
    match run_steps (firstn c steps) b ps with
    | Err e => Err e
    | Ok ps' =>
        match nth_error steps c with
        | Some StSaveState => Ok (torn_save_state b ps' j)
        | _ => Ok (ps_disk ps')
        end
    end.

  (** ** AddBlock -> saveBlock -> submitBlock *)
  Definition state_merkle_root (m : mem) (b : blk) (r : xres) : hash :=
    if b_height b <? shh then empty_hash
    else if b_height b =? shh then x_hash r
    else root_with_new_leaf (m_stree m) (x_hash r).

  (** The checks made before anything is written; [inl] = outcome without effect. *)
  Definition precheck (l : ledger) (b : blk) : outcome + xres :=
    let d := l_disk l in let m := l_mem l in
    if b_height b <=? m_h m then inl OIgnored
    else if negb (b_height b =? u32 (m_h m + 1)) then inl OErrHeight
    else
      match kv_get bkey_eqb (d_block d) (BKBlock (b_prev b)) with
      | Some (BVBlock p) =>
          if negb ((u32 (b_height p + 1) =? b_height b) && hdr_ok p b) then inl OErrHeader
          else
            match exec (d_state d) b with
            | None => inl OErrExec
            | Some r =>
                if negb (Nat.eqb (length (b_txs b)) 0) && negb (bytes_eqb (state_merkle_root m b r) (b_sroot b))
                then inl OErrStateRoot
                else
                  match block_root_with_new_tx_roots m (b_height b) [b_txroot b] with
                  | None => inl (OFail EPanic)
                  | Some root =>
                      if negb (b_height b =? 0) && negb (bytes_eqb root (b_blockroot b)) then inl OErrBlockRoot
                      else inr r
                  end
            end
      | _ => inl OErrHeader
      end.

  Definition start_ps (l : ledger) (r : option xres) : pstate := mkPs (l_disk l) (l_mem l) no_pend r.

  Definition add_block (l : ledger) (b : blk) : ledger * outcome :=
    match precheck l b with
    | inl o => (l, o)
    | inr r =>
        match run_steps submit_steps b (start_ps l (Some r)) with
        | Ok ps => (mkLedger (ps_disk ps) (ps_mem ps), OAccepted)
        | Err e => (l, OFail e)
        end
    end.

  (** The data directory left by a crash at point (c, j) while [b] is being added. A block that
      is turned away before [submitBlock] writes nothing. *)
  Definition crash_add (l : ledger) (b : blk) (c j : nat) : res disk :=
    match precheck l b with
    | inl _ => Ok (l_disk l)
    | inr r => crash_steps submit_steps c j b (start_ps l (Some r))
    end.

  Fixpoint run (l : ledger) (bs : list blk) : ledger :=
    match bs with [] => l | b :: r => run (fst (add_block l b)) r end.

  Fixpoint run_outcomes (l : ledger) (bs : list blk) : list outcome :=
    match bs with [] => [] | b :: r => snd (add_block l b) :: run_outcomes (fst (add_block l b)) r end.

  (** ** Reopening a data directory: NewLedgerStore (NewStateStore.init, NewFileHashStore) and
      InitLedgerStoreWithGenesisBlock on an initialised store (init: loadCurrentBlock,
      recoverStore). *)
  Definition load_tree (s : sstore) (k : skey) : res (N * list hash) :=
    match kv_get skey_eqb s k with
    | None => Ok (0, [])                       (* ErrNotFound is tolerated *)
    | Some (SVTree n hs) => Ok (n, hs)
    | Some _ => Err EDecode
    end.

  Definition state_height_or_zero (s : sstore) : res N :=
    match kv_get skey_eqb s SKCur with
    | None => Ok 0
    | Some (SVCur _ h) => Ok h
    | Some _ => Err EDecode
    end.

  (** NewFileHashStore: size check, then Seek to the committed size. *)
  Definition open_hash_file (f : bytes) (tree_size : N) : option N :=
    let n := Z.of_N (stored_hash_num tree_size) in
    if (Z.of_nat (length f) <? file_min_size n UINT256_SIZE)%Z then None
    else Some (Z.to_N (file_seek_offset n UINT256_SIZE)).

  Definition state_store_init (d : disk) : res (ctree * ctree * option N) :=
    match state_height_or_zero (d_state d) with
    | Err e => Err e
    | Ok sh =>
        match load_tree (d_state d) SKBlockTree with
        | Err e => Err e
        | Ok (bsz, bhs) =>
            if (0 <? bsz) && negb (Z.of_N bsz =? init_block_tree_size (Z.of_N sh) (Z.of_N shh))%Z
            then Err EInconsistent
            else
              let fpos := open_hash_file (d_file d) bsz in
              match new_tree bsz bhs with
              | Err e => Err e
              | Ok bt =>
                  if shh <=? sh then
                    match load_tree (d_state d) SKStateTree with
                    | Err e => Err e
                    | Ok (ssz, shs) =>
                        if (0 <? ssz) && negb (Z.of_N ssz =? init_state_tree_size (Z.of_N sh) (Z.of_N shh))%Z
                        then Err EInconsistent
                        else match new_tree ssz shs with
                             | Err e => Err e
                             | Ok st => Ok (bt, st, fpos)
                             end
                    end
                  else Ok (bt, empty_tree, fpos)
              end
        end
    end.

  Definition recover_body (i sh bh : Z) (ps : pstate) : res pstate :=
    match kv_get bkey_eqb (d_block (ps_disk ps)) (BKHash (Z.to_N (recover_arg i sh bh))) with
    | Some (BVHash hs) =>
        match kv_get bkey_eqb (d_block (ps_disk ps)) (BKBlock hs) with
        | Some (BVBlock b) => run_steps recover_steps b ps
        | _ => Err ENotFound
        end
    | _ => Err ENotFound
    end.

  Fixpoint recover_loop (fuel : nat) (i sh bh : Z) (ps : pstate) : res pstate :=
    if recover_continue i sh bh then
      match fuel with
      | O => Err EFuel
      | S f => match recover_body i sh bh ps with
               | Err e => Err e
               | Ok ps' => recover_loop f (recover_next i) sh bh ps'
               end
      end
    else Ok ps.

  Definition SYSTEM_VERSION : N := 1.

  Definition reopen (d : disk) : res ledger :=
    match state_store_init d with
    | Err e => Err e
    | Ok (bt, st, fpos) =>
        match kv_get bkey_eqb (d_block d) BKVersion with
        | Some (BVVersion v) =>
            if negb (v =? SYSTEM_VERSION) then Err ENotInit
            else
              match kv_get bkey_eqb (d_block d) BKCur with
              | Some (BVCur bhash bh) =>
                  match kv_get skey_eqb (d_state d) SKCur with
                  | Some (SVCur _ sh) =>
                      let m := mkMem bh bhash bt st fpos in
                      match recover_loop (N.to_nat bh + 2) (recover_init (Z.of_N sh) (Z.of_N bh))
                                         (Z.of_N sh) (Z.of_N bh) (mkPs d m no_pend None) with
                      | Err e => Err e
                      | Ok ps => Ok (mkLedger (ps_disk ps) (ps_mem ps))
                      end
                  | _ => Err ENotFound
                  end
              | _ => Err ENotFound
              end
        | _ => Err ENotInit
        end
    end.

  (** ** Histories with any number of crashes: a block is either added, or the process dies at
      point (c, j) while adding it and the directory is reopened. *)
  Inductive hevent := HAdd (b : blk) | HCrash (b : blk) (c j : nat).
  Definition hblk (e : hevent) : blk := match e with HAdd b => b | HCrash b _ _ => b end.

  Fixpoint run_hist (l : ledger) (h : list hevent) : res ledger :=
    match h with
    | [] => Ok l
    | HAdd b :: r => run_hist (fst (add_block l b)) r
    | HCrash b c j :: r =>
        match crash_add l b c j with
        | Err e => Err e
        | Ok dk => match reopen dk with Err e => Err e | Ok l' => run_hist l' r end
        end
    end.

  (** ** Observables (ledger.GetCurrentBlockHeight, GetCurrentBlockHash, GetStateMerkleRoot at the
      current height, GetBlockRootWithNewTxRoots for a probe leaf, the whole persisted state). *)
  Definition state_root_at (l : ledger) (h : N) : option hash :=
    if h <? shh then Some empty_hash
    else match kv_get skey_eqb (d_state (l_disk l)) (SKStateRoot h) with
         | Some (SVRoot _ root) => Some root
         | _ => None
         end.

  Record observation := mkObs {
    o_height : N; o_hash : hash; o_state : sstore; o_state_root : option hash;
    o_block_root : hash -> option hash }.

  Definition observe (l : ledger) : observation :=
    mkObs (m_h (l_mem l)) (m_hash (l_mem l)) (d_state (l_disk l)) (state_root_at l (m_h (l_mem l)))
          (fun probe => block_root_with_new_tx_roots (l_mem l) (m_h (l_mem l) + 1) [probe]).

  (** ** Consistency of an opened ledger with its data directory (the invariant of the uncrashed
      run; boolean so that the harness evaluates it on real directories). *)
  Definition sval_is_tree (v : option sval) (t : ctree) : bool :=
    match v with
    | Some (SVTree n hs) => (n =? t_size t) && list_eqb bytes_eqb hs (t_hashes t)
    | _ => false
    end.

  Definition tree_eqb (a b : ctree) : bool :=
    (t_size a =? t_size b) && list_eqb bytes_eqb (t_hashes a) (t_hashes b).

  Definition consistent_b (l : ledger) : bool :=
    let d := l_disk l in let m := l_mem l in
    (match kv_get bkey_eqb (d_block d) BKVersion with Some (BVVersion v) => v =? SYSTEM_VERSION | _ => false end)
    && (match kv_get bkey_eqb (d_block d) BKCur with
        | Some (BVCur hs h) => bytes_eqb hs (m_hash m) && (h =? m_h m) | _ => false end)
    && (match kv_get skey_eqb (d_state d) SKCur with
        | Some (SVCur hs h) => bytes_eqb hs (m_hash m) && (h =? m_h m) | _ => false end)
    && sval_is_tree (kv_get skey_eqb (d_state d) SKBlockTree) (m_btree m)
    && (t_size (m_btree m) =? m_h m + 1)
    && Nat.eqb (length (t_hashes (m_btree m))) (count_bit (t_size (m_btree m)))
    && (if m_h m <? shh then tree_eqb (m_stree m) empty_tree
        else sval_is_tree (kv_get skey_eqb (d_state d) SKStateTree) (m_stree m)
             && (t_size (m_stree m) =? m_h m - shh + 1)
             && Nat.eqb (length (t_hashes (m_stree m))) (count_bit (t_size (m_stree m))))
    && (match m_fpos m with
        | Some p => (p =? stored_hash_num (m_h m + 1) * hash_size) && (p <=? N.of_nat (length (d_file d)))
        | None => false end).
End Model.
