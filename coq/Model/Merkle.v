(** Model/Merkle.v — executable mirror of /repo/merkle (CompactMerkleTree, TreeHasher, HashStore,
    MerkleVerifier) and the RFC-6962 specification it is measured against.  Definitions only.

    The hash type [T] and the node hash [hc] (= TreeHasher.hash_children), the empty-tree hash
    [hempty] (= hash_empty) and [zero] (= EMPTY_HASH) are Section variables: the Go code never looks
    inside a hash, so every function here is parametric in them.  Instantiations: SHA-256 over
    [bytes] at the end of this file (execution against the real hasher) and the free term algebra in
    Corr/C26.v (structural correspondence without paying for SHA-256 inside Coq).

    Number types: [N] for Go's uint32 values (with [w32]/[sub32] wherever the Go arithmetic can
    wrap: tree size increment, store positions), [nat] only for list lengths / indices / fuel.
    Fuel: loops that run once per bit of a counter recurse on [N.size_nat] of that counter, so they
    cannot run out; the two proof generators carry an explicit [GFuel] error instead. *)
From Coq Require Import List Bool Arith NArith.
Import ListNotations.
From Ont Require Import Lib.Bytes Lib.Sha256.

Definition two32N : N := 4294967296%N.
Definition w32m (x : N) : N := (x mod two32N)%N.
(** Go uint32 subtraction [x - y] *)
Definition sub32 (x y : N) : N := w32m (x + two32N - w32m y).

Section Merkle.
  Variable T : Type.
  Variable teqb : T -> T -> bool.
  Variable hc : T -> T -> T.          (* TreeHasher.hash_children *)
  Variable hempty : T.                (* TreeHasher.hash_empty = sha256(nil) *)
  Variable zero : T.                  (* EMPTY_HASH *)

  (** * Specification: RFC 6962 §2.1 over a list of leaf hashes *)

  (** largest power of two strictly smaller than [n] (for n >= 2) *)
  Definition split (n : nat) : nat := 2 ^ Nat.log2 (n - 1).

  Fixpoint mth_f (f : nat) (D : list T) : T :=
    match D with
    | [] => hempty
    | [x] => x
    | _ => match f with
           | O => hempty
           | S f' => let k := split (length D) in
                     hc (mth_f f' (firstn k D)) (mth_f f' (skipn k D))
           end
    end.
  (** MTH(D[n]) *)
  Definition mth (D : list T) : T := mth_f (length D) D.

  (** PATH(m, D[n]) (§2.1.1), bottom sibling first *)
  Fixpoint path_f (f : nat) (m : nat) (D : list T) : list T :=
    match f with
    | O => []
    | S f' =>
        if length D <=? 1 then [] else
        let k := split (length D) in
        if m <? k then path_f f' m (firstn k D) ++ [mth (skipn k D)]
        else path_f f' (m - k) (skipn k D) ++ [mth (firstn k D)]
    end.
  Definition rfc_path (m : nat) (D : list T) : list T := path_f (length D) m D.

  (** SUBPROOF(m, D[n], b) (§2.1.2) *)
  Fixpoint subproof_f (f : nat) (m : nat) (D : list T) (b : bool) : list T :=
    match f with
    | O => []
    | S f' =>
        if m =? length D then (if b then [] else [mth D]) else
        let k := split (length D) in
        if m <=? k then subproof_f f' m (firstn k D) b ++ [mth (skipn k D)]
        else subproof_f f' (m - k) (skipn k D) false ++ [mth (firstn k D)]
    end.
  (** PROOF(m, D[n]) *)
  Definition rfc_proof (m : nat) (D : list T) : list T := subproof_f (S (length D)) m D true.

  (** * util.go *)
  Fixpoint pos_popcount (p : positive) : nat :=
    match p with xH => 1 | xO q => pos_popcount q | xI q => S (pos_popcount q) end.
  Definition countBit (n : N) : nat := match n with N0 => 0 | Npos p => pos_popcount p end.
  (** highBit n = 32 - LeadingZeros32 n = bit length *)
  Definition highBit (n : N) : N := N.size n.

  (** * merkle_hasher.go *)
  (** [_hash_fold]: accum = hashes[l-1]; for i = l-2 .. 0: accum = hash_children(hashes[i], accum).
      On an empty slice the Go code indexes [-1] and panics: [None]. *)
  Fixpoint hash_fold1 (h : T) (hs : list T) : T :=
    match hs with [] => h | h' :: r => hc h (hash_fold1 h' r) end.
  Definition hash_fold (hs : list T) : option T :=
    match hs with [] => None | h :: r => Some (hash_fold1 h r) end.

  (** [_hash_full] (HashFullTreeWithLeafHash): root and the compact hashes of leaves[l:r]. *)
  Fixpoint hash_full_f (f : nat) (D : list T) : T * list T :=
    match D with
    | [] => (hempty, [])
    | [x] => (x, [x])
    | _ => match f with
           | O => (hempty, [])
           | S f' =>
               let width := length D in
               let k := split width in
               let '(l_root, l_hashes) := hash_full_f f' (firstn k D) in
               let '(r_root, r_hashes) := hash_full_f f' (skipn k D) in
               let root := hc l_root r_root in
               (root, if k * 2 =? width then [root] else l_hashes ++ r_hashes)
           end
    end.
  Definition hash_full_tree (D : list T) : T := fst (hash_full_f (length D) D).

  (** * file_hash_store.go : a store is a sequence of hashes with a write cursor.
      memHashStore: cursor = length.  fileHashStore: the cursor is where NewFileHashStore seeked
      to (getStoredHashNum(tree_size) hashes), writes overwrite from there. *)
  Record hstore := mk_hstore { hs_data : list T; hs_cur : nat }.
  Definition hs_mem_new : hstore := mk_hstore [] 0.
  Definition hs_append (s : hstore) (hs : list T) : hstore :=
    mk_hstore (firstn (hs_cur s) (hs_data s) ++ hs ++ skipn (hs_cur s + length hs) (hs_data s))
              (hs_cur s + length hs).
  Definition hs_get (s : hstore) (pos : N) : option T := nth_error (hs_data s) (N.to_nat pos).

  (** [getSubTreeSize]: for n != 0 { id *= 2; if n odd { out[i] = id-1; i-- }; n >>= 1 }, filling
      from the last index down, i.e. consing. *)
  Fixpoint sizes_loop (f : nat) (n id : N) (acc : list N) : list N :=
    match f with
    | O => acc
    | S f' => let id' := w32m (id * 2) in
              sizes_loop f' (N.div2 n) id' (if N.odd n then sub32 id' 1 :: acc else acc)
    end.
  Definition get_sub_tree_size (n : N) : list N := sizes_loop (N.size_nat n) n 1 [].
  Fixpoint prefix_sums (acc : N) (l : list N) : list N :=
    match l with [] => [] | x :: r => let s := w32m (acc + x) in s :: prefix_sums s r end.
  (** [getSubTreePos]: 1-based store positions of the roots of the perfect subtrees of a tree of n leaves *)
  Definition get_sub_tree_pos (n : N) : list N := prefix_sums 0 (get_sub_tree_size n).
  (** [getStoredHashNum] (int64 sum) *)
  Definition get_stored_hash_num (n : N) : N := fold_left N.add (get_sub_tree_size n) 0%N.

  (** NewFileHashStore(name, tree_size) on a file holding [data] (whole hashes): checkConsistence
      then Seek. *)
  Definition hs_file_open (data : list T) (tree_size : N) : option hstore :=
    let num := N.to_nat (get_stored_hash_num tree_size) in
    if length data <? num then None else Some (mk_hstore data num).

  (** * merkle_tree.go : CompactMerkleTree (mintree_h and the rootHash cache are not observable) *)
  Record ctree := mk_ctree { ct_size : N; ct_hashes : list T; ct_store : option hstore }.

  (** NewTree / _update: panics unless len(hashes) = countBit(tree_size) *)
  Definition new_tree (size : N) (hashes : list T) (st : option hstore) : option ctree :=
    if length hashes =? countBit size then Some (mk_ctree size hashes st) else None.

  Definition ct_root (t : ctree) : T :=
    match ct_hashes t with [] => hempty | h :: r => hash_fold1 h r end.

  Definition root_with_new_leaf (t : ctree) (leaf : T) : option T := hash_fold (ct_hashes t ++ [leaf]).

  (** the merge loop of AppendHash: [rh] = self.hashes[0:size] reversed.
      for s := treeSize; s%2 == 1; s >>= 1 { leaf = hash_children(hashes[size-1], leaf); store; size-- } *)
  Fixpoint append_loop (s : N) (rh : list T) (leaf : T) (stored : list T) {struct rh}
    : option (list T * T * list T) :=
    if N.odd s then
      match rh with
      | [] => None                                  (* hashes[-1]: index out of range *)
      | h :: r => let leaf' := hc h leaf in append_loop (N.div2 s) r leaf' (stored ++ [leaf'])
      end
    else Some (rh, leaf, stored).

  (** AppendHash: new tree and the returned audit path (the old hashes reversed) *)
  Definition append_hash (t : ctree) (leaf : T) : option (ctree * list T) :=
    match append_loop (ct_size t) (rev (ct_hashes t)) leaf [leaf] with
    | None => None
    | Some (rh, top, stored) =>
        Some (mk_ctree (w32m (ct_size t + 1)) (rev rh ++ [top])
                       (match ct_store t with None => None | Some s => Some (hs_append s stored) end),
              rev (ct_hashes t))
    end.

  Fixpoint append_all (t : ctree) (ls : list T) : option ctree :=
    match ls with
    | [] => Some t
    | x :: r => match append_hash t x with None => None | Some (t', _) => append_all t' r end
    end.

  (** GetRootWithNewLeaves: cloneMem (no store), append, Root *)
  Definition root_with_new_leaves (t : ctree) (ls : list T) : option T :=
    match append_all (mk_ctree (ct_size t) (ct_hashes t) None) ls with
    | None => None | Some t' => Some (ct_root t') end.

  Inductive gerr := GWrongParams | GNotAvailable | GNoStore | GStoreRead | GFoldEmpty | GAssert | GFuel.

  (** subhashes[p] = GetHash(pos[p] + base - 1) for all p, then _hash_fold.  An unreadable position
      (memHashStore: index panic; fileHashStore: error ignored, EMPTY_HASH used) is [GStoreRead]. *)
  Fixpoint read_all (s : hstore) (base : N) (ps : list N) : option (list T) :=
    match ps with
    | [] => Some []
    | p :: r => match hs_get s (sub32 (w32m (p + base)) 1), read_all s base r with
                | Some h, Some hs => Some (h :: hs)
                | _, _ => None
                end
    end.
  Definition fold_at (s : hstore) (base : N) (ps : list N) : gerr + T :=
    match read_all s base ps with
    | None => inl GStoreRead
    | Some hs => match hash_fold hs with None => inl GFoldEmpty | Some h => inr h end
    end.

  (** merkleRoot(n): root of D[0:n] from the store *)
  Definition merkle_root_at (s : hstore) (n : N) : gerr + T := fold_at s 0 (get_sub_tree_pos n).

  (** k := uint32(1 << (highBit(n-1) - 1)); for n-1 = 0 the uint shift count wraps and k = 0 *)
  Definition split32 (n : N) : N :=
    let hb := highBit (sub32 n 1) in
    if (hb =? 0)%N then 0%N else (2 ^ (hb - 1))%N.

  (** InclusionProof loop; [acc] is the result so far in its final (reversed) order *)
  Fixpoint incl_loop (f : nat) (s : hstore) (offset m n : N) (acc : list T) : gerr + list T :=
    if (n =? 1)%N then inr acc else
    match f with
    | O => inl GFuel
    | S f' =>
        let k := split32 n in
        if (m <? k)%N then
          match fold_at s (w32m (offset + k * 2 + two32N - 1)) (get_sub_tree_pos (sub32 n k)) with
          | inl e => inl e
          | inr rootk2n => incl_loop f' s offset m k (rootk2n :: acc)
          end
        else
          let offset' := w32m (offset + k * 2 + two32N - 1) in
          match hs_get s (sub32 offset' 1) with
          | None => inl GStoreRead
          | Some root02k => incl_loop f' s offset' (sub32 m k) (sub32 n k) (root02k :: acc)
          end
    end.

  Definition inclusion_proof (t : ctree) (m n : N) : gerr + list T :=
    if (n <=? m)%N then inl GWrongParams
    else if (ct_size t <? n)%N then inl GNotAvailable
    else match ct_store t with
         | None => inl GNoStore
         | Some s => incl_loop (N.size_nat (n - 1)) s 0 m n []
         end.

  (** subproof loop: for m < n { ... }; returns (offset, n, b, acc) *)
  Fixpoint subproof_loop (f : nat) (s : hstore) (offset m n : N) (b : bool) (acc : list T)
    : gerr + (N * N * bool * list T) :=
    if negb (m <? n)%N then inr (offset, n, b, acc) else
    match f with
    | O => inl GFuel
    | S f' =>
        let k := split32 n in
        if (m <=? k)%N then
          match fold_at s (w32m (offset + k * 2 + two32N - 1)) (get_sub_tree_pos (sub32 n k)) with
          | inl e => inl e
          | inr rootk2n => subproof_loop f' s offset m k b (rootk2n :: acc)
          end
        else
          let offset' := w32m (offset + k * 2 + two32N - 1) in
          match hs_get s (sub32 offset' 1) with
          | None => inl GStoreRead
          | Some root02k => subproof_loop f' s offset' (sub32 m k) (sub32 n k) false (root02k :: acc)
          end
    end.

  Definition subproof (s : hstore) (m n : N) (b : bool) : gerr + list T :=
    match subproof_loop (S (N.size_nat (n - 1))) s 0 m n b [] with
    | inl e => inl e
    | inr (offset, n', b', acc) =>
        if b' then inr acc else
        match get_sub_tree_pos n' with
        | [p] => match hs_get s (sub32 (w32m (p + offset)) 1) with
                 | None => inl GStoreRead
                 | Some h => inr (h :: acc)
                 end
        | _ => inl GAssert                          (* panic("assert error") *)
        end
    end.

  (** ConsistencyProof: nil (here: the empty list) on bad parameters or without a store *)
  Definition consistency_proof (t : ctree) (m n : N) : gerr + list T :=
    if (n <? m)%N || (ct_size t <? n)%N then inr []
    else match ct_store t with
         | None => inr []
         | Some s => subproof s m n true
         end.

  (** * MerkleVerifier *)
  Inductive vres :=
  | VOk
  | VWrongParams        (* the tree size is smaller than the leaf index *)
  | VTooShort           (* Proof too short *)
  | VTooLong            (* Proof too long *)
  | VRootMismatch       (* Constructed root hash differs from provided root hash *)
  | VOlderBigger        (* Older tree has bigger size *)
  | VSameSizeRoots      (* different root hashes for the same tree size *)
  | VEmptyOldRoot       (* first root hash is not the empty tree hash *)
  | VWrongLength        (* Wrong proof length *)
  | VNewRootMismatch    (* second root hash does not match *)
  | VOldRootMismatch.   (* first root hash does not match *)

  (** calculate_root_hash_from_audit_path: one iteration per bit of last_node ([f] = its bit length).
      Returns the hash and the unconsumed path, or None for "Proof too short" (checked at the top
      of every iteration, whether or not the iteration consumes an element). *)
  Fixpoint audit_loop (f : nat) (calc : T) (node last : N) (path : list T) : option (T * list T) :=
    match f with
    | O => Some (calc, path)
    | S f' =>
        match path with
        | [] => None
        | p :: rest =>
            if N.odd node then audit_loop f' (hc p calc) (N.div2 node) (N.div2 last) rest
            else if (node <? last)%N then audit_loop f' (hc calc p) (N.div2 node) (N.div2 last) rest
            else audit_loop f' calc (N.div2 node) (N.div2 last) path
        end
    end.

  Definition root_from_audit_path (leaf : T) (idx : N) (path : list T) (size : N) : vres + T :=
    match audit_loop (N.size_nat (size - 1)) leaf idx (size - 1) path with
    | None => inl VTooShort
    | Some (h, []) => inr h
    | Some (_, _ :: _) => inl VTooLong
    end.

  Definition verify_leaf_hash_inclusion (leaf : T) (idx : N) (proof : list T) (root : T) (size : N) : vres :=
    if (size <=? idx)%N then VWrongParams else
    match root_from_audit_path leaf idx proof size with
    | inl e => e
    | inr h => if teqb h root then VOk else VRootMismatch
    end.

  (** VerifyConsistency, phase 1: for node%2 == 1 { node /= 2; last_node /= 2 } *)
  Fixpoint strip_ones (f : nat) (node last : N) : N * N :=
    match f with
    | O => (node, last)
    | S f' => if N.odd node then strip_ones f' (N.div2 node) (N.div2 last) else (node, last)
    end.

  (** phase 2: for node != 0 { ... }; one iteration per bit of node *)
  Fixpoint cons_loop (f : nat) (node last : N) (oh nh : T) (proof : list T)
    : option (N * T * T * list T) :=
    match f with
    | O => Some (last, oh, nh, proof)
    | S f' =>
        if N.odd node then
          match proof with
          | [] => None
          | p :: rest => cons_loop f' (N.div2 node) (N.div2 last) (hc p oh) (hc p nh) rest
          end
        else if (node <? last)%N then
          match proof with
          | [] => None
          | p :: rest => cons_loop f' (N.div2 node) (N.div2 last) oh (hc nh p) rest
          end
        else cons_loop f' (N.div2 node) (N.div2 last) oh nh proof
    end.

  (** phase 3: for last_node != 0 { new_hash = hash_children(new_hash, proof[pos]); ... } *)
  Fixpoint up_loop (f : nat) (nh : T) (proof : list T) : option (T * list T) :=
    match f with
    | O => Some (nh, proof)
    | S f' => match proof with [] => None | p :: rest => up_loop f' (hc nh p) rest end
    end.

  Definition verify_consistency (old_size new_size : N) (old_root new_root : T) (proof : list T) : vres :=
    if (new_size <? old_size)%N then VOlderBigger
    else if (old_size =? new_size)%N then
      (if negb (teqb old_root new_root) then VSameSizeRoots
       else match proof with [] => VOk | _ :: _ => VTooLong end)
    else if (old_size =? 0)%N then
      (if teqb old_root hempty then VOk else VEmptyOldRoot)
    else
      let '(node, last) := strip_ones (N.size_nat (old_size - 1)) (old_size - 1) (new_size - 1) in
      match proof with
      | [] => VWrongLength
      | p0 :: rest0 =>
          let '(h0, rest) := if (node =? 0)%N then (old_root, proof) else (p0, rest0) in
          match cons_loop (N.size_nat node) node last h0 h0 rest with
          | None => VWrongLength
          | Some (last', oh, nh, rest') =>
              match up_loop (N.size_nat last') nh rest' with
              | None => VWrongLength
              | Some (nh', rest'') =>
                  if negb (teqb nh' new_root) then VNewRootMismatch
                  else if negb (teqb oh old_root) then VOldRootMismatch
                  else match rest'' with [] => VOk | _ :: _ => VTooLong end
              end
          end
      end.

  (** * Driving the tree: the tree (with a memory store) after appending [ls] to the empty tree *)
  Definition empty_tree_mem : ctree := mk_ctree 0 [] (Some hs_mem_new).
  Definition build (ls : list T) : option ctree := append_all empty_tree_mem ls.
End Merkle.


(** * Instantiation with SHA-256 over bytes (TreeHasher) *)
Definition sha_hash_leaf (data : bytes) : bytes := sha256 (0%N :: data).
Definition sha_hash_children (l r : bytes) : bytes := sha256 (1%N :: l ++ r).
Definition sha_hash_empty : bytes := sha256 [].
Definition sha_zero : bytes := repeat 0%N 32.
