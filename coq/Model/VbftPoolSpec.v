(** Model/VbftPoolSpec.v — the vocabulary of property C31 over the pool model (definitions only):
    who counts as a peer with a valid signature for a proposal, the quorum statement, and the
    decidable description of "intake counted only verified endorsements". *)
From Coq Require Import List Bool NArith ZArith.
Import ListNotations.
From Ont Require Import Model.VbftPool.
Local Open Scope N_scope.

(** The quorum of the property text: N - (N-1)/3. *)
Definition quorum_size (n : Z) : Z := (n - (n - 1) / 3)%Z.

(** [i] is named in commit message [m] as a signer (its committer or one of the claimed endorsers). *)
Definition claimed_in (m : commit_msg) (i : N) : Prop :=
  cm_committer m = i \/ In i (map fst (cm_endorsers m)).

(** ... and the signature carried for [i] verifies. *)
Definition validly_signed_in (m : commit_msg) (i : N) : Prop :=
  (cm_committer m = i /\ cm_valid m = true) \/ In (i, true) (cm_endorsers m).

(** Peer [i] has a verifiable signature for the proposal of [p] present in the candidate state:
    it is a consensus peer and it is the proposer itself, or a commit message for [p] carries its
    valid signature, or the endorse-signature table holds a valid signature of [i] for [p]. *)
Definition valid_signer_for (peers : list N) (st : cand) (p i : N) : Prop :=
  In i peers /\
  (i = p \/
   (exists m, In m (c_commits st) /\ cm_proposer m = p /\ validly_signed_in m i) \/
   (exists l s, aget i (c_esigs st) = Some l /\ In s l /\ es_proposer s = p /\ es_valid s = true)).

(** At least [k] distinct such peers. *)
Definition has_signers (peers : list N) (k : Z) (st : cand) (p : N) : Prop :=
  exists S : list N, NoDup S /\ (k <= Z.of_nat (length S))%Z /\
                     forall i, In i S -> valid_signer_for peers st p i.

Definition wf_config (peers : list N) (n c : N) : Prop :=
  NoDup peers /\ N.of_nat (length peers) = n /\ 1 <= n < U32 /\ 3 * c + 1 <= n.

(** The statement scheme: for every configuration, every history of received messages satisfying
    [extra], every iteration order of the endorse-signature map and every isEndorser predicate:
    if commitDone declares commit consensus for proposer [p], at least [k n] distinct consensus
    peers have valid signatures for [p] in the pool. *)
Definition commit_quorum_statement (extra : list N -> list op -> Prop) (k : Z -> Z) : Prop :=
  forall (peers : list N) (n c : N) (isE : N -> bool) (ops : list op) (ord : list N) (p : N) (fe : bool),
    wf_config peers n c -> extra peers ops -> NoDup ord ->
    commit_done isE ord (run_ops ops cand_empty) c n = (p, fe, true) ->
    has_signers peers (k (Z.of_N n)) (run_ops ops cand_empty) p.

(** C31, full strength: all histories. *)
Definition commit_needs_quorum : Prop := commit_quorum_statement (fun _ _ => True) quorum_size.

(** Decidable side conditions on a history. *)
Definition op_ok (o : op) : bool :=
  match o with OpProposal ok _ => ok | OpEndorse _ ok _ => ok | OpCommit _ ok _ => ok end.

(** Every signature the message carries verifies under the key of the consensus peer it is
    attributed to, and the proposer it names is a consensus peer. *)
Definition op_verifiedb (peers : list N) (o : op) : bool :=
  match o with
  | OpProposal _ p => pp_valid p && memN (pp_proposer p) peers
  | OpEndorse _ _ m => em_valid m && memN (em_endorser m) peers && memN (em_proposer m) peers
  | OpCommit _ _ m =>
      cm_valid m && memN (cm_committer m) peers && memN (cm_proposer m) peers
      && forallb (fun e => snd e && memN (fst e) peers) (cm_endorsers m)
  end.

(** The commit message does not name the proposer among its own signers (the proposer is counted
    by the "+1" of getCommitConsensus already). *)
Definition op_no_doubleb (o : op) : bool :=
  match o with
  | OpCommit _ _ m => negb (cm_committer m =? cm_proposer m)
                      && negb (memN (cm_proposer m) (map fst (cm_endorsers m)))
  | _ => true
  end.

(** "Intake counts only verified endorsements": every message that passes the receive check is
    verified in the sense above. *)
Definition counted_verified (peers : list N) (ops : list op) : Prop :=
  forallb (fun o => negb (passes (op_ok o)) || op_verifiedb peers o) ops = true.

Definition no_double_count (ops : list op) : Prop :=
  forallb (fun o => negb (passes (op_ok o)) || op_no_doubleb o) ops = true.

(** The finding classes of known_findings.d/C31.json as predicates on a history. *)
Definition in_class_unverified (peers : list N) (ops : list op) : bool :=
  negb (forallb (fun o => negb (passes (op_ok o)) || op_verifiedb peers o) ops).
Definition in_class_double (ops : list op) : bool :=
  negb (forallb (fun o => negb (passes (op_ok o)) || op_no_doubleb o) ops).
