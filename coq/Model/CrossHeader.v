(** Model of the cross-chain header-sync contract's header verification.

    Mirrors, in /repo:
    - core/signature/signature.go            VerifyMultiSignature (mask algorithm, loop by loop)
    - smartcontract/service/native/cross_chain/header_sync/utils.go
                                             findKeyHeight, getConsensusPeersByHeight, VerifyHeader,
                                             putConsensusPeers, UpdateConsensusPeer, ProcessHeader
    - .../header_sync/states.go              KeyHeights (sorted big -> small when written),
                                             ConsensusPeers (a Go map: one entry per peer id)
    - .../header_sync/header_sync.go         SyncGenesisHeader, SyncBlockHeader

    How the key-height list is written (append + stable sort big -> small) is read from the AST
    (Gen/CrossHeaderShape.v).  Integer expressions (both sides of the 2/3 comparison, the signature count handed to
    VerifyMultiSignature, the length test and loop bounds of VerifyMultiSignature) come from
    Gen/CrossHeader.v, regenerated from the Go AST on every run.

    Abstractions (trusted base): public keys and peer ids are numbers (the harness maps
    vconfig.PubkeyID(key) = peer-id string to one number); a signature either does not deserialize
    ([SigBad]) or verifies under exactly one key for exactly one message ([SigOf]); the header hash is
    a message number.  Definitions only, no proofs. *)
From Coq Require Import List Bool NArith ZArith.
Import ListNotations.
From Ont Require Import Gen.CrossHeader Gen.CrossHeaderShape.
Local Open Scope N_scope.

(** * Abstract signatures *)
Inductive sigv :=
| SigBad                      (* s.Deserialize fails *)
| SigOf (signer msg : N).     (* deserializes; s.Verify(k, data, sig) iff k = signer and data = msg *)

Definition sig_verify (k msg : N) (s : sigv) : bool :=
  match s with
  | SigBad => false
  | SigOf k' m' => (k =? k') && (msg =? m')
  end.

(** * Bookkeeper keys as the header carries them *)
(** A header names its bookkeepers by ENCODED public keys.  [BkKey k]: the decoded key object is
    peer/key [k]'s genuine key (whatever the encoding: compressed or uncompressed).  [BkForged pid]:
    a decoded key object that is no genuine key (ec.DecodePublicKey does not check that an
    uncompressed point is on the curve) but whose vconfig.PubkeyID - the compressed form, X plus
    the parity of Y - is [pid]; under such a key no signature verifies: the crypto library
    returns false or panics, and signature.verify turns the panic into false. *)
Inductive bkey :=
| BkKey (k : N)
| BkForged (pid : N).

Definition bk_pid (b : bkey) : N := match b with BkKey k => k | BkForged p => p end.

Definition bk_verify (b : bkey) (msg : N) (s : sigv) : bool :=
  match b with
  | BkKey k => sig_verify k msg s
  | BkForged _ => false
  end.

(** * signature.VerifyMultiSignature *)
Inductive ms_err := MsNotEnough | MsBadSig | MsFailed | MsPanic.

(** inner loop [for j := 0; j < n; j++]: skip masked positions, take the first unmasked key that
    verifies; [None] = no key found ([valid] stays false). *)
Fixpoint ms_scan (msg : N) (s : sigv) (keys : list bkey) (mask : list bool) : option (list bool) :=
  match keys, mask with
  | k :: ks, b :: bs =>
      if b then option_map (cons true) (ms_scan msg s ks bs)
      else if bk_verify k msg s then Some (true :: bs)
      else option_map (cons false) (ms_scan msg s ks bs)
  | _, _ => None
  end.

(** outer loop [for i := 0; i < m; i++] over sigs[i]; [None] = loop finished, return nil. *)
Fixpoint ms_loop (msg : N) (keys : list bkey) (m : nat) (sigs : list sigv) (mask : list bool)
  : option ms_err :=
  match m with
  | O => None
  | S m' =>
      match sigs with
      | [] => Some MsPanic                      (* sigs[i] out of range: excluded by the length test *)
      | s :: rest =>
          match s with
          | SigBad => Some MsBadSig
          | SigOf _ _ =>
              match ms_scan msg s keys mask with
              | None => Some MsFailed
              | Some mask' => ms_loop msg keys m' rest mask'
              end
          end
      end
  end.

Definition verify_multi (msg : N) (keys : list bkey) (m : Z) (sigs : list sigv) : option ms_err :=
  let n := Z.of_nat (length keys) in
  if (ms_sigs_have (Z.of_nat (length sigs)) <? ms_sigs_need m)%Z then Some MsNotEnough
  else if ((n <? ms_inner_bound n) || (ms_mask_len n <? ms_inner_bound n))%Z
       then Some MsPanic                        (* keys[j] / mask[j] out of range *)
  else ms_loop msg (firstn (Z.to_nat (ms_inner_bound n)) keys) (Z.to_nat (ms_outer_bound m)) sigs
               (repeat false (Z.to_nat (ms_mask_len n))).

(** * Stored state read by VerifyHeader *)
(** What the contract's storage holds: per chain the KeyHeights list in stored order, and per
    (chain, key height) the serialized ConsensusPeers record (peer ids in serialized order). *)
Record hstore := mkStore {
  st_key_heights : list (N * list N);
  st_peers : list ((N * N) * list N)
}.

Fixpoint assoc1 {V} (k : N) (l : list (N * V)) : option V :=
  match l with
  | [] => None
  | (k', v) :: r => if k =? k' then Some v else assoc1 k r
  end.

Fixpoint assoc2 {V} (a b : N) (l : list ((N * N) * V)) : option V :=
  match l with
  | [] => None
  | ((a', b'), v) :: r => if (a =? a') && (b =? b') then Some v else assoc2 a b r
  end.

(** GetKeyHeights: an absent record is the empty list. *)
Definition get_key_heights (st : hstore) (chain : N) : list N :=
  match assoc1 chain (st_key_heights st) with Some l => l | None => [] end.

(** findKeyHeight: the first stored key height strictly below [height]. *)
Definition find_key_height (st : hstore) (height chain : N) : option N :=
  if kh_find_first_below then find (fun v => v <? height) (get_key_heights st chain) else None.

Definition mem (k : N) (l : list N) : bool := existsb (N.eqb k) l.

(** ConsensusPeers.Deserialization fills a Go map keyed by the peer id: one entry per id. *)
Fixpoint peer_map (l : list N) : list N :=
  match l with
  | [] => []
  | p :: r => if mem p r then peer_map r else p :: peer_map r
  end.

(** getConsensusPeersByHeight: [None] = "can not find any record". *)
Definition get_consensus_peers (st : hstore) (chain height : N) : option (list N) :=
  option_map peer_map (assoc2 chain height (st_peers st)).

(** * Header (the fields VerifyHeader looks at) and VerifyHeader *)
Inductive payload :=
| PBad                        (* ConsensusPayload is not a VbftBlockInfo JSON *)
| PNone                       (* no new_chain_config *)
| PPeers (ids : list N).      (* new_chain_config.peers[*].id *)

Record xheader := mkHeader {
  h_chain : N;
  h_height : N;
  h_msg : N;                  (* header.Hash() as a message number *)
  h_bookkeepers : list bkey;
  h_sigs : list sigv;
  h_payload : payload
}.

Inductive vh_err :=
| ENoKeyHeight | ENoPeers | ETooFew | ENotPeer | ENotEnoughSigs | EBadSig | EMultiFailed | EPanic
| EPayload.

Inductive vh_result := ROk | RErr (e : vh_err).

Definition ms_to_vh (e : ms_err) : vh_err :=
  match e with
  | MsNotEnough => ENotEnoughSigs
  | MsBadSig => EBadSig
  | MsFailed => EMultiFailed
  | MsPanic => EPanic
  end.

Definition verify_header (st : hstore) (h : xheader) : vh_result :=
  match find_key_height st (h_height h) (h_chain h) with
  | None => RErr ENoKeyHeight
  | Some kh =>
      match get_consensus_peers st (h_chain h) kh with
      | None => RErr ENoPeers
      | Some pm =>
          let nb := Z.of_nat (length (h_bookkeepers h)) in
          let np := Z.of_nat (length pm) in
          if (vh_count_lhs nb <? vh_count_rhs np)%Z then RErr ETooFew
          else if negb (forallb (fun b => mem (bk_pid b) pm) (h_bookkeepers h)) then RErr ENotPeer
          else match verify_multi (h_msg h) (h_bookkeepers h) (vh_multisig_m nb) (h_sigs h) with
               | Some e => RErr (ms_to_vh e)
               | None => ROk
               end
      end
  end.

(** The smallest repair (not in the code): refuse a bookkeeper list that names a key twice. *)
Fixpoint has_dup (l : list N) : bool :=
  match l with
  | [] => false
  | k :: r => mem k r || has_dup r
  end.

Definition verify_header_repaired (st : hstore) (h : xheader) : vh_result :=
  if has_dup (map bk_pid (h_bookkeepers h)) then RErr ENotPeer else verify_header st h.

(** * Writing side: putConsensusPeers / UpdateConsensusPeer / ProcessHeader / the two entry points *)
Fixpoint set1 {V} (k : N) (v : V) (l : list (N * V)) : list (N * V) :=
  match l with
  | [] => [(k, v)]
  | (k', v') :: r => if k =? k' then (k, v) :: r else (k', v') :: set1 k v r
  end.

Fixpoint set2 {V} (a b : N) (v : V) (l : list ((N * N) * V)) : list ((N * N) * V) :=
  match l with
  | [] => [((a, b), v)]
  | ((a', b'), v') :: r =>
      if (a =? a') && (b =? b') then ((a, b), v) :: r else ((a', b'), v') :: set2 a b v r
  end.

(** append + sort.SliceStable (big -> small): the new height goes after every element >= it. *)
Fixpoint kh_insert (h : N) (l : list N) : list N :=
  match l with
  | [] => [h]
  | x :: r => if h <=? x then x :: kh_insert h r else h :: l
  end.

(** KeyHeights.Serialization sorts the whole list (stable, descending) before writing. *)
Definition kh_sort (l : list N) : list N := fold_left (fun acc x => kh_insert x acc) l [].

(** How putConsensusPeers extends the list and what KeyHeights.Serialization does before writing
    are read from the source (Gen/CrossHeaderShape.v). *)
Definition kh_add (old : list N) (h : N) : list N :=
  if kh_put_appends then old ++ [h] else h :: old.

Definition kh_store (l : list N) : list N := if kh_write_sorts_desc then kh_sort l else l.

Definition put_consensus_peers (st : hstore) (chain height : N) (ids : list N) : hstore :=
  mkStore (set1 chain (kh_store (kh_add (get_key_heights st chain) height)) (st_key_heights st))
          (set2 chain height (peer_map ids) (st_peers st)).

(** UpdateConsensusPeer; [None] = JSON error. *)
Definition update_consensus_peer (st : hstore) (h : xheader) : option hstore :=
  match h_payload h with
  | PBad => None
  | PNone => Some st
  | PPeers ids => Some (put_consensus_peers st (h_chain h) (h_height h) ids)
  end.

(** Contract state: the peer records plus the (chain, height) pairs that have a stored header. *)
Record cstate := mkC { c_store : hstore; c_headers : list (N * N) }.

Definition has_header (c : cstate) (chain height : N) : bool :=
  existsb (fun p => (fst p =? chain) && (snd p =? height)) (c_headers c).

(** SyncGenesisHeader (operator witness already checked): store, then UpdateConsensusPeer. *)
Definition sync_genesis (c : cstate) (h : xheader) : vh_result * cstate :=
  match update_consensus_peer (c_store c) h with
  | None => (RErr EPayload, c)
  | Some st' => (ROk, mkC st' ((h_chain h, h_height h) :: c_headers c))
  end.

(** ProcessHeader. *)
Definition process_header (c : cstate) (h : xheader) : vh_result * cstate :=
  match verify_header (c_store c) h with
  | RErr e => (RErr e, c)
  | ROk =>
      match update_consensus_peer (c_store c) h with
      | None => (RErr EPayload, c)
      | Some st' => (ROk, mkC st' ((h_chain h, h_height h) :: c_headers c))
      end
  end.

(** SyncBlockHeader: headers whose (chain, height) is already stored are skipped; the first error
    aborts the call (the transaction's cache is then dropped: the state is the one before). *)
Fixpoint sync_headers (c : cstate) (hs : list xheader) : vh_result * cstate :=
  match hs with
  | [] => (ROk, c)
  | h :: r =>
      if has_header c (h_chain h) (h_height h) then sync_headers c r
      else match process_header c h with
           | (ROk, c') => sync_headers c' r
           | (RErr e, _) => (RErr e, c)
           end
  end.

Definition sync_block_header (c : cstate) (hs : list xheader) : vh_result * cstate :=
  match sync_headers c hs with
  | (ROk, c') => (ROk, c')
  | (RErr e, _) => (RErr e, c)
  end.
