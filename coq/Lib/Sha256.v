(** Executable SHA-256 (FIPS 180-4) over byte strings ([list N], each element < 256).

    32-bit words are [N]; every word-producing operation is reduced with [w32], which is
    [x mod 2^32] (lemma [w32_mod]) computed as [N.land x (2^32-1)] so that [vm_compute] is fast.
    Only structural recursion: bytes -> big-endian words -> 16-word blocks -> 64 rounds folded
    over the round-constant list with a sliding 16-word message-schedule window.

    Checked in this file: the FIPS 180 vectors "", "abc", the 448-bit message, and 'a' * 1000.
    Proved: [sha256_length] (32 bytes) and [sha256_wf] (all bytes < 256), for every input. *)
From Coq Require Import List Bool Arith NArith Lia Ascii.
From Coq Require String.
From Ont Require Import Lib.Bytes.
Import ListNotations.
Local Open Scope N_scope.

(** * 32-bit word operations *)

Definition mask32 : N := 4294967295.

Definition w32 (x : N) : N := N.land x mask32.

Lemma w32_mod x : w32 x = x mod 2 ^ 32.
Proof. unfold w32. change mask32 with (N.ones 32). apply N.land_ones. Qed.

Lemma w32_lt x : w32 x < 2 ^ 32.
Proof. rewrite w32_mod. apply N.mod_lt. discriminate. Qed.

Definition add32 (a b : N) : N := w32 (a + b).

(** rotate right by [n] (0 < n < 32) of a word < 2^32; [m] must be [32 - n]. *)
Definition rotr (n m x : N) : N := N.lor (N.shiftr x n) (w32 (N.shiftl x m)).

Definition Ch (x y z : N) : N := N.lxor z (N.land x (N.lxor y z)).
Definition Maj (x y z : N) : N := N.lor (N.land x y) (N.land z (N.lor x y)).
Definition Sig0 (x : N) : N := N.lxor (rotr 2 30 x) (N.lxor (rotr 13 19 x) (rotr 22 10 x)).
Definition Sig1 (x : N) : N := N.lxor (rotr 6 26 x) (N.lxor (rotr 11 21 x) (rotr 25 7 x)).
Definition sig0 (x : N) : N := N.lxor (rotr 7 25 x) (N.lxor (rotr 18 14 x) (N.shiftr x 3)).
Definition sig1 (x : N) : N := N.lxor (rotr 17 15 x) (N.lxor (rotr 19 13 x) (N.shiftr x 10)).

(** * Constants *)

Definition K256 : list N :=
  [ 1116352408; 1899447441; 3049323471; 3921009573; 961987163; 1508970993; 2453635748; 2870763221;
    3624381080; 310598401; 607225278; 1426881987; 1925078388; 2162078206; 2614888103; 3248222580;
    3835390401; 4022224774; 264347078; 604807628; 770255983; 1249150122; 1555081692; 1996064986;
    2554220882; 2821834349; 2952996808; 3210313671; 3336571891; 3584528711; 113926993; 338241895;
    666307205; 773529912; 1294757372; 1396182291; 1695183700; 1986661051; 2177026350; 2456956037;
    2730485921; 2820302411; 3259730800; 3345764771; 3516065817; 3600352804; 4094571909; 275423344;
    430227734; 506948616; 659060556; 883997877; 958139571; 1322822218; 1537002063; 1747873779;
    1955562222; 2024104815; 2227730452; 2361852424; 2428436474; 2756734187; 3204031479; 3329325298 ].

Definition hstate : Type := (N * N * N * N * N * N * N * N)%type.

Definition H0 : hstate :=
  (1779033703, 3144134277, 1013904242, 2773480762, 1359893119, 2600822924, 528734635, 1541459225).

(** * Compression *)

(** Round state: working variables a..h and the 16-word schedule window W[t..t+15]. *)
Definition rstate : Type := (hstate * list N)%type.

Definition round (st : rstate) (k : N) : rstate :=
  match st with
  | ((a, b, c, d, e, f, g, h),
     w0 :: w1 :: w2 :: w3 :: w4 :: w5 :: w6 :: w7 ::
     w8 :: w9 :: w10 :: w11 :: w12 :: w13 :: w14 :: w15 :: _) =>
      let t1 := h + Sig1 e + Ch e f g + k + w0 in
      let t2 := Sig0 a + Maj a b c in
      let wn := w32 (sig1 w14 + w9 + sig0 w1 + w0) in
      ((w32 (t1 + t2), a, b, c, w32 (d + t1), e, f, g),
       [w1; w2; w3; w4; w5; w6; w7; w8; w9; w10; w11; w12; w13; w14; w15; wn])
  | _ => st
  end.

(** [compress hs blk]: one 512-bit block given as 16 big-endian words. *)
Definition compress (hs : hstate) (blk : list N) : hstate :=
  match hs, fst (fold_left round K256 (hs, blk)) with
  | (a, b, c, d, e, f, g, h), (a', b', c', d', e', f', g', h') =>
      (add32 a a', add32 b b', add32 c c', add32 d d',
       add32 e e', add32 f f', add32 g g', add32 h h')
  end.

(** * Bytes -> words -> blocks *)

Fixpoint words_of_bytes (b : bytes) : list N :=
  match b with
  | b0 :: b1 :: b2 :: b3 :: r =>
      (b3 + N.shiftl b2 8 + N.shiftl b1 16 + N.shiftl b0 24) :: words_of_bytes r
  | _ => []
  end.

(** [process_aux hs buf n ws]: [buf] holds the words of the current block in reverse, [n] more
    words (after the next one) complete it. Trailing words that do not fill a block are ignored
    (the padded message never has any, see [pad_length]). *)
Fixpoint process_aux (hs : hstate) (buf : list N) (n : nat) (ws : list N) {struct ws} : hstate :=
  match ws with
  | [] => hs
  | w :: r =>
      match n with
      | O => process_aux (compress hs (rev' (w :: buf))) [] 15%nat r
      | S n' => process_aux hs (w :: buf) n' r
      end
  end.

Definition process (hs : hstate) (ws : list N) : hstate := process_aux hs [] 15%nat ws.

(** * Padding *)

(** Big-endian 4 bytes of a word, 8 bytes of a length. *)
Definition be32 (v : N) : bytes :=
  [ (v / 16777216) mod 256; (v / 65536) mod 256; (v / 256) mod 256; v mod 256 ].

Definition be64 (v : N) : bytes := be32 (v / 4294967296) ++ be32 v.

(** Number of zero bytes so that [len + 1 + zeros + 8] is a multiple of 64. *)
Definition pad_zeros (len : nat) : nat := ((119 - len mod 64) mod 64)%nat.

Definition pad (msg : bytes) : bytes :=
  let len := length msg in
  msg ++ 128 :: repeat 0 (pad_zeros len) ++ be64 ((8 * N.of_nat len) mod 2 ^ 64).

Lemma pad_length msg : (length (pad msg) mod 64 = 0)%nat.
Proof.
  unfold pad, pad_zeros. rewrite app_length. cbn [length]. rewrite app_length, repeat_length.
  change (length (be64 _)) with 8%nat.
  pose proof (Nat.div_mod (length msg) 64 ltac:(discriminate)) as E.
  pose proof (Nat.mod_upper_bound (length msg) 64 ltac:(discriminate)) as B.
  set (q := (length msg / 64)%nat) in *. set (r := (length msg mod 64)%nat) in *.
  assert (C : (r <= 55 \/ 56 <= r)%nat) by lia. destruct C as [C | C].
  - replace ((119 - r) mod 64)%nat with (55 - r)%nat.
    + replace (length msg + S (55 - r + 8))%nat with ((q + 1) * 64)%nat by lia.
      apply Nat.mod_mul. discriminate.
    + apply (Nat.mod_unique _ _ 1%nat); lia.
  - replace ((119 - r) mod 64)%nat with (119 - r)%nat.
    + replace (length msg + S (119 - r + 8))%nat with ((q + 2) * 64)%nat by lia.
      apply Nat.mod_mul. discriminate.
    + symmetry. apply Nat.mod_small. lia.
Qed.

(** * The hash *)

Definition digest_bytes (hs : hstate) : bytes :=
  match hs with
  | (a, b, c, d, e, f, g, h) =>
      be32 a ++ be32 b ++ be32 c ++ be32 d ++ be32 e ++ be32 f ++ be32 g ++ be32 h
  end.

Definition sha256 (msg : bytes) : bytes :=
  digest_bytes (process H0 (words_of_bytes (pad msg))).

Definition sha256d (msg : bytes) : bytes := sha256 (sha256 msg).

(** * Shape of the output *)

Lemma be32_wf v : wf_bytes (be32 v) = true.
Proof.
  unfold be32, wf_bytes, byte_ok. cbn [forallb].
  repeat (rewrite (proj2 (N.ltb_lt _ 256)) by (apply N.mod_lt; discriminate)).
  reflexivity.
Qed.

Lemma digest_bytes_length hs : length (digest_bytes hs) = 32%nat.
Proof. destruct hs as [[[[[[[a b] c] d] e] f] g] h]. reflexivity. Qed.

Lemma digest_bytes_wf hs : wf_bytes (digest_bytes hs) = true.
Proof.
  destruct hs as [[[[[[[a b] c] d] e] f] g] h]. unfold digest_bytes.
  repeat rewrite wf_bytes_app. repeat rewrite be32_wf. reflexivity.
Qed.

Lemma sha256_length : forall m, length (sha256 m) = 32%nat.
Proof. intro m. apply digest_bytes_length. Qed.

Lemma sha256_wf : forall m, wf_bytes (sha256 m) = true.
Proof. intro m. apply digest_bytes_wf. Qed.

Lemma sha256d_length : forall m, length (sha256d m) = 32%nat.
Proof. intro m. apply sha256_length. Qed.

Lemma sha256d_wf : forall m, wf_bytes (sha256d m) = true.
Proof. intro m. apply sha256_wf. Qed.

(** Every word of the chaining state after a block is < 2^32. *)
Definition hstate_ok (hs : hstate) : Prop :=
  match hs with
  | (a, b, c, d, e, f, g, h) =>
      a < 2 ^ 32 /\ b < 2 ^ 32 /\ c < 2 ^ 32 /\ d < 2 ^ 32 /\
      e < 2 ^ 32 /\ f < 2 ^ 32 /\ g < 2 ^ 32 /\ h < 2 ^ 32
  end.

Lemma compress_ok hs blk : hstate_ok (compress hs blk).
Proof.
  unfold compress. destruct hs as [[[[[[[a b] c] d] e] f] g] h].
  destruct (fst _) as [[[[[[[a' b'] c'] d'] e'] f'] g'] h'].
  unfold hstate_ok, add32. repeat split; apply w32_lt.
Qed.

(** * Test vectors (FIPS 180) *)

Definition bytes_of_string (s : String.string) : bytes :=
  map N_of_ascii (String.list_ascii_of_string s).

Definition hex_digit (c : ascii) : N :=
  let n := N_of_ascii c in
  if n <? 58 then n - 48 else if n <? 71 then n - 55 else n - 87.

Fixpoint bytes_of_hex (s : String.string) : bytes :=
  match s with
  | String.String c1 (String.String c2 r) => (16 * hex_digit c1 + hex_digit c2) :: bytes_of_hex r
  | _ => []
  end.

(* [String] is imported only here, at the end (it shadows [length]), for string literals. *)
Import String.

Example sha256_empty :
  sha256 [] = bytes_of_hex "e3b0c44298fc1c149afbf4c8996fb92427ae41e4649b934ca495991b7852b855".
Proof. vm_compute. reflexivity. Qed.

Example sha256_abc :
  sha256 (bytes_of_string "abc")
  = bytes_of_hex "ba7816bf8f01cfea414140de5dae2223b00361a396177a9cb410ff61f20015ad".
Proof. vm_compute. reflexivity. Qed.

Example sha256_448bit :
  sha256 (bytes_of_string "abcdbcdecdefdefgefghfghighijhijkijkljklmklmnlmnomnopnopq")
  = bytes_of_hex "248d6a61d20638b8e5c026930c3e6039a33ce45964ff2167f6ecedd419db06c1".
Proof. vm_compute. reflexivity. Qed.

Example sha256_a1000 :
  sha256 (repeat 97 1000)
  = bytes_of_hex "41edece42d63e8d9bf515a9ba6932e1c20cbc9f5a5d134645adb5db1b9737ea3".
Proof. vm_compute. reflexivity. Qed.

(** sha256d("") = SHA-256 of the empty string's digest (well-known value). *)
Example sha256d_empty :
  sha256d [] = bytes_of_hex "5df6e0e2761359d30a8275058e299fcc0381534545f55cf43e41983f5d4c9456".
Proof. vm_compute. reflexivity. Qed.
