(** Positional numerals over [N] in an arbitrary radix [b >= 2]: digit strings to numbers and back,
    round trips, uniqueness of canonical (no leading zero) digit strings, length bounds.
    Two presentations: least-significant-digit first ([_le], structural, used for the proofs) and
    most-significant first (what big.Int.Bytes/String and the base-58 package produce). *)
From Coq Require Import List Bool Arith NArith Lia ZArith ZifyN ZifyNat ZifyBool.
Import ListNotations.
Local Open Scope N_scope.
Ltac Zify.zify_post_hook ::= Z.to_euclidean_division_equations.

(** value of a digit string, least significant digit first *)
Fixpoint of_digits_le (b : N) (ds : list N) : N :=
  match ds with
  | [] => 0
  | d :: r => d + b * of_digits_le b r
  end.

(** value of a digit string, most significant digit first: the loop [n = n*b + d] *)
Definition of_digits (b : N) (ds : list N) : N := fold_left (fun acc d => acc * b + d) ds 0.

(** digits of [n], least significant first: the loop [while n > 0 { n, m = divmod(n, b); emit m }].
    [fuel] bounds the number of iterations; [N.size n] (the bit length) always suffices for b >= 2
    ([to_digits_le_value]). *)
Fixpoint to_digits_le (b : N) (fuel : nat) (n : N) : list N :=
  match fuel with
  | O => []
  | S f => if n =? 0 then [] else (n mod b) :: to_digits_le b f (n / b)
  end.

Definition digit_fuel (n : N) : nat := N.to_nat (N.size n).

(** canonical digits of [n], most significant first; [[]] for 0 *)
Definition to_digits (b : N) (n : N) : list N := rev (to_digits_le b (digit_fuel n) n).

Definition digits_lt (b : N) (ds : list N) : Prop := Forall (fun d => d < b) ds.
(** no leading zero (MSB-first) / no trailing zero (LSB-first); the empty string is canonical *)
Definition canon_le (ds : list N) : Prop := last ds 1 <> 0.
Definition canon (ds : list N) : Prop := hd 1 ds <> 0.

Lemma last_hd_rev {A} (l : list A) d : last l d = hd d (rev l).
Proof.
  induction l as [|x l IH] using rev_ind; [reflexivity|].
  rewrite last_last, rev_app_distr. reflexivity.
Qed.

Lemma canon_rev ds : canon (rev ds) <-> canon_le ds.
Proof. unfold canon, canon_le. rewrite last_hd_rev. tauto. Qed.

Lemma digits_lt_rev b ds : digits_lt b (rev ds) <-> digits_lt b ds.
Proof.
  unfold digits_lt. rewrite !Forall_forall. split; intros H x Hx; apply H.
  - apply in_rev in Hx. exact Hx.
  - apply in_rev. exact Hx.
Qed.

(** *** MSB-first value as LSB-first value of the reversed string *)
Lemma of_digits_snoc b ds d : of_digits b (ds ++ [d]) = of_digits b ds * b + d.
Proof. unfold of_digits. rewrite fold_left_app. reflexivity. Qed.

Lemma of_digits_rev b ds : of_digits b ds = of_digits_le b (rev ds).
Proof.
  induction ds as [|d ds IH] using rev_ind; [reflexivity|].
  rewrite of_digits_snoc, rev_app_distr. cbn [rev app of_digits_le]. rewrite IH. lia.
Qed.

Lemma of_digits_le_app b xs ys :
  of_digits_le b (xs ++ ys) = of_digits_le b xs + b ^ N.of_nat (length xs) * of_digits_le b ys.
Proof.
  induction xs as [|x xs IH].
  - cbn [app of_digits_le length]. change (N.of_nat 0) with 0. rewrite N.pow_0_r. lia.
  - cbn [app of_digits_le length]. rewrite IH, Nat2N.inj_succ, N.pow_succ_r'. lia.
Qed.

Lemma of_digits_app b xs ys :
  of_digits b (xs ++ ys) = of_digits b xs * b ^ N.of_nat (length ys) + of_digits b ys.
Proof. rewrite !of_digits_rev, rev_app_distr, of_digits_le_app, rev_length. lia. Qed.

Lemma of_digits_cons b d ds : of_digits b (d :: ds) = d * b ^ N.of_nat (length ds) + of_digits b ds.
Proof.
  change (d :: ds) with ([d] ++ ds). rewrite of_digits_app.
  unfold of_digits at 1. cbn [fold_left]. lia.
Qed.

Lemma of_digits_le_repeat0 b k : of_digits_le b (repeat 0 k) = 0.
Proof. induction k as [|k IH]; cbn [repeat of_digits_le]; [reflexivity|rewrite IH; lia]. Qed.

(** leading zeros do not change the value *)
Lemma of_digits_leading_zeros b k ds : of_digits b (repeat 0 k ++ ds) = of_digits b ds.
Proof.
  rewrite of_digits_app. rewrite (of_digits_rev b (repeat 0 k)).
  assert (E : rev (repeat 0 k) = repeat 0 k).
  { induction k as [|k IH]; [reflexivity|]. cbn [repeat rev]. rewrite IH.
    clear IH. induction k as [|k IH]; [reflexivity|]. cbn [repeat app]. rewrite IH. reflexivity. }
  rewrite E, of_digits_le_repeat0. lia.
Qed.

(** *** bounds *)
Lemma of_digits_le_bound b ds : digits_lt b ds -> of_digits_le b ds < b ^ N.of_nat (length ds).
Proof.
  induction 1 as [|d r Hd Hr IH].
  - cbn. lia.
  - cbn [of_digits_le length]. rewrite Nat2N.inj_succ, N.pow_succ_r'. nia.
Qed.

Lemma of_digits_le_nonzero b ds :
  1 <= b -> canon_le ds -> ds <> [] -> of_digits_le b ds <> 0.
Proof.
  intros Hb. induction ds as [|d r IH]; intros Hc Hne; [congruence|].
  cbn [of_digits_le]. destruct r as [|d' r'].
  - unfold canon_le in Hc. cbn in Hc. cbn [of_digits_le]. lia.
  - assert (of_digits_le b (d' :: r') <> 0).
    { apply IH; [|discriminate]. unfold canon_le in *. exact Hc. }
    nia.
Qed.

Lemma of_digits_le_lower b ds :
  1 <= b -> canon_le ds -> ds <> [] -> b ^ N.of_nat (pred (length ds)) <= of_digits_le b ds.
Proof.
  intros Hb. induction ds as [|d r IH]; intros Hc Hne; [congruence|].
  cbn [of_digits_le length pred]. destruct r as [|d' r'].
  - unfold canon_le in Hc. cbn in Hc. cbn [of_digits_le length]. change (N.of_nat 0) with 0.
    rewrite N.pow_0_r. lia.
  - assert (H : b ^ N.of_nat (pred (length (d' :: r'))) <= of_digits_le b (d' :: r')).
    { apply IH; [|discriminate]. unfold canon_le in *. exact Hc. }
    cbn [length pred] in H. cbn [length]. rewrite Nat2N.inj_succ, N.pow_succ_r'. nia.
Qed.

(** *** digits of a number *)
Lemma to_digits_le_lt b f n : 1 <= b -> digits_lt b (to_digits_le b f n).
Proof.
  intro Hb. revert n. induction f as [|f IH]; intro n; cbn [to_digits_le]; [constructor|].
  destruct (n =? 0); constructor; [apply N.mod_lt; lia|apply IH].
Qed.

Lemma to_digits_le_value b f n :
  2 <= b -> n < 2 ^ N.of_nat f -> of_digits_le b (to_digits_le b f n) = n.
Proof.
  intro Hb. revert n. induction f as [|f IH]; intros n Hn.
  - cbn in Hn. cbn. lia.
  - cbn [to_digits_le]. destruct (N.eqb_spec n 0) as [->|Hnz]; [reflexivity|].
    cbn [of_digits_le]. rewrite IH.
    + pose proof (N.div_mod n b). lia.
    + rewrite Nat2N.inj_succ, N.pow_succ_r' in Hn.
      assert (n / b <= n / 2) by (apply N.div_le_compat_l; lia).
      assert (n / 2 < 2 ^ N.of_nat f) by (apply N.div_lt_upper_bound; lia).
      lia.
Qed.

Lemma to_digits_le_canon b f n :
  2 <= b -> n < 2 ^ N.of_nat f -> canon_le (to_digits_le b f n).
Proof.
  intro Hb. revert n. induction f as [|f IH]; intros n Hn.
  - unfold canon_le. cbn. lia.
  - cbn [to_digits_le]. destruct (N.eqb_spec n 0) as [->|Hnz]; [unfold canon_le; cbn; lia|].
    assert (Hq : n / b < 2 ^ N.of_nat f).
    { rewrite Nat2N.inj_succ, N.pow_succ_r' in Hn.
      assert (n / b <= n / 2) by (apply N.div_le_compat_l; lia).
      assert (n / 2 < 2 ^ N.of_nat f) by (apply N.div_lt_upper_bound; lia).
      lia. }
    specialize (IH _ Hq). pose proof (to_digits_le_value b f (n / b) Hb Hq) as Hv.
    destruct (to_digits_le b f (n / b)) as [|d r] eqn:E.
    + cbn in Hv. unfold canon_le. cbn [last].
      pose proof (N.div_mod n b). lia.
    + unfold canon_le in *. exact IH.
Qed.

Lemma digit_fuel_ok n : n < 2 ^ N.of_nat (digit_fuel n).
Proof. unfold digit_fuel. rewrite N2Nat.id. apply N.size_gt. Qed.

(** uniqueness of canonical digit strings *)
Lemma canon_le_tail d r : canon_le (d :: r) -> canon_le r.
Proof. unfold canon_le. destruct r; [cbn; lia|exact (fun H => H)]. Qed.

Lemma digit_split b x X y Y : x < b -> y < b -> x + b * X = y + b * Y -> x = y /\ X = Y.
Proof.
  intros Hx Hy E.
  assert (Hbz : b <> 0) by lia.
  assert (Ex : (x + b * X) mod b = x).
  { replace (x + b * X) with (x + X * b) by lia. rewrite N.mod_add by exact Hbz. apply N.mod_small; exact Hx. }
  assert (Ey : (y + b * Y) mod b = y).
  { replace (y + b * Y) with (y + Y * b) by lia. rewrite N.mod_add by exact Hbz. apply N.mod_small; exact Hy. }
  assert (x = y) by (rewrite <- Ex, <- Ey, E; reflexivity).
  split; [assumption|]. subst y. assert (b * X = b * Y) by lia.
  apply N.mul_cancel_l in H; assumption.
Qed.

Lemma of_digits_le_inj b xs ys :
  1 <= b -> digits_lt b xs -> digits_lt b ys -> canon_le xs -> canon_le ys ->
  of_digits_le b xs = of_digits_le b ys -> xs = ys.
Proof.
  intro Hb. revert ys. induction xs as [|x xs IH]; intros [|y ys] Hx Hy Cx Cy E.
  - reflexivity.
  - exfalso. symmetry in E. revert E. apply of_digits_le_nonzero; auto; discriminate.
  - exfalso. revert E. apply of_digits_le_nonzero; auto; discriminate.
  - cbn [of_digits_le] in E. inversion Hx as [|? ? Hx1 Hx2]; subst. inversion Hy as [|? ? Hy1 Hy2]; subst.
    assert (x = y /\ of_digits_le b xs = of_digits_le b ys) as [-> E2] by (eapply digit_split; eassumption).
    f_equal. apply IH; auto; eapply canon_le_tail; eassumption.
Qed.

(** *** the MSB-first statements used by the models *)
Section Radix.
  Variable b : N.
  Hypothesis Hb : 2 <= b.

  Lemma of_to_digits n : of_digits b (to_digits b n) = n.
  Proof.
    unfold to_digits. rewrite of_digits_rev, rev_involutive.
    apply to_digits_le_value; [exact Hb|apply digit_fuel_ok].
  Qed.

  Lemma to_digits_lt n : digits_lt b (to_digits b n).
  Proof. unfold to_digits. apply digits_lt_rev. apply to_digits_le_lt. lia. Qed.

  Lemma to_digits_canon n : canon (to_digits b n).
  Proof. unfold to_digits. apply canon_rev. apply to_digits_le_canon; [exact Hb|apply digit_fuel_ok]. Qed.

  Lemma of_digits_inj xs ys :
    digits_lt b xs -> digits_lt b ys -> canon xs -> canon ys -> of_digits b xs = of_digits b ys -> xs = ys.
  Proof.
    intros Hx Hy Cx Cy E. rewrite !of_digits_rev in E.
    apply of_digits_le_inj in E; try lia.
    - rewrite <- (rev_involutive xs), E, rev_involutive. reflexivity.
    - apply digits_lt_rev; exact Hx.
    - apply digits_lt_rev; exact Hy.
    - apply canon_rev. rewrite rev_involutive. exact Cx.
    - apply canon_rev. rewrite rev_involutive. exact Cy.
  Qed.

  Lemma to_of_digits ds : digits_lt b ds -> canon ds -> to_digits b (of_digits b ds) = ds.
  Proof.
    intros Hd Hc. apply of_digits_inj; auto using to_digits_lt, to_digits_canon. apply of_to_digits.
  Qed.

  Lemma to_digits_0 : to_digits b 0 = [].
  Proof. reflexivity. Qed.

  Lemma to_digits_nil n : to_digits b n = [] -> n = 0.
  Proof. intro E. rewrite <- (of_to_digits n), E. reflexivity. Qed.

  Lemma of_digits_bound ds : digits_lt b ds -> of_digits b ds < b ^ N.of_nat (length ds).
  Proof.
    intro H. rewrite of_digits_rev, <- rev_length. apply of_digits_le_bound. apply digits_lt_rev. exact H.
  Qed.

  Lemma of_digits_lower ds :
    canon ds -> ds <> [] -> b ^ N.of_nat (pred (length ds)) <= of_digits b ds.
  Proof.
    intros Hc Hne. rewrite of_digits_rev, <- rev_length. apply of_digits_le_lower; [lia| |].
    - apply canon_rev. rewrite rev_involutive. exact Hc.
    - intro E. apply Hne. rewrite <- (rev_involutive ds), E. reflexivity.
  Qed.

  Lemma of_digits_nonzero ds : canon ds -> ds <> [] -> of_digits b ds <> 0.
  Proof.
    intros Hc Hne. pose proof (of_digits_lower ds Hc Hne).
    assert (0 < b ^ N.of_nat (pred (length ds))) by (apply N.neq_0_lt_0, N.pow_nonzero; lia). lia.
  Qed.

  (** number of digits: [n < b^k] gives at most [k] digits, [b^k <= n] more than [k] *)
  Lemma to_digits_length_le n k : n < b ^ N.of_nat k -> (length (to_digits b n) <= k)%nat.
  Proof.
    intro Hn. destruct (to_digits b n) as [|d r] eqn:E; [cbn; lia|].
    assert (L : b ^ N.of_nat (pred (length (d :: r))) <= n).
    { pose proof (of_to_digits n) as V. rewrite E in V. rewrite <- V.
      apply of_digits_lower; [|discriminate]. rewrite <- E. apply to_digits_canon. }
    destruct (le_lt_dec (length (d :: r)) k) as [Hle|Hgt]; [exact Hle|exfalso].
    assert (b ^ N.of_nat k <= b ^ N.of_nat (pred (length (d :: r)))) by (apply N.pow_le_mono_r; lia).
    lia.
  Qed.

  Lemma to_digits_length_gt n k : b ^ N.of_nat k <= n -> (k < length (to_digits b n))%nat.
  Proof.
    intro Hn. pose proof (of_digits_bound _ (to_digits_lt n)) as U. rewrite of_to_digits in U.
    destruct (le_lt_dec (length (to_digits b n)) k) as [Hle|Hgt]; [exfalso|exact Hgt].
    assert (b ^ N.of_nat (length (to_digits b n)) <= b ^ N.of_nat k) by (apply N.pow_le_mono_r; lia).
    lia.
  Qed.

  Lemma to_digits_length_eq n k :
    b ^ N.of_nat k <= n -> n < b ^ N.of_nat (S k) -> length (to_digits b n) = S k.
  Proof.
    intros L U. pose proof (to_digits_length_le n (S k) U). pose proof (to_digits_length_gt n k L). lia.
  Qed.

  (** the leading digit *)
  Lemma to_digits_hd n k :
    b ^ N.of_nat k <= n -> n < b ^ N.of_nat (S k) -> hd 0 (to_digits b n) = n / b ^ N.of_nat k.
  Proof.
    intros L U. pose proof (to_digits_length_eq n k L U) as Hl.
    pose proof (of_to_digits n) as V. pose proof (to_digits_lt n) as D.
    destruct (to_digits b n) as [|d r]; [discriminate|].
    cbn [hd]. rewrite of_digits_cons in V. cbn [length] in Hl. injection Hl as Hl. rewrite Hl in V.
    pose proof (Forall_inv_tail D) as Dr. pose proof (of_digits_bound r Dr) as Br. rewrite Hl in Br.
    apply N.div_unique with (r := of_digits b r); [exact Br|lia].
  Qed.
End Radix.
