(** Pigeonhole facts about duplicate-free signer sets: two quorums of size >= q drawn from n
    peers share at least 2q-n members, hence one outside any fault set smaller than that. *)
From Coq Require Import List Arith Lia.
Import ListNotations.

Section Quorum.
  Variable T : Type.
  Variable eq_dec : forall x y : T, {x = y} + {x <> y}.

  Definition memb (l : list T) (x : T) : bool := if in_dec eq_dec x l then true else false.

  Lemma memb_true l x : memb l x = true <-> In x l.
  Proof. unfold memb; destruct (in_dec eq_dec x l); split; intros; try assumption; try reflexivity; try discriminate; contradiction. Qed.

  Lemma memb_false l x : memb l x = false <-> ~ In x l.
  Proof. unfold memb; destruct (in_dec eq_dec x l); split; intros; try assumption; try reflexivity; try discriminate; contradiction. Qed.

  Definition inter (a b : list T) : list T := filter (memb b) a.
  Definition diff (a b : list T) : list T := filter (fun x => negb (memb b x)) a.

  Lemma filter_split_length (f : T -> bool) (l : list T) :
    length (filter f l) + length (filter (fun x => negb (f x)) l) = length l.
  Proof. induction l as [|x xs IH]; simpl; [reflexivity|]. destruct (f x); simpl; lia. Qed.

  Lemma NoDup_filter' (f : T -> bool) l : NoDup l -> NoDup (filter f l).
  Proof.
    induction 1 as [|x xs Hx Hnd IH]; simpl; [constructor|].
    destruct (f x); [constructor; [|exact IH]|exact IH].
    intro Hin; apply filter_In in Hin; tauto.
  Qed.

  Lemma NoDup_app_disjoint (l1 l2 : list T) :
    NoDup l1 -> NoDup l2 -> (forall x, In x l1 -> ~ In x l2) -> NoDup (l1 ++ l2).
  Proof.
    induction 1 as [|x xs Hx Hnd IH]; simpl; intros H2 Hdis; [exact H2|].
    constructor.
    - intro Hin; apply in_app_or in Hin; destruct Hin as [Hin|Hin]; [contradiction|].
      apply (Hdis x); [left; reflexivity|exact Hin].
    - apply IH; [exact H2|]. intros y Hy; apply Hdis; right; exact Hy.
  Qed.

  Lemma inter_lower_bound (P A B : list T) :
    NoDup A -> NoDup B -> incl A P -> incl B P ->
    length A + length B <= length (inter A B) + length P.
  Proof.
    intros HA HB HAP HBP.
    assert (Hsplit := filter_split_length (memb B) A).
    fold (inter A B) in Hsplit. fold (diff A B) in Hsplit.
    assert (Hnd : NoDup (diff A B ++ B)).
    { apply NoDup_app_disjoint; [apply NoDup_filter'; exact HA|exact HB|].
      intros x Hx; apply filter_In in Hx; destruct Hx as [_ Hx].
      apply memb_false. destruct (memb B x); [discriminate|reflexivity]. }
    assert (Hincl : incl (diff A B ++ B) P).
    { intros x Hx; apply in_app_or in Hx; destruct Hx as [Hx|Hx].
      - apply filter_In in Hx; apply HAP; tauto.
      - apply HBP; exact Hx. }
    pose proof (NoDup_incl_length Hnd Hincl) as Hlen.
    rewrite app_length in Hlen. lia.
  Qed.

  (** A duplicate-free list longer than F has an element outside F. *)
  Lemma escape (I F : list T) :
    NoDup I -> length F < length I -> exists x, In x I /\ ~ In x F.
  Proof.
    intros HI Hlen.
    destruct (filter (fun x => negb (memb F x)) I) as [|x rest] eqn:E.
    - exfalso.
      assert (Hincl : incl I F).
      { intros y Hy. destruct (memb F y) eqn:My; [apply memb_true; exact My|].
        assert (Hin : In y (filter (fun x => negb (memb F x)) I)).
        { apply filter_In; split; [exact Hy|rewrite My; reflexivity]. }
        rewrite E in Hin; contradiction. }
      pose proof (NoDup_incl_length HI Hincl); lia.
    - exists x.
      assert (Hin : In x (filter (fun x => negb (memb F x)) I)) by (rewrite E; left; reflexivity).
      apply filter_In in Hin; destruct Hin as [Hin Hm]; split; [exact Hin|].
      apply memb_false. destruct (memb F x); [discriminate|reflexivity].
  Qed.

  (** Main statement: P the peer set (n = length P), A and B signer sets of size >= q,
      F any fault set of size <= c, and the arithmetic condition c + n < 2q. *)
  Theorem quorum_intersect_honest (P A B F : list T) (q c : nat) :
    NoDup A -> NoDup B -> incl A P -> incl B P ->
    q <= length A -> q <= length B -> length F <= c ->
    c + 1 + length P <= 2 * q ->
    exists x, In x A /\ In x B /\ ~ In x F.
  Proof.
    intros HA HB HAP HBP HqA HqB HF Harith.
    pose proof (inter_lower_bound P A B HA HB HAP HBP) as Hlb.
    assert (HI : NoDup (inter A B)) by (apply NoDup_filter'; exact HA).
    destruct (escape (inter A B) F HI) as [x [Hx HxF]]; [lia|].
    apply filter_In in Hx; destruct Hx as [HxA HxB].
    exists x; split; [exact HxA|split; [apply memb_true; exact HxB|exact HxF]].
  Qed.

  (** Any set of more than c distinct peers contains one outside a fault set of size <= c. *)
  Theorem more_than_c_has_honest (A F : list T) (c : nat) :
    NoDup A -> c + 1 <= length A -> length F <= c -> exists x, In x A /\ ~ In x F.
  Proof. intros HA Hlen HF; apply escape; [exact HA|lia]. Qed.
End Quorum.
