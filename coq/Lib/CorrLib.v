(** Shared helper for correspondence files: indices of the cases on which the model's answer
    differs from the implementation's recorded answer. *)
From Coq Require Import List.
Import ListNotations.

Fixpoint mism {A : Type} (ok : A -> bool) (base : nat) (l : list A) : list nat :=
  match l with
  | [] => []
  | x :: r => if ok x then mism ok (S base) r else base :: mism ok (S base) r
  end.
