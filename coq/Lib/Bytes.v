(** Bytes as [N] below 256, byte strings as [list N]; little-endian fixed-width integers. *)
From Coq Require Import List Bool Arith NArith Lia ZArith ZifyN ZifyNat ZifyBool.
Open Scope bool_scope.
Import ListNotations.
Local Open Scope N_scope.
Ltac Zify.zify_post_hook ::= Z.to_euclidean_division_equations.

Definition bytes := list N.
Definition byte_ok (x : N) : bool := x <? 256.
Definition wf_bytes (b : bytes) : bool := forallb byte_ok b.

Lemma wf_bytes_app a b : wf_bytes (a ++ b) = wf_bytes a && wf_bytes b.
Proof. unfold wf_bytes; apply forallb_app. Qed.

Lemma wf_bytes_cons x b : wf_bytes (x :: b) = byte_ok x && wf_bytes b.
Proof. reflexivity. Qed.

Lemma wf_firstn n b : wf_bytes b = true -> wf_bytes (firstn n b) = true.
Proof.
  revert n; induction b as [|x xs IH]; intros [|n]; simpl; auto.
  intro H; apply andb_prop in H; destruct H as [Hx Hxs]; rewrite Hx; simpl; auto.
Qed.

Lemma wf_skipn n b : wf_bytes b = true -> wf_bytes (skipn n b) = true.
Proof.
  revert n; induction b as [|x xs IH]; intros [|n]; simpl; auto.
  intro H; apply andb_prop in H; destruct H as [Hx Hxs]; auto.
Qed.

(** [le_encode w v]: the [w] low bytes of [v], least significant first. *)
Fixpoint le_encode (w : nat) (v : N) : bytes :=
  match w with
  | O => []
  | S w' => (v mod 256) :: le_encode w' (v / 256)
  end.

Fixpoint le_decode (b : bytes) : N :=
  match b with
  | [] => 0
  | x :: r => x + 256 * le_decode r
  end.

Lemma le_encode_length w v : length (le_encode w v) = w.
Proof. revert v; induction w as [|w IH]; intro v; simpl; [reflexivity|rewrite IH; reflexivity]. Qed.

Lemma le_encode_wf w v : wf_bytes (le_encode w v) = true.
Proof.
  revert v; induction w as [|w IH]; intro v; simpl; [reflexivity|].
  rewrite IH, Bool.andb_true_r. unfold byte_ok. apply N.ltb_lt. apply N.mod_lt. discriminate.
Qed.

Lemma pow256_succ w : 256 ^ N.of_nat (S w) = 256 * 256 ^ N.of_nat w.
Proof. rewrite Nat2N.inj_succ, N.pow_succ_r'; reflexivity. Qed.

Lemma le_decode_encode w v : le_decode (le_encode w v) = v mod 256 ^ N.of_nat w.
Proof.
  revert v; induction w as [|w IH]; intro v.
  - simpl. rewrite N.mod_1_r; reflexivity.
  - cbn [le_encode le_decode]. rewrite IH, pow256_succ.
    assert (Hp : 256 ^ N.of_nat w <> 0) by (apply N.pow_nonzero; discriminate).
    rewrite N.mod_mul_r by (try discriminate; exact Hp). reflexivity.
Qed.

Lemma le_decode_encode_small w v : v < 256 ^ N.of_nat w -> le_decode (le_encode w v) = v.
Proof. intro H; rewrite le_decode_encode; apply N.mod_small; exact H. Qed.

Lemma le_decode_bound b : wf_bytes b = true -> le_decode b < 256 ^ N.of_nat (length b).
Proof.
  induction b as [|x xs IH]; intro H.
  - simpl; lia.
  - rewrite wf_bytes_cons in H; apply andb_prop in H; destruct H as [Hx Hxs].
    specialize (IH Hxs). cbn [le_decode length]. rewrite pow256_succ.
    unfold byte_ok in Hx; apply N.ltb_lt in Hx. nia.
Qed.

Lemma le_encode_decode b : wf_bytes b = true -> le_encode (length b) (le_decode b) = b.
Proof.
  induction b as [|x xs IH]; intro H; [reflexivity|].
  rewrite wf_bytes_cons in H; apply andb_prop in H; destruct H as [Hx Hxs].
  unfold byte_ok in Hx; apply N.ltb_lt in Hx.
  cbn [le_decode length le_encode].
  assert (H1 : (x + 256 * le_decode xs) mod 256 = x).
  { rewrite N.mul_comm, N.mod_add by discriminate. apply N.mod_small; exact Hx. }
  assert (H2 : (x + 256 * le_decode xs) / 256 = le_decode xs).
  { rewrite N.mul_comm, N.div_add by discriminate. rewrite N.div_small by exact Hx. reflexivity. }
  rewrite H1, H2, IH by exact Hxs. reflexivity.
Qed.

Lemma le_encode_inj w v1 v2 :
  v1 < 256 ^ N.of_nat w -> v2 < 256 ^ N.of_nat w -> le_encode w v1 = le_encode w v2 -> v1 = v2.
Proof.
  intros H1 H2 E. rewrite <- (le_decode_encode_small w v1 H1), <- (le_decode_encode_small w v2 H2), E; reflexivity.
Qed.

(** Slicing helpers shared by the codec models. *)
Definition slice (b : bytes) (off len : nat) : bytes := firstn len (skipn off b).

Lemma slice_length b off len : (off + len <= length b)%nat -> length (slice b off len) = len.
Proof. intro H; unfold slice; rewrite firstn_length, skipn_length; lia. Qed.

Lemma slice_app_exact pre mid post :
  slice (pre ++ mid ++ post) (length pre) (length mid) = mid.
Proof.
  unfold slice. rewrite skipn_app, skipn_all, Nat.sub_diag; simpl.
  rewrite firstn_app, firstn_all, Nat.sub_diag; simpl. apply app_nil_r.
Qed.

Lemma wf_slice b off len : wf_bytes b = true -> wf_bytes (slice b off len) = true.
Proof. intro H; unfold slice; apply wf_firstn, wf_skipn; exact H. Qed.

Definition two16 : N := 65536.
Definition two32 : N := 4294967296.
Definition two64 : N := 18446744073709551616.
Lemma two16_pow : two16 = 256 ^ N.of_nat 2. Proof. reflexivity. Qed.
Lemma two32_pow : two32 = 256 ^ N.of_nat 4. Proof. reflexivity. Qed.
Lemma two64_pow : two64 = 256 ^ N.of_nat 8. Proof. reflexivity. Qed.

(** Boolean equality on byte strings and lists. *)
Fixpoint list_eqb {A : Type} (eqb : A -> A -> bool) (a b : list A) : bool :=
  match a, b with
  | [], [] => true
  | x :: a', y :: b' => eqb x y && list_eqb eqb a' b'
  | _, _ => false
  end.
Definition bytes_eqb : bytes -> bytes -> bool := list_eqb N.eqb.

Lemma list_eqb_spec {A : Type} (eqb : A -> A -> bool) :
  (forall x y, eqb x y = true <-> x = y) -> forall a b, list_eqb eqb a b = true <-> a = b.
Proof.
  intros H a; induction a as [|x a IH]; intros [|y b]; simpl; split; intro E; try reflexivity; try discriminate.
  - apply andb_prop in E; destruct E as [E1 E2]; apply H in E1; apply IH in E2; subst; reflexivity.
  - inversion E; subst. apply andb_true_intro; split; [apply H; reflexivity|apply IH; reflexivity].
Qed.

Lemma bytes_eqb_eq a b : bytes_eqb a b = true <-> a = b.
Proof. apply list_eqb_spec; intros; apply N.eqb_eq. Qed.
