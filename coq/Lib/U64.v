(** Go uint64 arithmetic on [N] with the wrap written out (used by the generated fee formulas,
    Gen/FeeFormulas.v, and by Model/Fee.v). Division by zero is a run-time panic in Go; [u64div] is
    only used where the model has tested the divisor first. *)
From Coq Require Import NArith.
Local Open Scope N_scope.

Definition two64 : N := 18446744073709551616.
Definition max_u64 : N := 18446744073709551615.          (* math.MaxUint64 *)

Definition u64 (x : N) : N := x mod two64.
Definition u64add (a b : N) : N := (a + b) mod two64.
Definition u64sub (a b : N) : N := (a + two64 - b mod two64) mod two64.
Definition u64mul (a b : N) : N := (a * b) mod two64.
Definition u64div (a b : N) : N := a / b.
Definition is_u64 (x : N) : bool := x <? two64.
