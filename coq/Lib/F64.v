(** IEEE-754 binary64 helpers on top of Coq's primitive floats (kernel floats = hardware binary64,
    round-to-nearest-even), used by the C30 model of the VBFT rank computation.

    Definitions only; the facts about them (via Flocq) are in Proofs/C30Float.v. *)
From Coq Require Import ZArith NArith Floats SpecFloat.

(** Go's [float64(x)] for an unsigned integer [x] (uint32/uint64): the correctly rounded
    (nearest-even) binary64 value of [x]. [binary_normalize] is SpecFloat's rounding of m*2^e. *)
Definition f64_of_N (n : N) : float :=
  SF2Prim (binary_normalize prec emax (Z.of_N n) 0 false).

(** [math.Ceil] followed by an integer conversion: the exact ceiling of a finite float.
    [None] for infinities and NaN (Go's float->integer conversion is implementation-defined there). *)
Definition sf_ceil (x : spec_float) : option Z :=
  match x with
  | S754_zero _ => Some 0%Z
  | S754_finite s m e =>
      let z := cond_Zopp s (Zpos m) in
      Some (match e with
            | Z0 => z
            | Zpos p => (z * 2 ^ Zpos p)%Z
            | Zneg p => (- ((- z) / 2 ^ Zpos p))%Z
            end)
  | _ => None
  end.

Definition f64_ceil (x : float) : option Z := sf_ceil (Prim2SF x).

(** [uint64(math.Ceil(x))]: defined (and equal on every Go platform) only when the ceiling is
    within [0, 2^64). *)
Definition f64_ceil_u64 (x : float) : option N :=
  match f64_ceil x with
  | Some z => if ((0 <=? z) && (z <? 2 ^ 64))%Z%bool then Some (Z.to_N z) else None
  | None => None
  end.
