(** Association lists with first-match lookup, replace-first-or-append update and
    remove-first deletion, and weighted sums over them.  The sum lemmas are unconditional
    (no NoDup hypothesis): [aset] and [adel] touch exactly the entry [aget] reads. *)
From Coq Require Import List NArith Bool Lia.
Import ListNotations.
Local Open Scope N_scope.

Section AList.
  Context {K V : Type}.
  Variable eqb : K -> K -> bool.
  Hypothesis eqb_spec : forall a b, reflect (a = b) (eqb a b).

  Fixpoint aget (k : K) (l : list (K * V)) : option V :=
    match l with
    | [] => None
    | (k', v) :: r => if eqb k k' then Some v else aget k r
    end.

  Fixpoint aset (k : K) (v : V) (l : list (K * V)) : list (K * V) :=
    match l with
    | [] => [(k, v)]
    | (k', v') :: r => if eqb k k' then (k, v) :: r else (k', v') :: aset k v r
    end.

  Fixpoint adel (k : K) (l : list (K * V)) : list (K * V) :=
    match l with
    | [] => []
    | (k', v') :: r => if eqb k k' then r else (k', v') :: adel k r
    end.

  Fixpoint asum (f : K -> V -> N) (l : list (K * V)) : N :=
    match l with
    | [] => 0
    | (k, v) :: r => f k v + asum f r
    end.

  Definition oval (f : K -> V -> N) (k : K) (o : option V) : N :=
    match o with Some v => f k v | None => 0 end.

  Lemma eqb_refl : forall a, eqb a a = true.
  Proof. intros a. destruct (eqb_spec a a); congruence. Qed.

  Lemma aget_aset_same : forall k v l, aget k (aset k v l) = Some v.
  Proof.
    induction l as [|[k' v'] r IH]; cbn.
    - now rewrite eqb_refl.
    - destruct (eqb k k') eqn:E; cbn; [now rewrite eqb_refl | now rewrite E].
  Qed.

  Lemma aget_aset_other : forall k k' v l, k' <> k -> aget k' (aset k v l) = aget k' l.
  Proof.
    induction l as [|[k2 v2] r IH]; cbn; intros Hne.
    - destruct (eqb_spec k' k); congruence.
    - destruct (eqb_spec k k2) as [->|Hk]; cbn.
      + destruct (eqb_spec k' k2); congruence.
      + destruct (eqb_spec k' k2); auto.
  Qed.

  Lemma asum_aset : forall f k v l,
    asum f (aset k v l) + oval f k (aget k l) = asum f l + f k v.
  Proof.
    induction l as [|[k' v'] r IH]; cbn.
    - lia.
    - destruct (eqb_spec k k') as [->|Hk]; cbn; lia.
  Qed.

  Lemma asum_adel : forall f k l,
    asum f (adel k l) + oval f k (aget k l) = asum f l.
  Proof.
    induction l as [|[k' v'] r IH]; cbn.
    - lia.
    - destruct (eqb_spec k k') as [->|Hk]; cbn; lia.
  Qed.

  Lemma oval_le_asum : forall f k l, oval f k (aget k l) <= asum f l.
  Proof.
    induction l as [|[k' v'] r IH]; cbn; [lia|].
    destruct (eqb_spec k k') as [->|Hk]; cbn; lia.
  Qed.

  Lemma aget_adel_other : forall k k' l, k' <> k -> aget k' (adel k l) = aget k' l.
  Proof.
    induction l as [|[k2 v2] r IH]; cbn; intros Hne; auto.
    destruct (eqb_spec k k2) as [->|Hk]; cbn.
    - destruct (eqb_spec k' k2); congruence.
    - destruct (eqb_spec k' k2); auto.
  Qed.

  Definition keys (l : list (K * V)) : list K := map fst l.

  Lemma aget_none_notin : forall k l, aget k l = None <-> ~ In k (keys l).
  Proof.
    induction l as [|[k' v'] r IH]; cbn; [tauto|].
    destruct (eqb_spec k k') as [->|Hk].
    - split; [discriminate|]. intros H; exfalso; apply H; now left.
    - rewrite IH. split; intros H; [intros [E|E]; [congruence|auto] | intros E; apply H; now right].
  Qed.

  Lemma keys_aset_in : forall k v l x, In x (keys (aset k v l)) <-> x = k \/ In x (keys l).
  Proof.
    induction l as [|[k' v'] r IH]; cbn; intros x.
    - intuition.
    - destruct (eqb_spec k k') as [->|Hk]; cbn; [intuition|].
      rewrite IH. intuition.
  Qed.

  Lemma NoDup_aset : forall k v l, NoDup (keys l) -> NoDup (keys (aset k v l)).
  Proof.
    induction l as [|[k' v'] r IH]; cbn; intros H.
    - constructor; [intros []|constructor].
    - inversion H as [|? ? Hn Hr]; subst.
      destruct (eqb_spec k k') as [->|Hk]; cbn; constructor; auto.
      rewrite keys_aset_in. intros [E|E]; [congruence | apply Hn; exact E].
  Qed.

  Lemma keys_adel_in : forall k l x, In x (keys (adel k l)) -> In x (keys l).
  Proof.
    induction l as [|[k' v'] r IH]; cbn; intros x H; auto.
    destruct (eqb_spec k k'); cbn in *; intuition.
  Qed.

  Lemma NoDup_adel : forall k l, NoDup (keys l) -> NoDup (keys (adel k l)).
  Proof.
    induction l as [|[k' v'] r IH]; cbn; intros H; auto.
    inversion H as [|? ? Hn Hr]; subst.
    destruct (eqb_spec k k'); cbn; auto.
    constructor; auto. intros Hin. apply Hn. eapply keys_adel_in; eauto.
  Qed.

  Lemma aget_adel_same : forall k l, NoDup (keys l) -> aget k (adel k l) = None.
  Proof.
    induction l as [|[k' v'] r IH]; cbn; intros H; auto.
    inversion H as [|? ? Hn Hr]; subst.
    destruct (eqb_spec k k') as [->|Hk]; cbn.
    - now apply aget_none_notin.
    - destruct (eqb_spec k k'); [congruence|auto].
  Qed.

  (** Pointwise transformation of the values (keys fixed). *)
  Definition amap (g : K -> V -> V) (l : list (K * V)) : list (K * V) :=
    map (fun kv => (fst kv, g (fst kv) (snd kv))) l.

  Lemma aget_amap : forall g k l, aget k (amap g l) = option_map (g k) (aget k l).
  Proof.
    induction l as [|[k' v'] r IH]; cbn; auto.
    destruct (eqb_spec k k') as [->|Hk]; cbn; auto.
  Qed.

  Lemma keys_amap : forall g l, keys (amap g l) = keys l.
  Proof. intros g l. unfold keys, amap. rewrite map_map. now apply map_ext. Qed.

  Lemma asum_amap_eq : forall f g l,
    (forall k v, In (k, v) l -> f k (g k v) = f k v) -> asum f (amap g l) = asum f l.
  Proof.
    induction l as [|[k' v'] r IH]; cbn; intros H; auto.
    rewrite H by now left. f_equal. apply IH. intros; apply H; now right.
  Qed.

  Lemma asum_ext : forall f f' l,
    (forall k v, In (k, v) l -> f k v = f' k v) -> asum f l = asum f' l.
  Proof.
    induction l as [|[k' v'] r IH]; cbn; intros H; auto.
    rewrite H by now left. f_equal. apply IH. intros; apply H; now right.
  Qed.

  Lemma aget_in : forall k v l, aget k l = Some v -> In (k, v) l.
  Proof.
    induction l as [|[k' v'] r IH]; cbn; intros H; [discriminate|].
    destruct (eqb_spec k k') as [->|Hk]; [inversion H; now left | right; auto].
  Qed.

  Lemma asum_zero : forall f l, (forall k v, In (k, v) l -> f k v = 0) -> asum f l = 0.
  Proof.
    induction l as [|[k' v'] r IH]; cbn; intros H; auto.
    rewrite H by now left. rewrite IH; [reflexivity|]. intros; apply H; now right.
  Qed.
End AList.

Arguments oval {K V} f k o /.
