(** C13 — NeoVM integer opcodes compute exact integer results within bounds.

    "Every NeoVM arithmetic, bitwise, shift and comparison opcode returns the mathematically exact
    result (division truncating toward zero, remainder taking the dividend's sign) whenever operands
    and result fit the VM's integer size bound, and faults otherwise; the result never depends on
    whether values are stored as machine-size or big integers."

    Model: Model/IntValue.v (int_value.go incl. the int64 fast path with the exact behaviour of
    overflow.Add64/Sub64/Mul64/Div64, and the integer opcodes of Executor.ExecuteOp).
    Specification: Model/IntSpec.v ([spec_exec]: mathematical integers only; the size bound is
    |z| < 2^(8*MAX_INT_SIZE), MAX_INT_SIZE and the limit expressions regenerated into
    Gen/IntConsts.v from the source on every run).

    Status on the current tree.  The full statement [c13_statement] is REFUTED by one input class:
    INVERT applied to 2^256-1 pushes -2^256 (33 magnitude bytes) instead of faulting, because
    IntValue.Not does not apply the size rule (finding "invert:result-exceeds-size-bound").  Outside
    that class — in particular for every other opcode on all stacks, and for INVERT on every other
    operand — the statement is proved ([c13_partial], [c13_every_other_opcode_exact],
    [c13_invert_exact_except_max]).  The old DIV defect (MinInt64 / -1, F5) is repaired: DIV and MOD
    are proved exact for all operands, the old witness is the non-vacuity example.

    Explicit reading of "faults otherwise" (all of it part of [spec_exec], Model/IntSpec.v):
    a shift count must be a uint64, SHL faults for a count above 8*MAX_INT_SIZE whatever the shifted
    value; DIV/MOD fault on a zero divisor; NUMEQUAL NUMNOTEQUAL LT GT LTE GTE accept integers of any
    size (documented compatibility decision in executor.go/neovm_value.go) and are exact on them.
    NUMEQUAL/NUMNOTEQUAL re-decode their operands from the NeoBytes encoding; the model identifies an
    integer with decode(encode(it)) (round trip = property C21; re-checked by the driver per operand). *)
From Coq Require Import List Bool ZArith Lia ZifyBool.
Import ListNotations.
From Ont Require Import Gen.IntConsts Model.IntValue Model.IntSpec Proofs.IntValue.
Local Open Scope Z_scope.

(** Full statement: on every well-formed evaluation stack within the stack limit, every integer
    opcode has exactly the specified effect (exact result, stored by value; or the specified fault). *)
Definition c13_statement : Prop :=
  forall op st, stack_wf st = true -> stack_within_limit st = true ->
                exec_op op st = spec_exec op st.

(** KNOWN FINDING: the full statement does not hold of the code as it is. *)
Theorem c13_refuted : ~ c13_statement.
Proof.
  intro H. specialize (H INVERT [IBytes (int_bound - 1)] eq_refl eq_refl).
  destruct invert_witness as [E1 [E2 _]]. rewrite E1, E2 in H. discriminate.
Qed.
Print Assumptions c13_refuted.

(** The witness, spelled out: the value left on the stack is outside the VM's own bound. *)
Theorem c13_invert_witness :
  exec_op INVERT [IBytes (2^256 - 1)] = Ok [IBigInt (- 2^256)] /\
  spec_exec INVERT [IBytes (2^256 - 1)] = Fault ErrOverMaxBigIntegerSize /\
  in_bound (- 2^256) = false /\ in_finding_class INVERT [IBytes (2^256 - 1)] = true.
Proof. vm_compute. auto. Qed.
Print Assumptions c13_invert_witness.

(** The statement outside the finding class ([in_finding_class] is the predicate the driver uses to
    name the class). *)
Theorem c13_partial :
  forall op st, stack_wf st = true -> stack_within_limit st = true ->
                in_finding_class op st = false ->
                exec_op op st = spec_exec op st.
Proof. exact exec_op_exact. Qed.
Print Assumptions c13_partial.

(** Every opcode other than INVERT: positive theorem, all stacks. *)
Theorem c13_every_other_opcode_exact :
  forall op st, op <> INVERT -> stack_wf st = true -> stack_within_limit st = true ->
                exec_op op st = spec_exec op st.
Proof.
  intros op st Hop Hwf Hlim. apply exec_op_exact; auto.
  destruct op; try reflexivity. contradiction.
Qed.
Print Assumptions c13_every_other_opcode_exact.

(** INVERT: exact for every operand except the single value 2^256 - 1. *)
Theorem c13_invert_exact_except_max :
  forall a rest x, stack_wf (a :: rest) = true -> stack_within_limit (a :: rest) = true ->
    operand a = Ok x -> x <> 2^256 - 1 ->
    exec_op INVERT (a :: rest) = Ok (norm_item (- x - 1) :: rest) /\ in_bound (- x - 1) = true.
Proof.
  intros a rest x Hwf Hlim Hx Hne.
  assert (in_finding_class INVERT (a :: rest) = false) as Hfc.
  { destruct a; cbn [in_finding_class operand] in *; try reflexivity;
      destruct (in_bound z); inversion Hx; subst; rewrite int_bound_val; apply Z.eqb_neq; assumption. }
  rewrite (exec_op_exact _ _ Hwf Hlim Hfc). cbn [spec_exec pop bind]. rewrite Hx. cbn [bind exact_un].
  assert (in_bound (- x - 1) = true) as Hb.
  { apply stack_wf_cons in Hwf as [Ha _]. pose proof (operand_in_bound a x Ha Hx) as Hxb.
    apply in_bound_iff in Hxb. apply in_bound_iff. apply Z.abs_lt. apply Z.abs_lt in Hxb.
    destruct Hxb. split; [|apply Z.lt_sub_lt_add_r]; auto with zarith. }
  unfold ret_int. rewrite Hb. auto.
Qed.
Print Assumptions c13_invert_exact_except_max.

(** Readable instance for the two-operand arithmetic/bitwise/shift opcodes: operands given by value
    in either storage form; the result is the exact one stored by value, or the fault. *)
Theorem c13_binary_by_value :
  forall op m x y rest, binop_meth op = Some m ->
    in_bound x = true -> in_bound y = true ->
    stack_wf rest = true -> stack_within_limit (norm_item y :: norm_item x :: rest) = true ->
    exec_op op (norm_item y :: norm_item x :: rest) = (r <- exact_bin op x y ;; ret_int r rest).
Proof.
  intros op m x y rest Hm Hx Hy Hwf Hlim.
  assert (forall z, item_wf (norm_item z) = true) as Hn.
  { intro z. unfold norm_item. destruct (is_int64 z) eqn:E; auto. }
  assert (forall z, in_bound z = true -> operand (norm_item z) = Ok z) as Ho.
  { intros z Hz. unfold norm_item. destruct (is_int64 z); cbn [operand]; [|rewrite Hz]; reflexivity. }
  rewrite (exec_binary op m); auto.
  - destruct op; inversion Hm; cbn [spec_exec pop bind]; rewrite (Ho y Hy), (Ho x Hx); reflexivity.
  - apply stack_wf_cons; split; auto. apply stack_wf_cons; split; auto.
Qed.
Print Assumptions c13_binary_by_value.

(** An operand beyond the size bound makes every arithmetic, bitwise and shift opcode (and WITHIN)
    fault — here for the top operand. *)
Theorem c13_oversize_operand_faults :
  forall op z rest,
    match op with NUMEQUAL | NUMNOTEQUAL | LT | GT | LTE | GTE => False | _ => True end ->
    in_bound z = false -> stack_wf rest = true -> stack_within_limit (IBigInt z :: rest) = true ->
    exec_op op (IBigInt z :: rest) = Fault ErrOverMaxBigIntegerSize /\
    exec_op op (IBytes z :: rest) = Fault ErrOverMaxBigIntegerSize.
Proof.
  intros op z rest Hop Hz Hwf Hlim.
  assert (in_finding_class op (IBigInt z :: rest) = false /\ in_finding_class op (IBytes z :: rest) = false) as [F1 F2].
  { destruct op; cbn [in_finding_class]; auto. rewrite int_bound_val.
    assert (z <> 2^256 - 1); [|split; apply Z.eqb_neq; assumption].
    intro; subst. discriminate. }
  split; rewrite exec_op_exact; auto;
    destruct op; try contradiction; cbn [spec_exec pop bind operand]; rewrite Hz; reflexivity.
Qed.
Print Assumptions c13_oversize_operand_faults.

(** The comparison opcodes are exact on integers of any size and never fault on integers. *)
Theorem c13_compare_exact :
  forall op a b x y rest,
    match op with NUMEQUAL | NUMNOTEQUAL | LT | GT | LTE | GTE => True | _ => False end ->
    cmp_operand a = Ok x -> cmp_operand b = Ok y ->
    stack_within_limit (b :: a :: rest) = true ->
    exec_op op (b :: a :: rest) = Ok (IBool (exact_cmp op x y) :: rest).
Proof.
  intros op a b x y rest Hop Ha Hb Hlim.
  rewrite exec_compare; auto.
  destruct op; try contradiction; cbn [spec_exec pop bind]; rewrite Ha, Hb; reflexivity.
Qed.
Print Assumptions c13_compare_exact.

(** Representation irrelevance in the VM: two stack items that denote the same integer (whatever
    their storage: int64 field, big.Int, bool or byte array) are interchangeable as operands. *)
Definition same_int (a a' : item) : Prop := operand a = operand a' /\ cmp_operand a = cmp_operand a'.

Theorem c13_repr_irrelevant_exec :
  forall op c c' b b' a a' rest,
    same_int c c' -> same_int b b' -> same_int a a' ->
    stack_wf (c :: b :: a :: rest) = true -> stack_wf (c' :: b' :: a' :: rest) = true ->
    stack_within_limit (c :: b :: a :: rest) = true ->
    in_finding_class op [c] = false -> in_finding_class op [c'] = false ->
    match op with
    | INVERT | INC | DEC | SIGN | NEGATE | ABS | NZ =>
        exec_op op (c :: rest) = exec_op op (c' :: rest)
    | WITHIN => exec_op op (c :: b :: a :: rest) = exec_op op (c' :: b' :: a' :: rest)
    | _ => exec_op op (c :: b :: rest) = exec_op op (c' :: b' :: rest)
    end.
Proof.
  intros op c c' b b' a a' rest [Oc Cc] [Ob Cb] [Oa Ca] Hwf Hwf' Hlim Hf Hf'.
  assert (forall o x l, in_finding_class o (x :: l) = in_finding_class o [x]) as E
    by (intros o x l; destruct o, x; reflexivity).
  assert (forall o x l, stack_wf (x :: l) = true -> stack_within_limit (x :: l) = true ->
                        in_finding_class o [x] = false -> exec_op o (x :: l) = spec_exec o (x :: l)) as X
    by (intros; apply exec_op_exact; auto; rewrite E; auto).
  repeat match goal with
         | H : stack_wf (_ :: _) = true |- _ => apply stack_wf_cons in H as [? ?]
         end.
  destruct op;
    rewrite !X by
      (first [ assumption
             | repeat (apply stack_wf_cons; split); assumption
             | unfold stack_within_limit in *; cbn [length] in *; rewrite ?Nat2Z.inj_succ in *; lia ]);
    cbn [spec_exec pop bind]; rewrite ?Oc, ?Ob, ?Oa, ?Cc, ?Cb, ?Ca; reflexivity.
Qed.
Print Assumptions c13_repr_irrelevant_exec.

(** Representation irrelevance of the IntValue methods themselves (intOp): a method gives the same
    answer on [Small]/[Big] encodings of equal integers — also for a big-stored value that would fit
    an int64 — namely the exact result followed by the size rule. *)
Theorem c13_methods_exact :
  forall m x y, iv_wf x = true -> iv_wf y = true -> (m = MRsh -> in_bound (val x) = true) ->
    iv_bin m x y = spec_bin m (val x) (val y).
Proof. exact iv_bin_exact. Qed.
Print Assumptions c13_methods_exact.

Theorem c13_repr_irrelevant_methods :
  forall m x x' y y',
    iv_wf x = true -> iv_wf x' = true -> iv_wf y = true -> iv_wf y' = true ->
    val x = val x' -> val y = val y' -> (m = MRsh -> in_bound (val x) = true) ->
    iv_bin m x y = iv_bin m x' y'.
Proof. exact repr_irrelevant_bin. Qed.
Print Assumptions c13_repr_irrelevant_methods.

Theorem c13_repr_irrelevant_unary_cmp :
  forall x x' y y', iv_wf x = true -> iv_wf x' = true -> iv_wf y = true -> iv_wf y' = true ->
    val x = val x' -> val y = val y' ->
    val (iv_not x) = val (iv_not x') /\ val (iv_abs x) = val (iv_abs x') /\ iv_cmp x y = iv_cmp x' y'.
Proof.
  intros x x' y y' Hx Hx' Hy Hy' Ex Ey.
  rewrite !iv_not_val, !iv_abs_val, !iv_cmp_exact by assumption. rewrite Ex, Ey. auto.
Qed.
Print Assumptions c13_repr_irrelevant_unary_cmp.

(** The int64 fast path: a success reported by the overflow package means the int64 result is the
    exact one (so taking the fast path never changes the answer); MinInt64 / -1 is refused. *)
Theorem c13_fast_path_sound :
  forall a b c, int64 a -> int64 b ->
    (ov_add64 a b = (c, true) -> c = a + b) /\
    (ov_sub64 a b = (c, true) -> c = a - b) /\
    (ov_mul64 a b = (c, true) -> c = a * b) /\
    (b <> 0 -> ov_div64 a b = (c, true) -> c = Z.quot a b) /\
    snd (ov_div64 MinInt64 (-1)) = false.
Proof.
  intros a b c Ha Hb. repeat split; intros.
  - eapply ov_add64_sound; eauto.
  - eapply ov_sub64_sound; eauto.
  - eapply ov_mul64_sound; eauto.
  - eapply ov_div64_sound; eauto.
Qed.
Print Assumptions c13_fast_path_sound.

(** The size rule of IntValFromBigInt (len(val.Bytes()) > MAX_INT_SIZE) is the bound |z| < 2^256. *)
Theorem c13_size_rule :
  forall z, (exists v, from_big z = Ok v /\ val v = z /\ iv_wf v = true) <-> Z.abs z < 2 ^ (8 * MAX_INT_SIZE).
Proof.
  intro z. rewrite from_big_spec. unfold spec_from_big. change (2 ^ (8 * MAX_INT_SIZE)) with (2^256).
  rewrite <- in_bound_iff. destruct (in_bound z); split; intro H; try discriminate.
  - reflexivity.
  - exists (norm z). auto using val_norm, wf_norm.
  - destruct H as [v [H _]]. discriminate.
Qed.
Print Assumptions c13_size_rule.

(** What "exact" means for DIV and MOD: truncation toward zero, remainder with the dividend's sign. *)
Theorem c13_div_mod_convention :
  forall x y, y <> 0 ->
    x = y * Z.quot x y + Z.rem x y /\ Z.abs (Z.rem x y) < Z.abs y /\
    0 <= Z.sgn (Z.rem x y) * Z.sgn x /\ Z.abs (Z.quot x y) = Z.abs x / Z.abs y.
Proof. exact quot_rem_convention. Qed.
Print Assumptions c13_div_mod_convention.

(** Specified results keep the invariant that an int64-typed item holds an int64. *)
Theorem c13_results_well_formed :
  forall op st st', stack_wf st = true -> spec_exec op st = Ok st' -> stack_wf st' = true.
Proof. exact spec_exec_wf. Qed.
Print Assumptions c13_results_well_formed.

(** Non-vacuity: the hypotheses of [c13_partial] hold of a concrete non-trivial stack, and the old
    F5 witness MinInt64 / -1 (and MinInt64 % -1) now gets the exact answer through the big path. *)
Example c13_nonvacuous :
  let st := [IInt (-1); IInt MinInt64; IBytes (2^255)] in
  stack_wf st = true /\ stack_within_limit st = true /\ in_finding_class DIV st = false /\
  exec_op DIV st = Ok [IBigInt (2^63); IBytes (2^255)] /\
  exec_op MOD st = Ok [IInt 0; IBytes (2^255)] /\
  exec_op ADD [IBytes (2^255); IBigInt (2^255)] = Fault ErrOverMaxBigIntegerSize /\
  exec_op ADD [IInt MaxInt64; IInt 1] = Ok [IBigInt (2^63)].
Proof. vm_compute. repeat split; reflexivity. Qed.
