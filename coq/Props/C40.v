(** C40 — Chain queries agree with each other for every stored block.

    "For every committed height, the hash by height, the block by height, the block by hash, the
    header by hash and the transactions by hash (with their recorded height) agree with the block
    that was committed, before and after a restart."

    Model: Model/BlockStore.v (block store maps, header index cache with the window arithmetic of
    /repo's current source via Gen/LedgerIndexFormulas.v and Gen/LedgerIndexConsts.v, ARC caches with
    arbitrary eviction, re-opening).  Proofs: Proofs/BlockStore.v. *)
From Coq Require Import List NArith.
Import ListNotations.
From Ont Require Import Gen.LedgerIndexConsts Gen.LedgerIndexFormulas Model.BlockStore Proofs.BlockStore Proofs.BlockStoreWindow.
Local Open Scope N_scope.

(** [answers s chain] (Proofs/BlockStore.v): for every position i of [chain] with block b, and for
    every state [cb]/[ct] of the two ARC caches,
      GetBlockHash i = hash b,  GetBlockByHeight i = b,  GetBlockByHash (hash b) = b,
      GetHeaderByHash (hash b) = header of b,  and GetTransaction (hash t) = (t, i) for every t of b. *)

(** Hypotheses on a history ([history_ok]): the genesis block has height 0; the committed blocks have
    pairwise different, non-zero hashes and pairwise different transaction hashes (no hash
    collisions, no transaction replayed in a later block); fewer than 2^32 - 1 blocks; a header given
    to AddHeader is not at height 0 and, if it hashes like a committed block, has that block's height
    (the hash covers the height). *)

(** FULL STATEMENT: every history of AddBlock (next, stale or future blocks), AddHeader and restarts,
    in any order, leaves a ledger that opens and answers all five queries with the committed block at
    every committed height.  Restarts may occur anywhere in the history, including at its end. *)
Theorem c40_queries_agree : forall (g : block) (ops : list op),
  history_ok g ops ->
  exists s, run_ledger g ops = Some s /\ answers s (g :: committed 0 ops).
Proof. exact queries_agree. Qed.
Print Assumptions c40_queries_agree.

(** The same, spelled out "before and after a restart". *)
Theorem c40_queries_agree_across_restart : forall (g : block) (ops : list op),
  history_ok g ops ->
  (exists s, run_ledger g ops = Some s /\ answers s (g :: committed 0 ops)) /\
  (exists s, run_ledger g (ops ++ [OReopen]) = Some s /\ answers s (g :: committed 0 ops)).
Proof. exact queries_agree_restart. Qed.
Print Assumptions c40_queries_agree_across_restart.

(** GetHeaderByHeight (GetBlockHash, then GetHeaderByHash) also returns the committed header - in
    particular when a different header for that height had been received ahead through AddHeader. *)
Theorem c40_header_by_height_agrees : forall (g : block) (ops : list op),
  history_ok g ops ->
  exists s, run_ledger g ops = Some s /\
    forall cb i b, nth_error (g :: committed 0 ops) i = Some b ->
      get_header_by_height cb s (N.of_nat i) = Some (b_hdr b).
Proof. exact header_by_height_agrees. Qed.
Print Assumptions c40_header_by_height_agrees.

(** For a plain chain: blocks of heights 1, 2, ... added one after the other are exactly the committed
    chain. *)
Theorem c40_chain_is_committed : forall (blocks : list block),
  (forall i b, nth_error blocks i = Some b -> bheight b = 0 + 1 + N.of_nat i) ->
  committed 0 (map OCommit blocks) = blocks.
Proof. intros blocks H. exact (committed_map_commit blocks 0 H). Qed.
Print Assumptions c40_chain_is_committed.

(** The header index cache window (supporting; this is where the exact arithmetic of setHeaderIndex and
    loadHeaderIndexList as translated from the source matters): along every history of AddBlock and
    restarts (no headers received ahead) the cache holds exactly the heights firstIndex .. current
    height, lastIndex is the current height, at most HEADER_INDEX_MAX_SIZE + 1 heights are held and the
    most recent min(height + 1, HEADER_INDEX_MAX_SIZE) are never dropped.  The answers above do not
    depend on it (evicted heights are read from the store); it bounds the cache and ties the model's
    window to the source expressions. *)
Theorem c40_header_index_window : forall (g : block) (ops : list op) (s : store),
  history_ok g ops -> no_headers ops -> run_ledger g ops = Some s ->
  window (s_hic s) (s_cur_height s).
Proof. exact window_holds. Qed.
Print Assumptions c40_header_index_window.

(** Non-vacuity: a concrete history (two blocks with transactions, a header received ahead, a stale
    block, a restart in the middle) satisfies the hypotheses, and the model really computes the
    committed blocks for it. *)
Definition ex_tx (k : N) : tx := {| t_hash := k; t_body := k + 1000 |}.
Definition ex_g : block := {| b_hdr := {| h_hash := 11; h_height := 0; h_body := 1; h_keys := 4; h_sigs := 3 |}; b_txs := [ex_tx 101] |}.
Definition ex_b1 : block := {| b_hdr := {| h_hash := 12; h_height := 1; h_body := 2; h_keys := 4; h_sigs := 3 |}; b_txs := [ex_tx 102; ex_tx 103] |}.
Definition ex_b2 : block := {| b_hdr := {| h_hash := 13; h_height := 2; h_body := 3; h_keys := 4; h_sigs := 3 |}; b_txs := [] |}.
Definition ex_ops : list op :=
  [OAddHeader (b_hdr ex_b1); OCommit ex_b1; OCommit ex_g; OReopen; OAddHeader (b_hdr ex_b2); OCommit ex_b2].

Example c40_nonvacuous :
  history_ok ex_g ex_ops /\
  committed 0 ex_ops = [ex_b1; ex_b2] /\
  exists s, run_ledger ex_g ex_ops = Some s /\
    get_block_by_height (fun _ => true) (fun _ => false) s 1 = BHOk ex_b1 /\
    get_transaction (fun _ => true) s 103 = Some (ex_tx 103, 1).
Proof.
  assert (Hc : committed 0 ex_ops = [ex_b1; ex_b2]) by reflexivity.
  assert (Hok : history_ok ex_g ex_ops).
  { split; [reflexivity| |].
    - rewrite Hc. split.
      + cbn. repeat constructor; cbn; intuition discriminate.
      + intros b [<-|[<-|[<-|[]]]]; discriminate.
      + cbn. repeat constructor; cbn; intuition discriminate.
      + cbn. reflexivity.
    - rewrite Hc. intros hd Hin. cbn in Hin.
      destruct Hin as [E|[E|[E|[E|[E|[E|[]]]]]]]; inversion E; subst; (split; [discriminate|]);
        intros b [<-|[<-|[<-|[]]]]; cbn; intros; try discriminate; reflexivity. }
  split; [exact Hok|]. split; [exact Hc|].
  destruct (c40_queries_agree ex_g ex_ops Hok) as (s & E & A). exists s. split; [exact E|].
  rewrite Hc in A.
  destruct (A (fun _ => true) (fun _ => false) 1%nat ex_b1 eq_refl) as (_ & H2 & _).
  destruct (A (fun _ => true) (fun _ => true) 1%nat ex_b1 eq_refl) as (_ & _ & _ & _ & H5).
  split; [exact H2|]. apply (H5 (ex_tx 103)). cbn. auto.
Qed.
