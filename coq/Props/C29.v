(** C29 — Each round selects well-formed proposer, endorser and committer sets.

    "For every selection seed and every valid chain configuration, a round has C+1 proposers and at
    least 2C+1 distinct endorsers and 2C+1 distinct committers, all of them members of the
    configuration, and the selection is a deterministic function of the seed and configuration."

    Model: Model/Participants.v (calcParticipantPeers, calcParticipant line by line, over the integer
    formulas translated from consensus/vbft/node_utils.go on every run, Gen/ParticipantFormulas.v).
    The seed is any list of bytes (the implementation's is 64 bytes: SHA-512 twice over the JSON of
    (block number, previous proposer, VRF value)); no property of the hash is used. *)
From Coq Require Import List NArith ZArith Lia.
Import ListNotations.
From Ont Require Import Gen.ParticipantFormulas Model.Participants Proofs.C29.
Local Open Scope N_scope.

(** Full statement, all seeds and all valid configurations (unbounded N, C, table). The selection
    returns (no panic) three lists with the stated sizes, distinctness and membership. *)
Theorem c29_selection_well_formed : forall (seed : list N) (cfg : chain_cfg),
  1 <= cfgC cfg ->                                         (* C >= 1 *)
  3 * cfgC cfg + 1 <= cfgN cfg ->                          (* N >= 3C+1 *)
  N.of_nat (length (cfgPeers cfg)) = cfgN cfg ->           (* N peers ... *)
  NoDup (cfgPeers cfg) ->                                  (* ... with pairwise different indices *)
  (forall x, In x (cfgPos cfg) -> In x (cfgPeers cfg)) ->  (* position table lists peers only *)
  N.of_nat (length (cfgPos cfg)) < 4294967296 ->           (* len(PosTable) fits uint32 *)
  exists proposers endorsers committers,
    calc_participant_peers seed cfg = SelOk proposers endorsers committers /\
    N.of_nat (length proposers) = cfgC cfg + 1 /\ NoDup proposers /\
    2 * cfgC cfg + 1 <= N.of_nat (length endorsers) /\ NoDup endorsers /\
    2 * cfgC cfg + 1 <= N.of_nat (length committers) /\ NoDup committers /\
    incl proposers (cfgPeers cfg) /\ incl endorsers (cfgPeers cfg) /\ incl committers (cfgPeers cfg).
Proof.
  intros seed cfg H1 H2 H3 H4 H5 H6.
  exact (selection_well_formed seed cfg (Build_valid_cfg cfg H1 H2 H3 H4 H5 H6)).
Qed.
Print Assumptions c29_selection_well_formed.

(** The N field is not needed: 3C+1 configured peers with different indices suffice (the
    [len(peerMap) == N] exit can only end the first step early; the fill step repairs it). *)
Theorem c29_selection_well_formed_any_N : forall (seed : list N) (cfg : chain_cfg),
  cfg_ok cfg -> well_formed_round cfg (calc_participant_peers seed cfg).
Proof. exact selection_well_formed_weak. Qed.
Print Assumptions c29_selection_well_formed_any_N.

(** Determinism: a function of the seed and the configuration; and through the seed derivation
    H(H(enc block)), for every hash H and encoder, a function of the encoded
    (block number, proposer, VRF value) and the configuration. *)
Theorem c29_selection_deterministic :
  (forall seed1 seed2 cfg1 cfg2, seed1 = seed2 -> cfg1 = cfg2 ->
     calc_participant_peers seed1 cfg1 = calc_participant_peers seed2 cfg2) /\
  (forall (B : Type) (H : list N -> list N) (enc : B -> list N) b1 b2 cfg,
     enc b1 = enc b2 -> round_participants H enc b1 cfg = round_participants H enc b2 cfg).
Proof. split; [exact selection_functional|exact @round_functional]. Qed.
Print Assumptions c29_selection_deterministic.

(** The round as the node computes it: well-formed for every hash function and encoder. *)
Theorem c29_round_well_formed : forall (B : Type) (H : list N -> list N) (enc : B -> list N) b cfg,
  valid_cfg cfg -> well_formed_round cfg (round_participants H enc b cfg).
Proof. exact @round_well_formed. Qed.
Print Assumptions c29_round_well_formed.

(** Distinctness needs no hypothesis at all: for ANY configuration and seed, if the selection
    returns, each of the three lists is duplicate-free and made of table entries and peer indices. *)
Theorem c29_distinct_for_any_configuration : forall seed cfg P E Cm,
  calc_participant_peers seed cfg = SelOk P E Cm ->
  NoDup P /\ NoDup E /\ NoDup Cm /\
  (forall x, In x P \/ In x E \/ In x Cm -> In x (cfgPos cfg) \/ In x (cfgPeers cfg)).
Proof. exact calc_participant_peers_distinct. Qed.
Print Assumptions c29_distinct_for_any_configuration.

(** calcParticipant returns the k-limit marker or an entry of the position table, for every seed. *)
Theorem c29_participant_from_table : forall seed table k id,
  calc_participant seed table k = CpPeer id -> id = MaxUint32 \/ In id table.
Proof. exact calc_participant_in. Qed.
Print Assumptions c29_participant_from_table.

(* ---------- each hypothesis is needed (the same inputs are replayed on the implementation by the
   driver on every run: harness/drivers/c29 probes()) ---------- *)

Definition zero_seed : list N := repeat 0 64.

(** C >= 1: with C = 0, N = 1 (N >= 3C+1 holds) there is no committer at all. *)
Example c29_needs_C_ge_1 :
  calc_participant_peers zero_seed (mkCfg 1 0 [0] [0]) = SelOk [0] [0] [].
Proof. vm_compute. reflexivity. Qed.

(** N >= 3C+1: N = 7, C = 3 (accepted by governance.CheckVBFTConfig, which asks K >= 2C+1 and K >= 7)
    yields 6 endorsers and 6 committers where 2C+1 = 7 are required. *)
Example c29_needs_N_ge_3C_plus_1 :
  calc_participant_peers zero_seed (mkCfg 7 3 [0;1;2;3;4;5;6] [0;1;2;3;4;5;6;0])
  = SelOk [0;1;2;3] [4;3;6;5;2;1] [5;6;1;2;3;4].
Proof. vm_compute. reflexivity. Qed.

(** Distinct peer indices: N = 4, C = 1 with one index listed twice yields 2 endorsers (3 required). *)
Example c29_needs_distinct_peer_indices :
  calc_participant_peers zero_seed (mkCfg 4 1 [0;0;1;2] [0]) = SelOk [0;1] [1;2] [2;1].
Proof. vm_compute. reflexivity. Qed.

(** Position-table entries must be peer indices: otherwise a non-member is selected (here as leader). *)
Example c29_needs_table_entries_to_be_peers :
  calc_participant_peers zero_seed (mkCfg 4 1 [0;1;2;3] [9]) = SelOk [9;0] [1;0;2] [2;0;1].
Proof. vm_compute. reflexivity. Qed.

(** Fewer than C+1 peers overall: the function panics (slice bounds out of range). *)
Example c29_too_few_peers_panics :
  calc_participant_peers zero_seed (mkCfg 4 1 [0] [0]) = SelPanic PanicSlice.
Proof. vm_compute. reflexivity. Qed.

(* ---------- non-vacuity ---------- *)

(** The hypotheses are satisfiable, by the smallest configuration (N = 4, C = 1; the table names a
    single peer, so the fill step and both top-up steps run) and by a larger one. *)
Example c29_nonvacuous :
  valid_cfg (mkCfg 4 1 [0;1;2;3] [2]) /\
  calc_participant_peers zero_seed (mkCfg 4 1 [0;1;2;3] [2]) = SelOk [2;0] [1;0;3] [3;0;1] /\
  valid_cfg (mkCfg 7 2 [10;11;12;13;14;15;16] [10;11;12;13;14;15;16;10;11;12;13;14;15;16]) /\
  well_formed_round (mkCfg 7 2 [10;11;12;13;14;15;16] [10;11;12;13;14;15;16;10;11;12;13;14;15;16])
    (calc_participant_peers [1;2;3;4;5;6;7;8;9;10;11;12;13;14;15;16;17;18;19;20]
       (mkCfg 7 2 [10;11;12;13;14;15;16] [10;11;12;13;14;15;16;10;11;12;13;14;15;16])).
Proof.
  assert (V1 : valid_cfg (mkCfg 4 1 [0;1;2;3] [2])).
  { constructor; cbn; [lia|lia|reflexivity| |intros x [<-|[]]; cbn; auto|lia].
    repeat constructor; cbn; intuition discriminate. }
  assert (V2 : valid_cfg (mkCfg 7 2 [10;11;12;13;14;15;16] [10;11;12;13;14;15;16;10;11;12;13;14;15;16])).
  { constructor; cbn; [lia|lia|reflexivity| |intros x Hx; cbn in *; intuition|lia].
    repeat constructor; cbn; intuition discriminate. }
  split; [exact V1|]. split; [vm_compute; reflexivity|]. split; [exact V2|].
  apply selection_well_formed, V2.
Qed.
