(** C32 — A node that syncs blocks accepts a VBFT block header only if it carries valid
    signatures from at least C+1 distinct members of the chain configuration governing that height.

    Model: Model/HeaderSync.v (verifyHeader VBFT branch, VerifyMultiSignature, AddHeader), with
    the thresholds and comparison operands regenerated from the source (Gen/HeaderSyncGen.v).

    STATUS ON THE CURRENT TREE: the full statement is REFUTED (finding F11).  The file keeps the
    full statement, proves its negation with concrete witnesses, and proves the statement on
    every input outside three narrow, named input classes ([c32_header_accept_partial]), plus
    what EVERY accepted header does carry ([c32_header_accept_partial_slots]).

    What is missing for the full statement (smallest repair in ledger_store.go:verifyHeader):
    require m = C+1 (or more) signatures instead of n - 6n/7, reject duplicate bookkeepers, and
    derive the configuration height from the stored chain instead of trusting the header's
    last_config_block_num. *)
From Coq Require Import List NArith ZArith Bool.
Import ListNotations.
From Ont Require Import Gen.HeaderSyncGen Gen.HeaderSyncGuards Model.HeaderSync Proofs.C32 Proofs.C32Guards.

(** FULL STATEMENT (all stores satisfying the store invariant, all headers):
    accepted => the governing configuration's members, C+1 distinct of them, validly signed. *)
Definition c32_statement : Prop :=
  forall (st : store) (h : header) (r : option (N * list key)),
    store_wf st -> h_height h <> 0%N -> verify_header st h = ROk r ->
    exists g hg cc,
      gov_height st (h_height h) = Some g /\ header_at st g = Some hg /\ cfg_of hg = Some cc /\
      exists S : list key, NoDup S /\ (N.to_nat (cc_c cc) + 1 <= length S)%nat /\
        forall k, In k S -> In k (cc_peers cc) /\ In (SBy k (h_hash h)) (h_sigs h).

(** REFUTED: configuration N=7, C=2; the header lists three members and carries one valid
    signature; verifyHeader accepts it (m = 7 - 42/7 = 1). *)
Theorem c32_header_accept_refuted : ~ c32_statement.
Proof. exact header_accept_refuted_w1. Qed.
Print Assumptions c32_header_accept_refuted.

(** PARTIAL 1: on every input outside the finding classes
      fc_threshold : n - 6n/7 < C+1 for the consulted configuration,
      fc_dup       : a bookkeeper is listed more than once,
      fc_stale     : the header names a configuration height other than the governing one,
    the full conclusion holds. *)
Theorem c32_header_accept_partial :
  forall (st : store) (h : header) (r : option (N * list key)),
    store_wf st -> h_height h <> 0%N -> verify_header st h = ROk r ->
    in_finding_class st h = false ->
    governed_quorum st h.
Proof. exact accept_partial. Qed.
Print Assumptions c32_header_accept_partial.

(** the same with the store invariant replaced by the fourth input class
      fc_overwritten : the consulted peer-map entry is not the id set of the indexed header's
                       configuration (possible only after verifyHeader accepted a header that is
                       not the indexed one, e.g. on the AddBlock path) *)
Theorem c32_header_accept_partial_all_classes :
  forall (st : store) (h : header) (r : option (N * list key)),
    h_height h <> 0%N -> verify_header st h = ROk r ->
    fc_overwritten st h = false -> in_finding_class st h = false ->
    governed_quorum st h.
Proof. exact accept_partial_gen. Qed.
Print Assumptions c32_header_accept_partial_all_classes.

(** ... for every store reachable by AddHeader calls from a store satisfying the invariant
    (the invariant is preserved, so it is not an assumption on histories) *)
Theorem c32_header_accept_partial_histories :
  forall (st0 st : store) (h : header) (r : option (N * list key)),
    store_inv st0 -> reachable st0 st ->
    h_height h <> 0%N -> verify_header st h = ROk r -> in_finding_class st h = false ->
    governed_quorum st h.
Proof. exact accept_partial_histories. Qed.
Print Assumptions c32_header_accept_partial_histories.

Theorem c32_add_header_keeps_invariant :
  forall st h st', store_inv st -> (st_tip st + 1 < two32)%N ->
    header_by_hash (st_headers st) (h_hash h) = None ->
    add_header st h = AddOk st' -> store_inv st'.
Proof. exact add_header_inv. Qed.
Print Assumptions c32_add_header_keeps_invariant.

(** PARTIAL 2 (no side condition, no store invariant): every accepted header
    - lists only members of the configuration it names,
    - lists at least C+1 distinct keys (modulo the uint32 arithmetic of the comparison),
    - has its first m signatures matched to m DISTINCT positions of the bookkeeper list, each a
      valid signature of the key at that position over the header hash,
    where m = n - 6n/7 is the generated threshold on the size n of the consulted peer map. *)
Theorem c32_header_accept_partial_slots :
  forall (st : store) (h : header) (r : option (N * list key)),
    h_height h <> 0%N -> verify_header st h = ROk r ->
    exists g hg cc peers,
      claimed st h = Some g /\ header_at st g = Some hg /\ cfg_of hg = Some cc /\
      lookup g (st_peers st) = Some peers /\
      (forall b, In b (h_bks h) -> In (bk_id b) peers) /\
      ((Z.of_N (cc_c cc) + 1) mod 4294967296 <= Z.of_nat (length (dedup (map bk_id (h_bks h)))) mod 4294967296)%Z /\
      exists jks : list (nat * key),
        length jks = Z.to_nat (hs_vbft_m (Z.of_nat (length peers))) /\ NoDup (map fst jks) /\
        (forall j k, In (j, k) jks -> nth_error (h_bks h) j = Some (BkKey k)) /\
        Forall2 (fun jk s => s = SBy (snd jk) (h_hash h)) jks
                (firstn (Z.to_nat (hs_vbft_m (Z.of_nat (length peers)))) (h_sigs h)).
Proof. exact accept_partial_slots. Qed.
Print Assumptions c32_header_accept_partial_slots.

(** without wrap-around: at least C+1 distinct members are LISTED (not: have signed) *)
Theorem c32_header_accept_partial_listed :
  forall (st : store) (h : header) (r : option (N * list key)),
    h_height h <> 0%N -> verify_header st h = ROk r ->
    exists g hg cc peers,
      claimed st h = Some g /\ header_at st g = Some hg /\ cfg_of hg = Some cc /\
      lookup g (st_peers st) = Some peers /\
      ((cc_c cc + 1 < two32)%N -> (Z.of_nat (length (h_bks h)) < 4294967296)%Z ->
       exists L, NoDup L /\ (N.to_nat (cc_c cc) + 1 <= length L)%nat /\
         forall k, In k L -> In k (map bk_id (h_bks h)) /\ In k peers).
Proof. exact accept_partial_listed. Qed.
Print Assumptions c32_header_accept_partial_listed.

(** at least ONE member of the named (non-empty) configuration has validly signed *)
Theorem c32_accepted_has_member_signature :
  forall (st : store) (h : header) (r : option (N * list key)),
    h_height h <> 0%N -> verify_header st h = ROk r ->
    exists g hg cc peers,
      claimed st h = Some g /\ header_at st g = Some hg /\ cfg_of hg = Some cc /\
      lookup g (st_peers st) = Some peers /\
      (peers <> [] -> exists k, In k peers /\ signed_by h k).
Proof. exact accept_partial_one_member. Qed.
Print Assumptions c32_accepted_has_member_signature.

(** VerifyMultiSignature (mask algorithm): acceptance = the first m signatures are valid under
    keys at m pairwise distinct list positions.  One key listed twice can fill two positions with
    the same signature sent twice (see [c32_classes_independent]). *)
Theorem c32_verify_multi_slots :
  forall msg keys m sigs, verify_multi msg keys m sigs = VmsOk ->
    exists jks : list (nat * key),
      length jks = Z.to_nat m /\ NoDup (map fst jks) /\
      (forall j k, In (j, k) jks -> nth_error keys j = Some (BkKey k)) /\
      Forall2 (fun jk s => s = SBy (snd jk) msg) jks (firstn (Z.to_nat m) sigs).
Proof. exact verify_multi_ok. Qed.
Print Assumptions c32_verify_multi_slots.

(** Forged key objects (e.g. a member's key re-encoded as the off-curve point (X, Y+2): same
    PubkeyID, so it passes the membership test) never fill a signature slot: every slot of an
    accepted header is filled by a listed GENUINE key object of a member that has signed, and a
    key list of forged objects only is rejected whenever a signature is asked for.  (Rests on
    core/signature.verify turning a library panic into "does not verify".) *)
Theorem c32_forged_keys_never_count :
  (forall msg keys m sigs, (0 < m)%Z -> (forall b, In b keys -> exists i, b = BkForged i) ->
     verify_multi msg keys m sigs <> VmsOk) /\
  (forall st h r, h_height h <> 0%N -> verify_header st h = ROk r ->
     exists g peers, claimed st h = Some g /\ lookup g (st_peers st) = Some peers /\
       exists ks : list key,
         length ks = Z.to_nat (hs_vbft_m (Z.of_nat (length peers))) /\
         forall k, In k ks -> In (BkKey k) (h_bks h) /\ In k peers /\ signed_by h k).
Proof. split; [exact all_forged_rejected|exact accept_slots_genuine]. Qed.
Print Assumptions c32_forged_keys_never_count.

(** the governing height is the highest indexed configuration header below H *)
Theorem c32_gov_height_spec :
  forall st H g, gov_height st H = Some g ->
    (g < H)%N /\ has_cfg st g = true /\
    forall j, In j (map fst (st_index st)) -> (g < j < H)%N -> has_cfg st j = false.
Proof. exact gov_height_spec. Qed.
Print Assumptions c32_gov_height_spec.

(** each finding class is needed: with the two other classes excluded the statement is still
    false (duplicate bookkeeper with m >= C+1; stale configuration on a store reached by AddHeader;
    peer-map entry overwritten by an accepted verifyHeader call on a non-indexed header) *)
Theorem c32_classes_independent :
  ~ (forall st h r, store_wf st -> h_height h <> 0%N -> verify_header st h = ROk r ->
       fc_stale st h = false -> fc_threshold st h = false -> governed_quorum st h) /\
  ~ (forall st0 st h r, store_inv st0 -> reachable st0 st -> h_height h <> 0%N ->
       verify_header st h = ROk r ->
       fc_threshold st h = false -> fc_dup h = false -> governed_quorum st h) /\
  ~ (forall st h r, h_height h <> 0%N -> verify_header st h = ROk r ->
       in_finding_class st h = false -> governed_quorum st h).
Proof.
  split; [exact header_accept_refuted_dup|split; [exact header_accept_refuted_stale|exact header_accept_refuted_overwritten]].
Qed.
Print Assumptions c32_classes_independent.

(** the generated threshold: at least one and at most n signatures for n >= 1 peers *)
Theorem c32_threshold_bounds : forall n, (1 <= n)%Z -> (1 <= hs_vbft_m n <= n)%Z.
Proof. exact hs_vbft_m_bounds. Qed.
Print Assumptions c32_threshold_bounds.

(** Shape of the entry points (translator obligation): AddHeader, SubmitBlock and AddBlock each
    call verifyHeader unconditionally, after exactly the committed early exits (the theorems above
    speak about verifyHeader; this ties them to everything that stores a header). *)
Theorem c32_verify_header_call_sites :
  verify_header_call_sites = expected_verify_header_call_sites /\
  forall f enc pre, In (f, (enc, pre)) verify_header_call_sites -> enc = [].
Proof. split; [exact verify_header_call_sites_as_committed|exact verify_header_calls_unconditional]. Qed.
Print Assumptions c32_verify_header_call_sites.

(** Non-vacuity: a store satisfying the invariant and a header outside the finding classes that
    IS accepted (N=14, C=1, two distinct members, two valid signatures) — the partial theorem's
    hypotheses are satisfiable and its conclusion is then a real quorum. *)
Example c32_nonvacuous :
  store_wf w2_store /\ h_height good_header <> 0%N /\
  verify_header w2_store good_header = ROk None /\
  in_finding_class w2_store good_header = false /\
  governed_quorum w2_store good_header.
Proof.
  destruct good_header_accepted as (H1 & H2 & H3 & H4).
  repeat (split; [assumption|]). exact (accept_partial _ _ _ H1 H2 H3 H4).
Qed.
