From Ont Require Import Model.Auth.
