(** C41 — Role-based contract authorization grants exactly the assigned functions.

    "The auth contract confirms that an identity may call a function exactly when the identity
     proved control of its key and holds, directly or through an unexpired delegation, a role to
     which that function is assigned."  Quantifier: all histories of admin init/transfer, role
     assignment, delegation and withdrawal, with arbitrary times.

    Model: Model/Auth.v (built on Gen/AuthConsts.v, regenerated from auth.go/param.go on every
    run), vocabulary: Model/AuthSpec.v.  [valid_id] is account.VerifyID, the per-event [e_sig] is
    the ONT ID contract's verifySignature (identity proof), both arbitrary.

    Result: the statement holds with the code's reading of "holds" ([may_call]) for ALL histories
    (c41_verify_token_exact, c41_verify_token_events).  With the property text's reading — the
    admin assigned the role in an accepted assignOntIDsToRole ([may_call_text]) — the "only if"
    half holds for all histories (c41_grant_sound), the "if" half is REFUTED (c41_text_refuted:
    an accepted assignment is silently skipped when the assignee holds the role through a running
    delegation) and holds on every history without such a skipped assignment (c41_text_partial). *)
From Coq Require Import List Bool NArith.
Import ListNotations.
From Ont Require Import Lib.Bytes Gen.AuthConsts Model.Auth Model.AuthSpec Proofs.C41.
Local Open Scope N_scope.

(** Every reachable state keeps the stored shape: admin-assigned tokens have level
    ADMIN_TOKEN_LEVEL and expiry AUTH_FUTURE; per identity at most one delegation record per role,
    each with 0 < level < DELEGATOR_LEVEL, expiry < AUTH_FUTURE and a delegator that holds the role
    by admin assignment. *)
Theorem c41_reachable_invariant : forall valid_id h, Inv (run valid_id h).
Proof. exact run_inv. Qed.
Print Assumptions c41_reachable_invariant.

(** A call that fails or answers FALSE changes nothing. *)
Theorem c41_refused_call_changes_nothing : forall valid_id s e,
  fst (step valid_id s e) <> RTrue -> snd (step valid_id s e) = s.
Proof. exact step_refused_same. Qed.
Print Assumptions c41_refused_call_changes_nothing.

(** verifyToken after ANY history (no assumption on times), in terms of what is stored. *)
Theorem c41_verify_token_exact : forall valid_id h e c caller fn k,
  verify_token (run valid_id h) e c caller fn k = RTrue <->
  e_sig e caller k = SigOk /\
  exists r, fn_assigned (run valid_id h) c r fn = true /\
    ((holds_direct (run valid_id h) c caller r = true /\ e_now e <= AUTH_FUTURE) \/
     (exists d, deleg_of (run valid_id h) c caller r = Some d /\ e_now e <= d_expire d)).
Proof. exact verify_token_run. Qed.
Print Assumptions c41_verify_token_exact.

(** What is stored, in terms of the events of the history. *)
Theorem c41_fn_given_events : forall valid_id h c r f,
  fn_assigned (run valid_id h) c r f = true <-> fn_given valid_id h c r f.
Proof. exact fn_given_iff. Qed.
Print Assumptions c41_fn_given_events.

Theorem c41_role_assigned_events : forall valid_id h c id r,
  holds_direct (run valid_id h) c id r = true <-> role_assigned valid_id h c id r.
Proof. exact role_assigned_iff. Qed.
Print Assumptions c41_role_assigned_events.

Theorem c41_delegation_events : forall valid_id h c id r from exp lvl, times_u32 h ->
  (deleg_of (run valid_id h) c id r = Some (mkDel from (mkTok r exp lvl)) <->
   deleg_in_force valid_id h c id r from exp lvl).
Proof. exact deleg_events. Qed.
Print Assumptions c41_delegation_events.

Theorem c41_admin_events : forall valid_id h c a,
  admin_of (run valid_id h) c = Some a <->
  exists h1 e h2, h = h1 ++ e :: h2 /\ ev_sets_admin valid_id (run valid_id h1) e c a /\
    forall h2a e' h2b, h2 = h2a ++ e' :: h2b ->
      ~ exists a', ev_sets_admin valid_id (run valid_id (h1 ++ e :: h2a)) e' c a'.
Proof. exact admin_events. Qed.
Print Assumptions c41_admin_events.

(** MAIN: over all histories (times are uint32), verifyToken confirms exactly when the identity
    proof succeeded for that call and the caller may call the function: some role to which the
    function was given by the then-admin is held through an admin assignment that was stored
    (until AUTH_FUTURE) or through the delegation in force (until its expiry, inclusive). *)
Theorem c41_verify_token_events : forall valid_id h e c caller fn k, times_u32 h ->
  (verify_token (run valid_id h) e c caller fn k = RTrue <->
   e_sig e caller k = SigOk /\ may_call valid_id h (e_now e) c caller fn).
Proof. exact verify_token_events. Qed.
Print Assumptions c41_verify_token_events.

(** The property text's reading. *)
Definition c41_text_statement : Prop :=
  forall valid_id h e c caller fn k, times_u32 h ->
    (verify_token (run valid_id h) e c caller fn k = RTrue <->
     e_sig e caller k = SigOk /\ may_call_text valid_id h (e_now e) c caller fn).

(** Soundness half, all histories: nothing is granted without proof of identity, an assigned
    function, and a role held by admin assignment or by a delegation in force that has not
    expired and was not withdrawn. *)
Theorem c41_grant_sound : forall valid_id h e c caller fn k, times_u32 h ->
  verify_token (run valid_id h) e c caller fn k = RTrue ->
  e_sig e caller k = SigOk /\ may_call_text valid_id h (e_now e) c caller fn.
Proof. exact verify_token_sound_text. Qed.
Print Assumptions c41_grant_sound.

(** Partial: the text's statement on histories without a silently skipped assignment. *)
Theorem c41_text_partial : forall valid_id h e c caller fn k,
  times_u32 h -> no_skipped_assignment valid_id h ->
  (verify_token (run valid_id h) e c caller fn k = RTrue <->
   e_sig e caller k = SigOk /\ may_call_text valid_id h (e_now e) c caller fn).
Proof. exact verify_token_text_partial. Qed.
Print Assumptions c41_text_partial.

(** Witness history of the finding (replayed on the implementation by the driver on every run,
    class assign-skipped-live-delegation). *)
Definition w_c : bytes := [1].
Definition w_admin : bytes := [10].
Definition w_holder : bytes := [11].
Definition w_user : bytes := [13].
Definition w_r0 : bytes := [100].
Definition w_r1 : bytes := [101].
Definition w_f0 : bytes := [200].
Definition w_sig (who : bytes) : bytes -> N -> sigres :=
  fun id k => if (bytes_eqb id who && (k =? 1))%bool then SigOk else SigErr.
Definition w_ev (t : N) (who : bytes) (o : op) : event := mkEv (mkEnv t (w_sig who)) o.
Definition w_prefix : list event :=
  [ w_ev 1000 [] (OInit w_c w_admin);
    w_ev 1001 w_admin (OAssignFuncs w_c w_admin w_r0 [w_f0] 1);
    w_ev 1002 w_admin (OAssignIds w_c w_admin w_r0 [w_holder] 1);
    w_ev 1003 w_admin (OAssignIds w_c w_admin w_r1 [w_user] 1);
    w_ev 1004 w_holder (ODelegate w_c w_holder w_user w_r0 100 1 1) ].
(** the admin now assigns r0 to the user, who holds r0 by the running delegation *)
Definition w_skipped : event := w_ev 1006 w_admin (OAssignIds w_c w_admin w_r0 [w_user] 1).
Definition w_hist : list event := w_prefix ++ [w_skipped].
Definition w_valid : bytes -> bool := fun _ => true.

Lemma w_times : times_u32 w_hist.
Proof. repeat constructor. Qed.

Theorem c41_text_refuted : ~ c41_text_statement.
Proof.
  intro H.
  specialize (H w_valid w_hist (mkEnv 1105 (w_sig w_user)) w_c w_user w_f0 1 w_times).
  assert (R : verify_token (run w_valid w_hist) (mkEnv 1105 (w_sig w_user)) w_c w_user w_f0 1 = RFalse)
    by (vm_compute; reflexivity).
  rewrite R in H. destruct H as [_ H].
  assert (X : RFalse = RTrue); [apply H; clear H|discriminate X].
  split; [reflexivity|]. exists w_r0. split.
  - exists [w_ev 1000 [] (OInit w_c w_admin)], (w_ev 1001 w_admin (OAssignFuncs w_c w_admin w_r0 [w_f0] 1)),
      [ w_ev 1002 w_admin (OAssignIds w_c w_admin w_r0 [w_holder] 1);
        w_ev 1003 w_admin (OAssignIds w_c w_admin w_r1 [w_user] 1);
        w_ev 1004 w_holder (ODelegate w_c w_holder w_user w_r0 100 1 1); w_skipped ].
    split; [reflexivity|]. exists w_admin, [w_f0], 1.
    split; [reflexivity|]. split; [discriminate|]. split; [split; vm_compute; reflexivity|].
    split; [left; reflexivity|discriminate].
  - left. split; [|vm_compute; discriminate].
    exists w_prefix, w_skipped, []. split; [reflexivity|].
    exists w_admin, [w_user], 1.
    split; [reflexivity|]. split; [discriminate|]. split; [reflexivity|].
    split; [split; vm_compute; reflexivity|left; reflexivity].
Qed.
Print Assumptions c41_text_refuted.

(** Authorisation of delegations: the delegator of a delegation in force had been assigned the
    role by the admin, handed on a strictly lower positive level and a strictly earlier expiry. *)
Theorem c41_delegator_was_assigned : forall valid_id h c id r from exp lvl,
  deleg_in_force valid_id h c id r from exp lvl ->
  exists h1 e h2, h = h1 ++ e :: h2 /\ role_assigned valid_id h1 c from r /\
                  exp < AUTH_FUTURE /\ 0 < lvl /\ lvl < ADMIN_TOKEN_LEVEL.
Proof. exact delegator_was_assigned. Qed.
Print Assumptions c41_delegator_was_assigned.

(** Levels limit re-delegation: whoever holds a role only through a delegation cannot delegate. *)
Theorem c41_no_redelegation : forall valid_id s e c from to r p l k,
  Inv s -> ev_now e < 4294967296 -> ev_op e = ODelegate c from to r p l k ->
  holds_direct s c from r = false -> fst (step valid_id s e) <> RTrue.
Proof. exact delegate_needs_admin_assignment. Qed.
Print Assumptions c41_no_redelegation.

(** Observation (DESIGN §5 C41): at now = expireTime verifyToken still confirms the delegate,
    while getAuthToken — used by delegate, withdraw and assignOntIDsToRole — already reports
    that the identity does not hold the role. *)
Theorem c41_boundary_now_equals_expire : forall valid_id h e c id r from exp lvl fn k,
  times_u32 h -> deleg_in_force valid_id h c id r from exp lvl -> fn_given valid_id h c r fn ->
  e_sig e id k = SigOk -> e_now e = exp ->
  verify_token (run valid_id h) e c id fn k = RTrue /\
  (holds_direct (run valid_id h) c id r = false ->
   get_auth_token (run valid_id h) (e_now e) c id r = None).
Proof. exact boundary_now_equals_expire. Qed.
Print Assumptions c41_boundary_now_equals_expire.

(** Non-vacuity: on the witness prefix the delegate is confirmed while the delegation runs
    (so [may_call] and [deleg_in_force] are inhabited), up to and including the expiry second,
    not afterwards, not without the identity proof, not for an unassigned function, and not after
    the delegator's withdrawal. *)
Example c41_nonvacuous :
  times_u32 w_prefix /\
  may_call w_valid w_prefix 1050 w_c w_user w_f0 /\
  verify_token (run w_valid w_prefix) (mkEnv 1050 (w_sig w_user)) w_c w_user w_f0 1 = RTrue /\
  verify_token (run w_valid w_prefix) (mkEnv 1104 (w_sig w_user)) w_c w_user w_f0 1 = RTrue /\
  verify_token (run w_valid w_prefix) (mkEnv 1105 (w_sig w_user)) w_c w_user w_f0 1 = RFalse /\
  verify_token (run w_valid w_prefix) (mkEnv 1050 (w_sig w_holder)) w_c w_user w_f0 1 = RErr /\
  verify_token (run w_valid w_prefix) (mkEnv 1050 (w_sig w_user)) w_c w_user [201] 1 = RFalse /\
  verify_token (run w_valid (w_prefix ++ [w_ev 1010 w_holder (OWithdraw w_c w_holder w_user w_r0 1)]))
               (mkEnv 1050 (w_sig w_user)) w_c w_user w_f0 1 = RFalse.
Proof.
  assert (T : times_u32 w_prefix) by (repeat constructor).
  assert (V : verify_token (run w_valid w_prefix) (mkEnv 1050 (w_sig w_user)) w_c w_user w_f0 1 = RTrue)
    by (vm_compute; reflexivity).
  split; [exact T|]. split; [|repeat split; vm_compute; reflexivity].
  apply (c41_verify_token_events w_valid w_prefix _ _ _ _ _ T) in V. exact (proj2 V).
Qed.
