(** C34 — Honest VBFT nodes never seal different blocks at the same height.

    Model: Model/Vbft.v — per node the block-pool bookkeeping of Model/VbftPool.v (C31) plus the
    endorsed / committed / sealed marks (setProposalEndorsed, setProposalCommitted, setBlockSealed),
    the message pool and the DECISION logic of service.go (processMsgEvent, the proposal / endorse /
    empty-endorse / commit timeouts, endorseBlock, commitBlock, the SealBlock and EndorseBlock
    actions); a network that delays, drops, duplicates and reorders; up to C faulty peers that may
    send any well-formed message in which every signature is made with a faulty key, verifies under
    no key, or was seen on the network. Thresholds are the expressions of the current source
    (Gen/Thresholds.v), the receive check is the one of the current source (Gen/VbftIntake.v).
    Vocabulary: Model/VbftSpec.v. NOT modelled: timers (every timeout may fire at any time), p2p,
    peer liveness (all peers alive and active), the state manager, the syncer and the
    FastForward/ReBroadcast actions, proposal validation, the chain store. PARTIAL for that reason,
    and because:

    FULL STATEMENT ([safety]): for every N >= 3C+1 with at most C faulty peers, in every reachable
    configuration no two honest nodes have sealed different blocks.

    The faithful model REFUTES it ([c34_safety_refuted]); the five refutations below show five
    independent root causes, each replayed on real nodes by harness/drivers/c34 on every run:
      V  endorser signatures and claimed indices are counted unverified (finding F10 of C31);
      D  getCommitConsensus counts the proposer twice (C31, "proposer-counted-twice");
      Q  votes are tallied by the proposer's index and the block hash in an endorse / commit message
         is never compared with the local proposal: a faulty proposer signs two proposals;
      U  WITHOUT ANY FAULTY PEER: the proposer counts as a vote for its block, yet a proposer may
         endorse and commit another proposal, and a node may commit a proposal other than the one it
         endorsed; with two proposals in flight (second proposer's back-off) two disjoint "quorums"
         form;
      E  the "for empty block" verdict is a count over commit messages of any proposer, not a quorum.
    PROVED, for all N, C, schedules and faulty behaviours ([c34_safety_partial]): agreement in every
    reachable configuration in which all five conditions hold — verified intake (V), no proposer
    named as its own signer (D), no equivocating proposer (Q), every honest key signed for one
    proposal only (U), no empty-block endorsement or commitment reached an honest pool (E). Each
    condition is necessary: dropping any one of them is refuted while the other four hold.
    What is missing for the full statement is in the code, not in the proof. *)
From Coq Require Import List Bool NArith ZArith.
Import ListNotations.
From Ont Require Import Gen.Thresholds Gen.VbftIntake Model.VbftPool Model.VbftPoolSpec Model.Vbft Model.VbftSpec
  Proofs.C31 Proofs.C34.
Local Open Scope N_scope.

(** The property outside the five finding classes. *)
Theorem c34_safety_partial : safety_statement hyp_allb.
Proof. exact safety_partial_lemma. Qed.
Print Assumptions c34_safety_partial.

(** KNOWN FINDING: the full statement is false of the code as it is (witness: F10, N = 4, one
    faulty committer, two honest nodes seal their own proposals). *)
Theorem c34_safety_refuted : ~ safety.
Proof. exact safety_refuted_lemma. Qed.
Print Assumptions c34_safety_refuted.

(** ... with D, E, U, Q holding: unverified endorser signatures alone break agreement. *)
Theorem c34_safety_unverified_refuted : ~ safety_statement hyp_but_V.
Proof. exact safety_unverified_refuted_lemma. Qed.
Print Assumptions c34_safety_unverified_refuted.

(** ... with every signature verified: the proposer counted twice. *)
Theorem c34_safety_double_count_refuted : ~ safety_statement hyp_but_D.
Proof. exact safety_double_count_refuted_lemma. Qed.
Print Assumptions c34_safety_double_count_refuted.

(** ... with V, D, E, U: a faulty proposer that signs two proposals. *)
Theorem c34_safety_equivocation_refuted : ~ safety_statement hyp_but_Q.
Proof. exact safety_equivocation_refuted_lemma. Qed.
Print Assumptions c34_safety_equivocation_refuted.

(** ... with V, D, E, Q and NO faulty peer at all: honest keys that sign for two proposals. *)
Theorem c34_safety_cross_vote_refuted : ~ safety_statement hyp_but_U.
Proof. exact safety_cross_vote_refuted_lemma. Qed.
Print Assumptions c34_safety_cross_vote_refuted.

(** ... with V, D, U, Q: the empty-block flag. *)
Theorem c34_safety_empty_flag_refuted : ~ safety_statement hyp_but_E.
Proof. exact safety_empty_flag_refuted_lemma. Qed.
Print Assumptions c34_safety_empty_flag_refuted.
