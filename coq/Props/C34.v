(** C34 — Honest VBFT nodes never seal different blocks at the same height.

    Model: Model/Vbft.v — per node the block-pool bookkeeping of Model/VbftPool.v (C31) plus the
    endorsed / committed / sealed marks (setProposalEndorsed, setProposalCommitted, setBlockSealed),
    the message pool and the DECISION logic of service.go (processMsgEvent, the proposal / endorse /
    empty-endorse / commit timeouts, endorseBlock, commitBlock, the SealBlock and EndorseBlock
    actions); a network that delays, drops, duplicates and reorders; up to C faulty peers that may
    send any well-formed message in which every signature is made with a faulty key, verifies under
    no key, or was seen on the network. Thresholds are the expressions of the current source
    (Gen/Thresholds.v), the receive check is the one of the current source (Gen/VbftIntake.v).
    Vocabulary: Model/VbftSpec.v. NOT modelled: timers (every timeout may fire at any time), p2p,
    peer liveness (all peers alive and active), the state manager, the syncer and the
    FastForward/ReBroadcast actions, proposal validation, the chain store. PARTIAL for that reason,
    and because:

    FULL STATEMENT ([safety]): for every N >= 3C+1 with at most C faulty peers, in every reachable
    configuration no two honest nodes have sealed different blocks.

    The faithful model REFUTES it ([c34_safety_refuted]); the five refutations below show five
    independent root causes, each replayed on real nodes by harness/drivers/c34 on every run:
      V  endorser signatures and claimed indices are counted unverified (finding F10 of C31);
      D  getCommitConsensus counts the proposer twice (C31, "proposer-counted-twice");
      Q  votes are tallied by the proposer's index and the block hash in an endorse / commit message
         is never compared with the local proposal: a faulty proposer signs two proposals;
      U  WITHOUT ANY FAULTY PEER: the proposer counts as a vote for its block, yet a proposer may
         endorse and commit another proposal, and a node may commit a proposal other than the one it
         endorsed; with two proposals in flight (second proposer's back-off) two disjoint "quorums"
         form;
      E  the "for empty block" verdict is a count over commit messages of any proposer, not a quorum.
    PROVED, for all N, C, schedules and faulty behaviours ([c34_safety_partial]): agreement in every
    reachable configuration in which all five conditions hold — verified intake (V), no proposer
    named as its own signer (D), no equivocating proposer (Q), every honest key signed for one
    proposal only (U), no empty-block endorsement or commitment reached an honest pool (E). Each
    condition is necessary: dropping any one of them is refuted while the other four hold.
    What is missing for the full statement is in the code, not in the proof. *)
From Coq Require Import List Bool NArith ZArith.
Import ListNotations.
From Ont Require Import Gen.Thresholds Gen.VbftIntake Gen.VbftMarks Model.VbftPool Model.VbftPoolSpec Model.Vbft Model.VbftSpec
  Proofs.C31 Proofs.C34.
Local Open Scope N_scope.

(** The property outside the five finding classes. *)
Theorem c34_safety_partial : safety_statement hyp_allb.
Proof. exact safety_partial_lemma. Qed.
Print Assumptions c34_safety_partial.

(** KNOWN FINDING: the full statement is false of the code as it is (witness: F10, N = 4, one
    faulty committer, two honest nodes seal their own proposals). *)
Theorem c34_safety_refuted : ~ safety.
Proof. exact safety_refuted_lemma. Qed.
Print Assumptions c34_safety_refuted.

(** ... with D, E, U, Q holding: unverified endorser signatures alone break agreement. *)
Theorem c34_safety_unverified_refuted : ~ safety_statement hyp_but_V.
Proof. exact safety_unverified_refuted_lemma. Qed.
Print Assumptions c34_safety_unverified_refuted.

(** ... with every signature verified: the proposer counted twice. *)
Theorem c34_safety_double_count_refuted : ~ safety_statement hyp_but_D.
Proof. exact safety_double_count_refuted_lemma. Qed.
Print Assumptions c34_safety_double_count_refuted.

(** ... with V, D, E, U: a faulty proposer that signs two proposals. *)
Theorem c34_safety_equivocation_refuted : ~ safety_statement hyp_but_Q.
Proof. exact safety_equivocation_refuted_lemma. Qed.
Print Assumptions c34_safety_equivocation_refuted.

(** ... with V, D, E, Q and NO faulty peer at all: honest keys that sign for two proposals. *)
Theorem c34_safety_cross_vote_refuted : ~ safety_statement hyp_but_U.
Proof. exact safety_cross_vote_refuted_lemma. Qed.
Print Assumptions c34_safety_cross_vote_refuted.

(** ... with V, D, U, Q: the empty-block flag. *)
Theorem c34_safety_empty_flag_refuted : ~ safety_statement hyp_but_E.
Proof. exact safety_empty_flag_refuted_lemma. Qed.
Print Assumptions c34_safety_empty_flag_refuted.

(** * The local rules the property names (all reachable configurations, all peers) *)

(** one commit per height (setProposalCommitted): a node's key signs at most one commitment *)
Theorem c34_one_commit_per_height : forall P cfg a,
  reachable P cfg -> (length (commitments (node_of cfg a)) <= 1)%nat.
Proof. intros P cfg a H. exact (proj1 (proj2 (J_reachable P cfg H a))). Qed.
Print Assumptions c34_one_commit_per_height.

(** endorse once per flag (setProposalEndorsed): at most one non-empty and one empty endorsement *)
Theorem c34_one_endorsement_per_flag : forall P cfg a e,
  reachable P cfg -> (length (endorsements e (node_of cfg a)) <= 1)%nat.
Proof.
  intros P cfg a e H. destruct (J_reachable P cfg H a) as (_ & _ & _ & _ & H1 & _ & H2).
  destruct e; assumption.
Qed.
Print Assumptions c34_one_endorsement_per_flag.

(** single seal per height (setBlockSealed / sealBlock): a seal never changes *)
Theorem c34_single_seal_per_height : forall P cfg e cfg' a b,
  step P cfg e = Some cfg' -> n_sealed (node_of cfg a) = Some b -> n_sealed (node_of cfg' a) = Some b.
Proof. exact sealed_final_step. Qed.
Print Assumptions c34_single_seal_per_height.

(** addBlockEndorsementLocked: per endorser one non-empty entry per proposer, for every history *)
Theorem c34_pool_one_endorsement_per_proposer : forall ops e l (q : N),
  aget e (c_esigs (run_ops ops cand_empty)) = Some l ->
  (length (filter (fun s => negb (es_empty s) && (es_proposer s =? q)%N) l) <= 1)%nat.
Proof. exact pool_one_endorsement. Qed.
Print Assumptions c34_pool_one_endorsement_per_proposer.

(** ... and an empty endorsement is sticky: nothing is added for that endorser afterwards *)
Theorem c34_empty_endorsement_sticky : forall e s es l,
  aget e es = Some l -> existsb es_empty l = true -> add_endorsement e s false es = es.
Proof. exact empty_endorsement_sticky. Qed.
Print Assumptions c34_empty_endorsement_sticky.

(** Non-vacuity: a clean round with N = 4 satisfies the hypotheses of the partial theorem, two
    honest nodes seal, and the theorem yields their agreement. *)
Example c34_nonvacuous :
  reachable (P4 []) cfg_clean /\ hyp_allb (P4 []) cfg_clean = true /\
  n_sealed (node_of cfg_clean 1) = Some X0 /\ n_sealed (node_of cfg_clean 2) = Some X0 /\
  agreement (P4 []) cfg_clean.
Proof.
  destruct clean_round as (Hr & Hh & H1 & H2).
  assert (R : reachable (P4 []) cfg_clean) by (eapply run_reachable; [apply reach_init|exact Hr]).
  repeat split; try assumption.
  apply c34_safety_partial; [apply wf_P4; cbn; auto|exact R|exact Hh].
Qed.

(** * The commit mark (setProposalCommitted): "the first commit of the height wins" is decided in one
    place, under the pool's write lock — Server.commitBlock's own pre-check is made under a read
    lock that is released before signing, and commitBlock is reached from three loops. *)

(** what the current source has (re-read from the AST on every run, Gen/VbftMarks.v): the test
    `CommittedProposal != nil || CommittedEmptyProposal != nil -> error` before any assignment, the
    write lock, commitBlock's pre-check, and that the hook's copy of the rest of commitBlock is
    the rest of commitBlock *)
Theorem c34_commit_guard_inventory :
  set_committed_cross_kind_guard = true /\ set_committed_takes_write_lock = true /\
  commit_block_prechecks_committed = true /\ commit_block_tail_as_hooked = true.
Proof. exact guard_inventory. Qed.
Print Assumptions c34_commit_guard_inventory.

(** once a commit mark is set, every further setProposalCommitted fails, whatever proposer and kind *)
Theorem c34_first_commit_wins : forall nd p k e,
  committed_for_block nd = true -> set_proposal_committed nd p k e = None.
Proof. exact first_commit_wins. Qed.
Print Assumptions c34_first_commit_wins.

(** ... and a successful one starts from no mark and sets exactly one *)
Theorem c34_commit_mark_set : forall nd p k e nd',
  set_proposal_committed nd p k e = Some nd' ->
  n_committed nd = (None, None) /\ n_committed nd' = (if e then (None, Some (p, k)) else (Some (p, k), None)).
Proof. exact commit_mark_set. Qed.
Print Assumptions c34_commit_mark_set.

(** at most one commit mark after every sequence of newBlockProposal / setProposalEndorsed /
    setProposalCommitted calls on a candidate *)
Theorem c34_marks_sequences_one_commit_mark : forall ops,
  one_commit_mark (fst (run_marks node0 ops)) = true.
Proof. intro ops. apply run_marks_one. reflexivity. Qed.
Print Assumptions c34_marks_sequences_one_commit_mark.

(** ... and in every reachable configuration, also with commitBlock's pre-check and the rest of
    commitBlock interleaved with other loops ([LCommitLate]) *)
Theorem c34_one_commit_mark_per_height : forall P cfg a,
  reachable P cfg -> one_commit_mark (node_of cfg a) = true.
Proof. intros P cfg a H. exact (one_mark_reachable P cfg a H). Qed.
Print Assumptions c34_one_commit_mark_per_height.
