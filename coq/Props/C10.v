(** C10 - The governance fee split never distributes more than it is splitting.
    Model: Model/GovSplit.v (method.go: executeSplit2, splitNodeFee, executeAddressSplit,
    executePeerSplit, the fee part of executeCommitDpos2, WithdrawFee; utils.go: splitCurve;
    tables and constants from Gen/GovConsts.v), tied to the code by the C10 correspondence.

    What is proved: the ARITHMETIC, for all inputs, in uint64 with wrap-around and both variants
    of every height-gated formula, under hypotheses that are stated explicitly:
      (H1) percentages: A + B <= 100, DappFee <= 100, peer cost <= 100, stored stake cost <= 101
           (what UpdateGlobalParam / GlobalParam2.Deserialization / SetPeerCost /
           SetFeePercentage enforce);
      (H2) [node_ok]: for every peer, the validate positions of its authorizers (owner excluded)
           fit into the TotalPos recorded in the previous view's pool;
      (H3) no-wrap sizes: 100 * income < 2^64 (income below 1.8e8 ONG), fee records + income
           < 2^64, the candidates' stakes add up below 2^64, K < 2^32, curve table entries are
           uint32.
    PARTIAL: (H2) is a two-epoch consequence of the C11 invariant pool_pos_consistent (the
    TotalPos frozen in the pool of view-1 equals the sum of Consensus/Candidate buckets right
    after the commit, and unAuthorizeForPeer only moves positions into the matching Withdraw
    bucket).  It is not proved here from the operations (that needs the C11 model extended with
    the previous view's pool); the driver's oracle checks it on every reachable state it
    produces.  The statement with (H2) as a hypothesis is [c10_split_le_income_partial]. *)
From Coq Require Import List NArith Bool.
Import ListNotations.
From Ont Require Import Lib.AList Gen.GovConsts Model.Gov Model.GovSplit Proofs.GovInv Proofs.GovSplitP.
Local Open Scope N_scope.

(** The full statement: for every state REACHABLE by governance transactions, one executeSplit2
    credits at most the income.  [reachable_split_input] stands for that reachability; what is
    missing is the proof that it implies [node_ok] for every peer. *)
Definition c10_full_statement (reachable_split_input :
    split_env -> list (N * peerv) -> list (N * peerv) -> list (N * (N * N)) -> list ((N * N) * infov) -> Prop) : Prop :=
  forall e prev cur attrs infos fees balance splitFee o,
  reachable_split_input e prev cur attrs infos ->
  execute_split2 e prev cur attrs infos fees balance splitFee = SOk o ->
  so_splitSum o + so_dapp o <= balance - splitFee.

(** (1) One whole split: credits + dapp income <= income; the per-address records grow by
    exactly splitSum (no record wraps); the recorded fees stay covered by the balance. *)
Theorem c10_split_le_income_partial : forall e prev cur attrs infos fees balance splitFee o,
  execute_split2 e prev cur attrs infos fees balance splitFee = SOk o ->
  e_A e + e_B e <= 100 -> e_dappFee e <= 100 ->
  Forall (fun y => y < W32) (e_Yi e) -> e_K e < W32 ->
  100 * (balance - splitFee) < W64 -> fsum fees + (balance - splitFee) < W64 ->
  (forall k, node_ok prev cur attrs infos k) ->
  sum_fst (sort_desc (candidates prev)) < W64 ->
  so_splitSum o + so_dapp o <= balance - splitFee /\
  fsum (so_fees o) = fsum fees + so_splitSum o /\
  splitFee + so_splitSum o <= balance - so_dapp o.
Proof. exact execute_split2_le_income. Qed.
Print Assumptions c10_split_le_income_partial.

(** (2) One node: whatever is credited to the authorizers and the owner adds up to exactly the
    node's amount - the remainder [nodeAmount - sumAmount] cannot wrap. *)
Theorem c10_node_credits_exact : forall e k owner pre cu init total nodeAmount attrs infos fees fees',
  let '(pc, sc0) := costs_of k attrs in
  pc <= 100 -> sc0 <= 101 -> 100 * nodeAmount < W64 ->
  vp_sum (cu || pre) k owner infos <= total ->
  fsum fees + nodeAmount < W64 ->
  split_node_fee e k owner pre cu init total nodeAmount attrs infos fees = SOk fees' ->
  fsum fees' = fsum fees + nodeAmount.
Proof. exact split_node_fee_spec. Qed.
Print Assumptions c10_node_credits_exact.

(** (3) The part of a node's amount shared with its authorizers never exceeds the amount, in
    both cost formulas. *)
Theorem c10_shared_le_node : forall nc nodeAmount init total pc sc0 amount,
  pc <= 100 -> sc0 <= 101 -> 100 * nodeAmount < W64 ->
  shared_amount nc nodeAmount init total pc sc0 = SOk amount -> amount <= nodeAmount.
Proof. exact shared_amount_le. Qed.
Print Assumptions c10_shared_le_node.

(** (4) One address: the wrapping and the exact variant both stay at or below the exact share. *)
Theorem c10_address_share : forall exact vp amount T, T <> 0 ->
  address_amount exact vp amount T * T <= vp * amount.
Proof. exact address_amount_bound. Qed.
Print Assumptions c10_address_share.

(** (5) splitCurve never exceeds the largest table entry's range: with uint32 entries its value is
    below 2^32 for every (pos, avg, yita), wrapped intermediate products included, so the sum of
    K curve values cannot wrap. *)
Theorem c10_curve_bounded : forall Yi pos avg yita s,
  Forall (fun y => y < W32) Yi -> split_curve Yi pos avg yita = SOk s -> s < W32.
Proof. exact split_curve_bound. Qed.
Print Assumptions c10_curve_bounded.

(** (6) withdrawable: "the per-address records add up to splitFee, and splitFee <= ONG balance of
    governance" is preserved by the settlement of an epoch and by WithdrawFee, which pays exactly
    the caller's record. *)
Theorem c10_settle_keeps_fees_covered : forall e prev cur attrs infos st st',
  settle e prev cur attrs infos st = SOk st' -> fee_inv st ->
  e_A e + e_B e <= 100 -> e_dappFee e <= 100 ->
  Forall (fun y => y < W32) (e_Yi e) -> e_K e < W32 ->
  100 * (fs_balance st - fs_splitFee st) < W64 -> fs_balance st < W64 ->
  (forall k, node_ok prev cur attrs infos k) ->
  sum_fst (sort_desc (candidates prev)) < W64 ->
  fee_inv st'.
Proof. exact settle_fee_inv. Qed.
Print Assumptions c10_settle_keeps_fees_covered.

Theorem c10_withdraw_fee_keeps_fees_covered : forall st a st',
  withdraw_fee st a = SOk st' -> fee_inv st ->
  fee_inv st' /\ fs_balance st' + nget a (fs_fees st) = fs_balance st.
Proof.
  intros st a st' H I. split; [eapply withdraw_fee_inv; eauto | eapply withdraw_fee_pays_record; eauto].
Qed.
Print Assumptions c10_withdraw_fee_keeps_fees_covered.

(** The table InitConfig stores satisfies the table hypothesis (regenerated from the source). *)
Theorem c10_init_table_ok : Forall (fun y => y < W32) INIT_Yi /\ INIT_A + INIT_B <= 100.
Proof.
  split; [|vm_compute; discriminate].
  apply Forall_forall. intros y Hy.
  assert (H : forallb (fun y => y <? W32) INIT_Yi = true) by (vm_compute; reflexivity).
  rewrite forallb_forall in H. apply N.ltb_lt. now apply H.
Qed.
Print Assumptions c10_init_table_ok.

(** Non-vacuity: seven consensus peers of the previous and the current view, one of them with two
    authorizers whose positions fit into its TotalPos; 10^12 units of income with the default
    parameters.  The split succeeds, distributes the consensus half (there are no candidate
    peers beyond K), credits something to an authorizer, and the hypotheses of (1) hold. *)
Definition ex_env := mkSplitEnv true true INIT_A INIT_B INIT_Yita 7 49 0 false INIT_Yi.
Definition ex_pool : list (N * peerv) :=
  [mkPeer 1 3 2 10000 6000; mkPeer 2 3 2 11000 0; mkPeer 3 4 2 12000 0; mkPeer 4 4 2 13000 0;
   mkPeer 5 3 2 14000 0; mkPeer 6 4 2 15000 0; mkPeer 7 3 2 16000 0].
Definition ex_infos : list ((N * N) * infov) := [mkInfo 1 8 4000 0 0 500 0 0; mkInfo 1 9 1000 0 500 500 0 70].
Definition ex_attrs : list (N * (N * N)) := [(1, (40, 101))].

Example c10_nonvacuous :
  (forall k, node_ok ex_pool ex_pool ex_attrs ex_infos k) /\
  match execute_split2 ex_env ex_pool ex_pool ex_attrs ex_infos [] 1000000000000 0 with
  | SOk o => so_splitSum o <= 1000000000000 /\ 0 < nget 8 (so_fees o) /\ nget 8 (so_fees o) < nget 3 (so_fees o) /\
             fsum (so_fees o) = so_splitSum o /\ 499999999000 < so_splitSum o /\ so_splitSum o <= 500000000000
  | _ => False
  end.
Proof.
  split.
  - intros k p pre cu Hg H1 H2.
    destruct (N.eq_dec k 1) as [->|Hne].
    + vm_compute in Hg, H1, H2. inversion Hg; inversion H1; inversion H2; subst. vm_compute. repeat split; discriminate.
    + assert (Hv : vp_sum (cu || pre) k (p_owner p) ex_infos = 0).
      { unfold ex_infos, mkInfo. cbn [vp_sum]. assert (E : 1 =? k = false) by (apply N.eqb_neq; auto). rewrite E. reflexivity. }
      rewrite Hv. unfold costs_of, ex_attrs. cbn [aget]. assert (E : k =? 1 = false) by (apply N.eqb_neq; auto). rewrite E.
      cbn. repeat split; try discriminate. apply N.le_0_l.
  - vm_compute. repeat split; discriminate || reflexivity.
Qed.
