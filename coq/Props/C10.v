(** C10 - The governance fee split never distributes more than it is splitting.
    Model: Model/GovSplit.v (method.go: executeSplit2, splitNodeFee, executeAddressSplit,
    executePeerSplit, the fee part of executeCommitDpos2, WithdrawFee; utils.go: splitCurve;
    tables and constants from Gen/GovConsts.v) on the states of Model/Gov.v (the governance
    operations of C11, whose state includes the peer pool stored under view-1 that executeSplit2
    reads), tied to the code by the C10 and C11 correspondences.

    Statement: for every history of governance transactions from a funded genesis and every
    executeSplit2 run on the reached state, credits + dapp income <= income, the per-address records
    grow by exactly splitSum (nothing wraps), the recorded fees stay covered by the balance.
    Hypotheses that remain, and why:
      (H1) percentages: A + B <= 100, DappFee <= 100, TPeerCost <= 100, stored TStakeCost <= 101.
           They are enforced where they are SET (UpdateGlobalParam, GlobalParam2.Deserialization,
           SetPeerCost, SetFeePercentage, the defaults of InitConfig/getPeerAttributes); the
           parameter-setting operations are not operations of the governance model, so (H1) stays
           an explicit hypothesis on the parameters the split reads.
      (H3) sizes outside the contract's control: 100 * income < 2^64 (the ONG that arrives at the
           contract in one epoch is below 1.8e8 ONG: it is network fee income, not a quantity the
           contract bounds), fee records + income < 2^64, the candidates' stakes add up below 2^64
           (each is at most twice the ONT supply), K < 2^32 and curve table entries uint32 (types).
    (H2) - per peer, the validate positions of its authorizers fit into the TotalPos of the previous
    view's pool - is no longer a hypothesis: it is an invariant of the operations ([c10_h2_invariant],
    Proofs/GovPrev*.v). *)
From Coq Require Import List NArith Bool.
Import ListNotations.
From Ont Require Import Lib.AList Gen.GovConsts Model.Gov Model.GovSpec Model.GovSplit Proofs.GovInv
  Proofs.GovAcct4 Proofs.GovSplitP Proofs.GovSplitR.
Local Open Scope N_scope.

(** The full statement. [gov_history_ok] = the hypotheses of C11 on a history (funded genesis,
    distinct genesis peers, parameter bounds, no transaction signed by the contract address). *)
Definition c10_full_statement : Prop :=
  forall par h0 peers ont ops, gov_history_ok par peers ont ops ->
  let s := run (genesis par h0 peers ont) ops in
  forall e attrs fees balance splitFee o,
  execute_split2 e (s_prev s) (s_pool s) attrs (s_infos s) fees balance splitFee = SOk o ->
  (* H1 *) e_A e + e_B e <= 100 -> e_dappFee e <= 100 -> costs_ok attrs ->
  (* H3 *) Forall (fun y => y < W32) (e_Yi e) -> e_K e < W32 ->
           100 * (balance - splitFee) < W64 -> fsum fees + (balance - splitFee) < W64 ->
           sum_fst (sort_desc (candidates (s_prev s))) < W64 ->
  so_splitSum o + so_dapp o <= balance - splitFee /\
  fsum (so_fees o) = fsum fees + so_splitSum o /\
  splitFee + so_splitSum o <= balance - so_dapp o.

Theorem c10_split_le_income : c10_full_statement.
Proof.
  intros par h0 peers ont ops Hh s e attrs fees balance splitFee o H.
  apply (split_le_income_reachable s e attrs fees balance splitFee o (history_inv5 par h0 peers ont ops Hh) H).
Qed.
Print Assumptions c10_split_le_income.

(** (H2) on every reachable state, as executeAddressSplit counts the positions. *)
Theorem c10_h2_invariant : forall par h0 peers ont ops, gov_history_ok par peers ont ops ->
  let s := run (genesis par h0 peers ont) ops in
  forall k pp pre cu, pget k (s_prev s) = Some pp -> is_active (p_status pp) = true ->
  is_cons (s_prev s) k = SOk pre ->
  vp_sum (cu || pre) k (p_owner pp) (s_infos s) <= p_total pp.
Proof. exact history_h2. Qed.
Print Assumptions c10_h2_invariant.

(** The invariant behind it is preserved by every transaction, valid or not. *)
Theorem c10_step_preserves : forall (s : state) (h : N) (o : op),
  Proofs.GovPrev4.inv5 s -> op_ok2 o -> Proofs.GovPrev4.inv5 (fst (step s (h, o))).
Proof. intros s h o. exact (Proofs.GovPrev4.step_inv5 s (h, o)). Qed.
Print Assumptions c10_step_preserves.

(** (1) The arithmetic on its own, for ANY input (not only reachable ones), with (H2) as a
    hypothesis on the candidates of the previous view's pool. *)
Theorem c10_split_arithmetic : forall e prev cur attrs infos fees balance splitFee o,
  execute_split2 e prev cur attrs infos fees balance splitFee = SOk o ->
  e_A e + e_B e <= 100 -> e_dappFee e <= 100 ->
  Forall (fun y => y < W32) (e_Yi e) -> e_K e < W32 ->
  100 * (balance - splitFee) < W64 -> fsum fees + (balance - splitFee) < W64 ->
  Forall (fun wk => node_ok prev cur attrs infos (snd wk)) (sort_desc (candidates prev)) ->
  sum_fst (sort_desc (candidates prev)) < W64 ->
  so_splitSum o + so_dapp o <= balance - splitFee /\
  fsum (so_fees o) = fsum fees + so_splitSum o /\
  splitFee + so_splitSum o <= balance - so_dapp o.
Proof. exact execute_split2_le_income. Qed.
Print Assumptions c10_split_arithmetic.

(** (2) One node: whatever is credited to the authorizers and the owner adds up to exactly the
    node's amount - the remainder [nodeAmount - sumAmount] cannot wrap. *)
Theorem c10_node_credits_exact : forall e k owner pre cu init total nodeAmount attrs infos fees fees',
  let '(pc, sc0) := costs_of k attrs in
  pc <= 100 -> sc0 <= 101 -> 100 * nodeAmount < W64 ->
  vp_sum (cu || pre) k owner infos <= total ->
  fsum fees + nodeAmount < W64 ->
  split_node_fee e k owner pre cu init total nodeAmount attrs infos fees = SOk fees' ->
  fsum fees' = fsum fees + nodeAmount.
Proof. exact split_node_fee_spec. Qed.
Print Assumptions c10_node_credits_exact.

(** (3) The part of a node's amount shared with its authorizers never exceeds the amount, in
    both cost formulas. *)
Theorem c10_shared_le_node : forall nc nodeAmount init total pc sc0 amount,
  pc <= 100 -> sc0 <= 101 -> 100 * nodeAmount < W64 ->
  shared_amount nc nodeAmount init total pc sc0 = SOk amount -> amount <= nodeAmount.
Proof. exact shared_amount_le. Qed.
Print Assumptions c10_shared_le_node.

(** (4) One address: the wrapping and the exact variant both stay at or below the exact share. *)
Theorem c10_address_share : forall exact vp amount T, T <> 0 ->
  address_amount exact vp amount T * T <= vp * amount.
Proof. exact address_amount_bound. Qed.
Print Assumptions c10_address_share.

(** (5) splitCurve never exceeds the largest table entry's range: with uint32 entries its value is
    below 2^32 for every (pos, avg, yita), wrapped intermediate products included, so the sum of
    K curve values cannot wrap. *)
Theorem c10_curve_bounded : forall Yi pos avg yita s,
  Forall (fun y => y < W32) Yi -> split_curve Yi pos avg yita = SOk s -> s < W32.
Proof. exact split_curve_bound. Qed.
Print Assumptions c10_curve_bounded.

(** (6) withdrawable: "the per-address records add up to splitFee, and splitFee <= ONG balance of
    governance" is preserved by the settlement of an epoch and by WithdrawFee, which pays exactly
    the caller's record. *)
Theorem c10_settle_keeps_fees_covered : forall par h0 peers ont ops, gov_history_ok par peers ont ops ->
  let s := run (genesis par h0 peers ont) ops in
  forall e attrs st st',
  settle e (s_prev s) (s_pool s) attrs (s_infos s) st = SOk st' -> fee_inv st ->
  e_A e + e_B e <= 100 -> e_dappFee e <= 100 -> costs_ok attrs ->
  Forall (fun y => y < W32) (e_Yi e) -> e_K e < W32 ->
  100 * (fs_balance st - fs_splitFee st) < W64 -> fs_balance st < W64 ->
  sum_fst (sort_desc (candidates (s_prev s))) < W64 ->
  fee_inv st'.
Proof.
  intros par h0 peers ont ops Hh s e attrs st st'.
  apply (settle_fee_inv_reachable s e attrs st st' (history_inv5 par h0 peers ont ops Hh)).
Qed.
Print Assumptions c10_settle_keeps_fees_covered.

Theorem c10_withdraw_fee_keeps_fees_covered : forall st a st',
  withdraw_fee st a = SOk st' -> fee_inv st ->
  fee_inv st' /\ fs_balance st' + nget a (fs_fees st) = fs_balance st.
Proof.
  intros st a st' H I. split; [eapply withdraw_fee_inv; eauto | eapply withdraw_fee_pays_record; eauto].
Qed.
Print Assumptions c10_withdraw_fee_keeps_fees_covered.

(** The table InitConfig stores satisfies the table hypothesis (regenerated from the source). *)
Theorem c10_init_table_ok : Forall (fun y => y < W32) INIT_Yi /\ INIT_A + INIT_B <= 100.
Proof.
  split; [|vm_compute; discriminate].
  apply Forall_forall. intros y Hy.
  assert (H : forallb (fun y => y <? W32) INIT_Yi = true) by (vm_compute; reflexivity).
  rewrite forallb_forall in H. apply N.ltb_lt. now apply H.
Qed.
Print Assumptions c10_init_table_ok.

(** Non-vacuity: seven consensus peers of the previous and the current view, one of them with two
    authorizers whose positions fit into its TotalPos; 10^12 units of income with the default
    parameters.  The split succeeds, distributes the consensus half (there are no candidate
    peers beyond K), credits something to an authorizer, and the hypotheses of (1) hold. *)
Definition ex_env := mkSplitEnv true true INIT_A INIT_B INIT_Yita 7 49 0 false INIT_Yi.
Definition ex_pool : list (N * peerv) :=
  [mkPeer 1 3 2 10000 6000; mkPeer 2 3 2 11000 0; mkPeer 3 4 2 12000 0; mkPeer 4 4 2 13000 0;
   mkPeer 5 3 2 14000 0; mkPeer 6 4 2 15000 0; mkPeer 7 3 2 16000 0].
Definition ex_infos : list ((N * N) * infov) := [mkInfo 1 8 4000 0 0 500 0 0; mkInfo 1 9 1000 0 500 500 0 70].
Definition ex_attrs : list (N * (N * N)) := [(1, (40, 101))].

Example c10_nonvacuous :
  Forall (fun wk => node_ok ex_pool ex_pool ex_attrs ex_infos (snd wk)) (sort_desc (candidates ex_pool)) /\
  match execute_split2 ex_env ex_pool ex_pool ex_attrs ex_infos [] 1000000000000 0 with
  | SOk o => so_splitSum o <= 1000000000000 /\ 0 < nget 8 (so_fees o) /\ nget 8 (so_fees o) < nget 3 (so_fees o) /\
             fsum (so_fees o) = so_splitSum o /\ 499999999000 < so_splitSum o /\ so_splitSum o <= 500000000000
  | _ => False
  end.
Proof.
  split.
  - apply Forall_forall. intros [w k] _. cbn [snd]. intros p pre cu Hg H1 H2.
    destruct (N.eq_dec k 1) as [->|Hne].
    + vm_compute in Hg, H1, H2. inversion Hg; inversion H1; inversion H2; subst. vm_compute. repeat split; discriminate.
    + assert (Hv : vp_sum (cu || pre) k (p_owner p) ex_infos = 0).
      { unfold ex_infos, mkInfo. cbn [vp_sum]. assert (E : 1 =? k = false) by (apply N.eqb_neq; auto). rewrite E. reflexivity. }
      rewrite Hv. unfold costs_of, ex_attrs. cbn [aget]. assert (E : k =? 1 = false) by (apply N.eqb_neq; auto). rewrite E.
      cbn. repeat split; try discriminate. apply N.le_0_l.
  - vm_compute. repeat split; discriminate || reflexivity.
Qed.

(** Non-vacuity of the statement over reachable states: the history of C11's example (a node
    registers, an authorizer stakes, epochs pass, part is unauthorized and withdrawn) satisfies the
    hypotheses, and a split on the reached state - peer 8 sharing 60% - succeeds and credits the
    authorizer (address 8) and the node owner (address 5). *)
Definition exh_par := mkParams 1 7 100000 INIT_CandidateNum 10000 INIT_PosLimit INIT_Penalty DEFAULT_MIN_AUTHORIZE_POS 0.
Definition exh_peers : list (N * N * N) :=
  [(1, 3, 10000); (2, 3, 11000); (3, 4, 12000); (4, 4, 13000); (5, 3, 14000); (6, 4, 15000); (7, 3, 16000)].
Definition exh_ont : list (N * N) := [(GOV, 91000); (5, 50000); (8, 20000)].
Definition exh_ops : list (N * op) :=
  [(500001, ORegister 5 8 5 30000 true true); (500002, OMaxAuth 5 8 5 100000);
   (500003, OAuthorize 8 8 [(8, 5000)] true); (500004, OCommit 1);
   (500005, OUnAuthorize 8 8 [(8, 2000)] true); (500006, OCommit 1); (500007, OCommit 1);
   (500008, OWithdraw 8 8 [(8, 2000)] true)].

Example c10_reachable_nonvacuous :
  gov_history_ok exh_par exh_peers exh_ont exh_ops /\
  let s := run (genesis exh_par 500000 exh_peers exh_ont) exh_ops in
  costs_ok [(8, (40, 101))] /\
  match execute_split2 ex_env (s_prev s) (s_pool s) [(8, (40, 101))] (s_infos s) [] 1000000000000 0 with
  | SOk o => 0 < nget 8 (so_fees o) /\ 0 < nget 5 (so_fees o) /\ so_splitSum o <= 1000000000000
  | _ => False
  end.
Proof.
  split; [|split].
  - unfold gov_history_ok. split; [vm_compute; reflexivity|]. split; [vm_compute; discriminate|].
    split; [repeat constructor; cbn; intuition discriminate|].
    split; [unfold params_ok; cbn; vm_compute; repeat split; discriminate || reflexivity|].
    repeat constructor; cbn; try discriminate; vm_compute; reflexivity.
  - intros k. unfold costs_of. cbn [aget]. destruct (k =? 8); cbn; split; discriminate.
  - vm_compute. repeat split; discriminate || reflexivity.
Qed.
