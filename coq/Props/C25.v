(** C25 — Cross-VM parameter codec round-trips and rejects malformed input.
    "Values exchanged between NeoVM, WASM and native code encode and decode back to equal values,
     and any byte string either decodes or is rejected without panicking."
    Quantifier: all nested lists of byte arrays, strings, addresses, booleans, 128-bit integers and
    hashes, and all byte strings.

    Model: Model/CrossVM.v (vm/crossvm_codec codec.go, vmcall_codec.go, notify_codec.go) on top of
    Model/Codec.v (ZeroCopySource/Sink). Tags, VERSION, the two prefixes and the slice offsets used
    after the prefix tests are regenerated from the source (Gen/CrossVMConsts.v), widths from
    Gen/CodecConsts.v.

    Explicit hypotheses of the round trip ([wf_g], a boolean the correspondence evaluates on every
    generated value): bytes below 256; byte-array / string / list lengths below 2^32 (the encoder
    writes uint32(len)); addresses of 20 and hashes of 32 bytes; big integers within the i128 range
    (outside it the encoder returns an error: [c25_big_out_of_range_rejected]); machine integers
    within their Go type; no value of a type outside the encoder's type switch. The enclosing buffer
    is shorter than 2^64 bytes (every Go slice is).

    What the decoder accepts that the encoder never produces: only trailing bytes after the value
    ([c25_decode_canonical]: the consumed bytes ARE the encoding of the returned value). *)
From Coq Require Import List Bool Arith NArith ZArith.
Import ListNotations.
From Ont Require Import Lib.Bytes Gen.CodecConsts Gen.CrossVMConsts Model.Codec Model.CrossVM Proofs.C25.
Local Open Scope N_scope.

(** ** Round trip *)

(** Any well-formed Go value (as an element, at any nesting) is encoded without error into a
    non-empty byte string, and decoding at that position of any enclosing buffer returns the value
    (machine integers as big integers) and leaves the source exactly behind the encoding. *)
Theorem c25_roundtrip : forall (g : gvalue) (pre post : bytes),
  wf_g g = true ->
  exists b, g_encode_elem g = EOk b /\ wf_bytes b = true /\ (1 <= length b)%nat /\
    (N.of_nat (length (pre ++ b ++ post)) < two64 ->
     decode_value (mkSrc (pre ++ b ++ post) (length pre)) =
     DOk (norm g) (mkSrc (pre ++ b ++ post) (length pre + length b))).
Proof. exact round_trip_at. Qed.
Print Assumptions c25_roundtrip.

(** EncodeValue itself (its own type switch), then DecodeValue on the result. *)
Theorem c25_roundtrip_encode_value : forall g : gvalue,
  wf_g g = true -> top_supported g = true ->
  exists b, g_encode_value g = EOk b /\ wf_bytes b = true /\
    (N.of_nat (length b) < two64 -> decode_value (src_new b) = DOk (norm g) (mkSrc b (length b))).
Proof. exact round_trip_top. Qed.
Print Assumptions c25_roundtrip_encode_value.

(** The same for the decoder's own result type. *)
Theorem c25_value_roundtrip : forall (v : value) (enc pre post : bytes),
  wf_value v = true -> encode_value v = Some enc -> N.of_nat (length (pre ++ enc ++ post)) < two64 ->
  decode_value (mkSrc (pre ++ enc ++ post) (length pre)) = DOk v (mkSrc (pre ++ enc ++ post) (length pre + length enc)).
Proof. exact value_round_trip. Qed.
Print Assumptions c25_value_roundtrip.

(** Through the version byte (DeserializeCallParam) and the "evt\0" prefix (parseNotify,
    DeserializeNotify). *)
Theorem c25_wrappers_roundtrip : forall g : gvalue,
  wf_g g = true -> top_supported g = true ->
  exists b, g_encode_value g = EOk b /\
    (N.of_nat (length b) < two64 ->
     deserialize_call_param (VERSION :: b) = WRes (DOk (norm g) (mkSrc b (length b))) /\
     parse_notify (NOTIFY_PREFIX ++ b) = WRes (DOk (norm g) (mkSrc b (length b))) /\
     deserialize_notify (NOTIFY_PREFIX ++ b) = NParsed (norm g)).
Proof. exact call_param_round_trip. Qed.
Print Assumptions c25_wrappers_roundtrip.

(** Big integers outside [-2^127, 2^127) are refused by the encoder, not truncated. *)
Theorem c25_big_out_of_range_rejected : forall z : Z,
  in_range minI128 maxI128 z = false -> g_encode_elem (GBig z) = EErrRange.
Proof. exact big_out_of_range. Qed.
Print Assumptions c25_big_out_of_range_rejected.

(** int / int64 / int32 / uint32 go through I128FromInt64, which agrees with I128FromBigInt. *)
Theorem c25_int64_path_agrees : forall z : Z, int64_ok z = true -> i128_from_big z = Some (i128_from_int64 z).
Proof. exact i128_from_int64_eq. Qed.
Print Assumptions c25_int64_path_agrees.

(** ** Every byte string decodes or is rejected *)

(** DecodeValue's recursion is bounded by the number of unread bytes: with that bound the model
    never runs out ([DFuel] is the only non-result), for every source over every list of numbers
    (not even required to be bytes). *)
Theorem c25_decode_total : forall s : source, decode_value s <> DFuel.
Proof. exact decode_value_total. Qed.
Print Assumptions c25_decode_total.

(** Any larger bound gives the same answer, and the decoder satisfies the recursion equation of
    the Go function with no bound in it. *)
Theorem c25_decode_bound_irrelevant : forall (f : nat) (s : source),
  (remaining s < f)%nat -> decode_fuel f s = decode_value s.
Proof. exact decode_fuel_indep. Qed.
Print Assumptions c25_decode_bound_irrelevant.

Theorem c25_decode_equation : forall s : source, decode_value s = decode_body decode_list s.
Proof. exact decode_value_unfold. Qed.
Print Assumptions c25_decode_equation.

(** A successful decode consumes at least one byte and stays inside the buffer. *)
Theorem c25_decode_in_bounds : forall (s : source) (v : value) (s' : source),
  decode_value s = DOk v s' -> buf s' = buf s /\ (off s < off s' <= length (buf s))%nat.
Proof. exact decode_in_bounds. Qed.
Print Assumptions c25_decode_in_bounds.

(** Whatever is accepted is canonical: the consumed prefix is the encoding of the returned value,
    and that value is well-formed (so it round-trips again). Irregular booleans, truncated
    lengths, unknown tags are all rejected; only trailing bytes are tolerated. *)
Theorem c25_decode_canonical : forall (b : bytes) (v : value) (s' : source),
  wf_bytes b = true -> decode_value (src_new b) = DOk v s' ->
  exists enc post, b = enc ++ post /\ encode_value v = Some enc /\ wf_value v = true /\ s' = mkSrc b (length enc).
Proof. exact decode_canonical. Qed.
Print Assumptions c25_decode_canonical.

(** The wire format is prefix-free, hence the encoder is injective. *)
Theorem c25_prefix_free : forall (v1 v2 : value) (e1 e2 p1 p2 : bytes),
  wf_value v1 = true -> wf_value v2 = true -> encode_value v1 = Some e1 -> encode_value v2 = Some e2 ->
  e1 ++ p1 = e2 ++ p2 -> N.of_nat (length (e1 ++ p1)) < two64 -> v1 = v2 /\ e1 = e2.
Proof. exact encode_prefix_free. Qed.
Print Assumptions c25_prefix_free.

(** ** List lengths
    The element loop of DecodeValue's ListType case runs up to the count read from the wire
    (checked on the source on every run), and lists longer than MAX_PARAM_LENGTH (or any other
    length below 2^32) round-trip element for element: the decoder has no cap. *)
Theorem c25_list_loop_uses_wire_count : LIST_LOOP_USES_WIRE_COUNT = true.
Proof. exact list_loop_uses_wire_count. Qed.
Print Assumptions c25_list_loop_uses_wire_count.

Theorem c25_no_cap_at_max_param_length : forall l : list gvalue,
  wf_g (GList l) = true -> MAX_PARAM_LENGTH < N.of_nat (length l) ->
  exists b, g_encode_value (GList l) = EOk b /\
    (N.of_nat (length b) < two64 ->
     decode_value (src_new b) = DOk (XList (map norm l)) (mkSrc b (length b)) /\
     length (map norm l) = length l).
Proof. exact no_cap_at_max_param_length. Qed.
Print Assumptions c25_no_cap_at_max_param_length.

(** ** vmcall_codec.go and notify_codec.go *)

(** The slice taken after each prefix test starts where the prefix ends (so it cannot panic), and
    the call prefix is the VERSION constant. Re-checked against the regenerated constants. *)
Theorem c25_prefixes_consistent :
  length CALL_PREFIX = CALL_SKIP /\ length NOTIFY_PREFIX = NOTIFY_SKIP /\ CALL_PREFIX = [VERSION].
Proof. exact prefixes_consistent. Qed.
Print Assumptions c25_prefixes_consistent.

Theorem c25_wrappers_total : forall input : bytes,
  deserialize_call_param input <> WPanic /\ deserialize_call_param input <> WRes DFuel /\
  parse_notify input <> WPanic /\ parse_notify input <> WRes DFuel /\ deserialize_notify input <> NPanic.
Proof. exact wrappers_total. Qed.
Print Assumptions c25_wrappers_total.

Theorem c25_wrappers_accept_only_prefixed : forall (input : bytes) (v : value) (s' : source),
  (deserialize_call_param input = WRes (DOk v s') -> exists r, input = VERSION :: r /\ decode_value (src_new r) = DOk v s') /\
  (parse_notify input = WRes (DOk v s') -> exists r, input = NOTIFY_PREFIX ++ r /\ decode_value (src_new r) = DOk v s').
Proof. exact wrappers_accept_only_prefixed. Qed.
Print Assumptions c25_wrappers_accept_only_prefixed.

(** DeserializeNotify hands back the raw input exactly when parseNotify fails. *)
Theorem c25_notify_fallback : forall input : bytes,
  (exists v, deserialize_notify input = NParsed v /\ exists s', parse_notify input = WRes (DOk v s')) \/
  (deserialize_notify input = NRaw input /\ forall v s', parse_notify input <> WRes (DOk v s')).
Proof. exact notify_fallback. Qed.
Print Assumptions c25_notify_fallback.

(** ** Noted (outside the property's value domain, kept visible)
    EncodeValue's default branch (int32, uint32 and any other type at top level) logs a warning and
    returns the empty byte string with a nil error; the empty string does not decode. Inside a list
    int32/uint32 are supported and other types give an error. *)
Theorem c25_encode_value_default_branch : forall g : gvalue,
  top_supported g = false -> g_encode_value g = EOk [] /\ decode_value (src_new []) = DErr ErrFormat.
Proof. exact encode_value_default. Qed.
Print Assumptions c25_encode_value_default_branch.

(** ** Non-vacuity: a nested value satisfying every hypothesis, its encoding and its decoding. *)
Definition c25_example : gvalue :=
  GList [GString [104; 105]; GBytes [1; 2; 255]; GInt 123; GInt64 (-1); GInt32 (-260); GUint32 4294967295;
         GBig (-170141183460469231731687303715884105728); GBool true; GAddress (repeat 7 20); GH256 (repeat 9 32);
         GList [GList []; GBool false]].

Example c25_nonvacuous :
  wf_g c25_example = true /\ top_supported c25_example = true /\
  exists b, g_encode_value c25_example = EOk b /\ length b = 173%nat /\
    decode_value (src_new b) = DOk (norm c25_example) (mkSrc b 173) /\
    deserialize_call_param (VERSION :: b) = WRes (DOk (norm c25_example) (mkSrc b 173)) /\
    (* a non-canonical boolean, a truncated string and an unknown tag are rejected *)
    decode_value (src_new [3; 2]) = DErr ErrFormat /\
    decode_value (src_new [1; 5; 0; 0; 0; 104]) = DErr ErrFormat /\
    decode_value (src_new [6]) = DErr ErrNotSupported.
Proof.
  split; [vm_compute; reflexivity|]. split; [reflexivity|].
  eexists. split; [vm_compute; reflexivity|].
  repeat split; vm_compute; reflexivity.
Qed.
