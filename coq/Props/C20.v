(** C20 — Block encoding round-trips and binds the transaction list.

    Model: Model/BlockCodec.v over Model/Codec.v, with the unsigned header layout, the hash preimage
    and Go's int width taken from Gen/BlockLayout.v (printed from core/types/header.go on every
    run). [H] is the hash (SHA-256 twice in the code), [pk_parse] the public-key parser followed by
    the key serializer, [tx_decode] Transaction.Deserialization followed by Hash(): all three are
    universally quantified, nothing is assumed about [H] except, where stated, its output size.

    Findings recorded here (both replayed on the implementation by the C20 driver):
    - the unrestricted round trip is false ([c20_block_roundtrip_refuted_count],
      [c20_block_roundtrip_refuted_key]); [c20_block_roundtrip_partial] is the round trip outside
      that class, with exactly the hypotheses the proof forces;
    - the transaction root alone does not separate leaves from inner nodes
      ([c20_inner_node_confusion]); [c20_tx_root_binds] carries the corresponding disjunct. *)
From Coq Require Import List Bool Arith NArith Lia.
Import ListNotations.
From Ont Require Import Lib.Bytes Gen.CodecConsts Model.Codec Model.BlockCodecTypes Gen.BlockLayout
  Model.BlockCodec Proofs.BlockCodec Proofs.BlockMerkle Proofs.C20.
Local Open Scope N_scope.

(** * (1) Round trip *)

(** Full statement: whatever decodes re-encodes to the bytes consumed. *)
Definition c20_block_roundtrip_full : Prop :=
  forall (H : bytes -> bytes) (pk_parse : bytes -> option bytes) (tx_decode : bytes -> txres)
         (b : bytes) blk aux s',
  tx_in_bounds tx_decode -> wf_bytes b = true -> N.of_nat (length b) < two64 ->
  block_decode H pk_parse tx_decode b = inl (blk, aux, s') ->
  block_encode blk = firstn (off s') b.

(** Proved part: the same, for inputs whose bookkeeper count and signature count are below 2^63
    and whose bookkeeper keys appear in the encoding the key serializer produces. *)
Theorem c20_block_roundtrip_partial :
  forall (H : bytes -> bytes) (pk_parse : bytes -> option bytes) (tx_decode : bytes -> txres)
         (b : bytes) blk aux s',
  tx_in_bounds tx_decode -> wf_bytes b = true -> N.of_nat (length b) < two64 ->
  block_decode H pk_parse tx_decode b = inl (blk, aux, s') ->
  a_nkeys aux < two63 -> a_nsigs aux < two63 -> a_rawkeys aux = h_bookkeepers (b_hdr blk) ->
  block_encode blk = firstn (off s') b /\ b = block_encode blk ++ skipn (off s') b.
Proof. intros; eapply block_roundtrip_bytes; eassumption. Qed.
Print Assumptions c20_block_roundtrip_partial.

(** Refutation 1 (any H, any key parser): a header announcing 2^63 bookkeepers and listing none.
    [int(n)] is negative, the loop is skipped, the block is accepted and re-encodes with count 0. *)
Definition witness_count : bytes :=
  repeat 0 116 ++ [0] ++ repeat 0 20 ++ [255; 0; 0; 0; 0; 0; 0; 0; 128] ++ [0] ++ [0; 0; 0; 0].

Theorem c20_block_roundtrip_refuted_count : ~ c20_block_roundtrip_full.
Proof.
  intro F.
  pose (H := fun _ : bytes => @nil N). pose (pk := fun _ : bytes => @None bytes).
  pose (tx := fun _ : bytes => TxErr 0).
  destruct (block_decode H pk tx witness_count) as [[[blk aux] s']|e] eqn:E; [|vm_compute in E; discriminate].
  assert (TB : tx_in_bounds tx) by (intros r id n Q; discriminate).
  specialize (F H pk tx witness_count blk aux s' TB eq_refl ltac:(vm_compute; reflexivity) E).
  vm_compute in E. inversion E; subst. vm_compute in F. discriminate.
Qed.
Print Assumptions c20_block_roundtrip_refuted_count.

(** Refutation 2 (any key parser that accepts some encoding [k] but writes the key back as
    [k' <> k], e.g. an uncompressed P-256 point; here a 4-byte stand-in). *)
Definition witness_key : bytes :=
  repeat 0 116 ++ [0] ++ repeat 0 20 ++ [1] ++ [4; 4; 7; 7; 9] ++ [0] ++ [0; 0; 0; 0].

Theorem c20_block_roundtrip_refuted_key :
  exists pk_parse blk aux s',
    block_decode (fun _ => []) pk_parse (fun _ => TxErr 0) witness_key = inl (blk, aux, s') /\
    a_nkeys aux < two63 /\ a_nsigs aux < two63 /\
    block_encode blk <> firstn (off s') witness_key.
Proof.
  exists (fun k => if bytes_eqb k [4; 7; 7; 9] then Some [3; 7] else None).
  eexists; eexists; eexists. split; [vm_compute; reflexivity|].
  split; [vm_compute; reflexivity|]. split; [vm_compute; reflexivity|]. vm_compute. discriminate.
Qed.
Print Assumptions c20_block_roundtrip_refuted_key.

(** * (2) Duplicate check and root check *)

(** No accepted block carries the same transaction (hash) twice. *)
Theorem c20_dup_rejected :
  forall H pk_parse tx_decode (b : bytes) blk aux s',
  tx_in_bounds tx_decode -> wf_bytes b = true -> N.of_nat (length b) < two64 ->
  block_decode H pk_parse tx_decode b = inl (blk, aux, s') ->
  NoDup (map fst (b_txs blk)).
Proof. intros H pk tx b blk aux s' TB W L E. eapply accepted_nodup_and_root; eassumption. Qed.
Print Assumptions c20_dup_rejected.

(** No accepted block has a transaction list whose merkle root differs from the header's. *)
Theorem c20_root_mismatch_rejected :
  forall H pk_parse tx_decode (b : bytes) blk aux s',
  tx_in_bounds tx_decode -> wf_bytes b = true -> N.of_nat (length b) < two64 ->
  block_decode H pk_parse tx_decode b = inl (blk, aux, s') ->
  hTransactionsRoot (h_u (b_hdr blk)) = merkle_root H (map fst (b_txs blk)).
Proof. intros H pk tx b blk aux s' TB W L E. eapply accepted_nodup_and_root; eassumption. Qed.
Print Assumptions c20_root_mismatch_rejected.

(** Rejections are never an artefact of the model's recursion fuel. *)
Theorem c20_decode_total :
  forall H pk_parse tx_decode (b : bytes),
  (forall r id n, tx_decode r = TxOk id n -> (1 <= n <= length r)%nat) ->
  wf_bytes b = true -> N.of_nat (length b) < two64 ->
  block_decode H pk_parse tx_decode b <> inr DFuel.
Proof. intros; apply block_decode_nofuel; assumption. Qed.
Print Assumptions c20_decode_total.

(** * (3) The transaction root binds the list of transaction hashes *)

(** Two duplicate-free lists of 32-byte hashes with the same root are equal, or the proof exhibits
    a collision of [H], or one of the listed hashes is itself [H] of two 32-byte strings (a leaf
    that is an inner node), or the all-zero hash is involved (the root of the empty list). *)
Theorem c20_tx_root_binds :
  forall (H : bytes -> bytes), (forall x, length (H x) = HASH_SIZE) ->
  forall l1 l2, all32 l1 -> all32 l2 -> NoDup l1 -> NoDup l2 ->
  merkle_root H l1 = merkle_root H l2 ->
  l1 = l2 \/ collision H \/ (exists x, In x (l1 ++ l2) /\ inner_form H x) \/
  In zero_hash (l1 ++ l2) \/ (exists w, H w = zero_hash).
Proof. exact merkle_binds. Qed.
Print Assumptions c20_tx_root_binds.

(** Same number of transactions: equal lists or a collision, nothing else. *)
Theorem c20_tx_root_binds_same_length :
  forall (H : bytes -> bytes), (forall x, length (H x) = HASH_SIZE) ->
  forall l1 l2, length l1 = length l2 -> all32 l1 -> all32 l2 ->
  merkle_root H l1 = merkle_root H l2 -> l1 = l2 \/ collision H.
Proof. intros H HL l1 l2 L. eapply merkle_binds_same_length; [exact HL|exact L|reflexivity]. Qed.
Print Assumptions c20_tx_root_binds_same_length.

(** The extra disjunct is necessary, and so is duplicate-freeness, for every [H]. *)
Theorem c20_inner_node_confusion : forall H a b c d,
  merkle_root H [a; b; c; d] = merkle_root H [H (a ++ b); H (c ++ d)].
Proof. exact inner_node_confusion. Qed.
Print Assumptions c20_inner_node_confusion.

Theorem c20_odd_duplication_confusion : forall H a b c,
  merkle_root H [a; b; c] = merkle_root H [a; b; c; c].
Proof. exact odd_duplication_confusion. Qed.
Print Assumptions c20_odd_duplication_confusion.

(** The statement without the inner-node disjunct would hand out collisions. *)
Theorem c20_tx_root_binds_naive_needs_collision : forall H, (forall x, length (H x) = HASH_SIZE) ->
  tx_root_binds_naive H ->
  forall a b c d, all32 [a; b; c; d] -> NoDup [a; b; c; d] -> H (a ++ b) <> H (c ++ d) -> collision H.
Proof. exact naive_binding_yields_collision. Qed.
Print Assumptions c20_tx_root_binds_naive_needs_collision.

(** * (4) The block hash covers exactly the unsigned header fields *)

(** It is [H] of the generated unsigned serialization: bookkeepers and signatures do not enter. *)
Theorem c20_hash_covers_only_unsigned : forall H h1 h2,
  h_u h1 = h_u h2 -> header_hash H h1 = header_hash H h2.
Proof. exact header_hash_unsigned_only. Qed.
Print Assumptions c20_hash_covers_only_unsigned.

(** Changing any unsigned field changes the hash preimage ... *)
Theorem c20_hash_preimage_injective : forall u1 u2, wf_uhdr u1 -> wf_uhdr u2 ->
  u1 <> u2 -> gen_hdr_hash_preimage u1 <> gen_hdr_hash_preimage u2.
Proof. intros u1 u2 W1 W2 NE E. apply NE. apply ser_unsigned_inj; assumption. Qed.
Print Assumptions c20_hash_preimage_injective.

(** ... so equal hashes mean equal unsigned fields, or an explicit collision. *)
Theorem c20_hash_covers : forall H h1 h2, wf_uhdr (h_u h1) -> wf_uhdr (h_u h2) ->
  header_hash H h1 = header_hash H h2 -> h_u h1 = h_u h2 \/ collision H.
Proof. exact header_hash_binds. Qed.
Print Assumptions c20_hash_covers.

(** Every decoded header satisfies [wf_uhdr], and two accepted blocks with the same block hash
    have the same unsigned header and the same list of transaction hashes (or one of the
    exceptional disjuncts of (3)). *)
Theorem c20_block_hash_binds :
  forall H pk_parse tx_decode,
  (forall x, length (H x) = HASH_SIZE) -> tx_in_bounds tx_decode ->
  (forall r id n, tx_decode r = TxOk id n -> length id = HASH_SIZE) ->
  forall b1 b2 blk1 blk2 aux1 aux2 s1 s2,
  wf_bytes b1 = true -> N.of_nat (length b1) < two64 ->
  wf_bytes b2 = true -> N.of_nat (length b2) < two64 ->
  block_decode H pk_parse tx_decode b1 = inl (blk1, aux1, s1) ->
  block_decode H pk_parse tx_decode b2 = inl (blk2, aux2, s2) ->
  block_hash H blk1 = block_hash H blk2 ->
  (h_u (b_hdr blk1) = h_u (b_hdr blk2) /\ map fst (b_txs blk1) = map fst (b_txs blk2)) \/
  collision H \/
  (exists x, In x (map fst (b_txs blk1) ++ map fst (b_txs blk2)) /\ inner_form H x) \/
  In zero_hash (map fst (b_txs blk1) ++ map fst (b_txs blk2)) \/ (exists w, H w = zero_hash).
Proof. exact block_hash_binds. Qed.
Print Assumptions c20_block_hash_binds.

(** * Non-vacuity: a block with two bookkeepers, one signature and three transactions decodes
    under a toy hash / key parser / transaction decoder, satisfies every hypothesis of the
    round-trip theorem, and re-encodes to itself; with the third transaction equal to the second
    it is rejected as a duplicate, and with a changed root as a mismatch. *)
Definition toyH (x : bytes) : bytes := firstn 32 (map (fun v => (v + 1) mod 256) x ++ repeat 0 32).
Definition toy_pk (k : bytes) : option bytes := match k with 2 :: _ => Some k | _ => None end.
(** toy transaction: [len; tag; ...] with hash = 32 copies of tag *)
Definition toy_tx (r : bytes) : txres :=
  match r with
  | n :: tag :: _ => if (2 <=? n) && (n <=? N.of_nat (length r)) then TxOk (repeat tag 32) (N.to_nat n) else TxErr 2
  | _ => TxErr 0
  end.
Definition ex_txs (c : N) : list (bytes * bytes) :=
  [(repeat 7 32, [3; 7; 1]); (repeat 8 32, [2; 8]); (repeat c 32, [4; c; 0; 0])].
Definition ex_block (c : N) (root : bytes) : block :=
  mkBlk (mkHdr (mkU 0 (repeat 1 32) root (repeat 3 32) 1000 5 77 [9; 9] (repeat 4 20))
               [[2; 5; 5]; [2; 6]] [[1; 2; 3; 4]]) (ex_txs c).
Definition ex_root : bytes := merkle_root toyH (map fst (ex_txs 9)).

Example c20_nonvacuous :
  let b := block_encode (ex_block 9 ex_root) in
  tx_in_bounds toy_tx /\ wf_bytes b = true /\
  (exists aux s', block_decode toyH toy_pk toy_tx b = inl (ex_block 9 ex_root, aux, s') /\
     a_nkeys aux < two63 /\ a_nsigs aux < two63 /\ a_rawkeys aux = h_bookkeepers (b_hdr (ex_block 9 ex_root)) /\
     off s' = length b) /\
  block_decode toyH toy_pk toy_tx (block_encode (ex_block 8 ex_root)) = inr DDup /\
  block_decode toyH toy_pk toy_tx (block_encode (ex_block 9 (repeat 0 32))) = inr DRoot.
Proof.
  cbv zeta. split.
  { intros r id n. unfold toy_tx. destruct r as [|a [|t r']]; try discriminate.
    destruct ((2 <=? a) && (a <=? N.of_nat (length (a :: t :: r')))) eqn:C; [|discriminate].
    intro E; inversion E; subst. apply andb_prop in C. destruct C as [_ C]. apply N.leb_le in C.
    lia. }
  split; [vm_compute; reflexivity|].
  split; [eexists; eexists; split; [vm_compute; reflexivity|repeat split; vm_compute; reflexivity]|].
  split; vm_compute; reflexivity.
Qed.
