(** C15 - Contract execution results do not depend on Go map iteration order.

    Model: Model/VmMapOrder.v (the places of vm/neovm/types that range over a Go map, with the
    iteration order an explicit argument: every executed `range` consumes one order from a schedule),
    Model/VmMapExec.v (straight-line NeoVM programs over maps and arrays run by the NeoVM service:
    result value, notifications, write set), on top of C14's heap-graph value model
    (Model/VmValue.v, whose detector and encoders return outcome SETS). The range-over-map sites of
    vm/neovm/** and smartcontract/service/neovm are enumerated from the current source on every run
    (Gen/VmMapRanges.v, go/types).

    Statement, by clause:
    (0) [c15_sites_classified]: every enumerated site is of a shape covered below;
        [c15_iteration_orders]: schedules range over exactly the permutations;
    (1) sites of shape collect-keys-sort (getMapSortedKey, the key loop of dump):
        [c15_sorted_key_perm_irrelevant]; hence KEYS / VALUES: [c15_keys_values_perm_irrelevant];
    (2) the detector's map branch (shape return-first): the full statement
        [detector_perm_irrelevant] is REFUTED ([c15_detector_map_order_refuted], finding F4);
        [c15_detector_perm_irrelevant_partial] / [c15_detector_outcomes_exact]: the reachable
        answers are exactly C14's answer set, so the answer is order-independent iff that set is a
        singleton;
    (3) Serialize: [serialize_perm_irrelevant_full] REFUTED ([c15_serialize_refuted]);
        [c15_serialize_perm_irrelevant_partial]: a singleton outcome set is the result under every
        schedule; Stringify: [c15_stringify_perm_irrelevant_partial] (the body [stringify] is
        independent unconditionally);
    (4) programs: the full statement [results_independent_of_map_order] is REFUTED
        ([c15_refuted]: the witness contract succeeds or fails depending on the order);
        [c15_partial]: every program outside the finding class has the same success/failure, return
        value, notifications and write set under all schedules; [c15_no_serialize_not_in_class]. *)
From Coq Require Import List Bool Arith NArith ZArith Lia Permutation.
Import ListNotations.
From Ont Require Import Lib.Bytes Model.NeoInt Gen.VmValueConsts Model.VmValue Gen.VmMapRanges Model.VmMapOrder Model.VmMapExec.
From Ont Require Import Proofs.VmMapOrder Proofs.VmMapOrderSer Proofs.VmMapExec.
Local Open Scope N_scope.

(** * (0) The enumerated sites; what a schedule is *)

(** The scan of the current source was complete, every range-over-map statement it found is one of
    the classified ones (same file, function, operand, shape), and every classified one is still
    there. A new site, or a site whose loop changed shape, breaks this theorem. *)
Theorem c15_sites_classified :
  vm_map_scan_complete = true /\
  (forall s, In s vm_map_ranges -> site_classified s = true) /\
  (forall c, In c classified_sites -> existsb (fun s => site_matches s c) vm_map_ranges = true) /\
  length finding_sites = 1%nat.
Proof.
  split; [vm_compute; reflexivity|]. split; [|split; [|vm_compute; reflexivity]].
  - apply forallb_forall. vm_compute. reflexivity.
  - apply forallb_forall. vm_compute. reflexivity.
Qed.
Print Assumptions c15_sites_classified.

(** "for all schedules" = "for all orders Go may iterate in": every order code yields a permutation
    of the entries, and every permutation is yielded by some code. *)
Theorem c15_iteration_orders :
  (forall (A : Type) (p : perm_code) (l : list A), Permutation (reorder p l) l) /\
  (forall (A : Type) (l l' : list A), Permutation l l' -> exists p, reorder p l = l').
Proof. split; [intros A p l; apply reorder_perm|intros A l l' H; apply reorder_complete; exact H]. Qed.
Print Assumptions c15_iteration_orders.

(** * (1) Shape collect-keys-sort: getMapSortedKey (KEYS, VALUES, Serialize, stringify) and dump *)

(** For ALL iteration orders the sorted key slice is the same. *)
Theorem c15_sorted_key_perm_irrelevant : forall (V : Type) (ord ord' : list (prim * V)),
  Permutation ord ord' -> get_map_sorted_key ord = get_map_sorted_key ord'.
Proof. intros V ord ord'. apply sorted_key_perm. Qed.
Print Assumptions c15_sorted_key_perm_irrelevant.

(** KEYS and VALUES (MapValue.GetMapSortedKey / GetValues): same array for all orders [p p'] of the
    range; and the list standing for the Go map may itself be given in any order [m'] (key images
    pairwise distinct: MapValue.Data is keyed by them). *)
Theorem c15_keys_values_perm_irrelevant :
  (forall p p' m, map_keys p m = map_keys p' m /\ map_values p m = map_values p' m) /\
  (forall p p' (m m' : list (prim * hval)), NoDup (map key_image m) -> Permutation m m' ->
     map_keys p m = map_keys p' m' /\ map_values p m = map_values p' m').
Proof.
  split.
  - intros p p' m. split; [apply map_keys_perm_irrelevant|apply map_values_perm_irrelevant].
  - intros p p' m m' Hn Hp. unfold map_keys, map_values.
    rewrite (map_sorted_entries_representation p p' m m' Hn Hp). split; reflexivity.
Qed.
Print Assumptions c15_keys_values_perm_irrelevant.

(** * (2) Shape return-first: the map branch of circularRefAndDepthDetection *)

(** FULL STATEMENT for the detector: its answer does not depend on the iteration orders. *)
Definition detector_perm_irrelevant : Prop :=
  forall h v sch sch', fst (detect_top_s h v sch) = fst (detect_top_s h v sch').

(** The witness: a map with one deep value (a first-element chain of MAX_STRUCT_DEPTH arrays, so the
    innermost primitive sits at depth MAX_STRUCT_DEPTH+1 below the map) and one shallow value. *)
Definition W15_heap : heap :=
  [OMap [(PInt 1, HArr 1); (PInt 2, HPrim (PInt 0))];
   OList [HArr 2]; OList [HArr 3]; OList [HArr 4]; OList [HArr 5]; OList [HArr 6]; OList [HArr 7];
   OList [HArr 8]; OList [HArr 9]; OList [HArr 10]; OList [HPrim (PInt 7)]].
Definition W15 : hval := HMap 0.

(** KNOWN FINDING F4 (maporder:cycle-detector-first-entry): REFUTED. The loop body returns in its
    first iteration, so the answer is that of whichever entry Go produces first: C14's answer set
    for the witness has two different elements, and two schedules realise them. *)
Theorem c15_detector_map_order_refuted :
  ~ detector_perm_irrelevant /\
  detect_top W15_heap W15 = (true, true) /\
  fst (detect_top_s W15_heap W15 [[0%nat]]) = true /\ fst (detect_top_s W15_heap W15 [[1%nat]]) = false.
Proof.
  split; [|split; [vm_compute; reflexivity|split; vm_compute; reflexivity]].
  intro H. specialize (H W15_heap W15 [[0%nat]] [[1%nat]]). vm_compute in H. discriminate.
Qed.
Print Assumptions c15_detector_map_order_refuted.

(** The answers reachable under some schedule are EXACTLY the members of C14's answer set
    ([detect]: (may answer false, may answer true)), for every heap, value, depth and visited set. *)
Theorem c15_detector_outcomes_exact : forall h rem vis v b,
  (exists sch, fst (detect_s h rem vis v sch) = b) <-> (if b then snd (detect h rem vis v) else fst (detect h rem vis v)) = true.
Proof.
  intros h rem vis v b. split.
  - intros [sch <-]. apply detect_s_sound.
  - apply detect_s_complete.
Qed.
Print Assumptions c15_detector_outcomes_exact.

(** PARTIAL: whenever the answer set is a singleton (in particular: no map with two entries of
    different verdicts on the first-element path) the detector answers the same for all schedules;
    and ONLY then. *)
Theorem c15_detector_perm_irrelevant_partial : forall h v,
  (detect_top h v <> (true, true) -> forall sch sch', fst (detect_top_s h v sch) = fst (detect_top_s h v sch')) /\
  (detect_top h v = (true, true) -> exists sch sch', fst (detect_top_s h v sch) <> fst (detect_top_s h v sch')).
Proof.
  intros h v. split.
  - apply detect_s_deterministic.
  - apply detect_s_order_dependent.
Qed.
Print Assumptions c15_detector_perm_irrelevant_partial.

(** * (3) Serialize and Stringify *)

(** FULL STATEMENT for Serialize. *)
Definition serialize_perm_irrelevant_full : Prop :=
  forall h base fuel v s sch sch', maps_wf h ->
    fst (h_serialize_s h base fuel v s sch) = fst (h_serialize_s h base fuel v s sch').

(** REFUTED (F4): serializing the witness map succeeds under one order and is refused as "circular"
    under the other. *)
Theorem c15_serialize_refuted :
  ~ serialize_perm_irrelevant_full /\
  fst (h_serialize_s W15_heap 0 20 W15 [] [[0%nat]]) = SErr ECircular /\
  exists bs, fst (h_serialize_s W15_heap 0 20 W15 [] [[1%nat]]) = SOk bs.
Proof.
  assert (Hw : maps_wf W15_heap).
  { repeat constructor; cbn; try (intros [H|[]]; discriminate H); intros []. }
  split; [|split; [vm_compute; reflexivity|eexists; vm_compute; reflexivity]].
  intro H. specialize (H W15_heap 0 20%nat W15 [] [[0%nat]] [[1%nat]] Hw). vm_compute in H. discriminate.
Qed.
Print Assumptions c15_serialize_refuted.

(** PARTIAL: on every heap (key images of each map pairwise distinct), for every value, sink prefix
    and stack depth: if C14's outcome set of Serialize is a singleton, its element is the result
    under EVERY schedule; in general the result of every run is a member of the set. The only source
    of order dependence is the detector: the entry loop itself is order-free by (1). *)
Theorem c15_serialize_perm_irrelevant_partial : forall h base fuel v s, maps_wf h ->
  (forall sch, in_rs (fst (h_serialize_s h base fuel v s sch)) (h_serialize h base fuel v s)) /\
  (forall o, rs_single (h_serialize h base fuel v s) = Some o -> forall sch, fst (h_serialize_s h base fuel v s sch) = o).
Proof.
  intros h base fuel v s Hw. split.
  - intro sch. apply serialize_s_sound. exact Hw.
  - intros o Ho. apply serialize_perm_irrelevant; assumption.
Qed.
Print Assumptions c15_serialize_perm_irrelevant_partial.

(** Stringify: the recursion [stringify] gives the same string for all schedules, unconditionally;
    [Stringify] (detector first) whenever the detector's answer set is a singleton. *)
Theorem c15_stringify_perm_irrelevant_partial : forall h fuel v,
  (forall sch sch', fst (stringify_s h fuel v sch) = fst (stringify_s h fuel v sch')) /\
  (detect_top h v <> (true, true) -> forall sch sch', fst (h_stringify_s h fuel v sch) = fst (h_stringify_s h fuel v sch')).
Proof.
  intros h fuel v. split; [apply stringify_s_indep|apply stringify_perm_irrelevant].
Qed.
Print Assumptions c15_stringify_perm_irrelevant_partial.

(** * (4) Programs *)

(** FULL STATEMENT: every program of the fragment, run from the empty state under any two
    schedules of Go's map iteration orders (with any bound on Serialize's nesting), has the same
    outcome: success/failure (and which failure), returned value, notifications, write set. *)
Definition results_independent_of_map_order : Prop :=
  forall fuel prog sch sch', run_s fuel prog st0 sch = run_s fuel prog st0 sch'.

(** The witness contract: build a chain of MAX_STRUCT_DEPTH one-element arrays around 7, put it
    into a new map under key 1, put 0 under key 2, Serialize the map. *)
Definition wrap_in_array : list instr := [IPushInt 0; INewArray; IToAlt; IDupFromAlt; ISwap; IAppend; IFromAlt].
Fixpoint chain_prog (n : nat) : list instr := match n with O => [] | S k => wrap_in_array ++ chain_prog k end.
Definition W15_prog : list instr :=
  [IPushInt 7] ++ chain_prog 10 ++
  [INewMap; IToAlt; IDupFromAlt; ISwap; IPushInt 1; ISwap; ISetItem;
   IPushInt 0; IDupFromAlt; ISwap; IPushInt 2; ISwap; ISetItem; IFromAlt; ISerialize].

(** KNOWN FINDING F4 at the level of contract results: REFUTED. The same invocation on the same
    state halts with the serialized map under one iteration order and faults under the other. *)
Theorem c15_refuted :
  ~ results_independent_of_map_order /\
  in_finding_class 20 W15_prog = true /\
  run_s 20 W15_prog st0 [[0%nat]] = OFault (FSer ECircular) /\
  exists bs, run_s 20 W15_prog st0 [[1%nat]] = OHalt (Some (OPrimT (PBytes bs))) [] [].
Proof.
  split; [|split; [vm_compute; reflexivity|split; [vm_compute; reflexivity|eexists; vm_compute; reflexivity]]].
  intro H. specialize (H 20%nat W15_prog [[0%nat]] [[1%nat]]). vm_compute in H. discriminate.
Qed.
Print Assumptions c15_refuted.

(** PARTIAL: outside the finding class - no Serialize of the run has more than one possible result,
    a decidable condition on the program ([in_finding_class], the predicate the check uses) - the
    outcome is the same under ALL schedules, namely [run_ref]. Covers every use of KEYS, VALUES,
    SETITEM/PICKITEM/REMOVE/HASKEY on maps, Serialize of maps (sorted keys), Notify and Storage.Put
    of the results, on shared and self-referential containers alike. *)
Theorem c15_partial : forall fuel prog, in_finding_class fuel prog = false ->
  (forall sch sch', run_s fuel prog st0 sch = run_s fuel prog st0 sch') /\
  (forall sch, Some (run_s fuel prog st0 sch) = run_ref fuel prog st0).
Proof.
  intros fuel prog Hc. unfold in_finding_class in Hc.
  destruct (run_ref fuel prog st0) as [o|] eqn:E; [|discriminate].
  pose proof (run_from_start fuel prog o E) as H. split.
  - intros sch sch'. rewrite (H sch), (H sch'). reflexivity.
  - intro sch. rewrite (H sch). reflexivity.
Qed.
Print Assumptions c15_partial.

(** The class is narrow: only a Serialize can put a program into it. *)
Theorem c15_no_serialize_not_in_class : forall fuel prog, ~ In ISerialize prog -> in_finding_class fuel prog = false.
Proof.
  intros fuel prog Hn. unfold in_finding_class.
  assert (H : forall st, run_ref fuel prog st <> None).
  { induction prog as [|i rest IH]; intro st; cbn [run_ref]; [discriminate|].
    assert (Ha : answer_ref fuel (request_of i st) <> None).
    { unfold request_of. destruct i; try discriminate; destruct (st_eval st) as [|v r]; try discriminate;
        try (destruct v; discriminate). exfalso. apply Hn. left. reflexivity. }
    destruct (answer_ref fuel (request_of i st)) as [ans|]; [|congruence].
    destruct (step i st ans); [discriminate|]. apply IH. intro Hin. apply Hn. right. exact Hin. }
  specialize (H st0). destruct (run_ref fuel prog st0); [reflexivity|congruence].
Qed.
Print Assumptions c15_no_serialize_not_in_class.

(** * Non-vacuity *)

(** A contract that builds a three-entry map (keys 3, "\x09", 1 inserted in that order; values a byte
    string, 5 and an empty array), notifies KEYS, stores the serialization of the map under "k" and
    returns VALUES: outside the finding class, with a non-trivial outcome (a notification in sorted
    key order, a write, a returned array), identical under a non-identity schedule. *)
Definition ex_prog : list instr :=
  [INewMap; IToAlt;
   IPushBytes [1; 2]; IDupFromAlt; ISwap; IPushInt 3; ISwap; ISetItem;
   IPushInt 5; IDupFromAlt; ISwap; IPushBytes [9]; ISwap; ISetItem;
   IPushInt 0; INewArray; IDupFromAlt; ISwap; IPushInt 1; ISwap; ISetItem;
   IDupFromAlt; IKeys; INotify;
   IDupFromAlt; ISerialize; IPushBytes [107]; IPut;
   IFromAlt; IValues].

Example c15_partial_nonvacuous :
  in_finding_class 20 ex_prog = false /\
  run_s 20 ex_prog st0 [[2; 0]; [1]; [1; 1]]%nat = run_s 20 ex_prog st0 [] /\
  exists ret w, run_s 20 ex_prog st0 [[2; 0]; [1]; [1; 1]]%nat =
    OHalt (Some (OArrT ret)) [NList [NStr [1]; NStr [3]; NStr [9]]] [([107], w)] /\ length ret = 3%nat /\ w <> [].
Proof.
  assert (Hc : in_finding_class 20 ex_prog = false) by (vm_compute; reflexivity).
  split; [exact Hc|]. split; [apply (c15_partial _ _ Hc)|].
  eexists. eexists. split; [vm_compute; reflexivity|]. split; [reflexivity|discriminate].
Qed.

(** the iteration order really is consulted: a three-entry map iterated in two different orders *)
Example c15_orders_differ :
  reorder [2; 0]%nat [1; 2; 3] = [3; 1; 2] /\ reorder [] [1; 2; 3] = [1; 2; 3] /\
  get_map_sorted_key (reorder [2; 0]%nat [(PInt 3, tt); (PBytes [9], tt); (PInt 1, tt)]) = [[1]; [3]; [9]].
Proof. vm_compute. repeat split. Qed.
