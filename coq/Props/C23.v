(** C23 — Signature scripts parse back to their keys and give order-free addresses.

    Model: Model/Program.v (core/program/program.go and core/types/address.go; opcodes, key-type
    tags and MULTI_SIG_MAX_PUBKEY_SIZE from Gen/ProgramConsts.v, the bookkeeper threshold from
    Gen/ProgramFormulas.v).  Keys are abstract records (sort fields + canonical serialization);
    keypair.DeserializePublicKey is the universally quantified function [deser]; the address
    hashes are the universally quantified functions [H] and [Keth].

    Hypotheses about keys, each checked on the implementation by the driver on every run:
    - [key_ok deser k]: DeserializePublicKey (SerializePublicKey k) = k, the serialization is
      non-empty and shorter than 2^32 bytes;
    - [key_known k]: k has one of the four key types GetKeyType knows;
    - [keys_canon ks]: keys of the set that the sort order does not separate (same type, curve,
      X, Y) are the same key;
    - [deser b = None] for every b of at most 3 bytes ("too short pubkey"). *)
From Coq Require Import List Bool NArith ZArith Permutation Lia.
Import ListNotations.
From Ont Require Import Lib.Bytes Model.Codec Gen.ProgramConsts Model.Program Proofs.Codec Proofs.Program.
Local Open Scope N_scope.

(** 1. A single-key script parses back to its key with threshold 1 (every key type, every
    serialization length up to 2^32: PUSHBYTESn, PUSHDATA1, PUSHDATA2 and PUSHDATA4 forms). *)
Theorem c23_parse_build_single : forall deser k, key_ok deser k ->
  exists prog, program_from_pubkey k = Some prog /\ get_program_info deser prog = inl ([k], 1).
Proof. exact parse_build_single_proof. Qed.
Print Assumptions c23_parse_build_single.

(** 2. An m-of-n script built from any key list in any order, for exactly the (m, n) the code
    accepts (1 <= m <= n, 2 <= n <= 16), parses back to the sorted keys and the threshold. *)
Theorem c23_parse_build_multi : forall deser,
  (forall b, (length b <= 3)%nat -> deser b = None) ->
  forall keys m, Forall (key_ok deser) keys -> multi_params_ok m (Z.of_nat (length keys)) = true ->
  exists prog, program_from_multi_pubkey keys m = BOk prog /\
               get_program_info deser prog = inl (sort_keys keys, Z.to_N m).
Proof. exact parse_build_multi_proof. Qed.
Print Assumptions c23_parse_build_multi.

(** Conversely the script determines the sorted key list and the threshold: two accepted
    parameter sets that build the same script have the same keys (up to order) and the same m. *)
Theorem c23_script_determines_keys : forall deser,
  (forall b, (length b <= 3)%nat -> deser b = None) ->
  forall keys keys' m m' prog,
  Forall (key_ok deser) keys -> Forall (key_ok deser) keys' ->
  multi_params_ok m (Z.of_nat (length keys)) = true ->
  multi_params_ok m' (Z.of_nat (length keys')) = true ->
  program_from_multi_pubkey keys m = BOk prog -> program_from_multi_pubkey keys' m' = BOk prog ->
  sort_keys keys = sort_keys keys' /\ m = m'.
Proof. exact multi_script_determines_keys. Qed.
Print Assumptions c23_script_determines_keys.

(** "sorted" means: a permutation of the input that is ordered by the key order. *)
Theorem c23_sort_is_sorted_permutation : forall keys, Forall key_known keys ->
  Permutation (sort_keys keys) keys /\ sorted_le (sort_keys keys).
Proof. intros keys Hk. split; [apply sort_keys_perm|apply sort_keys_sorted; exact Hk]. Qed.
Print Assumptions c23_sort_is_sorted_permutation.

(** 3. Every ordering of a key set gives the same script, the same multi-signature address and
    the same bookkeeper address (for any threshold, valid or not, and any hash functions). *)
Theorem c23_addr_perm_invariant : forall H Keth keys keys' m,
  Forall key_known keys -> keys_canon keys -> Permutation keys keys' ->
  program_from_multi_pubkey keys m = program_from_multi_pubkey keys' m /\
  address_from_multi_pubkeys H keys m = address_from_multi_pubkeys H keys' m /\
  address_from_bookkeepers H Keth keys = address_from_bookkeepers H Keth keys'.
Proof.
  intros H Keth keys keys' m Hk Hc P. split; [|split].
  - apply program_perm_invariant; assumption.
  - apply addr_perm_invariant_proof; assumption.
  - apply bookkeepers_perm_invariant; assumption.
Qed.
Print Assumptions c23_addr_perm_invariant.

(** ... and for valid parameters that address is the hash of a script, not an error. *)
Theorem c23_addr_defined : forall deser H,
  (forall b, (length b <= 3)%nat -> deser b = None) ->
  forall keys m, Forall (key_ok deser) keys -> multi_params_ok m (Z.of_nat (length keys)) = true ->
  exists prog, address_from_multi_pubkeys H keys m = AOk (H prog) /\
               get_program_info deser prog = inl (sort_keys keys, Z.to_N m).
Proof.
  intros deser H Hs keys m Hk Hok.
  destruct (parse_build_multi_proof deser Hs keys m Hk Hok) as (prog & Hp & Hi).
  exists prog. split; [|exact Hi]. unfold address_from_multi_pubkeys. rewrite Hok, Hp. reflexivity.
Qed.
Print Assumptions c23_addr_defined.

(** 4. Invalid thresholds or key counts are rejected:
    (a) by the builder and by the address function, for exactly the invalid (m, n) (m is a Go
        int, any list length: m <= 0, m > n, n < 2, n > 16);
    (b) by the parser on every byte string: whatever GetProgramInfo accepts is either a
        CHECKSIG script with one key and threshold 1 or a CHECKMULTISIG script whose returned
        threshold and key count satisfy 1 <= m <= n, 2 <= n <= 16;
    (c) by the parser on the script PushNum(m) keys PushNum(n) CHECKMULTISIG assembled without the
        builder's test, for every invalid (m, n) within uint16. *)
Theorem c23_bad_params_rejected :
  (forall keys m, program_from_multi_pubkey keys m = BErrParam <-> multi_params_ok m (Z.of_nat (length keys)) = false) /\
  (forall H keys m, address_from_multi_pubkeys H keys m = AErrParam <-> multi_params_ok m (Z.of_nat (length keys)) = false) /\
  (forall deser prog ks m, get_program_info deser prog = inl (ks, m) ->
     (last prog 0 = OP_CHECKSIG /\ length ks = 1%nat /\ m = 1) \/
     (last prog 0 = OP_CHECKMULTISIG /\ multi_params_ok (Z.of_N m) (Z.of_nat (length ks)) = true)) /\
  (forall deser, (forall b, (length b <= 3)%nat -> deser b = None) ->
   forall m ks prog, Forall (key_ok deser) ks -> m <= 65535 -> N.of_nat (length ks) <= 65535 ->
     multi_script m ks (N.of_nat (length ks)) = Some prog -> N.of_nat (length prog) < two64 ->
     multi_params_ok (Z.of_N m) (Z.of_nat (length ks)) = false ->
     exists e, get_program_info deser prog = inr e).
Proof.
  split; [exact builder_rejects_iff|]. split; [exact address_rejects_iff|].
  split; [exact accepted_params_valid_proof|]. exact bad_params_script_rejected_proof.
Qed.
Print Assumptions c23_bad_params_rejected.

(** The accepted range, spelled out. *)
Theorem c23_params_range : forall m n, multi_params_ok m n = true <-> (1 <= m <= n /\ 2 <= n <= 16)%Z.
Proof.
  intros m n. split; [apply multi_params_bounds|].
  intros [H1 H2]. unfold multi_params_ok, MULTI_SIG_MAX_PUBKEY_SIZE.
  repeat (apply andb_true_intro; split); try apply Z.leb_le; try apply Z.ltb_lt; lia.
Qed.
Print Assumptions c23_params_range.

(** 5. The parser is total on all byte strings (any deserializer): it returns keys and a
    threshold or one of the implementation's errors, never the model's out-of-fuel value; and it
    stays inside its buffer: PeekOpCode's BackUp(1) never wraps (the source is left unchanged),
    every ReadBytes moves the offset forward within the buffer and returns a slice of it. *)
Theorem c23_parser_total :
  (forall deser prog, N.of_nat (length prog) < two64 -> get_program_info deser prog <> inr EFuel) /\
  (forall prog, N.of_nat (length prog) < two64 -> get_param_info prog <> inr EFuel) /\
  (forall s c s', src_ok s -> peek_opcode s = inl (c, s') -> s' = s /\ (off s < length (buf s))%nat) /\
  (forall s d s', src_ok s -> read_bytes s = inl (d, s') ->
     buf s' = buf s /\ (off s < off s' <= length (buf s))%nat /\ src_ok s' /\
     (length d <= off s')%nat /\ d = slice (buf s) (off s' - length d) (length d)).
Proof.
  split; [exact get_program_info_total|]. split; [exact get_param_info_total|].
  split; [exact peek_opcode_same|exact read_bytes_ok].
Qed.
Print Assumptions c23_parser_total.

(** Non-vacuity: two concrete keys of different types satisfy every hypothesis above, and the
    theorems then give the concrete 1-of-2 script and its parse. *)
Definition ex_k1 : pubkey := mkKey PK_EDDSA 0 9 0 [20; 25; 9; 9].
Definition ex_k2 : pubkey := mkKey PK_ECDSA 2 5 7 [2; 1; 1; 1; 5].
Definition ex_deser (b : bytes) : option pubkey :=
  if bytes_eqb b (pk_ser ex_k1) then Some ex_k1 else if bytes_eqb b (pk_ser ex_k2) then Some ex_k2 else None.

Example c23_nonvacuous :
  Forall (key_ok ex_deser) [ex_k1; ex_k2] /\ Forall key_known [ex_k1; ex_k2] /\ keys_canon [ex_k1; ex_k2] /\
  (forall b, (length b <= 3)%nat -> ex_deser b = None) /\
  multi_params_ok 1 (Z.of_nat (length [ex_k1; ex_k2])) = true /\
  program_from_multi_pubkey [ex_k1; ex_k2] 1 = BOk [81; 5; 2; 1; 1; 1; 5; 4; 20; 25; 9; 9; 82; 174] /\
  get_program_info ex_deser [81; 5; 2; 1; 1; 1; 5; 4; 20; 25; 9; 9; 82; 174] = inl ([ex_k2; ex_k1], 1) /\
  program_from_multi_pubkey [ex_k2; ex_k1] 1 = program_from_multi_pubkey [ex_k1; ex_k2] 1.
Proof.
  assert (K : Forall (key_ok ex_deser) [ex_k1; ex_k2]).
  { assert (forall k, In k [ex_k1; ex_k2] -> key_ok ex_deser k) as A.
    { intros k [<-|[<-|[]]]; (split; [vm_compute; reflexivity|split; [discriminate|vm_compute; reflexivity]]). }
    apply Forall_forall. exact A. }
  assert (KK : Forall key_known [ex_k1; ex_k2]).
  { apply Forall_forall. intros k [<-|[<-|[]]]; unfold key_known; vm_compute; auto. }
  assert (C : keys_canon [ex_k1; ex_k2]).
  { intros a b [<-|[<-|[]]] [<-|[<-|[]]] E; try reflexivity; vm_compute in E; discriminate. }
  assert (S : forall b, (length b <= 3)%nat -> ex_deser b = None).
  { intros b Hl. unfold ex_deser.
    destruct (bytes_eqb b (pk_ser ex_k1)) eqn:E1; [apply bytes_eqb_eq in E1; subst b; simpl in Hl; lia|].
    destruct (bytes_eqb b (pk_ser ex_k2)) eqn:E2; [apply bytes_eqb_eq in E2; subst b; simpl in Hl; lia|].
    reflexivity. }
  split; [exact K|]. split; [exact KK|]. split; [exact C|]. split; [exact S|]. split; [reflexivity|].
  destruct (c23_parse_build_multi ex_deser S [ex_k1; ex_k2] 1%Z K eq_refl) as (prog & Hp & Hi).
  assert (Eprog : program_from_multi_pubkey [ex_k1; ex_k2] 1 = BOk [81; 5; 2; 1; 1; 1; 5; 4; 20; 25; 9; 9; 82; 174])
    by (vm_compute; reflexivity).
  rewrite Eprog in Hp. injection Hp as <-.
  split; [exact Eprog|]. split; [exact Hi|].
  symmetry. apply (c23_addr_perm_invariant (fun b => b) (fun b => b)); auto. apply perm_swap.
Qed.
