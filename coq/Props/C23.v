From Ont Require Import Model.Program.
