(** C35 — Proposed EVM transactions have consecutive nonces and no duplicates.

    Model: Model/TxPool.v (TXPool, txSortedMap, IncrementValidator, the proposer sequence of
    vbft makeProposal/validHeight and solo makeBlock, over a ledger = chain of blocks + EVM
    account nonces).  Integer expressions, constants and the proposer-loop shape come from
    Gen/TxPoolGen.v, regenerated from the source on every run.

    A history is any list of [op]: submission (AddTxList after validation; a replacement is a
    submission into an occupied (payer, nonce) slot), any GetTxPool call (expiry), block commit
    by the ledger, the validator's AddBlock / Clean, the pool's clean-up after a block,
    RemoveTxsBelowGasPrice, Remain, and earlier proposals — in any interleaving.

    Hypotheses of the main theorem, all explicit:
    - [oracle_ok]: the iteration order of Go maps and the unstable sort are any permutation;
    - [hist_wf]: Nonce < 2^32 and GasPrice < 2^64 (their Go types);
    - [collision_free]: no two different submitted transactions share a hash (Keccak/SHA-256
      collision freedom; decidable on a history, so a violation exhibits a collision);
    - fewer than 2^32 blocks (uint32 heights do not wrap). *)
From Coq Require Import List Bool NArith Lia Permutation.
Import ListNotations.
From Ont Require Import Model.TxPool Proofs.TxPoolAL Proofs.TxPoolVerify Proofs.TxPoolInv Proofs.TxPoolWorld
  Proofs.TxPoolRepl Proofs.C35.
Local Open Scope N_scope.

(** Main statement: after ANY history, the list the pool hands to the proposer, filtered by
    IncrementValidator.Verify with a fresh nonce context, has no duplicate hash, contains no
    transaction of any block of the chain, and for each EVM sender is a run of consecutive
    nonces starting at the sender's account nonce in the ledger. *)
Theorem c35_proposal :
  forall (o : order_oracle) (maxBlocks maxtx : N) (h : list op),
  oracle_ok o -> hist_wf h -> collision_free (hist_txs h) ->
  let w := run o (world_init maxBlocks maxtx) h in
  N.of_nat (length (w_chain w)) < U32 ->
  let out := pr_txs (propose o w) in
  NoDup (map tx_hash out) /\
  (forall t, In t out -> ~ In (tx_hash t) (all_hashes (w_chain w))) /\
  (forall P, consec (w_nonce w P) (map tx_nonce (filter (is_of P) out))).
Proof. exact proposal_all_histories. Qed.
Print Assumptions c35_proposal.

(** Replacement: in any step of any history from any state, the occupant of a (payer, nonce)
    slot of the pool changes to a different transaction only by a submission of that
    transaction whose gas price exceeds ((old*101) mod 2^64)/100 — the code's expression with
    uint64 wrap — and, for an old price in the EIP-155 range, strictly exceeds the old price. *)
Theorem c35_replacement :
  forall o w x P n t0 t',
  slot (w_pool w) P n = Some t0 -> slot (w_pool (step o w x)) P n = Some t' -> t' <> t0 ->
  (exists vh vn, x = OSubmit t' vh vn) /\ tx_payer t' = P /\ tx_nonce t' = n /\
  ((tx_price t0 * 101) mod U64) / 100 < tx_price t' /\
  (tx_price t0 <= MAX_EIP_PRICE -> tx_price t0 < tx_price t').
Proof.
  intros o w x P n t0 t' H0 H1 Hne.
  destruct (step_slot o w x P n t0 t' H0 H1 Hne) as [vh [vn [E [EP [En Hr]]]]].
  split; [eauto|]. split; auto. split; auto. split; [exact Hr|].
  intro Hb. eapply repl_strict; eauto.
Qed.
Print Assumptions c35_replacement.

(** uint64 wrap of old*101 is not reachable for EIP-155 transactions: their pool price is
    wei/GWei with wei a uint64 (TransactionFromEIP155), and (2^64-1)/GWei * 101 < 2^64. *)
Theorem c35_eip155_price_no_wrap :
  forall wei, wei < U64 ->
  eip_gwei_price wei <= MAX_EIP_PRICE /\ eip_gwei_price wei * 101 < U64.
Proof.
  intros wei H. pose proof (eip_price_bound wei H). pose proof max_eip_price_no_wrap. split; auto. nia.
Qed.
Print Assumptions c35_eip155_price_no_wrap.

(** ... while a raw uint64 price beyond that range does wrap (cheaper replaces dearer). *)
Theorem c35_wrap_beyond_eip155_range : exists g new, g < U64 /\ new < g /\ repl_rhs g < new.
Proof. exact repl_wrap_witness. Qed.
Print Assumptions c35_wrap_beyond_eip155_range.

(** The validator alone (what every node checks on a received proposal, processProposalMsg):
    for any validator state, ledger, start height and list, what Verify accepts has, per EVM
    sender, consecutive nonces from the expected one, contains nothing found in the window
    from the start height, and repeats no transaction if the ordinary ones are distinct. *)
Theorem c35_verify_any_list :
  forall v ln s l ctx, Forall tx_wf l ->
  (forall P, consec (expect v ln ctx P) (map tx_nonce (filter (is_of P) (verify_filter v ln s l ctx)))) /\
  (forall t, In t (verify_filter v ln s l ctx) -> in_window v s (tx_hash t) = false) /\
  (NoDup (filter (fun t => negb (tx_eip t)) l) -> NoDup (verify_filter v ln s l ctx)).
Proof.
  intros v ln s l ctx Hwf. split; [|split].
  - intro P. apply vf_consec; auto.
  - intros t. apply vf_not_in_window.
  - intro H. apply vf_NoDup; auto.
Qed.
Print Assumptions c35_verify_any_list.

(** The proposer code has the modelled shape (structural check of vbft makeProposal /
    validHeight and solo makeBlock, regenerated from the source), and its window is non-empty. *)
Theorem c35_proposer_shape :
  vbft_make_proposal_shape && vbft_valid_height_shape && solo_make_block_shape && solo_valid_height_shape = true /\
  1 <= vbft_window /\ 1 <= solo_window /\ 1 <= IV_DEFAULT_WINDOW.
Proof. vm_compute. repeat split; discriminate. Qed.
Print Assumptions c35_proposer_shape.

(** Non-vacuity: a concrete history (two EVM senders, one replacement 100 -> 102, an ordinary
    transaction, a committed block, expiry and re-submission) satisfies every hypothesis and
    yields a three-transaction proposal: sender 2's nonce 0, sender 1's replaced nonce 1 (its
    account nonce after the committed block), and the ordinary transaction. *)
Definition ex_t1 := mkTx 11 true 1 0 100.
Definition ex_t2 := mkTx 12 true 1 1 100.
Definition ex_t2' := mkTx 13 true 1 1 102.
Definition ex_t3 := mkTx 14 false 9 7 50.
Definition ex_t4 := mkTx 15 true 2 0 300.
Definition ex_hist : list op :=
  [OSubmit ex_t1 0 0; OSubmit ex_t2 0 0; OSubmit ex_t2' 0 0; OSubmit ex_t3 0 0; OSubmit ex_t4 0 0;
   OCommit [ex_t1]; OIvAdd 1; OPoolClean 1; OGetTxPool true 1;
   OSubmit ex_t2' 1 1; OSubmit ex_t3 1 0; OSubmit ex_t4 1 0].

Example c35_nonvacuous :
  oracle_ok canonical_oracle /\ hist_wf ex_hist /\ collision_free (hist_txs ex_hist) /\
  let w := run canonical_oracle (world_init 20 100) ex_hist in
  N.of_nat (length (w_chain w)) < U32 /\
  pr_txs (propose canonical_oracle w) = [ex_t4; ex_t2'; ex_t3] /\ w_nonce w 1 = 1 /\
  slot (w_pool w) 1 1 = Some ex_t2'.
Proof.
  split; [exact canonical_oracle_ok|]. split.
  - repeat constructor; vm_compute; reflexivity.
  - split; [apply cf_b_sound; vm_compute; reflexivity|]. vm_compute. repeat split; reflexivity.
Qed.
