(** C28 — BFT quorum thresholds always intersect in an honest peer.
    Thresholds are the expressions found in /repo's current source (Gen/Thresholds.v). *)
From Coq Require Import List ZArith.
Import ListNotations.
From Ont Require Import Lib.Quorum Gen.Thresholds Proofs.C28.

(** Full statement, one conjunct per threshold the node uses to seal, commit or verify. *)
Theorem c28_thresholds_intersect :
  intersects_honestly (fun n _ => verify_block_m n) /\
  intersects_honestly (fun n _ => ledger_header_solo_m n) /\
  intersects_honestly (fun n _ => crosschain_msg_m n) /\
  intersects_honestly (fun n _ => addr_bookkeepers_m n) /\
  intersects_honestly (fun n _ => vbft_cfg_m n) /\
  intersects_honestly (fun n _ => commit_consensus_need n) /\
  intersects_honestly (fun n _ => commit_done_c n + 1)%Z.
Proof.
  repeat split; apply arith_intersects;
    [ exact verify_block_arith | exact ledger_header_solo_arith | exact crosschain_msg_arith
    | exact addr_bookkeepers_arith | exact vbft_cfg_arith | exact commit_consensus_arith
    | exact commit_done_arith ].
Qed.
Print Assumptions c28_thresholds_intersect.

Theorem c28_commit_consensus_counts_proposer : forall k, commit_consensus_have k = (k + 1)%Z.
Proof. exact commit_consensus_have_counts_proposer. Qed.
Print Assumptions c28_commit_consensus_counts_proposer.

Theorem c28_thresholds_achievable : forall n, (1 <= n)%Z ->
  (verify_block_m n <= n /\ ledger_header_solo_m n <= n /\ crosschain_msg_m n <= n /\
  addr_bookkeepers_m n <= n /\ vbft_cfg_m n <= n /\ commit_consensus_need n <= n /\
  commit_done_c n + 1 <= n)%Z.
Proof. exact thresholds_achievable. Qed.
Print Assumptions c28_thresholds_achievable.

(** Any more-than-C set of distinct peers contains an honest one (endorsement threshold). *)
Theorem c28_more_than_c_has_honest : forall (A F : list nat) (c : nat),
  NoDup A -> c + 1 <= length A -> length F <= c -> exists x, In x A /\ ~ In x F.
Proof. exact (more_than_c_has_honest nat PeanoNat.Nat.eq_dec). Qed.
Print Assumptions c28_more_than_c_has_honest.

(** KNOWN FINDING (F11): the VBFT header-sync threshold does not have the property. *)
Theorem c28_header_vbft_refuted : ~ intersects_honestly header_vbft_q.
Proof. exact header_vbft_refuted. Qed.
Print Assumptions c28_header_vbft_refuted.

(** Non-vacuity: the hypotheses are satisfiable for N = 4, C = 1. *)
Example c28_nonvacuous :
  exists x, In x [0;1;2]%nat /\ In x [1;2;3]%nat /\ ~ In x [1]%nat.
Proof.
  destruct c28_thresholds_intersect as [H _].
  apply (H [0;1;2;3]%nat [0;1;2]%nat [1;2;3]%nat [1]%nat 1%nat); simpl;
    try (repeat constructor; simpl; intuition discriminate); try (vm_compute; intuition discriminate);
    try (intros x Hx; simpl in *; intuition).
Qed.
