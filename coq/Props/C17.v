(** C17 - A transaction authorizes the same accounts on every node.

    What contract code sees as the signers of a transaction is Transaction.GetSignatureAddresses
    (SmartContract.CheckWitness searches that list).  On a node that validated the transaction it
    is tx.SignedAddr, the set checkTransactionSignatures stored: addresses derived from the PARSED
    keys (AddressFromPubKey / AddressFromMultiPubKeys, which re-serializes and sorts them).  On a
    node that only decoded the bytes (a block synced from a peer, a restart) tx.SignedAddr is empty
    and the fallback hashes each RAW verification script.  Model: Model/Sig.v
    ([check_transaction_signatures], [get_signature_addresses], [fallback_addresses]) over
    Model/Program.v; every external function universally quantified.

    The full statement [c17_signers_agree] is REFUTED by the model of the current code (DESIGN
    section 6, F2), with one witness per family, each replayed on the implementation by the
    driver; [c17_signers_agree_partial] proves it for canonical scripts - exactly the scripts the
    builders of core/program produce, Ethereum-style single keys excepted. *)
From Coq Require Import List Bool NArith ZArith Lia Permutation.
Import ListNotations.
From Ont Require Import Lib.Bytes Model.Codec Gen.ProgramConsts Model.Program Model.Sig.
From Ont Require Import Proofs.Codec Proofs.Program Proofs.Sig Proofs.SigAddr.
Local Open Scope N_scope.

(** FULL statement: for every accepted Ontology-format transaction, the accounts
    GetSignatureAddresses reports on a freshly decoded copy (no cached signer set) are, as a set,
    the signer set the validator established. *)
Definition c17_signers_agree : Prop :=
  forall deser sigT sdeser sverify H Keth t addrs,
  (forall b, (length b <= 3)%nat -> deser b = None) ->
  check_transaction_signatures deser sigT sdeser sverify H Keth t = VAccept addrs ->
  forall a, In a (get_signature_addresses H [] t) <-> In a addrs.

(** ** The witnesses.  Hash functions: the identity (injective, so no collision is involved). *)
Definition wk_ed : pubkey := mkKey PK_EDDSA 0 9 0 [20; 25; 9; 9].
Definition wk_ec : pubkey := mkKey PK_ECDSA 2 5 7 [2; 1; 1; 1; 5].
Definition wk_eth : pubkey := mkKey PK_ETHECDSA 0 7 9 [21; 4; 7; 9].
(** [wk_ec] has a second accepted encoding (as the uncompressed / type-prefixed forms of a P-256
    key have in DeserializePublicKey). *)
Definition w_deser (b : bytes) : option pubkey :=
  if bytes_eqb b (pk_ser wk_ed) then Some wk_ed
  else if bytes_eqb b (pk_ser wk_ec) then Some wk_ec
  else if bytes_eqb b [18; 2; 2; 1; 1; 1; 5] then Some wk_ec
  else if bytes_eqb b (pk_ser wk_eth) then Some wk_eth
  else None.
Definition w_h : bytes := [7; 7; 7].
(** signature strings [100; i]: key i over w_h. *)
Definition w_sdeser (b : bytes) : option asig :=
  match b with
  | [100; 0] => Some (SigOf wk_ed w_h [])
  | [100; 1] => Some (SigOf wk_ec w_h [])
  | [100; 2] => Some (SigOf wk_eth w_h [])
  | _ => None
  end.
Definition w_id (b : bytes) : bytes := b.
Definition w_run := check_transaction_signatures w_deser asig w_sdeser (abs_verify (fun _ => false)) w_id w_id.
Definition w_fallback := get_signature_addresses w_id [].

(** (1) `signers:unsorted-multisig`: 1-of-2 with the keys written in the order (Ed25519, ECDSA);
    the builder's order is (ECDSA, Ed25519). *)
Definition w1_script : bytes := [81; 4; 20; 25; 9; 9; 5; 2; 1; 1; 1; 5; 82; 174].
Definition w1_sorted : bytes := [81; 5; 2; 1; 1; 1; 5; 4; 20; 25; 9; 9; 82; 174].
Definition w1_tx : vtx := mkVtx false w_h w1_sorted [mkRawSig [2; 100; 0] w1_script].
Example c17_witness_unsorted_multisig :
  w_run w1_tx = VAccept [w1_sorted] /\ w_fallback w1_tx = [w1_script] /\ w1_script <> w1_sorted.
Proof. split; [vm_compute; reflexivity|]. split; [vm_compute; reflexivity|discriminate]. Qed.

(** (2) `signers:ethereum-key`: a single Ethereum-style key; the validator's account is
    Keccak(point)[12:], the fallback's the script hash. *)
Definition w2_script : bytes := [4; 21; 4; 7; 9; 172].
Definition w2_tx : vtx := mkVtx false w_h [7; 9] [mkRawSig [2; 100; 2] w2_script].
Example c17_witness_ethereum_key :
  w_run w2_tx = VAccept [[7; 9]] /\ w_fallback w2_tx = [w2_script].
Proof. split; vm_compute; reflexivity. Qed.

(** (3) `signers:noncanonical-key-encoding`: the ECDSA key pushed in its second encoding. *)
Definition w3_script : bytes := [7; 18; 2; 2; 1; 1; 1; 5; 172].
Definition w3_canon : bytes := [5; 2; 1; 1; 1; 5; 172].
Definition w3_tx : vtx := mkVtx false w_h w3_canon [mkRawSig [2; 100; 1] w3_script].
Example c17_witness_noncanonical_key_encoding :
  w_run w3_tx = VAccept [w3_canon] /\ w_fallback w3_tx = [w3_script].
Proof. split; vm_compute; reflexivity. Qed.

(** (4) `signers:noncanonical-push`: the sorted 1-of-2 script with the key count pushed as the
    one-byte string [2] (PUSHBYTES1 2) instead of the opcode PUSH2. *)
Definition w4_script : bytes := [81; 5; 2; 1; 1; 1; 5; 4; 20; 25; 9; 9; 1; 2; 174].
Definition w4_tx : vtx := mkVtx false w_h w1_sorted [mkRawSig [2; 100; 1] w4_script].
Example c17_witness_noncanonical_push :
  w_run w4_tx = VAccept [w1_sorted] /\ w_fallback w4_tx = [w4_script].
Proof. split; vm_compute; reflexivity. Qed.

Theorem c17_signers_agree_refuted : ~ c17_signers_agree.
Proof.
  intro F.
  assert (S : forall b, (length b <= 3)%nat -> w_deser b = None).
  { intros b L. unfold w_deser.
    destruct (bytes_eqb b (pk_ser wk_ed)) eqn:E1; [apply bytes_eqb_eq in E1; subst b; simpl in L; lia|].
    destruct (bytes_eqb b (pk_ser wk_ec)) eqn:E2; [apply bytes_eqb_eq in E2; subst b; simpl in L; lia|].
    destruct (bytes_eqb b [18; 2; 2; 1; 1; 1; 5]) eqn:E3; [apply bytes_eqb_eq in E3; subst b; simpl in L; lia|].
    destruct (bytes_eqb b (pk_ser wk_eth)) eqn:E4; [apply bytes_eqb_eq in E4; subst b; simpl in L; lia|].
    reflexivity. }
  destruct c17_witness_unsorted_multisig as (A & B & C).
  pose proof (F w_deser asig w_sdeser (abs_verify (fun _ => false)) w_id w_id w1_tx [w1_sorted] S A w1_script) as [X _].
  fold w_fallback in X. rewrite B in X. destruct (X (or_introl eq_refl)) as [E|[]]. exact (C (eq_sym E)).
Qed.
Print Assumptions c17_signers_agree_refuted.

(** PARTIAL: when every verification script of the transaction is canonical
    ([canonical_script]: ProgramFromPubKey of a non-Ethereum key, or ProgramFromMultiPubKey of a key
    set - which sorts and uses the minimal pushes; keys satisfying C23's hypotheses), the two
    nodes report the same accounts, for every signature scheme and all hash functions. *)
Theorem c17_signers_agree_partial :
  forall deser sigT sdeser sverify H Keth t addrs,
  (forall b, (length b <= 3)%nat -> deser b = None) ->
  check_transaction_signatures deser sigT sdeser sverify H Keth t = VAccept addrs ->
  (forall r, In r (v_sigs t) -> canonical_script deser (rs_verify r)) ->
  forall a, In a (get_signature_addresses H [] t) <-> In a addrs.
Proof.
  intros deser sigT sdeser sverify H Keth t addrs S E C.
  exact (signers_agree_partial_proof deser sigT sdeser sverify H Keth S t addrs E C).
Qed.
Print Assumptions c17_signers_agree_partial.

(** CheckWitness (membership in GetSignatureAddresses) therefore agrees on the two nodes. *)
Theorem c17_check_witness_agrees_partial :
  forall deser sigT sdeser sverify H Keth t addrs,
  (forall b, (length b <= 3)%nat -> deser b = None) ->
  check_transaction_signatures deser sigT sdeser sverify H Keth t = VAccept addrs ->
  (forall r, In r (v_sigs t) -> canonical_script deser (rs_verify r)) ->
  forall a, mem_addr a (get_signature_addresses H [] t) = mem_addr a (get_signature_addresses H addrs t).
Proof.
  intros deser sigT sdeser sverify H Keth t addrs S E C a.
  pose proof (c17_signers_agree_partial deser sigT sdeser sverify H Keth t addrs S E C a) as Iff.
  assert (NE : get_signature_addresses H addrs t = addrs).
  { destruct addrs as [|x l]; [|reflexivity].
    destruct (accept_sound_proof _ _ _ _ _ _ _ _ E) as (_ & _ & _ & _ & P & _). destruct P. }
  rewrite NE.
  destruct (mem_addr a (get_signature_addresses H [] t)) eqn:M1, (mem_addr a addrs) eqn:M2; try reflexivity.
  - apply mem_addr_In in M1. apply Iff in M1. apply mem_addr_In in M1. congruence.
  - apply mem_addr_In in M2. apply Iff in M2. apply mem_addr_In in M2. congruence.
Qed.
Print Assumptions c17_check_witness_agrees_partial.

(** The validated signer set is itself a function of the validator's input (the model is a
    function); the implementation fills it from a Go map, so its ORDER is not determined - the
    statements above are about sets. *)

(** Non-vacuity: the canonical 1-of-2 script of the same two keys, and a canonical single-key
    script, satisfy the hypotheses; both nodes report the same two accounts. *)
Definition n_single : bytes := [5; 2; 1; 1; 1; 5; 172].
Definition n_tx : vtx := mkVtx false w_h w1_sorted [mkRawSig [2; 100; 1] w1_sorted; mkRawSig [2; 100; 1] n_single].

Example c17_nonvacuous :
  w_run n_tx = VAccept [w1_sorted; n_single] /\
  (forall r, In r (v_sigs n_tx) -> canonical_script w_deser (rs_verify r)) /\
  w_fallback n_tx = [w1_sorted; n_single].
Proof.
  split; [vm_compute; reflexivity|]. split; [|vm_compute; reflexivity].
  assert (Ked : key_ok w_deser wk_ed) by (split; [vm_compute; reflexivity|split; [discriminate|vm_compute; reflexivity]]).
  assert (Kec : key_ok w_deser wk_ec) by (split; [vm_compute; reflexivity|split; [discriminate|vm_compute; reflexivity]]).
  intros r [<-|[<-|[]]]; cbn [rs_verify].
  - right. exists [wk_ed; wk_ec], 1%Z. split; [constructor; [exact Ked|constructor; [exact Kec|constructor]]|].
    split; [constructor; [unfold key_known; vm_compute; auto|constructor; [unfold key_known; vm_compute; auto|constructor]]|]. split.
    + intros a b [<-|[<-|[]]] [<-|[<-|[]]] E; try reflexivity; vm_compute in E; discriminate.
    + split; vm_compute; reflexivity.
  - left. exists wk_ec. split; [exact Kec|]. split; [vm_compute; discriminate|vm_compute; reflexivity].
Qed.
