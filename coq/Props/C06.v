(** C06 — Native token operations conserve supply and respect authorization.

    Model: Model/Token.v (ONT and ONG contracts: transfer, transferV2, approve, approveV2,
    transferFrom, transferFromV2, with the ONG that an ONT movement makes claimable).  Every
    theorem is for every [unbind] function (CalcUnbindOng is a parameter: no property of the
    issuance schedule is needed), every holder deadline, every invariant-satisfying start state
    and every list of calls, each with its own signer set, calling contract and block time.
    The start-state hypothesis [inv] (balance keys stored once, balances and allowances >= 0) is
    preserved by every call (c06_invariant) and is checked with [inv_check] on every state the
    harness dumps from the implementation. *)
From Coq Require Import List ZArith NArith.
Import ListNotations.
From Ont Require Import Model.Token Proofs.Token.
Local Open Scope Z_scope.

(** The sum of all balances of each token is the same after any sequence of calls. *)
Theorem c06_supply_conserved : forall unbind deadline (calls : list call) (s : state) (t : token),
  inv s -> sumb (run unbind deadline s calls) t = sumb s t.
Proof. exact run_sum. Qed.
Print Assumptions c06_supply_conserved.

(** No balance and no allowance is ever negative (and balance keys stay unique). *)
Theorem c06_invariant : forall unbind deadline (calls : list call) (s : state),
  inv s -> inv (run unbind deadline s calls).
Proof. exact run_inv. Qed.
Print Assumptions c06_invariant.

Theorem c06_no_negative_balance : forall unbind deadline (calls : list call) (s : state) t a o sp,
  inv s -> 0 <= balf (run unbind deadline s calls) t a /\ 0 <= allowf (run unbind deadline s calls) t o sp.
Proof.
  intros unbind deadline calls s t a o sp I.
  destruct (run_inv unbind deadline calls s I) as [_ B A]. split; [apply B|apply A].
Qed.
Print Assumptions c06_no_negative_balance.

(** At every position of every call sequence: a balance goes down in that call only if its owner
    witnessed the call (signature or calling contract), or it is the ONT contract's own ONG during
    an ONT call, or the call is a transferFrom by an authorised spender whose allowance from the
    owner goes down by exactly the same amount and stays >= 0. *)
Theorem c06_debit_authorized : forall unbind deadline (pre : list call) (k : call) (s : state),
  inv s ->
  debit_authorized k (run unbind deadline s pre) (run unbind deadline s (pre ++ [k])).
Proof. exact run_debit_authorized. Qed.
Print Assumptions c06_debit_authorized.

(** ... and an allowance goes up only under its owner's witness. *)
Theorem c06_allowance_authorized : forall unbind deadline (pre : list call) (k : call) (s : state),
  inv s ->
  allowance_authorized k (run unbind deadline s pre) (run unbind deadline s (pre ++ [k])).
Proof. exact run_allowance_authorized. Qed.
Print Assumptions c06_allowance_authorized.

(** During an ONT call the only ONG balance that can go down is the ONT contract's: accrued ONG
    is a transfer from that pool to holders, nobody else's ONG is touched (whoever signed). *)
Theorem c06_ont_call_moves_ong_from_pool_only : forall unbind deadline (pre : list call) (k : call) (s : state) a,
  inv s -> c_tok k = ONT ->
  balf (run unbind deadline s (pre ++ [k])) ONG a < balf (run unbind deadline s pre) ONG a ->
  a = tk_ont_addr.
Proof.
  intros unbind deadline pre k s a I Ht. rewrite run_snoc.
  apply ont_call_ong_debits_pool_only; [apply run_inv; exact I|exact Ht].
Qed.
Print Assumptions c06_ont_call_moves_ong_from_pool_only.

(** A failed call leaves every balance, allowance and offset untouched: the committed state is
    the same state (the scratch cache it dirtied is dropped). *)
Theorem c06_failed_call_unchanged : forall unbind deadline (pre : list call) (k : call) (s : state) e,
  snd (step unbind deadline (run unbind deadline s pre) k) = Err e ->
  run unbind deadline s (pre ++ [k]) = run unbind deadline s pre.
Proof. exact run_failed_unchanged. Qed.
Print Assumptions c06_failed_call_unchanged.

(** "Witnessed" is exactly: signed the transaction, or is the contract that directly called the
    token contract (the top of the call stack below it).  A contract deeper in the stack that did
    not sign is not a witness - so by c06_debit_authorized a contract that a vault calls into
    cannot debit the vault. *)
Theorem c06_witness_rule : forall (k : call) (a : addr),
  witnessed_by k a <-> In a (signers (c_ctx k)) \/ caller (c_ctx k) = Some a.
Proof. intros k a. apply check_witness_iff. Qed.
Print Assumptions c06_witness_rule.

Theorem c06_indirect_caller_is_no_witness : forall tok o sg below a b now pe v2 w,
  ~ In a sg -> a <> b ->
  ~ witnessed_by (mkCall tok (mkCtx sg (below ++ [a; b]) now pe v2 w) o) a.
Proof.
  intros tok o sg below a b now pe v2 w Hn Hab H. unfold witnessed_by in H. simpl in H.
  rewrite indirect_caller_not_witness in H by assumption. discriminate.
Qed.
Print Assumptions c06_indirect_caller_is_no_witness.

(** The decidable check run on dumped implementation states implies the hypothesis above. *)
Theorem c06_inv_check_sound : forall s, inv_check s = true -> inv s.
Proof. exact inv_check_sound. Qed.
Print Assumptions c06_inv_check_sound.

(** Non-vacuity.  A concrete invariant-satisfying state and history (holder deadline at offset
    100, 5 units of ONG per ONT and second): an ONT transfer before the deadline makes ONG
    claimable (allowance of the ONT contract to the holder), a transferFrom after the deadline
    spends an ONT allowance and pays both ends their ONG out of the ONT contract's balance, and a
    two-movement transfer whose second movement is not witnessed fails after the first movement
    was written to the scratch cache - the committed state stays as it was. *)
Definition ex_unbind (b s e : Z) : Z := 5 * b * (e - s).
Definition ex_s0 : state :=
  mkState [(33%N, 1000000000000); (34%N, 2500000000)]
          [(tk_ont_addr, 100000000000000000000); (33%N, 7)]
          [((33%N, 34%N), 30000000000)] [] [(33%N, 10)].
Definition ex_ctx (signers : list addr) (t : Z) : callctx :=
  mkCtx signers [] (tk_genesis_ts + t) false true false.
Definition ex_k1 := mkCall ONT (ex_ctx [33%N] 50) (Transfer false [TS 33%N 34%N 10]).
Definition ex_k2 := mkCall ONT (ex_ctx [34%N] 150) (TransferFrom true 34%N 33%N 34%N 1500000000).
Definition ex_k3 := mkCall ONT (ex_ctx [33%N] 160) (Transfer false [TS 33%N 34%N 5; TS 34%N 33%N 1]).

Example c06_nonvacuous :
  let s1 := run ex_unbind 100 ex_s0 [ex_k1] in
  let s2 := run ex_unbind 100 ex_s0 [ex_k1; ex_k2] in
  inv ex_s0
  /\ balf s1 ONT 33%N < balf ex_s0 ONT 33%N                         (* debit, witnessed by 33 *)
  /\ allowf ex_s0 ONG tk_ont_addr 33%N < allowf s1 ONG tk_ont_addr 33%N  (* ONG made claimable *)
  /\ balf s2 ONT 33%N < balf s1 ONT 33%N                            (* debit by spender 34 ... *)
  /\ allowf s1 ONT 33%N 34%N - allowf s2 ONT 33%N 34%N = balf s1 ONT 33%N - balf s2 ONT 33%N
  /\ balf s2 ONG tk_ont_addr < balf s1 ONG tk_ont_addr              (* pool pays ... *)
  /\ balf s1 ONG 33%N < balf s2 ONG 33%N                            (* ... the holder *)
  /\ sumb s2 ONT = sumb ex_s0 ONT /\ sumb s2 ONG = sumb ex_s0 ONG
  /\ (exists dirty, exec ex_unbind 100 ex_k3 s2 = (dirty, Err EAuth) /\ dirty <> s2
                    /\ step ex_unbind 100 s2 ex_k3 = (s2, Err EAuth)).
Proof.
  cbv zeta. split; [apply c06_inv_check_sound; vm_compute; reflexivity|].
  repeat (split; [vm_compute; reflexivity|]).
  eexists. split; [vm_compute; reflexivity|]. split; [|vm_compute; reflexivity].
  intros H. apply (f_equal (fun s => balf s ONT 33%N)) in H. vm_compute in H. discriminate.
Qed.
