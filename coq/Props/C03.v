(** C03 — Block change hash depends only on the final key/value content.

    "The per-block state-change hash and write set depend only on the final value of each touched
    key (with deletions recorded as empty), not on the order in which keys were written,
    overwritten or deleted during execution."

    Model: Model/WriteSet.v (MemDB.Put/Delete/ForEach as a sorted association list under
    bytes.Compare; OverlayDB.Put/Delete/GetWriteSet/ChangeHash; the fields fed to the hash are
    regenerated from the source into Gen/WriteSetGen.v).  Quantification: ALL histories (lists of
    put/delete operations over arbitrary byte-string keys and values), and ANY hash function [H]
    (no property of SHA-256 is used; the correspondence instantiates H with Lib.Sha256.sha256).

    [last_write ops k] is the value recorded by the last operation of [ops] on [k] ([Some []] for
    a deletion, [None] if [k] was never touched): "the final value of each touched key". *)
From Coq Require Import List Bool NArith Sorted.
Import ListNotations.
From Ont Require Import Lib.Bytes Lib.Sha256 Model.WriteSet Proofs.WriteSet Proofs.C03.
Local Open Scope N_scope.

(** 1. Canonical form: after ANY history the write set (what GetWriteSet().ForEach enumerates) is
    the last-write map of the history, sorted by key. *)
Theorem c03_writeset_canonical : forall ops : list op,
  ov_write_set (ov_run ops) = sort_by_key (last_write_assoc ops).
Proof. exact writeset_canonical_proof. Qed.
Print Assumptions c03_writeset_canonical.

(** The same, as a characterisation that does not mention a sorting function: strictly ascending
    keys (bytes.Compare), and (k,v) is listed iff v is the last value written to k. *)
Theorem c03_writeset_characterised : forall ops : list op,
  StronglySorted (fun x y => ws_cmp (fst x) (fst y) = Lt) (ov_write_set (ov_run ops)) /\
  (forall k v, In (k, v) (ov_write_set (ov_run ops)) <-> last_write ops k = Some v).
Proof. intro ops. split; [exact (run_sorted ops)|intros k v; apply run_in]. Qed.
Print Assumptions c03_writeset_characterised.

(** 2. THE PROPERTY. Two histories with the same last-write map have the same write set and the
    same change hash, for any hash function. *)
Theorem c03_change_hash_order_free : forall (H : bytes -> bytes) (ops1 ops2 : list op),
  (forall k, last_write ops1 k = last_write ops2 k) ->
  ov_write_set (ov_run ops1) = ov_write_set (ov_run ops2) /\
  ov_change_hash H (ov_run ops1) = ov_change_hash H (ov_run ops2).
Proof. exact change_hash_order_free_proof. Qed.
Print Assumptions c03_change_hash_order_free.

(** ... and nothing else is recorded: equal write sets force equal last-write maps. *)
Theorem c03_writeset_determines_last_write : forall ops1 ops2 : list op,
  ov_write_set (ov_run ops1) = ov_write_set (ov_run ops2) ->
  forall k, last_write ops1 k = last_write ops2 k.
Proof. exact writeset_determines_last_write. Qed.
Print Assumptions c03_writeset_determines_last_write.

(** The hypothesis of 2 is decidable ([same_last_write] is what the harness oracle computes). *)
Theorem c03_same_last_write_decides : forall a b : list op,
  same_last_write a b = true <-> (forall k, last_write a k = last_write b k).
Proof. exact same_last_write_spec. Qed.
Print Assumptions c03_same_last_write_decides.

(** 3. Instances named in the property text. *)

(** an operation whose key is written again later can be dropped (overwrite) *)
Theorem c03_overwritten_op_irrelevant : forall H a x b,
  In (op_key x) (map op_key b) ->
  ov_write_set (ov_run (a ++ x :: b)) = ov_write_set (ov_run (a ++ b)) /\
  ov_change_hash H (ov_run (a ++ x :: b)) = ov_change_hash H (ov_run (a ++ b)).
Proof. exact overwritten_op_irrelevant_proof. Qed.
Print Assumptions c03_overwritten_op_irrelevant.

(** operations on different keys commute (any two adjacent ones, hence any reordering that keeps
    each key's last operation last) *)
Theorem c03_ops_commute : forall H a x y b,
  op_key x <> op_key y ->
  ov_write_set (ov_run (a ++ x :: y :: b)) = ov_write_set (ov_run (a ++ y :: x :: b)) /\
  ov_change_hash H (ov_run (a ++ x :: y :: b)) = ov_change_hash H (ov_run (a ++ y :: x :: b)).
Proof. exact ops_commute_proof. Qed.
Print Assumptions c03_ops_commute.

(** overwrite-with-same-value: issuing the same put/delete again later changes nothing *)
Theorem c03_overwrite_same_value : forall H a x m b,
  ~ In (op_key x) (map op_key m) ->
  ov_write_set (ov_run (a ++ x :: m ++ x :: b)) = ov_write_set (ov_run (a ++ x :: m ++ b)) /\
  ov_change_hash H (ov_run (a ++ x :: m ++ x :: b)) = ov_change_hash H (ov_run (a ++ x :: m ++ b)).
Proof. exact overwrite_same_value_proof. Qed.
Print Assumptions c03_overwrite_same_value.

(** delete-then-recreate is the same as creating *)
Theorem c03_delete_then_recreate : forall H a k v b,
  ov_write_set (ov_run (a ++ ODelete k :: OPut k v :: b)) = ov_write_set (ov_run (a ++ OPut k v :: b)) /\
  ov_change_hash H (ov_run (a ++ ODelete k :: OPut k v :: b)) = ov_change_hash H (ov_run (a ++ OPut k v :: b)).
Proof. exact delete_then_recreate_proof. Qed.
Print Assumptions c03_delete_then_recreate.

(** 4. "Touched" is what counts, not "changed": the keys of the write set are exactly the keys
    some operation named; a key written and then restored, and a deleted key that never existed,
    both stay in the write set (the overlay never consults the backing store when writing), so
    such a history is observably different from one that left the key alone. *)
Theorem c03_writeset_keys_are_touched_keys : forall ops k,
  In k (map fst (ov_write_set (ov_run ops))) <-> In k (map op_key ops).
Proof. exact writeset_keys_proof. Qed.
Print Assumptions c03_writeset_keys_are_touched_keys.

Theorem c03_touched_then_restored_is_recorded : forall a k v1 v0,
  In (k, v0) (ov_write_set (ov_run (a ++ [OPut k v1; OPut k v0]))) /\
  (~ In k (map op_key a) ->
   ov_write_set (ov_run (a ++ [OPut k v1; OPut k v0])) <> ov_write_set (ov_run a)).
Proof. exact touched_then_restored_proof. Qed.
Print Assumptions c03_touched_then_restored_is_recorded.

Theorem c03_delete_of_untouched_key_is_recorded : forall a k,
  In (k, []) (ov_write_set (ov_run (a ++ [ODelete k]))) /\
  (~ In k (map op_key a) ->
   ov_write_set (ov_run (a ++ [ODelete k])) <> ov_write_set (ov_run a)).
Proof. exact delete_untouched_recorded_proof. Qed.
Print Assumptions c03_delete_of_untouched_key_is_recorded.

(** 5. What is hashed: the concatenation over the write set, in key order, of the fields the
    ForEach callback writes ([change_hash_writes], regenerated from ChangeHash's AST: raw key bytes
    then raw value bytes; no lengths, no count). *)
Theorem c03_change_hash_preimage : forall (H : bytes -> bytes) (ops : list op),
  ov_change_hash H (ov_run ops) =
  H (concat (map (fun e => concat (map (hfield_bytes e) change_hash_writes))
                 (sort_by_key (last_write_assoc ops)))).
Proof.
  intros H ops. unfold ov_change_hash. rewrite change_preimage_concat_proof.
  change (ov_memdb (ov_run ops)) with (ov_write_set (ov_run ops)).
  rewrite writeset_canonical_proof. reflexivity.
Qed.
Print Assumptions c03_change_hash_preimage.

(** Non-vacuity: two different histories -- re-ordered, with an overwrite, an overwrite with the
    same value, a delete-then-recreate and a deletion of a never-written key -- have the same
    last-write map; theorem 2 applies and the common write set is the expected 4-entry list. *)
Definition hist1 : list op :=
  [OPut [1;2] [10]; OPut [1] [7;7]; ODelete [1;2]; OPut [3] [9]; OPut [1;2] [11]; ODelete [2]; OPut [3] [9]].
Definition hist2 : list op :=
  [ODelete [2]; OPut [3] [8]; OPut [1;2] [11]; OPut [3] [9]; OPut [1] [7;7]].

Example c03_nonvacuous :
  hist1 <> hist2 /\
  (forall k, last_write hist1 k = last_write hist2 k) /\
  ov_write_set (ov_run hist1) = [([1], [7;7]); ([1;2], [11]); ([2], []); ([3], [9])] /\
  ov_write_set (ov_run hist2) = ov_write_set (ov_run hist1) /\
  ov_change_hash sha256 (ov_run hist1) = ov_change_hash sha256 (ov_run hist2).
Proof.
  assert (E : forall k, last_write hist1 k = last_write hist2 k)
    by (apply c03_same_last_write_decides; vm_compute; reflexivity).
  destruct (c03_change_hash_order_free sha256 hist1 hist2 E) as [W Hh].
  split; [discriminate|]. split; [exact E|]. split; [vm_compute; reflexivity|].
  split; [symmetry; exact W|exact Hh].
Qed.

(** The hash does see a deletion of a key that never existed (executable SHA-256). *)
Example c03_delete_untouched_changes_sha256 :
  ov_change_hash sha256 (ov_run [ODelete [1]]) <> ov_change_hash sha256 (ov_run []).
Proof. vm_compute. discriminate. Qed.
