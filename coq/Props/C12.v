(** C12 - No transaction or pre-execution request can crash the node.

    "Executing any transaction, or pre-executing any request through the RPC interface, ends with a
    result or an error; it never terminates the process through a Go panic, a fatal runtime error
    (stack overflow, out-of-memory from unbounded allocation) or an infinite loop."

    A Gallina function cannot panic, so totality of a model would say nothing. What is proved is
    that the GUARDS the code relies on do their job, on a model in which the failure is a value
    (Model/Guards.v: slice accesses answer [GPanic] outside their bounds, recursions answer
    out-of-fuel where Go would recurse deeper; Model/VmValue.v: values are heap graphs, so
    reference cycles exist). The tests themselves are read from the source on every run
    (Gen/GuardSites.v), so the theorems are about the comparisons that are in the code now.

    FULL STATEMENT (for the modelled components): [c12_full_statement] =
      [guards_safe]        no guarded slice access leaves its slice, limits are invariants
   /\ [recursions_end]     cloneStruct / Notify conversion end on every heap graph
   /\ [loop_bounded]       the Invoke loop ends within gas / steps
   /\ [detector_sound]     when the cycle detector lets a value through, the recursive encoders end
   /\ [decoders_bounded]   every decoder of user bytes is total and reads inside its input.
    It is REFUTED on the current tree: [c12_refuted], because of [detector_sound] (finding F4, not
    repaired: circularRefAndDepthDetection inspects first elements only; witness w = [1, w], on
    which BuildParamToNative recurses until the Go stack is exhausted - replayed on the
    implementation on every run, class crash:cycle-non-first-element:Native.Invoke).
    PROVED: [c12_partial] = everything else, with [detector_sound] replaced by what does hold
    (acyclic values, Serialize on every value, cycles through first elements).
    NOT COVERED by any theorem here (the differential driver is the only evidence): panics in code
    that is not modelled (native contract bodies beyond the listed index tests, the EVM), memory
    exhaustion. *)
From Coq Require Import List Bool Arith NArith ZArith Lia.
Import ListNotations.
From Ont Require Import Lib.Bytes Gen.GuardSites Gen.VmValueConsts Model.Codec Model.CrossVM Model.VmValue Model.Guards.
From Ont Require Import Proofs.Guards Proofs.GuardsRec Proofs.VmValueCycle Proofs.Codec.
From Ont Require Props.C14 Props.C18 Props.C25.
Local Open Scope Z_scope.

(** * 1. Guards: no slice access out of range, for ALL stacks, byte strings, indices and counts *)

Definition guards_safe : Prop :=
  (* ValueStack: Insert Peek Remove Set Pop Swap Push (any element type, any int64 operand) *)
  (forall (A : Type) (limit : Z) (data : list A) (i j : Z) (t : A),
     no_panic (vs_insert limit data i t) /\ no_panic (vs_peek data i) /\ no_panic (vs_remove data i) /\
     no_panic (vs_set data i t) /\ no_panic (vs_pop data) /\ no_panic (vs_swap data i j) /\ no_panic (vs_push limit data t)) /\
  (* (slices shorter than 2^62) SUBSTR LEFT RIGHT, PICKITEM SETITEM on arrays / structs / byte strings, REMOVE, NEWARRAY, PACK *)
  (forall (A : Type) (arr : list A) (a b : Z) (v : A), len arr < 4611686018427387904 ->
     no_panic (ex_substr arr a b) /\ no_panic (ex_left arr a) /\ no_panic (ex_right arr a) /\
     no_panic (ex_pickitem_array arr a) /\ no_panic (ex_pickitem_struct arr a) /\ no_panic (ex_pickitem_bytes arr a) /\
     no_panic (ex_setitem_array arr a v) /\ no_panic (ex_setitem_struct arr a v) /\
     no_panic (arr_removeat arr a) /\ no_panic (ex_newarray a v) /\ no_panic (ex_pack arr a)) /\
  (* the size limits are invariants of the growing operations *)
  (forall (A : Type) (limit : Z) (data vals r : list A) (i : Z) (t : A),
     (vs_push limit data t = GOk r -> len r <= limit) /\ (vs_insert limit data i t = GOk r -> len r <= limit) /\
     (vs_pushmany limit data vals = GOk r -> len r <= limit) /\ (vs_copyto limit data vals = GOk r -> len r <= limit) /\
     (arr_append data t = GOk r -> len r <= APPEND_MAX_ARRAY_SIZE)) /\
  (* jump, call and dynamic-call targets stay inside the code (== len(code) ends the run cleanly);
     the invocation stack is bounded *)
  (forall ip codelen num t, ex_jmp_target ip codelen num = GOk t -> 0 <= t <= codelen) /\
  (forall codelen target t, ex_dcall_target codelen target = GOk t -> 0 <= t < codelen) /\
  (forall callers n, ex_pushcontext callers = GOk n -> n <= MAX_INVOCATION_STACK_SIZE) /\
  (* native contracts: the repaired index / length tests (ontid 2977caad; ontfs ae8b0797, 6811a1ff,
     b73cd5e2; governance updateConfig L % K 0545dab5), for every uint32 index and every key list / proof *)
  (forall (A : Type) (keys : list A) (index x n : Z), 0 <= index < 4294967296 ->
     no_panic (ontid_revoke_v0 keys index) /\ no_panic (ontid_revoke_v1 keys index) /\ no_panic (ontid_getpk keys index) /\
     no_panic (ontfs_proof_version keys) /\ no_panic (ontfs_challenge x n) /\ no_panic (ontfs_merkle_parts keys) /\
     no_panic (gov_l_mod_k x n)).

Theorem c12_guards_safe : guards_safe.
Proof.
  unfold guards_safe. repeat apply conj.
  - intros. repeat apply conj;
      [apply vs_insert_safe|apply vs_peek_safe|apply vs_remove_safe|apply vs_set_safe|apply vs_pop_safe|apply vs_swap_safe|apply vs_push_safe].
  - intros A arr a b v HL. pose proof (ex_pickitem_safe arr a) as [P1 [P2 P3]]. pose proof (ex_setitem_safe arr a v) as [S1 S2].
    repeat apply conj; try assumption;
      [apply ex_substr_safe; exact HL|apply ex_left_safe|apply ex_right_safe|apply arr_removeat_safe|apply ex_newarray_safe|apply ex_pack_safe].
  - intros A limit data vals r i t. repeat apply conj.
    + apply vs_push_bounded.
    + intros H. destruct (vs_insert_safe limit data i t) as [_ B]. apply (B r H).
    + apply vs_pushmany_bounded.
    + apply vs_copyto_bounded.
    + apply arr_append_bounded.
  - exact ex_jmp_in_code.
  - exact ex_dcall_in_code.
  - exact ex_pushcontext_bounded.
  - intros A keys index x n Hi. destruct (ontid_revoke_safe keys index Hi) as [R0 R1].
    destruct (ontfs_safe keys x n) as [F1 [F2 F3]].
    repeat apply conj; try assumption; first [apply ontid_getpk_safe; exact Hi|apply gov_l_mod_k_safe].
Qed.
Print Assumptions c12_guards_safe.

(** * 2. Counted recursions end on EVERY heap graph, cyclic ones included *)

(** cloneStruct (APPEND / SETITEM of a struct) needs at most MAX_CLONE_LENGTH+3 nested calls;
    convertNeoVmValueHexString (System.Runtime.Notify and the pre-execution result) at most
    MAX_COUNT+3, whatever byte lengths the primitives have. *)
Definition recursions_end : Prop :=
  (forall (h : heap) (a : nat), clone_struct h clone_fuel a 0 <> COof) /\
  (forall (plen : prim -> Z) (h : heap) (v : hval), convert plen h convert_fuel v 0 0 <> VOof).

Theorem c12_recursions_end : recursions_end.
Proof. split; [exact clone_terminates|exact convert_terminates]. Qed.
Print Assumptions c12_recursions_end.

(** * 3. The Invoke loop ends: block execution within the gas limit (every instruction costs at
    least MIN_OPCODE_GAS >= 1, read from the gas table), pre-execution within VM_STEP_LIMIT steps,
    whatever one instruction does to the machine *)
Definition loop_bounded : Prop :=
  (forall (St : Type) (step : St -> option St) (price : St -> Z) (a : acct) (s : St),
     (forall s, MIN_OPCODE_GAS <= price s) ->
     exists n, run step price false (S (Z.to_nat (gas a))) a s = Some n /\ Z.of_nat n <= Z.max 0 (gas a)) /\
  (forall (St : Type) (step : St -> option St) (price : St -> Z) (a : acct) (s : St),
     exists n, run step price true (S (Z.to_nat (VM_STEP_LIMIT - steps a))) a s = Some n /\
               Z.of_nat n <= Z.max 0 (VM_STEP_LIMIT - steps a)).

Theorem c12_loop_bounded : loop_bounded.
Proof. split; intros; [apply exec_gas_bounded; assumption|apply exec_steps_bounded]. Qed.
Print Assumptions c12_loop_bounded.

(** * 4. The cycle / depth detector *)

(** FULL: whenever no run of circularRefAndDepthDetection reports a cycle for [v], the recursive
    encoders end with some finite stack. *)
Definition detector_sound : Prop :=
  forall (h : heap) (v : hval), snd (detect_top h v) = false ->
    exists f, r_oof (h_build h f v []) = false /\ r_oof (h_serialize h 0 f v []) = false.

(** KNOWN FINDING F4 - refuted: w = [1, w]. The detector looks at w[0] = 1 only and answers "no
    cycle"; BuildParamToNative is still recursing with ANY stack. *)
Theorem c12_detector_sound_refuted : ~ detector_sound.
Proof.
  intro H. destruct (H W_heap W) as [f [Hb _]].
  - rewrite W_not_detected. reflexivity.
  - destruct (build_witness_diverges f []) as [_ [_ Ht]]. congruence.
Qed.
Print Assumptions c12_detector_sound_refuted.

(** PARTIAL - what holds on the current tree (theorems of C14, restated for this property):
    (a) values without a reachable cycle (a finite unfolding, sharing allowed): BuildParamToNative
        ends within the stack the unfolding needs;
    (b) Serialize ends on EVERY value of every heap, cyclic or not - because of the 1 MiB size
        test, with a stack of MAX_BYTEARRAY_SIZE/2 + MAX_STRUCT_DEPTH + 3 nested calls;
    (c) a cycle through first elements is refused at once by both encoders. *)
Definition detector_sound_partial : Prop :=
  (forall h f v t, unfold h f v = Some t -> forall s, r_oof (h_build h f v s) = false) /\
  (forall h base v, r_oof (h_serialize h base ser_fuel v []) = false) /\
  (forall h v, endless h (S max_struct_depth) v -> forall base f s,
     h_serialize h base (S f) v s = mkRs None [ECircular] false /\ h_build h (S f) v s = mkRs None [ECircular] false).

Theorem c12_detector_sound_partial : detector_sound_partial.
Proof.
  destruct Props.C14.c14_cycle_rejected_partial as [_ [B [_ D]]].
  split; [exact D|]. split; [exact Props.C14.c14_serialize_terminates|exact B].
Qed.
Print Assumptions c12_detector_sound_partial.

(** * 5. Decoders of user-supplied bytes (collected from C18, C25, C14) *)
Definition decoders_bounded : Prop :=
  (* ZeroCopySource: every sequence of reads stays inside the buffer *)
  (forall (ops : list rop) (s : source), src_ok s ->
     positions_ok (src_pos s) (N.of_nat (length (buf s))) (run_script s ops)) /\
  (* cross-VM value decoder: total, consumes input, stays inside the buffer *)
  (forall s : source, decode_value s <> DFuel) /\
  (forall (s : source) (v : value) (s' : source), decode_value s = CrossVM.DOk v s' ->
     buf s' = buf s /\ (off s < off s' <= length (buf s))%nat) /\
  (* NeoVM value Deserialize: total with 2*len+1 nested calls, reads inside the input *)
  (forall b, deserialize b <> DOof) /\
  (forall b t r, deserialize b = VmValue.DOk (t, r) -> (length r < length b)%nat).

Theorem c12_decoders_bounded : decoders_bounded.
Proof.
  repeat apply conj.
  - exact Props.C18.c18_reads_stay_in_bounds.
  - exact Props.C25.c25_decode_total.
  - exact Props.C25.c25_decode_in_bounds.
  - exact Props.C14.c14_deser_total.
  - exact Props.C14.c14_deser_in_bounds.
Qed.
Print Assumptions c12_decoders_bounded.

(** * The property *)
Definition c12_full_statement : Prop :=
  guards_safe /\ recursions_end /\ loop_bounded /\ detector_sound /\ decoders_bounded.

Theorem c12_refuted : ~ c12_full_statement.
Proof. intros [_ [_ [_ [D _]]]]. exact (c12_detector_sound_refuted D). Qed.
Print Assumptions c12_refuted.

Theorem c12_partial : guards_safe /\ recursions_end /\ loop_bounded /\ detector_sound_partial /\ decoders_bounded.
Proof.
  exact (conj c12_guards_safe (conj c12_recursions_end (conj c12_loop_bounded
           (conj c12_detector_sound_partial c12_decoders_bounded)))).
Qed.
Print Assumptions c12_partial.

(** * Non-vacuity: the failure values are reachable in the model - the guards are what keeps them
    out. Without its test, PICK at index = depth panics; a struct that contains itself is refused
    by the clone counter (not out of fuel); the finding's witness is refused by the Notify counter
    while BuildParamToNative diverges on it. *)
Example c12_nonvacuous :
  idx [10; 20; 30] 3 = GPanic /\ vs_peek [10; 20; 30] 3 = GErr EIndexOOB /\ vs_peek [10; 20; 30] 2 = GOk 10 /\
  slice [1; 2; 3] 1 0 = GPanic /\ ontfs_merkle_parts [7] = GErr EShort /\
  ontid_revoke_v1 ([] : list Z) 0 = GErr ENoSuchKey /\ idx ([] : list Z) (u32 (0 - 1)) = GPanic /\
  vs_insert STACK_LIMIT [1; 2; 3] 1 9 = GOk [1; 2; 9; 3] /\
  clone_struct [OList [HStruct 0]] clone_fuel 0 0 = CRefused /\
  clone_struct [OList [HStruct 0]] 5 0 0 = COof /\
  convert (fun _ => 1) W_heap convert_fuel W 0 0 = VRefused /\
  (forall f, r_oof (h_build W_heap f W []) = true).
Proof.
  do 11 (split; [vm_compute; reflexivity|]).
  intros f. destruct (build_witness_diverges f []) as [_ [_ Ht]]. exact Ht.
Qed.
