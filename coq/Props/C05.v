(** C05 — A failed transaction changes nothing except the fee it is charged.

    Model: Model/Fee.v — HandleInvokeTransaction / costInvalidGas / chargeCostGas /
    tuneGasFeeByHeight / calcGasByCodeLen and the ONG transfer they make, over the layered storage
    model of C04 (Model/KV.v: transaction CacheDB over block OverlayDB over the store) and the
    stored form of native balances of C21 (Model/NeoInt.v). Every uint64 expression and comparison
    is Gen/FeeFormulas.v, regenerated from tx_handler.go on every run with the wrap explicit.
    executeBlock's loop is [run_block] / [block_trace] (Reset before every transaction).
    Tied to the code on every run by Corr/C05.v: real blocks, every execution record and the
    block's write set reproduced byte for byte.

    Reading of the statement. The block-level view of the state is [abs_block] (the C04
    abstraction of overlay over store: what GetWriteSet + the store hold; what the next transaction
    and, after the block commit, everybody reads). [only_fee payer before r] (Model/FeeSpec.v):
    the store is untouched; the block view changed by [fee_moved payer (r_gas r)]: not at all when
    the reported gas is 0, otherwise the payer had at least that much ([v <= fb]: the fee never
    exceeds the balance) and exactly the payer's and the governance contract's ONG records were
    rewritten with [fb - v] and [tb + v]; the amount in the only recorded event ([r_fee_events])
    and the reported GasConsumed ([r_gas]) are that same number.

    PARTIAL (as in DESIGN §5 C05): the interpreter is the parameter [ip]; it is ANY function from
    (state, gas) to (transaction-cache content, ok?, internal?, gas left, events), i.e. the theorems
    hold for every script and every native call, but they assume that an execution writes storage
    only through the transaction's CacheDB. That assumption is checked by observation on every run
    (write sets of real blocks, oracle class leak:failed-tx-write-survived), not proved. *)
From Coq Require Import List Bool NArith ZArith.
Import ListNotations.
From Ont Require Import Lib.Bytes Lib.U64 Model.KV Model.NeoInt Proofs.KV Proofs.NeoInt
  Gen.FeeConsts Gen.FeeFormulas Gen.FeeCommitSites Model.Fee Model.FeeSpec Proofs.Fee.
From Coq Require Import String.
Local Open Scope N_scope.

(** (1) failed_tx_only_fee — the property, for every environment (height, tune height, gas table),
    every transaction (payer, signed or not, any price / limit / code length incl. wrapping ones),
    every interpreter and every well-formed layered state, whatever the cache held before the Reset.
    No no-wrap hypothesis is needed: the fee is moved by the ONG contract's own checked transfer,
    and GasConsumed is written only after that transfer was committed. *)
Definition c05_statement : Prop :=
  forall env tx ip s, wf_state s = true ->
    r_status (handle_invoke env tx ip (cache_reset s)) = StFail ->
    only_fee (t_payer tx) s (handle_invoke env tx ip (cache_reset s)).

Theorem c05_failed_tx_only_fee : c05_statement.
Proof. exact failed_tx_only_fee. Qed.
Print Assumptions c05_failed_tx_only_fee.

(** (2) What [fee_moved] means to a reader of the map: with payer <> governance and balances in
    the domain of the stored form, afterwards the payer reads exactly [fee] less, governance exactly
    [fee] more, the fee was within the payer's balance, and every other key reads as before. *)
Theorem c05_fee_moved_is_a_transfer : forall payer fee l l' fb tb,
  sortedb l = true -> payer <> FEE_GOV_ADDR ->
  fee_moved payer fee l l' -> fee <> 0 ->
  bal_in l payer = Some fb -> bal_in l FEE_GOV_ADDR = Some tb ->
  balance_in_domain fb -> balance_in_domain (tb + Z.of_N fee * ScaleFactor) ->
  let v := (Z.of_N fee * ScaleFactor)%Z in
  (v <= fb)%Z /\
  bal_in l' payer = Some (fb - v)%Z /\ bal_in l' FEE_GOV_ADDR = Some (tb + v)%Z /\
  forall k, k <> pkey pfx (ong_key payer) -> k <> pkey pfx gov_key -> kv_lookup k l' = kv_lookup k l.
Proof. intros payer fee l l' fb tb H. apply fee_moved_balances. apply sortedb_ssorted; exact H. Qed.
Print Assumptions c05_fee_moved_is_a_transfer.

(** (3) The execution's writes are gone for whoever comes next: the transaction cache of the
    failed transaction (still dirty in [r_state]) is emptied by the Reset that precedes the next
    transaction, and what that transaction reads is exactly the block view of (1). *)
Theorem c05_next_tx_sees_block_view : forall r : result,
  st_cache (cache_reset (r_state r)) = [] /\
  abs (cache_reset (r_state r)) = abs_block (r_state r) /\
  abs_block (cache_reset (r_state r)) = abs_block (r_state r).
Proof. intro r. destruct (reset_abs (r_state r)) as (A & B & C). auto. Qed.
Print Assumptions c05_next_tx_sees_block_view.

(** (4) success_commits_once: a successful transaction leaves an empty cache, the store untouched,
    and a block view that is the old one with the execution's writes applied (once) and — when it
    is charged — the fee [r_gas] moved on top, within the balance the payer has after execution. *)
Theorem c05_success_commits_once : forall env tx ip s, wf_state s = true -> interp_sorted ip ->
  r_status (handle_invoke env tx ip (cache_reset s)) = StSuccess ->
  exists g o, ip (cache_reset s) g = Some o /\ o_ok o = true /\ o_internal o = false /\
              success_commits tx s o (handle_invoke env tx ip (cache_reset s)).
Proof. exact success_commits_once. Qed.
Print Assumptions c05_success_commits_once.

(** (5) Histories: in every block (any list of transactions and interpreters), from every
    well-formed state, every transaction starts from an empty cache, every failed one satisfies (1)
    against the block view its predecessors left, every successful one (4). [run_block] (what the
    correspondence evaluates) is the fold of [block_trace]. *)
Theorem c05_block_every_tx : forall env txs s, wf_state s = true ->
  Forall (fun t => interp_sorted (snd t)) txs ->
  forall tx sb r, In (tx, sb, r) (block_trace env txs s) ->
    st_cache sb = [] /\
    (r_status r = StFail -> only_fee (t_payer tx) sb r) /\
    (r_status r = StSuccess ->
       exists ip g o, In (tx, ip) txs /\ ip sb g = Some o /\ o_ok o = true /\ success_commits tx sb o r).
Proof. exact block_txs_only_fee. Qed.
Print Assumptions c05_block_every_tx.

Theorem c05_run_block_is_trace : forall env txs s,
  snd (run_block env txs s) = map snd (block_trace env txs s).
Proof. exact run_block_trace. Qed.
Print Assumptions c05_run_block_is_trace.

(** (6) tuneGasFeeByHeight, on the generated formulas. It is total (no division by a zero unit is
    attempted since /repo 96f31c72: the zero test is one of the generated conditions and [tune_fee]
    returns a number on every input); once active the result never exceeds the balance handed in
    as the cap; it is that cap, or the unit is non-zero and the result is the least multiple of the
    unit that is >= gas; for a zero unit it is the cap. *)
Theorem c05_tune_fee : forall h th gas round cap, gas < two64 -> round < two64 ->
  tune_active h th = true ->
  let g := tune_fee h th gas round cap in
  g <= cap /\ (g = cap \/ (round <> 0 /\ g mod round = 0 /\ gas <= g /\ g < gas + round)).
Proof.
  intros h th gas round cap Hg Hr A. cbv zeta. split; [apply tune_fee_capped; exact A|].
  destruct (tune_fee_rounds h th gas round cap Hg Hr A) as [E|(X0 & X & Y & Z & _)]; [left; exact E|right; auto].
Qed.
Print Assumptions c05_tune_fee.

Theorem c05_tune_zero_unit : forall h th gas cap, tune_active h th = true -> tune_fee h th gas 0 cap = cap.
Proof. exact tune_fee_zero_unit. Qed.
Print Assumptions c05_tune_zero_unit.

(** (7) The wrapping side, part one. The rounding unit GasPrice * MIN_TRANSACTION_GAS (uint64) is 0
    exactly for the gas prices that are multiples of 2^59 (these used to crash block execution:
    finding fixed in 96f31c72, regression probes corpus/C05/gasprice-2p59.json, -2p63.json). A
    charged failing transaction with such a price is now asked for the balance read before
    execution; and the handler has no panic left except the storage writer's inside a charge. *)
Theorem c05_round_zero_iff : forall price, price < two64 ->
  (fee_fail_round price = 0 <-> price mod 576460752303423488 = 0).
Proof. exact round_zero_iff. Qed.
Print Assumptions c05_round_zero_iff.

Theorem c05_round_zero_asks_balance : forall env tx s gas cap,
  tune_active (e_height env) (e_tune env) = true ->
  tuned_cost_invalid env tx s gas 0 cap = cost_invalid tx s cap.
Proof. exact round_zero_asks_balance. Qed.
Print Assumptions c05_round_zero_asks_balance.

Theorem c05_no_panic_without_charge : forall env tx ip s,
  r_status (handle_invoke env tx ip s) = StPanic -> r_req (handle_invoke env tx ip s) <> None.
Proof. exact handle_invoke_panic. Qed.
Print Assumptions c05_no_panic_without_charge.

(** (8) Overflow-checked fee products (/repo 667fe5ca), for ALL gas prices. common.SafeMul returns
    the wrapped product and whether the exact product needs more than 64 bits ([c05_safe_mul]).
    The pre-checks of a charged transaction therefore end in one of three ways
    ([c05_checked_prechecks]): the whole balance is charged (a product overflowed or exceeds it),
    or GasLimit*GasPrice is charged (exact, below codeLenGas*GasPrice <= balance), or the script
    runs with MIN_TRANSACTION_GAS*GasPrice and codeLenGas*GasPrice exact and covered by the balance
    and codeLenGas <= GasLimit. In that last case nothing else can wrap ([c05_nothing_else_wraps]:
    this is why checking those two products suffices): codeLenGas <= available <= GasLimit, the gas
    handed to the engine is available - codeLenGas without underflow, the rounding unit
    GasPrice*MIN_TRANSACTION_GAS is exact, and for sc.Gas <= that gas costGasLimit = available - sc.Gas
    (or the floor), costGas = costGasLimit*GasPrice exactly and <= balance. Consequences: the engine
    never gets more gas than GasLimit ([c05_engine_gas_within_limit]; before the repair
    GasPrice = 2^63 with a code of >= 1024 bytes gave it 2^64 - codeLenGas and an endless loop never
    returned: corpus/C05/hang-price-2p63.json), and the amount a failing transaction is asked to pay
    is within the balance the handler read, with no no-wrap hypothesis ([c05_request_within_balance]);
    costInvalidGas then collects exactly that amount when the payer signed and the two records are
    readable and storable ([c05_charge_collects]).
    Products that can still wrap: none that a transaction controls on the charged path.
    calcGasByCodeLen's uint64(codeLen/1024)*codeGas wraps only for a governance-set gas-table value
    above 2^64/(codeLen/1024) (the model uses the wrapped value, as the code does); on the UNcharged
    path (GasPrice = 0, or height 0 / COMMIT_DPOS with a non-zero price) costGasLimit*GasPrice is
    0 resp. may wrap, but it is only reported as GasConsumed of a successful system transaction,
    never charged. *)
Theorem c05_safe_mul : forall x y, x < two64 -> y < two64 -> safe_mul x y = (u64mul x y, two64 <=? x * y).
Proof. exact safe_mul_spec. Qed.
Print Assumptions c05_safe_mul.

Theorem c05_checked_prechecks : forall env tx ip s cg old,
  is_charge tx = true -> e_codegas env = Some cg -> get_balance s (t_payer tx) = Some old -> t_price tx < two64 ->
  let clg := code_len_gas (t_codelen tx) cg in
  let avail := if fee_ava_gt (t_limit tx) (fee_max_ava old (t_price tx)) then fee_max_ava old (t_price tx) else t_limit tx in
  handle_invoke env tx ip s = cost_invalid tx s old \/
  (t_limit tx < clg /\ clg * t_price tx <= old /\ handle_invoke env tx ip s = cost_invalid tx s (t_limit tx * t_price tx)) \/
  (FEE_MIN_TRANSACTION_GAS * t_price tx <= old /\ clg * t_price tx <= old /\ clg <= t_limit tx /\
   handle_invoke env tx ip s = exec_part env tx ip s true avail clg old).
Proof. exact handle_invoke_charged. Qed.
Print Assumptions c05_checked_prechecks.

Theorem c05_nothing_else_wraps : forall price limit clg old left,
  price <> 0 -> old < two64 -> limit < two64 ->
  FEE_MIN_TRANSACTION_GAS * price <= old -> clg * price <= old -> clg <= limit ->
  let avail := if fee_ava_gt limit (fee_max_ava old price) then fee_max_ava old price else limit in
  clg <= avail /\ avail <= limit /\ fee_exec_gas avail clg = avail - clg /\
  fee_fail_round price = price * FEE_MIN_TRANSACTION_GAS /\
  (left <= fee_exec_gas avail clg ->
   let cgl0 := fee_cost_limit avail left in
   let cgl := if fee_cost_lt_min cgl0 then fee_cost_floor else cgl0 in
   cgl0 = avail - left /\ fee_cost_gas cgl price = cgl * price /\ cgl * price <= old).
Proof. exact exec_arith_exact. Qed.
Print Assumptions c05_nothing_else_wraps.

(** [r_req] of a StNoProbe result is the gas the engine was to be run with; with the interpreter
    that never answers, StNoProbe is reached exactly when the handler gets as far as the engine. *)
Theorem c05_engine_gas_within_limit : forall env tx s g,
  t_limit tx < two64 -> t_price tx < two64 ->
  r_status (handle_invoke env tx (fun _ _ => None) s) = StNoProbe ->
  r_req (handle_invoke env tx (fun _ _ => None) s) = Some g -> g <= t_limit tx.
Proof. exact engine_gas_within_limit. Qed.
Print Assumptions c05_engine_gas_within_limit.

Theorem c05_request_within_balance : forall env tx ip s cg old g,
  is_charge tx = true -> e_codegas env = Some cg -> t_limit tx < two64 -> t_price tx < two64 ->
  interp_gas_ok ip -> get_balance s (t_payer tx) = Some old ->
  r_status (handle_invoke env tx ip s) = StFail -> r_req (handle_invoke env tx ip s) = Some g ->
  g <= old \/
  (exists gas o new, ip s gas = Some o /\ o_ok o = true /\
     get_balance (mkState (o_cache o) (st_overlay s) (st_store s)) (t_payer tx) = Some new /\ g <= new).
Proof. exact req_le_balance. Qed.
Print Assumptions c05_request_within_balance.

Theorem c05_charge_collects : forall tx s g fb tb, wf_state s = true -> t_signed tx = true -> t_payer tx <> FEE_GOV_ADDR ->
  let v := (Z.of_N g * ScaleFactor)%Z in
  bal_in (abs_block s) (t_payer tx) = Some fb -> bal_in (abs_block s) FEE_GOV_ADDR = Some tb ->
  (v <= fb)%Z -> (v <= FEE_ONG_TOTAL_SUPPLY_V2)%Z -> balance_in_domain fb -> balance_in_domain (tb + v) ->
  r_status (cost_invalid tx s g) = StFail /\ r_gas (cost_invalid tx s g) = g.
Proof.
  intros tx s g fb tb W. apply cost_invalid_pays. apply sorted_block_sorted, wf_state_sorted; exact W.
Qed.
Print Assumptions c05_charge_collects.

(** (9) Source tie for the modelling assumption "an execution writes only into the transaction
    cache; the handler alone commits it". Gen/FeeCommitSites.v lists (go/ast, every run) every call
    of Commit / CommitTo / BatchCommit / CommitToCacheDB in the code that runs during an execution
    (native contracts, NeoVM / WASM / EVM services and interpreters, the smart-contract runtime:
    176 files) and in the handlers and cache layers around it.
    - During an execution the only admissible call is StateDB.CommitToCacheDB, which moves the EVM
      journal into the transaction's CacheDB and stays there. Any Commit / CommitTo / BatchCommit
      in that code (e.g. StateDB.Commit, which also flushes the whole transaction cache into the
      block overlay) would survive a later failure of the same transaction: the theorem below then
      no longer checks.
    - The handler-level sites are pinned: HandleDeployTransaction x2 ([handle_deploy]: fee commit,
      final commit), HandleInvokeTransaction (success commit of [exec_part]), costInvalidGas
      ([cost_invalid]); applyTransaction is the EIP155 transaction handler (transaction level,
      outside the property's quantifier); StateDB.Commit is the definition of the flushing
      primitive itself (CommitToCacheDB then CacheDB.Commit) and must have no caller in the
      execution list; vm/evm/runtime is the stand-alone EVM runtime, not linked by the ledger. *)
Definition stays_in_tx_cache (s : String.string * String.string * String.string * String.string) : bool :=
  String.eqb (snd (fst s)) "CommitToCacheDB"%string.

Theorem c05_no_commit_during_execution : forallb stays_in_tx_cache commit_sites_exec = true.
Proof. reflexivity. Qed.
Print Assumptions c05_no_commit_during_execution.

Theorem c05_handler_commit_sites :
  map (fun s : String.string * String.string * String.string * String.string => fst s) commit_sites_handler =
  [("core/store/ledgerstore/tx_handler.go", "HandleDeployTransaction", "Commit");
   ("core/store/ledgerstore/tx_handler.go", "HandleDeployTransaction", "Commit");
   ("core/store/ledgerstore/tx_handler.go", "HandleInvokeTransaction", "Commit");
   ("core/store/ledgerstore/tx_handler.go", "costInvalidGas", "Commit");
   ("smartcontract/service/evm/state_processor.go", "applyTransaction", "Commit");
   ("smartcontract/storage/statedb.go", "Commit", "CommitToCacheDB");
   ("smartcontract/storage/statedb.go", "Commit", "Commit");
   ("vm/evm/runtime/contract.go", "Call", "Commit")]%string.
Proof. reflexivity. Qed.
Print Assumptions c05_handler_commit_sites.

(** (10) Source tie for the block loop and for costInvalidGas. [run_block] empties the transaction
    cache before EVERY transaction (a failed, uncharged transaction hands back a dirty cache: its
    handler returns the error without committing or resetting anything), and [cost_invalid] moves
    the fee through a FRESH CacheDB on the block overlay. The list of CacheDB / StateDB creations,
    Resets and Commits in executeBlock, handleTransaction and the handlers is read from the source
    on every run; it must be exactly this one — in particular `cache.Reset()` in executeBlock's loop
    and `storage.NewCacheDB(overlay)` in costInvalidGas. *)
Theorem c05_block_cache_sites :
  cache_sites_block =
  [("executeBlock", "NewCacheDB", "storage.NewCacheDB(this.stateStore.NewOverlayDB())");
   ("executeBlock", "NewCacheDB", "storage.NewCacheDB(this.stateStore.NewOverlayDB())");
   ("executeBlock", "NewCacheDB", "storage.NewCacheDB(overlay)");
   ("executeBlock", "Reset", "cache.Reset()");
   ("costInvalidGas", "NewCacheDB", "storage.NewCacheDB(overlay)");
   ("costInvalidGas", "Commit", "cache.Commit()");
   ("HandleInvokeTransaction", "Commit", "sc.CacheDB.Commit()");
   ("HandleDeployTransaction", "Commit", "cache.Commit()");
   ("HandleDeployTransaction", "Commit", "cache.Commit()");
   ("HandleEIP155Transaction", "NewStateDB", "storage.NewStateDB(cache, tx.Hash(), common2.Hash(ctx.BlockHash), ong.OngBalanceHandle{})")]%string.
Proof. reflexivity. Qed.
Print Assumptions c05_block_cache_sites.

(** * Concrete states *)

Definition ex_payer : bytes := [1;2;3;4;5;6;7;8;9;10;11;12;13;14;15;16;17;18;19;20].
Definition rec_of (b : Z) : bytes := match balance_to_bytes b with Some r => r | None => [] end.
(** payer: 1 ONG, governance: 7.5 ONG; an unrelated contract record *)
Definition ex_s (payer_bal : Z) : state :=
  mkState [([5; 9; 9], [1])]                                              (* stale cache content: reset first *)
          []
          [(pkey pfx gov_key, rec_of 7500000000000000000%Z);
           (pkey pfx (ong_key ex_payer), rec_of payer_bal);
           ([5; 200; 1], [42])].
(** an execution that writes two keys (one of them the payer's own ONG record), then faults *)
Definition ex_out : outcome :=
  mkOut [(pkey pfx (ong_key ex_payer), rec_of 1%Z); ([5; 200; 1], [43]); ([5; 200; 2], [44])] false false 29000 3.
Definition ex_ip : interp := fun _ _ => Some ex_out.
Definition ex_env : envp := mkEnv 10 0 (Some FEE_UINT_INVOKE_CODE_LEN_GAS).
Definition ex_r : result := handle_invoke ex_env (mkTx ex_payer true 2500 30000 10 false) ex_ip (cache_reset (ex_s 1000000000000000000%Z)).

(** Non-vacuity of (1): the hypotheses hold, the transaction fails after writing, the fee is
    20000 * 2500 = 50000000 (0.05 ONG), it is moved, and none of the three writes survives. *)
Example c05_nonvacuous :
  wf_state (ex_s 1000000000000000000%Z) = true /\
  r_status ex_r = StFail /\ r_gas ex_r = 50000000 /\ r_fee_events ex_r = [50000000] /\
  bal_in (abs_block (r_state ex_r)) ex_payer = Some 950000000000000000%Z /\
  bal_in (abs_block (r_state ex_r)) FEE_GOV_ADDR = Some 7550000000000000000%Z /\
  kv_lookup [5; 200; 1] (abs_block (r_state ex_r)) = [42] /\
  kv_lookup [5; 200; 2] (abs_block (r_state ex_r)) = [] /\
  st_store (r_state ex_r) = st_store (ex_s 1000000000000000000%Z) /\
  st_cache (r_state ex_r) = o_cache ex_out /\ st_cache (cache_reset (r_state ex_r)) = [].
Proof. vm_compute. repeat split; reflexivity. Qed.

(** Overflowing products, part one: GasPrice = floor(2^64/20000)+1 makes MIN_TRANSACTION_GAS*GasPrice
    overflow (it would wrap to 8384, which is what the payer was charged before 667fe5ca); SafeMul
    reports it and the failed transaction is charged its whole balance (1 ONG). *)
Definition ex_ip0 : interp := fun _ _ => Some (mkOut (o_cache ex_out) false false 0 0).   (* out of gas at once *)
Example c05_overflow_min_gas :
  let r := handle_invoke ex_env (mkTx ex_payer true 922337203685478 30000 10 false) ex_ip0 (cache_reset (ex_s 1000000000000000000%Z)) in
  safe_mul FEE_MIN_TRANSACTION_GAS 922337203685478 = (8384, true) /\ r_status r = StFail /\ r_gas r = 1000000000 /\
  bal_in (abs_block (r_state r)) ex_payer = Some 0%Z.
Proof. vm_compute. repeat split; reflexivity. Qed.

(** Overflowing products, part two: codeLenGas*GasPrice overflows (code of 839 KiB, GasPrice 2^40)
    while the other two products are exact. Before 667fe5ca the balance test passed on the wrapped
    value, GasLimit < codeLenGas asked for GasLimit*GasPrice = 2^60 > balance, the transfer was refused
    and the failed transaction paid nothing; now the whole balance (10^8 ONG here) is charged. *)
Example c05_overflow_code_gas :
  let tx := mkTx ex_payer true 1099511627776 1048576 859136 false in
  let r := handle_invoke ex_env tx ex_ip (cache_reset (ex_s 100000000000000000000000000%Z)) in
  get_balance (cache_reset (ex_s 100000000000000000000000000%Z)) ex_payer = Some 100000000000000000 /\
  FEE_MIN_TRANSACTION_GAS * t_price tx < two64 /\ t_limit tx * t_price tx < two64 /\
  two64 <= code_len_gas (t_codelen tx) FEE_UINT_INVOKE_CODE_LEN_GAS * t_price tx /\
  r_status r = StFail /\ r_req r = Some 100000000000000000 /\ r_gas r = 100000000000000000 /\
  bal_in (abs_block (r_state r)) ex_payer = Some 0%Z.
Proof. vm_compute. repeat split; try reflexivity; discriminate. Qed.

(** Overflowing products, part three (the hang): GasPrice = 2^63, code of 2100 bytes (codeLenGas
    40000), GasLimit 10^7. Both products are multiples of 2^64: before 667fe5ca both tests passed on
    0, available gas was balance/2^63 = 0 and the engine was handed 0 - 40000 = 2^64 - 40000 gas.
    Now the interpreter is not consulted at all ([fun _ _ => None]) and the balance is charged. *)
Example c05_overflow_no_engine :
  let r := handle_invoke ex_env (mkTx ex_payer true 9223372036854775808 10000000 2100 false) (fun _ _ => None)
              (cache_reset (ex_s 1000000000000000000%Z)) in
  u64sub 0 40000 = 18446744073709511616 /\ r_status r = StFail /\ r_gas r = 1000000000.
Proof. vm_compute. repeat split; reflexivity. Qed.

(** GasPrice = 2^59 (the repaired division by zero): the wrapped unit is 0 and the product overflows, the failing
    transaction is charged the whole balance it had (1 ONG) and reports exactly that. *)
Example c05_round_zero_example :
  let r := handle_invoke ex_env (mkTx ex_payer true 576460752303423488 20000 1 false) ex_ip0
              (cache_reset (ex_s 1000000000000000000%Z)) in
  fee_fail_round 576460752303423488 = 0 /\ safe_mul FEE_MIN_TRANSACTION_GAS 576460752303423488 = (0, true) /\
  r_status r = StFail /\ r_gas r = 1000000000 /\ r_fee_events r = [1000000000] /\
  bal_in (abs_block (r_state r)) ex_payer = Some 0%Z.
Proof. vm_compute. repeat split; reflexivity. Qed.

(** * Deploy transactions (outside the property's quantifier): the same statement is FALSE

    HandleDeployTransaction charges the fee through the transaction cache and commits it BEFORE it
    looks the contract up; when the contract was destroyed earlier it then returns an error without
    having written GasConsumed or the transfer event to the notify. The failed transaction has paid
    gasLimit*GasPrice, reports 0 and records no event. Replayed on the implementation by the driver
    (witness deploy-destroyed; known finding deploy:redeploy-destroyed-fee-unreported). *)
Definition c05_deploy_statement : Prop :=
  forall create unit d s, wf_state s = true ->
    r_status (handle_deploy create unit d (cache_reset s)) = StFail ->
    only_fee (t_payer (d_tx d)) s (handle_deploy create unit d (cache_reset s)).

Definition ex_dep : deptx := mkDep (mkTx ex_payer true 2500 30000000 30 false) [7;7;7] [1;2;3].
(** payer: 100 ONG; the contract [7;7;7] carries a destroyed marker *)
Definition ex_sd : state :=
  mkState [] []
          [(pkey pfx gov_key, rec_of 7500000000000000000%Z);
           (pkey pfx (ong_key ex_payer), rec_of 100000000000000000000%Z);
           (pkey FEE_ST_DESTROYED [7;7;7], [9;0;0;0])].

Theorem c05_deploy_refuted : ~ c05_deploy_statement.
Proof.
  intro H.
  specialize (H (Some FEE_CONTRACT_CREATE_GAS) (Some FEE_UINT_DEPLOY_CODE_LEN_GAS) ex_dep ex_sd).
  assert (W : wf_state ex_sd = true) by (vm_compute; reflexivity).
  assert (F : r_status (handle_deploy (Some FEE_CONTRACT_CREATE_GAS) (Some FEE_UINT_DEPLOY_CODE_LEN_GAS) ex_dep (cache_reset ex_sd)) = StFail)
    by (vm_compute; reflexivity).
  destruct (H W F) as (_ & _ & _ & [[_ E]|[E _]]).
  - vm_compute in E. discriminate E.
  - vm_compute in E. apply E. reflexivity.
Qed.
Print Assumptions c05_deploy_refuted.

(** what happened in the witness: FAIL, GasConsumed 0, no event, 50 ONG gone from the payer *)
Example c05_deploy_refuted_witness :
  let r := handle_deploy (Some FEE_CONTRACT_CREATE_GAS) (Some FEE_UINT_DEPLOY_CODE_LEN_GAS) ex_dep (cache_reset ex_sd) in
  r_status r = StFail /\ r_gas r = 0 /\ r_events r = 0 /\
  bal_in (abs_block ex_sd) ex_payer = Some 100000000000000000000%Z /\
  bal_in (abs_block (r_state r)) ex_payer = Some 50000000000000000000%Z /\
  bal_in (abs_block (r_state r)) FEE_GOV_ADDR = Some 57500000000000000000%Z.
Proof. vm_compute. repeat split; reflexivity. Qed.
