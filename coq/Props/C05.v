(** C05 placeholder (work in progress) *)
From Coq Require Import List NArith.
From Ont Require Import Model.Fee.
Theorem c05_placeholder : True. Proof. exact I. Qed.
Print Assumptions c05_placeholder.
