(** C07 -- EVM transactions conserve ONG and advance the sender nonce by one.

    Model: Model/EvmEnvelope.v (state_transition.go, state_processor.go, HandleEIP155Transaction,
    the StateDB balance / nonce / suicide / commit calls, OngBalanceHandle), with every formula and
    branch condition of state_transition.go taken from Gen/EvmEnvelopeGen.v (regenerated from the
    source on every run).  The EVM interpreter is NOT modelled: it is the function [run], and the
    theorems assume, about the ONE interpreter invocation a transaction makes ([invocation]):

      H_gas    left-over gas <= gas supplied
      H_sum U  (H1) the invocation conserves the ONG sum over U
      H_nonce  evm.Create advances the sender nonce by one, evm.Call leaves it alone
      H_debit  the sender is debited by at most the transferred value
      H_alive  the sender is not self-destructed
      H_revert (H2) a failing invocation leaves balances, nonces, code flags and the suicide set as
               at its snapshot and the refund counter at 0

    The harness checks each of them on every observed invocation of the real interpreter.

    PARTIAL: [c07_statement] below (the property for a given interpreter, no hypothesis) is proved
    as [c07_envelope_partial] under these hypotheses and outside the compensation height.  It is
    REFUTED for the unchanged code in two ways, both replayed on the implementation by the driver:
      - [c07_refuted_by_selfdestruct_self]: SELFDESTRUCT with beneficiary = self burns the contract
        balance (H_sum fails for that invocation)                  class evm:selfdestruct-to-self-burns-ong
      - [c07_refuted_at_refund_height]: at height RefundHeight handleGasFee mints RefundValue for
        an under-funded sender on every chain id                   class evm:refund-height-mints-ong *)
From Coq Require Import List Bool NArith Lia String.
Import ListNotations.
From Ont Require Import Gen.EvmEnvelopeGen Model.EvmEnvelope Model.EvmFrames Proofs.C07 Proofs.C07Frames.
Local Open Scope N_scope.

Section Statement.
  Variable R : Type.
  Variable clean : (addr -> bool) -> R -> R.
  Variable run : bool -> state R -> msg -> N -> run_result R.

  (** The property, for an interpreter [run]: every transaction, every pre-state, every finite set
      of accounts containing the sender and the fee receiver. *)
  Definition c07_statement : Prop :=
    forall (e : env) (s : state R) (m : msg) (U : list addr),
      wf_msg m -> NoDup U -> In (m_from m) U -> In (gas_receiver e) U ->
      (forall a, suicided s a = false) -> nonce s (m_from m) + 1 < U64 ->
      let out := handle_eip155 clean run e s m in
      (* ONG total unchanged on non-mainnet chain ids *)
      (chain_id e <> EIP155_CHAINID_MAINNET -> total U (snd out) = total U s) /\
      (* charged at most gasLimit * gasPrice + value *)
      bal s (m_from m) <= bal (snd out) (m_from m) + m_gas m * m_price m + m_value m /\
      (* nonce + 1 whenever the transaction is applied, EVM success or failure alike *)
      (forall r, fst out = OOk r -> nonce (snd out) (m_from m) = nonce s (m_from m) + 1) /\
      (* a nonce mismatch is rejected without any state change *)
      (m_check_nonce m = true -> nonce s (m_from m) <> m_nonce m ->
         exists err, out = (OErr err, s)).

  (** What is proved: the same four clauses under the invocation hypotheses, the first one outside
      the compensation height. *)
  Theorem c07_envelope_partial :
    forall (e : env) (s : state R) (m : msg) (U : list addr),
      wf_msg m -> NoDup U -> In (m_from m) U -> In (gas_receiver e) U ->
      (forall a, suicided s a = false) -> nonce s (m_from m) + 1 < U64 ->
      H_gas R run e s m -> H_sum R run U e s m -> H_nonce R run e s m ->
      H_debit R run e s m -> H_alive R run e s m ->
      let out := handle_eip155 clean run e s m in
      (chain_id e <> EIP155_CHAINID_MAINNET -> height e <> REFUND_HEIGHT ->
         total U (snd out) = total U s) /\
      bal s (m_from m) <= bal (snd out) (m_from m) + m_gas m * m_price m + m_value m /\
      (forall r, fst out = OOk r -> nonce (snd out) (m_from m) = nonce s (m_from m) + 1) /\
      (m_check_nonce m = true -> nonce s (m_from m) <> m_nonce m ->
         exists err, out = (OErr err, s)).
  Proof.
    intros e s m U Hwf Hnd Hf Hr Hsu Hmax Hg Hs Hn Hd Ha out. repeat split.
    - intros Hc Hh. exact (ong_conserved R clean run U e s m Hwf Hnd Hf Hr Hc Hh Hg Hs).
    - exact (charge_bound R clean run e s m Hwf Hg Hd).
    - intros r Hok. exact (nonce_advances R clean run e s m r Hwf Hn Ha (Hsu _) Hmax Hok).
    - intros Hc Hne. eexists. exact (nonce_mismatch_rejected R clean run e s m Hc Hne).
  Qed.
End Statement.
Print Assumptions c07_envelope_partial.

(** The clauses one by one, each with exactly the hypotheses it needs. *)

Theorem c07_ong_conserved_partial :
  forall R clean run U e (s : state R) m,
    wf_msg m -> NoDup U -> In (m_from m) U -> In (gas_receiver e) U ->
    chain_id e <> EIP155_CHAINID_MAINNET -> height e <> REFUND_HEIGHT ->
    H_gas R run e s m -> H_sum R run U e s m ->
    total U (snd (handle_eip155 clean run e s m)) = total U s.
Proof. exact ong_conserved. Qed.
Print Assumptions c07_ong_conserved_partial.

(** Exact accounting on every chain id and height: the sum changes by [mint - dust] where dust is
    the remainder the pre-fix mainnet branch of buyGas keeps and mint the compensation payment. *)
Theorem c07_ong_accounting_partial :
  forall R clean run U e (s : state R) m,
    wf_msg m -> NoDup U -> In (m_from m) U -> In (gas_receiver e) U ->
    H_gas R run e s m -> H_sum R run U e s m ->
    exists dust mint,
      total U (snd (handle_eip155 clean run e s m)) + dust = total U s + mint /\
      (buygas_fixed (chain_id e) (height e) = true -> dust = 0) /\
      dust <= bal s (m_from m) /\
      (height e <> REFUND_HEIGHT -> mint = 0) /\ mint <= REFUND_VALUE.
Proof. exact ong_accounting. Qed.
Print Assumptions c07_ong_accounting_partial.

Theorem c07_charge_bound_partial :
  forall R clean run e (s : state R) m,
    wf_msg m -> H_gas R run e s m -> H_debit R run e s m ->
    bal s (m_from m) <= bal (snd (handle_eip155 clean run e s m)) (m_from m) + m_gas m * m_price m + m_value m.
Proof. exact charge_bound. Qed.
Print Assumptions c07_charge_bound_partial.

Theorem c07_nonce_advances_partial :
  forall R clean run e (s : state R) m r,
    wf_msg m -> H_nonce R run e s m -> H_alive R run e s m ->
    suicided s (m_from m) = false -> nonce s (m_from m) + 1 < U64 ->
    fst (handle_eip155 clean run e s m) = OOk r ->
    nonce (snd (handle_eip155 clean run e s m)) (m_from m) = nonce s (m_from m) + 1.
Proof. exact nonce_advances. Qed.
Print Assumptions c07_nonce_advances_partial.

(** Histories: any sequence of transactions applied one after the other on the same overlay (as
    the transaction loop of a block does), the hypotheses required of each transaction in the
    state it meets. *)
Theorem c07_sequence_conserved_partial :
  forall R clean run U e (s : state R) ms,
    NoDup U -> In (gas_receiver e) U ->
    chain_id e <> EIP155_CHAINID_MAINNET -> height e <> REFUND_HEIGHT ->
    steps_ok R clean run U e s ms -> total U (apply_all clean run e s ms) = total U s.
Proof. exact sequence_conserved. Qed.
Print Assumptions c07_sequence_conserved_partial.

(** No hypothesis about the interpreter is needed for the rejection clause: full strength. *)
Theorem c07_nonce_mismatch_rejected :
  forall R clean run e (s : state R) m,
    m_check_nonce m = true -> nonce s (m_from m) <> m_nonce m ->
    handle_eip155 clean run e s m =
      (OErr (if nonce s (m_from m) <? m_nonce m then ErrNonceTooHigh else ErrNonceTooLow), s).
Proof. exact nonce_mismatch_rejected. Qed.
Print Assumptions c07_nonce_mismatch_rejected.

(** "moves ONG only between the sender, the recipients of value transfers and the fee receiver":
    outside the interpreter only the sender and the fee receiver are touched (full strength). *)
Theorem c07_envelope_frame :
  forall R clean run e (s : state R) m a,
    a <> m_from m -> a <> gas_receiver e ->
    bal (snd (handle_eip155 clean run e s m)) a = bal (after_run run e s m) a /\
    (forall c s0 g, invocation e s m = Some (c, s0, g) -> bal s0 a = bal s a) /\
    (invocation e s m = None -> bal (after_run run e s m) a = bal s a).
Proof. exact envelope_frame. Qed.
Print Assumptions c07_envelope_frame.

Theorem c07_fee_exact_partial :
  forall R clean run e (s : state R) m r,
    wf_msg m -> H_gas R run e s m -> m_from m <> gas_receiver e ->
    fst (handle_eip155 clean run e s m) = OOk r ->
    bal (snd (handle_eip155 clean run e s m)) (gas_receiver e)
      = bal (after_run run e s m) (gas_receiver e) + used_gas r * m_price m /\
    used_gas r <= m_gas m.
Proof. exact fee_exact. Qed.
Print Assumptions c07_fee_exact_partial.

(** Revert / out of gas / intrinsic-gas failure: the sender pays exactly usedGas * gasPrice to the
    fee receiver and nothing else changes (uses H2). *)
Theorem c07_failed_tx_only_fee_partial :
  forall R clean run e (s : state R) m r,
    wf_msg m -> H_gas R run e s m -> H_revert R run e s m ->
    (forall a, suicided s a = false) -> m_from m <> gas_receiver e ->
    buygas_fixed (chain_id e) (height e) = true -> height e <> REFUND_HEIGHT ->
    fst (handle_eip155 clean run e s m) = OOk r -> vm_error r <> None ->
    let s' := snd (handle_eip155 clean run e s m) in
    bal s' (m_from m) + used_gas r * m_price m = bal s (m_from m) /\
    bal s' (gas_receiver e) = bal s (gas_receiver e) + used_gas r * m_price m /\
    (forall a, a <> m_from m -> a <> gas_receiver e -> bal s' a = bal s a) /\
    (forall a, a <> m_from m -> nonce s' a = nonce s a) /\
    (forall a, has_code s' a = has_code s a).
Proof. exact failed_tx_only_fee. Qed.
Print Assumptions c07_failed_tx_only_fee_partial.

(** The envelope itself never produces a storage error (buyGas cannot underflow). *)
Theorem c07_accepted_gives_result_partial :
  forall R clean run e (s : state R) m,
    wf_msg m -> dberr s = false -> H_nodberr R run e s m ->
    m_check_nonce m = false \/ nonce s (m_from m) = m_nonce m ->
    exists r, fst (handle_eip155 clean run e s m) = OOk r.
Proof. exact accepted_gives_result. Qed.
Print Assumptions c07_accepted_gives_result_partial.

(** SELFDESTRUCT as modelled from opSuicide + StateDB.Suicide. *)
Theorem c07_selfdestruct_other_conserves :
  forall R U (s : state R) self ben,
    NoDup U -> In self U -> In ben U -> self <> ben -> account_empty s self = false ->
    total U (op_selfdestruct s self ben) = total U s.
Proof. exact selfdestruct_other_conserves. Qed.
Print Assumptions c07_selfdestruct_other_conserves.

Theorem c07_selfdestruct_self_burns :
  forall R U (s : state R) self,
    NoDup U -> In self U -> account_empty s self = false ->
    total U (op_selfdestruct s self self) + bal s self = total U s.
Proof. exact selfdestruct_self_burns. Qed.
Print Assumptions c07_selfdestruct_self_burns.

(** Plain value transfers and creations with an interpreter that only moves the value
    ([run_plain]): the whole statement with NO hypothesis about the interpreter left. *)
Theorem c07_plain_transfers :
  forall e (s : state unit) m U,
    wf_msg m -> NoDup U -> In (m_from m) U -> In (gas_receiver e) U ->
    (forall to, m_to m = Some to -> In to U) ->
    (forall a, suicided s a = false) -> nonce s (m_from m) + 1 < U64 ->
    let out := handle_eip155 clean0 run_plain e s m in
    (chain_id e <> EIP155_CHAINID_MAINNET -> height e <> REFUND_HEIGHT -> total U (snd out) = total U s) /\
    bal s (m_from m) <= bal (snd out) (m_from m) + m_gas m * m_price m + m_value m /\
    (forall r, fst out = OOk r -> nonce (snd out) (m_from m) = nonce s (m_from m) + 1) /\
    (m_check_nonce m = true -> nonce s (m_from m) <> m_nonce m -> exists err, out = (OErr err, s)).
Proof.
  intros e s m U Hwf Hnd Hf Hr Ht Hsu Hmax.
  apply (c07_envelope_partial unit clean0 run_plain e s m U Hwf Hnd Hf Hr Hsu Hmax).
  - apply run_plain_gas.
  - now apply run_plain_sum.
  - apply run_plain_nonce.
  - apply run_plain_debit.
  - apply run_plain_alive; auto.
Qed.
Print Assumptions c07_plain_transfers.

(** * Every program.

    Model/EvmFrames.v interprets the interpreter invocation as the tree of frames it opens (CALL,
    CALLCODE, DELEGATECALL, STATICCALL, CREATE/CREATE2 with their values and success flags) and the
    SELFDESTRUCTs it executes -- every balance / nonce write the interpreter can make.  For EVERY
    such tree [o] the hypotheses H_sum, H_nonce, H_debit, H_alive (and H_revert) are theorems
    (Proofs/C07Frames.v); what is left is H_gas (gas is not modelled) and the faithfulness of the
    tree abstraction (checked by the harness: the tree recorded by the tracer, run by the model,
    must reproduce the state observed when the interpreter returned). *)

(** The calls that write balances, nonces, code or the suicide set in vm/evm/*.go and
    smartcontract/service/evm/*.go (inventory regenerated from the source) are exactly the ones the
    two models mirror. *)
Theorem c07_write_sites_as_modelled : List.length STATE_WRITE_SITES = 16%nat /\
  List.map (fun x => snd (fst x)) STATE_WRITE_SITES =
  ["Call"; "StaticCall"; "create"; "create"; "create"; "create"; "opSuicide"; "opSuicide"; "Transfer"; "Transfer";
   "buyGas"; "handleGasFee"; "TransitionDb"; "TransitionDb"; "TransitionDb"; "refundGas"]%string.
Proof. rewrite write_sites_as_modelled. split; reflexivity. Qed.
Print Assumptions c07_write_sites_as_modelled.

(** The four clauses for every program that does not SELFDESTRUCT to its own address. *)
Theorem c07_all_programs_partial :
  forall R clean (e : env) (s : state R) (m : msg) (U : list addr) (o : frame_oracle),
    wf_msg m -> NoDup U -> In (m_from m) U -> In (gas_receiver e) U ->
    In (tree_target m o) U -> incl (addrs_l (fo_body o)) U ->
    (forall a, suicided s a = false) -> has_code s (m_from m) = false ->
    (forall a, nonce s a + 2 + creates_l (fo_body o) < U64) ->
    H_gas R (run_of_tree (height e) o) e s m ->
    no_sd_self_l (tree_target m o) (fo_body o) = true ->
    let out := handle_eip155 clean (run_of_tree (height e) o) e s m in
    (chain_id e <> EIP155_CHAINID_MAINNET -> height e <> REFUND_HEIGHT -> total U (snd out) = total U s) /\
    bal s (m_from m) <= bal (snd out) (m_from m) + m_gas m * m_price m + m_value m /\
    (forall r, fst out = OOk r -> nonce (snd out) (m_from m) = nonce s (m_from m) + 1) /\
    (m_check_nonce m = true -> nonce s (m_from m) <> m_nonce m -> exists err, out = (OErr err, s)).
Proof.
  intros R clean e s m U o Hwf Hnd Hf Hr Ht Hb Hsu Hc Hroom Hg Hn.
  assert (Hmax : nonce s (m_from m) + 1 < U64) by (pose proof (Hroom (m_from m)); lia).
  apply (c07_envelope_partial R clean (run_of_tree (height e) o) e s m U Hwf Hnd Hf Hr Hsu Hmax Hg).
  - apply (tree_sum R e s m o Hwf Hroom U Hnd Hf Ht Hb Hn).
  - apply (tree_nonce R e s m o Hwf Hc (Hsu _) Hroom).
  - apply (tree_debit R e s m o Hwf Hc (Hsu _) Hroom).
  - apply (tree_alive R e s m o Hwf Hc (Hsu _) Hroom).
Qed.
Print Assumptions c07_all_programs_partial.

(** Whatever the program does (SELFDESTRUCT to itself included) no ONG is ever created: the sum
    can only go down, the compensation payment at RefundHeight aside. *)
Theorem c07_programs_never_mint_partial :
  forall R clean (e : env) (s : state R) (m : msg) (U : list addr) (o : frame_oracle),
    wf_msg m -> NoDup U -> In (m_from m) U -> In (gas_receiver e) U ->
    In (tree_target m o) U -> incl (addrs_l (fo_body o)) U ->
    (forall a, nonce s a + 2 + creates_l (fo_body o) < U64) ->
    H_gas R (run_of_tree (height e) o) e s m ->
    exists mint,
      total U (snd (handle_eip155 clean (run_of_tree (height e) o) e s m)) <= total U s + mint /\
      (height e <> REFUND_HEIGHT -> mint = 0) /\ mint <= REFUND_VALUE.
Proof.
  intros R clean e s m U o Hwf Hnd Hf Hr Ht Hb Hroom Hg.
  apply (ong_never_minted R clean _ U e s m Hwf Hnd Hf Hr Hg).
  apply (tree_sum_le R e s m o Hwf Hroom U Hnd Hf Ht Hb).
Qed.
Print Assumptions c07_programs_never_mint_partial.

(** A transaction whose top frame fails (revert, out of gas, invalid opcode, ...) costs the fee
    and changes nothing else, for every program: H2 is a theorem of the frame model. *)
Theorem c07_failed_program_only_fee_partial :
  forall R clean (e : env) (s : state R) (m : msg) (o : frame_oracle) r,
    wf_msg m -> (forall a, suicided s a = false) -> has_code s (m_from m) = false ->
    (forall a, nonce s a + 2 + creates_l (fo_body o) < U64) ->
    H_gas R (run_of_tree (height e) o) e s m -> oracle_ok o ->
    m_from m <> gas_receiver e ->
    buygas_fixed (chain_id e) (height e) = true -> height e <> REFUND_HEIGHT ->
    let out := handle_eip155 clean (run_of_tree (height e) o) e s m in
    fst out = OOk r -> vm_error r <> None ->
    bal (snd out) (m_from m) + used_gas r * m_price m = bal s (m_from m) /\
    bal (snd out) (gas_receiver e) = bal s (gas_receiver e) + used_gas r * m_price m /\
    (forall a, a <> m_from m -> a <> gas_receiver e -> bal (snd out) a = bal s a) /\
    (forall a, a <> m_from m -> nonce (snd out) a = nonce s a) /\
    (forall a, has_code (snd out) a = has_code s a).
Proof.
  intros R clean e s m o r Hwf Hsu Hc Hroom Hg Ho Hne Hfix Hh out.
  apply (failed_tx_only_fee R clean _ e s m r Hwf Hg); try assumption.
  apply (tree_revert R e s m o Hwf Hc (Hsu _) Hroom Ho).
Qed.
Print Assumptions c07_failed_program_only_fee_partial.

(** Repeated SELFDESTRUCT.  In the model StateDB.Suicide zeroes the balance on every call, also for
    a contract already in the suicide set: *)
Theorem c07_selfdestruct_zeroes_every_time :
  forall R (s : state R) self ben,
    account_empty s self = false -> bal (op_selfdestruct s self ben) self = 0.
Proof. exact selfdestruct_zeroes_every_time. Qed.
Print Assumptions c07_selfdestruct_zeroes_every_time.

(** The double-SELFDESTRUCT tree: the sender (1) calls a driver (4) with value 500; the driver CALLs
    the victim (3, holding 31, code PUSH20 5 SELFDESTRUCT) with value 0 -- it self-destructs to 5 --
    and CALLs it again with the 500 -- its code still runs within the transaction, it self-destructs
    again.  No SELFDESTRUCT names its own context, so [c07_all_programs_partial] (conservation) and
    [c07_programs_never_mint_partial] cover this tree like any other; here is the instance of the
    underlying induction ([sum_effect]), with the balances: the victim ends with 0 both times, the
    beneficiary holds 31 + 500.  A StateDB.Suicide that skipped the zeroing for an address already in
    the suicide set would leave 500 with the victim AND with the beneficiary; the harness records the
    victim's balance right after every SELFDESTRUCT and compares it with this model (Corr/C07.v,
    [run_log]). *)
Definition st_double : state unit :=
  mkState (fun a => if a =? 1 then 1000000 else if a =? 3 then 31 else 0)
          (fun a => if a =? 1 then 8 else if (a =? 3) || (a =? 4) then 1 else 0)
          (fun a => (a =? 3) || (a =? 4)) (fun _ => false) false tt.
Definition double_sd_tree : effect :=
  EFrame KCall 4 500 true
    [EFrame KCall 3 0 true [ESelfDestruct 5]; EFrame KCall 3 500 true [ESelfDestruct 5]].
Definition U_double : list addr := [1; 2; 3; 4; 5].

Example c07_double_selfdestruct_conserved :
  let s' := run_effect 100 0 1 st_double double_sd_tree in
  no_sd_self 1 double_sd_tree = true /\
  total U_double s' = total U_double st_double /\
  bal s' 3 = 0 /\ bal s' 5 = 531 /\ bal s' 4 = 0 /\ suicided s' 3 = true.
Proof.
  cbv zeta. split; [reflexivity|]. split; [|vm_compute; repeat split].
  assert (Hnd : NoDup U_double) by (repeat constructor; cbn; intuition discriminate).
  apply (sum_effect unit 100 U_double Hnd double_sd_tree 0 1 st_double).
  - cbn; auto.
  - intros x Hx. cbn in Hx. cbn. intuition.
  - intros a. rewrite U64_val. cbn [st_double nonce].
    destruct (a =? 1); [|destruct ((a =? 3) || (a =? 4))%bool]; vm_compute; reflexivity.
  - discriminate.
  - reflexivity.
Qed.

(** * Refutations and sharpness (concrete witnesses; the driver replays each on the implementation) *)

(* accounts: 1 = sender (nonce 7), 2 = fee receiver, 3 = callee *)
Definition wei_price : N := 2500 * GWEI.

Lemma U0_nodup : NoDup U0.
Proof. repeat constructor; cbn; intuition discriminate. Qed.

(** KNOWN FINDING evm:selfdestruct-to-self-burns-ong.  The callee holds 5000 and has code
    ADDRESS SELFDESTRUCT; the call carries value 7.  All other hypotheses hold for this interpreter,
    the sum over {sender, fee receiver, callee} drops by 5007. *)
Theorem c07_refuted_by_selfdestruct_self : ~ c07_statement unit clean0 run_selfdestruct_self.
Proof.
  intros H.
  assert (W1 : wf_msg (msg0 100000 wei_price 7)) by (repeat split; rewrite U64_val; vm_compute; reflexivity).
  assert (W6 : nonce (st0 1000000000000000000 5000 true) (m_from (msg0 100000 wei_price 7)) + 1 < U64)
    by (rewrite U64_val; vm_compute; reflexivity).
  destruct (H (polaris 100) (st0 1000000000000000000 5000 true) (msg0 100000 wei_price 7) U0
              W1 U0_nodup (or_introl eq_refl) (or_intror (or_introl eq_refl)) (fun _ => eq_refl) W6) as (Hc & _).
  assert (Hne : chain_id (polaris 100) <> EIP155_CHAINID_MAINNET) by (vm_compute; discriminate).
  specialize (Hc Hne). vm_compute in Hc. discriminate.
Qed.
Print Assumptions c07_refuted_by_selfdestruct_self.

(** The same witness with the interpreter given as its effect tree (code ADDRESS SELFDESTRUCT:
    one SELFDESTRUCT whose beneficiary is the callee itself). *)
Theorem c07_refuted_by_selfdestruct_self_tree :
  ~ c07_statement unit clean0 (run_of_tree 100 (mkFO 3 true [ESelfDestruct 3] 73998 24000 None)).
Proof.
  intros H.
  assert (W1 : wf_msg (msg0 100000 wei_price 7)) by (repeat split; rewrite U64_val; vm_compute; reflexivity).
  assert (W6 : nonce (st0 1000000000000000000 5000 true) (m_from (msg0 100000 wei_price 7)) + 1 < U64)
    by (rewrite U64_val; vm_compute; reflexivity).
  destruct (H (polaris 100) (st0 1000000000000000000 5000 true) (msg0 100000 wei_price 7) U0
              W1 U0_nodup (or_introl eq_refl) (or_intror (or_introl eq_refl)) (fun _ => eq_refl) W6) as (Hc & _).
  assert (Hne : chain_id (polaris 100) <> EIP155_CHAINID_MAINNET) by (vm_compute; discriminate).
  specialize (Hc Hne). vm_compute in Hc. discriminate.
Qed.
Print Assumptions c07_refuted_by_selfdestruct_self_tree.

(** Which hypothesis breaks: H1, and only H1. *)
Theorem h1_refuted_by_selfdestruct_self :
  let e := polaris 100 in
  let s := st0 1000000000000000000 5000 true in
  let m := msg0 100000 wei_price 7 in
  ~ H_sum unit run_selfdestruct_self U0 e s m /\
  H_gas unit run_selfdestruct_self e s m /\ H_nonce unit run_selfdestruct_self e s m /\
  H_debit unit run_selfdestruct_self e s m /\ H_alive unit run_selfdestruct_self e s m /\
  total U0 (snd (handle_eip155 clean0 run_selfdestruct_self e s m)) + 5007 = total U0 s.
Proof.
  cbv zeta.
  assert (Hinv : exists c s0 g,
            invocation (polaris 100) (st0 1000000000000000000 5000 true) (msg0 100000 wei_price 7) = Some (c, s0, g))
    by (vm_compute; eauto).
  refine (conj _ (conj _ (conj _ (conj _ (conj _ _))))).
  - intros Hs. destruct Hinv as (c & s0 & g & Hi). specialize (Hs c s0 g Hi).
    vm_compute in Hi. inversion Hi; subst. vm_compute in Hs. discriminate.
  - intros c s0 g Hi. vm_compute in Hi. inversion Hi; subst. vm_compute. discriminate.
  - intros c s0 g Hi. vm_compute in Hi. inversion Hi; subst. vm_compute. reflexivity.
  - intros c s0 g Hi. vm_compute in Hi. inversion Hi; subst. vm_compute. discriminate.
  - intros c s0 g Hi. vm_compute in Hi. inversion Hi; subst. vm_compute. reflexivity.
  - vm_compute. reflexivity.
Qed.
Print Assumptions h1_refuted_by_selfdestruct_self.

(** KNOWN FINDING evm:refund-height-mints-ong.  A plain transfer by a sender that cannot pay
    gasLimit * gasPrice, at height RefundHeight on a NON-mainnet chain id: handleGasFee credits
    RefundValue out of nothing.  The interpreter here is the harmless [run_plain]. *)
Theorem c07_refuted_at_refund_height : ~ c07_statement unit clean0 run_plain.
Proof.
  intros H.
  assert (W1 : wf_msg (msg0 100000 wei_price 0)) by (repeat split; rewrite U64_val; vm_compute; reflexivity).
  assert (W6 : nonce (st0 (30000 * wei_price + 5) 0 false) (m_from (msg0 100000 wei_price 0)) + 1 < U64)
    by (rewrite U64_val; vm_compute; reflexivity).
  destruct (H (polaris REFUND_HEIGHT) (st0 (30000 * wei_price + 5) 0 false) (msg0 100000 wei_price 0) U0
              W1 U0_nodup (or_introl eq_refl) (or_intror (or_introl eq_refl)) (fun _ => eq_refl) W6) as (Hc & _).
  assert (Hne : chain_id (polaris REFUND_HEIGHT) <> EIP155_CHAINID_MAINNET) by (vm_compute; discriminate).
  specialize (Hc Hne). vm_compute in Hc. discriminate.
Qed.
Print Assumptions c07_refuted_at_refund_height.

Theorem c07_refund_height_mints_exactly :
  let e := polaris REFUND_HEIGHT in
  let s := st0 (30000 * wei_price + 5) 0 false in
  let m := msg0 100000 wei_price 0 in
  total U0 (snd (handle_eip155 clean0 run_plain e s m)) = total U0 s + REFUND_VALUE.
Proof. vm_compute. reflexivity. Qed.
Print Assumptions c07_refund_height_mints_exactly.

(** Sharpness of "on non-mainnet chain ids": on chain id 58 before height 15380000 the remainder
    [balance mod gasPrice] of an under-funded sender disappears (documented in the property text;
    not a finding). *)
Theorem c07_mainnet_dust_burned :
  let e := mainnet 100 in
  let s := st0 (30000 * wei_price + 5) 0 false in
  let m := msg0 100000 wei_price 0 in
  total U0 (snd (handle_eip155 clean0 run_plain e s m)) + 5 = total U0 s.
Proof. vm_compute. reflexivity. Qed.
Print Assumptions c07_mainnet_dust_burned.

(** Non-vacuity: a funded sender, a transfer of 12345 to account 3 on a non-mainnet chain: every
    hypothesis of [c07_envelope_partial] holds and the conclusion is the concrete post-state. *)
Example c07_nonvacuous :
  let e := polaris 100 in
  let s := st0 1000000000000000000 40 false in
  let m := msg0 30000 wei_price 12345 in
  let out := handle_eip155 clean0 run_plain e s m in
  fst out = OOk (mkRes 21000 None) /\
  total U0 (snd out) = total U0 s /\
  nonce (snd out) 1 = 8 /\
  bal (snd out) 3 = 40 + 12345 /\
  bal (snd out) 2 = 21000 * wei_price /\
  bal (snd out) 1 + 21000 * wei_price + 12345 = bal s 1.
Proof.
  cbv zeta.
  assert (W1 : wf_msg (msg0 30000 wei_price 12345)) by (repeat split; rewrite U64_val; vm_compute; reflexivity).
  assert (W6 : nonce (st0 1000000000000000000 40 false) (m_from (msg0 30000 wei_price 12345)) + 1 < U64)
    by (rewrite U64_val; vm_compute; reflexivity).
  assert (W5 : forall to, m_to (msg0 30000 wei_price 12345) = Some to -> In to U0)
    by (intros to Hto; inversion Hto; subst; cbn; auto).
  destruct (c07_plain_transfers (polaris 100) (st0 1000000000000000000 40 false) (msg0 30000 wei_price 12345) U0
              W1 U0_nodup (or_introl eq_refl) (or_intror (or_introl eq_refl)) W5 (fun _ => eq_refl) W6)
    as (Hc & _ & Hn & _).
  split; [vm_compute; reflexivity|].
  split; [apply Hc; vm_compute; discriminate|].
  split; [apply (Hn (mkRes 21000 None)); vm_compute; reflexivity|].
  refine (conj _ (conj _ _)); vm_compute; reflexivity.
Qed.
