(** C42 — Pre-execution never changes persisted state.

    "Pre-executing any transaction or EVM call through the read-only interfaces returns a result
    without changing any persisted ledger state, height, or event record."  Quantifier: all invoke,
    deploy and EIP-155 transactions (including ones that write storage or transfer tokens)
    pre-executed against a ledger.

    Model: Model/PreExec.v over Model/KV.v. The ledger record holds the three LevelDB stores with
    their pending batches, the merkle file, the current block and the process-global gas table. A
    transaction enters as an arbitrary adaptive program over the operations an engine can perform
    on the CacheDB / OverlayDB it is handed and the LedgerStore getters: the theorems quantify over
    ALL such programs (every NeoVM / native / EVM behaviour, writers and token transfers included),
    all ledgers, all parameters. The tie to the source is (a) Gen/PreExecGen.v, re-read from
    ledger_store.go / tx_handler.go / state_store.go on every run: the calls reachable from each
    entry point, classified in Model/PreExec.v ([call_table]) — theorems (7)-(9) re-check against
    it; (b) the correspondence Corr/C42.v; (c) the digest oracle of the driver. *)
From Coq Require Import List Bool NArith String.
Import ListNotations.
From Ont Require Import Lib.Bytes Model.KV Proofs.KV Model.PreExec Proofs.PreExec.
From Ont Require Import Gen.PreExecGen.
Local Open Scope N_scope.

(** (1) DESIGN §5 C42: every history of operations on (cache, overlay) that does not perform the
    overlay commit (OverlayDB.CommitTo + BatchCommit) leaves the store layer exactly as it was —
    for every CacheDB key prefix, every starting stack, every interleaving of puts, deletes, gets,
    iterations, cache commits and resets. *)
Theorem c42_history_without_overlay_commit : forall pfx ops s,
  no_ov_commit ops = true -> st_store (fst (impl_run pfx s ops)) = st_store s.
Proof. exact impl_run_store. Qed.
Print Assumptions c42_history_without_overlay_commit.

(** ... and the restriction is necessary: one overlay commit after a committed put changes it. *)
Theorem c42_overlay_commit_changes_store :
  st_store (fst (impl_run 5 (mkState [] [] []) [HPut [1] [2]; HCommit; HOvCommit])) <> [].
Proof. exact overlay_commit_changes_store. Qed.
Print Assumptions c42_overlay_commit_changes_store.

(** (2) Whatever an engine does in a session (any adaptive program: its next operation may depend
    on everything it has read so far), the whole ledger record — the three stores, their pending
    batches, the merkle file, height, current hash, gas table, and the write sets of executed but not
    yet submitted blocks (ExecuteResult.WriteSet, held by consensus between ExecuteBlock and
    SubmitBlock) — is the one the session started on. *)
Theorem c42_session_preserves_ledger : forall (R : Type) (p : prog R) (x : session),
  se_ledger (snd (run_prog p x)) = se_ledger x.
Proof. intros R p x. apply run_prog_ledger. Qed.
Print Assumptions c42_session_preserves_ledger.

(** (3) The entry points. PreExecuteContractWithParam — EIP-155, NeoVM / WASM invoke, deploy and
    any other transaction type, any PrexecuteParam (JitMode, WasmFactor override, MinGas): the
    ledger returned is the ledger given. *)
Theorem c42_pre_execute_with_param_unchanged : forall L t pm,
  snd (pre_execute_with_param L t pm) = L.
Proof. exact pre_execute_with_param_ledger. Qed.
Print Assumptions c42_pre_execute_with_param_unchanged.

Theorem c42_pre_execute_contract_unchanged : forall L t, snd (pre_execute_contract L t) = L.
Proof. exact pre_execute_contract_ledger. Qed.
Print Assumptions c42_pre_execute_contract_unchanged.

(** PreExecuteContractBatch (atomic or not, any list, failing transactions included): ledger
    unchanged, and the height it reports is the ledger's height. *)
Theorem c42_pre_execute_batch_unchanged : forall L txs atomic,
  snd (pre_execute_batch L txs atomic) = L /\
  snd (fst (pre_execute_batch L txs atomic)) = l_height L.
Proof. intros. split; [apply pre_execute_batch_ledger|apply pre_execute_batch_height]. Qed.
Print Assumptions c42_pre_execute_batch_unchanged.

(** PreExecuteEIP155 (ApplyTransaction, whose StateDB.Commit flushes the cache into the overlay)
    and executeEip155Tx (= PreExecuteEip155Tx and TraceEip155Tx, tracer callbacks included in the
    program). *)
Theorem c42_pre_execute_eip155_unchanged : forall L p, snd (pre_execute_eip155 L p) = L.
Proof. exact pre_execute_eip155_ledger. Qed.
Print Assumptions c42_pre_execute_eip155_unchanged.

Theorem c42_execute_eip155_tx_unchanged : forall L p, snd (execute_eip155_tx L p) = L.
Proof. exact execute_eip155_tx_ledger. Qed.
Print Assumptions c42_execute_eip155_tx_unchanged.

(** (4) Consequently pre-executions do not see each other: the result of a pre-execution after
    any other pre-execution is its result on the original ledger. *)
Theorem c42_pre_executions_independent : forall L t1 t2 pm1 pm2,
  pre_execute_with_param (snd (pre_execute_with_param L t1 pm1)) t2 pm2 = pre_execute_with_param L t2 pm2.
Proof. exact pre_execute_independent. Qed.
Print Assumptions c42_pre_executions_independent.

(** (5) "... returns a result": on a well-formed persisted store (sorted, keys are non-empty byte
    strings) the outcome of a pre-executed EIP-155 transaction is exactly the outcome of the same
    engine run against a private plain ordered map initialised with the live persisted entries
    (the three-map specification of C04, through the refinement of Proofs/KV.v) — the engine reads
    its own writes, sees the persisted state underneath, and nothing of it survives. The general
    statement for any session and program: *)
Theorem c42_session_refines_plain_map : forall (R : Type) (p : prog R) (x : session),
  prog_ok p -> good_state (se_state x) = true ->
  fst (run_prog p x) = fst (run_prog_spec (se_ledger x) p (abs_spec (se_state x))) /\
  abs_spec (se_state (snd (run_prog p x))) = snd (run_prog_spec (se_ledger x) p (abs_spec (se_state x))).
Proof. intros R p x Hok Hg. apply run_prog_refines; [exact Hok|apply good_state_good; exact Hg]. Qed.
Print Assumptions c42_session_refines_plain_map.

Theorem c42_pre_execute_eip155_result : forall L p,
  prog_ok p -> good_state (mkState [] [] (ps_data (l_state L))) = true ->
  fst (pre_execute_eip155 L p) = fst (run_prog_spec L p (fresh_spec L)).
Proof. exact pre_execute_eip155_refines. Qed.
Print Assumptions c42_pre_execute_eip155_result.

(** (6) The model can express the violation: the same entry point followed by what the
    block-adding path does with its overlay (NewBatch, OverlayDB.CommitTo, StateStore.CommitTo)
    persists the engine's write. *)
Theorem c42_committing_variant_refuted :
  exists L', pre_execute_eip155_committing empty_ledger writer_prog = Some (Done (mkEvmRes 0 [] 1 []), L')
             /\ ps_data (l_state L') = [([5; 1], [2])] /\ L' <> empty_ledger.
Proof. exact committing_variant_changes_ledger. Qed.
Print Assumptions c42_committing_variant_refuted.

(** (6b) ... and the overlay-recycling violation: if NewOverlayDB hands out (after Reset) the overlay
    whose memdb escaped as a pending ExecuteResult.WriteSet, the pre-execution's committed writes
    replace the pending block's write set (SubmitBlock would persist them instead); the entry point
    as it is leaves that ledger, pending write set included, unchanged. *)
Theorem c42_recycling_variant_refuted :
  l_pending (snd (pre_execute_eip155_recycling pending_ledger writer_prog)) = [[([5; 1], [2])]] /\
  snd (pre_execute_eip155_recycling pending_ledger writer_prog) <> pending_ledger /\
  snd (pre_execute_eip155 pending_ledger writer_prog) = pending_ledger.
Proof. exact recycling_variant_changes_pending. Qed.
Print Assumptions c42_recycling_variant_refuted.

(** (7) Tie to the source. Gen/PreExecGen.v lists, for each of the six entry points, every call
    (and every write to a receiver field or package variable, and every go statement) reachable
    through the functions of package ledgerstore, not descending into the getters of the
    LedgerStore interface. All six are present, every entry of every list is classified by
    [call_table], none is a mutating step (commit of an overlay or a batch, event-store write,
    setCurrentBlock, gas-table store, block execution/adding ...), none is a non-getter method of
    the LedgerStore interface, and the calls the hand-written entry-point models rely on are still
    in the lists. *)
Theorem c42_entry_points_call_only_benign :
  entries_present = true /\ entries_benign = true /\ no_interface_mutator = true /\ model_calls_covered = true.
Proof.
  split; [exact generated_entries_present|]. split; [exact generated_entries_benign|].
  split; [exact generated_no_interface_mutator|exact generated_model_calls_covered].
Qed.
Print Assumptions c42_entry_points_call_only_benign.

(** (8) Any trace over a benign alphabet — any order, any repetition (an over-approximation of the
    control flow the calls were collected from), any environment choice at each call: whichever
    program an engine call runs, whichever values are passed — is defined and preserves the ledger. *)
Theorem c42_benign_traces_preserve_ledger : forall alpha, all_benign alpha = true -> forall tr x,
  in_alphabet alpha tr = true ->
  exists x', exec_trace tr x = Some x' /\ se_ledger x' = se_ledger x.
Proof.
  intros alpha Ha tr x Hin. destruct (exec_trace_defined alpha Ha tr x Hin) as [x' E].
  exists x'. split; [exact E|exact (exec_trace_ledger alpha Ha tr x x' Hin E)].
Qed.
Print Assumptions c42_benign_traces_preserve_ledger.

(** (9) ... in particular every trace over the alphabet generated from the current source of any
    entry point. *)
Theorem c42_generated_alphabets_preserve_ledger : forall entry tr L,
  in_alphabet (reach_of entry) tr = true ->
  exists x', exec_trace tr (open_session L) = Some x' /\ se_ledger x' = L.
Proof.
  intros entry tr L Hin.
  exact (c42_benign_traces_preserve_ledger (reach_of entry) (reach_of_benign entry) tr (open_session L) Hin).
Qed.
Print Assumptions c42_generated_alphabets_preserve_ledger.

(** Non-vacuity: a ledger with persisted contract storage, an open (pending) event batch and a gas
    table; a transaction whose engine reads a persisted key, overwrites it, deletes another, lists
    the prefix, commits the cache into the overlay and reports what it saw. The pre-execution
    returns the engine's view (its own writes over the persisted state) and the ledger is
    untouched; a trace over the generated PreExecuteContract alphabet that runs the same engine
    twice is accepted and leaves the ledger alone as well. *)
Definition ex_ledger : ledger :=
  mkLedger (mkPStore [([5; 1], [10]); ([5; 2], [20]); ([5; 3], [30])] None)
           (mkPStore [([0; 9], [1])] None)
           (mkPStore [([7], [7])] (Some [WPut [8] [8]]))
           [1; 2; 3] 4 [9; 9]
           [("Deploy.Code.Gas"%string, 200000); ("Ontology.Contract.Create"%string, 20000000)]
           [[([5; 1], [77]); ([5; 6], [])]].

Definition ex_prog : prog evm_res :=
  POp (SGet 5 [1]) (fun o1 =>
  POp (SPut 5 [1] [11]) (fun _ =>
  POp (SDel 5 [2]) (fun _ =>
  POp (SIter 5 []) (fun o2 =>
  POp SCommit (fun _ =>
  PQuery QHeight (fun h =>
  PRet (mkEvmRes 0 (match o1, o2 with
                    | [ObsVal v], [ObsList l true] => List.app v (List.app (List.concat (map snd l)) h)
                    | _, _ => []
                    end) 1 [])))))))%N.

Example c42_nonvacuous :
  pre_execute_with_param ex_ledger (TxEip ex_prog) default_param =
    (Done (mkRes 1 0 [10; 11; 30; 4; 0; 0; 0] []), ex_ledger) /\
  pre_execute_with_param ex_ledger (TxDeploy DOk 2048) default_param =
    (Done (mkRes 1 20400000 [] []), ex_ledger) /\
  (exists x', exec_trace [("call:this.stateStore.NewOverlayDB"%string, ChNone);
                          ("call:engine.Invoke"%string, ChProg (POp (SPut 5 [1] [11]) (fun _ => POp SCommit (fun _ => PRet tt))));
                          ("call:engine.Invoke"%string, ChProg (POp (SDel 5 [3]) (fun _ => PRet tt)))]
                         (open_session ex_ledger) = Some x'
               /\ se_ledger x' = ex_ledger /\ se_overlay x' = [([5; 1], [11])] /\ se_cache x' = [([5; 3], [])]) /\
  in_alphabet (reach_of "PreExecuteContract"%string)
     [("call:this.stateStore.NewOverlayDB"%string, ChNone); ("call:engine.Invoke"%string, ChNone)] = true.
Proof.
  split; [vm_compute; reflexivity|]. split; [vm_compute; reflexivity|].
  split; [eexists; vm_compute; repeat split; reflexivity|vm_compute; reflexivity].
Qed.
